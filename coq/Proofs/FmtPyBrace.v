(* python-brace: the parser raises only its own errors (add_argument tests name.isdecimal() since the fix of D3,
   so int() only ever sees non-empty decimal text). *)
From Coq Require Import List NArith ZArith Bool Lia.
From I18n Require Import Lib.Outcome Model.FmtPyBrace.
Import ListNotations.
Local Open Scope N_scope.

Section Proofs.
Variable U : ucd.
Variable M : Z.

(* facts about the character tables (proved for the generated ones in Props/C13.v) *)
Record ucd_ok : Prop := {
  ok_maxd : u_maxd U = 0;                                                     (* the digit limit is lifted (D7 fixed) *)
  ok_ascii : forall c, is_ascii_digit c = true -> u_isdecimal U c = true;
  ok_d : forall c, u_d U c = true -> u_isdecimal U c = true;
  ok_val : forall c, u_isdecimal U c = true -> u_decval U c <> None }.

Hypothesis Hok : ucd_ok.

(* ---------------------------------------------------------------- lengths *)
Lemma span_app p s : fst (span p s) ++ snd (span p s) = s.
Proof.
  induction s as [|c r IH]; cbn [span]; [reflexivity|].
  destruct (p c); [|reflexivity]. destruct (span p r) as [a b]. cbn [fst snd app] in *. rewrite IH. reflexivity.
Qed.

Lemma span_len p s : (length (snd (span p s)) <= length s)%nat.
Proof. rewrite <- (span_app p s) at 2. rewrite app_length. lia. Qed.

Lemma span_forall p s : forallb p (fst (span p s)) = true.
Proof.
  induction s as [|c r IH]; cbn [span]; [reflexivity|].
  destruct (p c) eqn:E; [|reflexivity]. destruct (span p r) as [a b]. cbn [fst forallb] in *. rewrite E, IH. reflexivity.
Qed.

Lemma m_ident_len s id r : m_ident U s = Some (id, r) -> (length r < length s)%nat.
Proof.
  unfold m_ident. destruct s as [|c t]; [discriminate|]. destruct (ident_start U c); [|discriminate].
  pose proof (span_len (u_w U) t). destruct (span (u_w U) t) as [w r']. intros H'; inversion H'; subst. cbn [snd length] in *. lia.
Qed.

Lemma m_name_tail_len fuel : forall s, (length (snd (m_name_tail U fuel s)) <= length s)%nat.
Proof.
  induction fuel as [|fuel IH]; intros s; cbn [m_name_tail]; [cbn; lia|].
  destruct s as [|c r]; [cbn; lia|].
  destruct (c =? 46).
  - destruct (m_ident U r) as [[id r']|] eqn:Ei; [|cbn; lia].
    apply m_ident_len in Ei. specialize (IH r'). destruct (m_name_tail U fuel r') as [t r'']. cbn [snd length] in *. lia.
  - destruct (c =? 91); [|cbn; lia].
    pose proof (span_len (fun x => negb (x =? 93)) r) as Hs.
    destruct (span (fun x => negb (x =? 93)) r) as [ix r']. cbn [snd] in Hs.
    destruct ix as [|i0 ix]; [cbn; lia|]. destruct r' as [|c' r'']; [cbn; lia|].
    specialize (IH r''). destruct (m_name_tail U fuel r'') as [t r3]. cbn [snd length] in *. lia.
Qed.

Lemma m_field_name_len s n r : m_field_name U s = Some (n, r) -> (length r <= length s)%nat.
Proof.
  unfold m_field_name. destruct s as [|c t]; [discriminate|].
  destruct (u_d U c).
  - pose proof (span_len (u_d U) (c :: t)) as Hs. destruct (span (u_d U) (c :: t)) as [ds r0]. cbn [snd] in Hs.
    pose proof (m_name_tail_len (length r0) r0) as Ht. destruct (m_name_tail U (length r0) r0) as [tl r']. cbn [snd] in Ht.
    intros H; inversion H; subst. lia.
  - destruct (m_ident U (c :: t)) as [[id r0]|] eqn:Ei; [|discriminate]. apply m_ident_len in Ei.
    pose proof (m_name_tail_len (length r0) r0) as Ht. destruct (m_name_tail U (length r0) r0) as [tl r']. cbn [snd] in Ht.
    intros H; inversion H; subst. lia.
Qed.

Lemma m_simple_field_len s nm r : m_simple_field U s = Some (nm, r) -> (length r < length s)%nat.
Proof.
  unfold m_simple_field. destruct s as [|c t]; [discriminate|]. destruct (c =? 123); [|discriminate].
  destruct (m_field_name U t) as [[n r']|] eqn:En.
  - apply m_field_name_len in En. destruct r' as [|c1 r2]; [discriminate|]. destruct (c1 =? 125); [|discriminate].
    intros H; inversion H; subst. cbn [length] in *. lia.
  - destruct t as [|c1 r2]; [discriminate|]. destruct (c1 =? 125); [|discriminate].
    intros H; inversion H; subst. cbn [length]. lia.
Qed.

Lemma m_format_body_len fuel : forall s t ns r, m_format_body U fuel s = Some (t, ns, r) -> (length r <= length s)%nat.
Proof.
  induction fuel as [|fuel IH]; intros s t ns r; cbn [m_format_body]; [discriminate|].
  pose proof (span_len not_brace s) as Hs. destruct (span not_brace s) as [run r0]. cbn [snd] in Hs.
  destruct r0 as [|c r1]; [intros H; inversion H; subst; cbn; lia|].
  destruct (c =? 123); [|intros H; inversion H; subst; exact Hs].
  destruct (m_simple_field U (c :: r1)) as [[nm r']|] eqn:Es; [|discriminate]. apply m_simple_field_len in Es.
  destruct (m_format_body U fuel r') as [[[t' ns'] r'']|] eqn:Eb; [|discriminate]. apply IH in Eb.
  intros H; inversion H; subst. lia.
Qed.

Lemma m_literal_app_n n : forall s, (length s <= n)%nat -> fst (m_literal s) ++ snd (m_literal s) = s.
Proof.
  induction n as [|n IH]; intros s Hl.
  - destruct s; [reflexivity|cbn in Hl; lia].
  - destruct s as [|c r]; [reflexivity|]. cbn [m_literal length] in *.
    destruct (not_brace c).
    + specialize (IH r ltac:(lia)). destruct (m_literal r) as [a b]. cbn [fst snd app] in *. rewrite IH. reflexivity.
    + destruct r as [|c' r']; [reflexivity|]. destruct (N.eqb_spec c' c) as [->|]; [|reflexivity].
      cbn [length] in Hl. specialize (IH r' ltac:(lia)). destruct (m_literal r') as [a b]. cbn [fst snd app] in *. rewrite IH. reflexivity.
Qed.
Lemma m_literal_app s : fst (m_literal s) ++ snd (m_literal s) = s.
Proof. apply (m_literal_app_n (length s)). lia. Qed.

(* what a match of the field alternative looks like *)
Lemma m_field_shape s f r : m_field U s = Some (f, r) ->
  (length r < length s)%nat /\ (forall fm, f_fmt f = Some fm -> exists t, fm = 58 :: t).
Proof.
  unfold m_field. destruct s as [|c t]; [discriminate|]. destruct (c =? 123); [|discriminate].
  assert (H1 : (length (snd (match m_field_name U t with Some (n, r') => (Some n, r') | None => (None, t) end)) <= length t)%nat).
  { destruct (m_field_name U t) as [[n r']|] eqn:En; cbn [snd]; [eapply m_field_name_len; exact En|lia]. }
  destruct (match m_field_name U t with Some (n, r') => (Some n, r') | None => (None, t) end) as [nm r1]. cbn [snd] in H1.
  (* conversion *)
  set (cvr := match r1 with
              | c1 :: r1' => if c1 =? 33 then match span (u_w U) r1' with ((_ :: _) as w, r') => (Some (c1 :: w), r') | _ => (None, r1) end else (None, r1)
              | [] => (None, r1) end).
  assert (H2 : (length (snd cvr) <= length r1)%nat).
  { unfold cvr. destruct r1 as [|c1 r1']; [cbn; lia|]. destruct (c1 =? 33); [|cbn; lia].
    pose proof (span_len (u_w U) r1') as Hs. destruct (span (u_w U) r1') as [[|w0 w] r']; cbn [snd length] in *; lia. }
  destruct cvr as [cv r2]. cbn [snd] in H2.
  set (fmr := match r2 with
              | c2 :: r2' => if c2 =? 58 then match m_format_body U (S (length r2')) r2' with Some (t0, ns, r') => (Some (c2 :: t0), ns, r') | None => (None, [], r2) end else (None, [], r2)
              | [] => (None, [], r2) end).
  assert (H3 : (length (snd fmr) <= length r2)%nat /\ (forall fm, fst (fst fmr) = Some fm -> exists t0, fm = 58 :: t0)).
  { unfold fmr. destruct r2 as [|c2 r2']; [cbn; split; [lia|discriminate]|].
    destruct (N.eqb_spec c2 58) as [->|]; [|cbn; split; [lia|discriminate]].
    destruct (m_format_body U (S (length r2')) r2') as [[[t0 ns] r']|] eqn:Eb; [|cbn; split; [lia|discriminate]].
    apply m_format_body_len in Eb. cbn [fst snd length]. split; [lia|]. intros fm Hf; inversion Hf; subst. eauto. }
  destruct fmr as [[fm ns] r3]. cbn [fst snd] in H3. destruct H3 as [H3 H4].
  destruct r3 as [|c3 r4]; [discriminate|]. destruct (c3 =? 125); [|discriminate].
  intros H; inversion H; subst. cbn [f_fmt length] in *. split; [lia|exact H4].
Qed.

Lemma m_field_re_some s it r : m_field_re U s = Some (it, r) -> (length r < length s)%nat /\
  match it with BLit _ => True | BField f => forall fm, f_fmt f = Some fm -> exists t, fm = 58 :: t end.
Proof.
  unfold m_field_re. pose proof (m_literal_app s) as Hl. destruct (m_literal s) as [[|t0 t] r0]; cbn [fst snd] in Hl.
  - destruct (m_field U s) as [[f r']|] eqn:Ef; [|discriminate]. apply m_field_shape in Ef.
    intros H; inversion H; subst. exact Ef.
  - intros H; inversion H; subst. split; [|exact I]. rewrite app_length. cbn [length]. lia.
Qed.

(* a failed attempt happens only at a brace, a printable character *)
Lemma m_field_re_none c r : m_field_re U (c :: r) = None -> c = 123 \/ c = 125.
Proof.
  unfold m_field_re. cbn [m_literal]. unfold not_brace.
  destruct (N.eqb_spec c 123); [auto|]. destruct (N.eqb_spec c 125); [auto|].
  cbn [orb negb]. destruct (m_literal r). discriminate.
Qed.

(* ---------------------------------------------------------------- int() *)
Lemma dec_value_total s : forall acc, forallb (u_isdecimal U) s = true -> dec_value U s acc <> None.
Proof.
  induction s as [|c r IH]; intros acc; cbn [forallb dec_value]; [discriminate|].
  rewrite andb_true_iff. intros [Hc Hr]. pose proof (ok_val Hok c Hc) as Hv.
  destruct (u_decval U c); [apply IH; exact Hr|congruence].
Qed.

Lemma py_int_no_crash {E} s c : s <> [] -> forallb (u_isdecimal U) s = true -> @py_int U E s <> Crash c.
Proof.
  intros Hne Hd. unfold py_int, max_digits_ok. rewrite (ok_maxd Hok). cbn [N.eqb orb negb].
  destruct s as [|x r]; [congruence|]. rewrite Hd.
  pose proof (dec_value_total (x :: r) 0%Z Hd) as Hv. destruct (dec_value U (x :: r) 0); [discriminate|congruence].
Qed.

Lemma forallb_impl {A} (p q : A -> bool) l : (forall x, p x = true -> q x = true) -> forallb p l = true -> forallb q l = true.
Proof. intros H. induction l as [|x r IH]; cbn [forallb]; [auto|]. rewrite !andb_true_iff. intros [H1 H2]. auto. Qed.

(* ---------------------------------------------------------------- add_argument, Field.__init__ *)
Lemma add_argument_no_crash st name c : add_argument U M st name <> Crash c.
Proof.
  unfold add_argument. destruct name as [nm|].
  - destruct nm as [|x r]; [discriminate|].
    destruct (forallb (u_isdecimal U) (x :: r)) eqn:Ed; [|discriminate].
    pose proof (@py_int_no_crash add_exc (x :: r)) as Hp.
    destruct (py_int U (x :: r)) as [n| |c'] eqn:Ep; cbn [obind].
    + destruct (n >? M)%Z; [discriminate|]. destruct (b_next st) as [i|]; [destruct (i =? 0)%Z|]; discriminate.
    + discriminate.
    + exfalso. apply (Hp c'); [discriminate|exact Ed|reflexivity].
  - destruct (b_next st) as [n|]; [destruct (n >? M)%Z|]; discriminate.
Qed.

Lemma lift_add_no_crash {A} (x : outcome A add_exc) c : (forall c', x <> Crash c') -> lift_add x <> Crash c.
Proof. destruct x as [a|[|]|c']; cbn; intros H; try discriminate. exfalso. exact (H c' eq_refl). Qed.

Lemma add_nested_no_crash ns : forall st c, add_nested U M st ns <> Crash c.
Proof.
  induction ns as [|n r IH]; intros st c; cbn [add_nested]; [discriminate|].
  pose proof (@lift_add_no_crash _ (add_argument U M st n)) as Hl.
  destruct (lift_add (add_argument U M st n)) as [[k st']| |c'] eqn:El; cbn [obind]; [apply IH|discriminate|].
  exfalso. apply (Hl c'); [intros c''; apply add_argument_no_crash|reflexivity].
Qed.

Lemma opt_char_len p s : (length (snd (opt_char p s)) <= length s)%nat.
Proof. unfold opt_char. destruct s as [|c r]; [cbn; lia|]. destruct (p c); cbn [snd length]; lia. Qed.

(* the digit groups of _format_spec_re are non-empty runs of ASCII digits / of \d characters *)
Lemma m_format_spec_groups s m : m_format_spec U s = Some m ->
  (forall w, sp_width m = Some w -> w <> [] /\ forallb is_ascii_digit w = true) /\
  (forall p, sp_prec m = Some p -> p <> [] /\ forallb (u_d U) p = true).
Proof.
  unfold m_format_spec.
  destruct (match s with
            | c0 :: c1 :: r => if is_align c1 && negb (c0 =? 125) then (Some c0, Some c1, r) else if is_align c0 then (None, Some c0, c1 :: r) else (None, None, s)
            | [c0] => if is_align c0 then (None, Some c0, []) else (None, None, s)
            | [] => (None, None, s) end) as [[fill align] s1].
  destruct (opt_char is_sign s1) as [sign s2]. destruct (opt_char (N.eqb 35) s2) as [alt s3].
  destruct (opt_char (N.eqb 48) s3) as [zero s4].
  pose proof (span_forall is_ascii_digit s4) as Hw.
  destruct (span is_ascii_digit s4) as [[|w0 w] r5] eqn:E5; cbn [fst] in Hw.
  - destruct (opt_char (N.eqb 44) s4) as [comma s6].
    set (pr := match s6 with
               | c :: r => if c =? 46 then match span (u_d U) r with ((_ :: _) as p, r') => (Some p, r') | _ => (None, s6) end else (None, s6)
               | [] => (None, s6) end).
    assert (Hp : forall p, fst pr = Some p -> p <> [] /\ forallb (u_d U) p = true).
    { unfold pr. destruct s6 as [|c r]; [cbn; discriminate|]. destruct (c =? 46); [|cbn; discriminate].
      pose proof (span_forall (u_d U) r) as Hd. destruct (span (u_d U) r) as [[|p0 p] r']; cbn [fst] in *; [discriminate|].
      intros q Hq; inversion Hq; subst. split; [discriminate|exact Hd]. }
    destruct pr as [prec s7]. cbn [fst] in Hp.
    destruct (opt_char (fun c => u_w U c || (c =? 37)) s7) as [ty s8]. destruct s8; [|discriminate].
    intros H; inversion H; subst; cbn [sp_width sp_prec]. split; [discriminate|exact Hp].
  - destruct (opt_char (N.eqb 44) r5) as [comma s6].
    set (pr := match s6 with
               | c :: r => if c =? 46 then match span (u_d U) r with ((_ :: _) as p, r') => (Some p, r') | _ => (None, s6) end else (None, s6)
               | [] => (None, s6) end).
    assert (Hp : forall p, fst pr = Some p -> p <> [] /\ forallb (u_d U) p = true).
    { unfold pr. destruct s6 as [|c r]; [cbn; discriminate|]. destruct (c =? 46); [|cbn; discriminate].
      pose proof (span_forall (u_d U) r) as Hd. destruct (span (u_d U) r) as [[|p0 p] r']; cbn [fst] in *; [discriminate|].
      intros q Hq; inversion Hq; subst. split; [discriminate|exact Hd]. }
    destruct pr as [prec s7]. cbn [fst] in Hp.
    destruct (opt_char (fun c => u_w U c || (c =? 37)) s7) as [ty s8]. destruct s8; [|discriminate].
    intros H; inversion H; subst; cbn [sp_width sp_prec]. split; [|exact Hp].
    intros w' Hw'; inversion Hw'; subst. split; [discriminate|exact Hw].
Qed.

Lemma spec_types_no_crash ftext tl c : spec_types U M ftext tl <> Crash c.
Proof.
  unfold spec_types. destruct (m_format_spec U tl) as [m|] eqn:Em; [|discriminate].
  apply m_format_spec_groups in Em. destruct Em as [Hw Hp].
  destruct (match sp_type m with
            | None => Ok t_all
            | Some ft => if ft =? 115 then Ok {| t_str := true; t_int := false; t_float := false |}
                         else if in_chars ft [98; 99; 100; 111; 120; 88] then Ok {| t_str := false; t_int := true; t_float := false |}
                         else if in_chars ft [101; 69; 102; 70; 103; 71; 37] then Ok {| t_str := false; t_int := false; t_float := true |}
                         else if ft =? 110 then (if sp_comma m then Err BFormatError else Ok t_num)
                         else Err (BFieldError ftext) end) as [tp| |c'] eqn:E1; cbn [obind]; [|discriminate|].
  2:{ destruct (sp_type m) as [ft|]; [|discriminate].
      destruct (ft =? 115); [discriminate|]. destruct (in_chars ft [98; 99; 100; 111; 120; 88]); [discriminate|].
      destruct (in_chars ft [101; 69; 102; 70; 103; 71; 37]); [discriminate|]. destruct (ft =? 110); [destruct (sp_comma m)|]; discriminate. }
  destruct (if sp_alt m || is_some (sp_sign m) || sp_comma m then let t := t_and tp t_num in if t_empty t then Err BFormatError else Ok t else Ok tp)
    as [tp2| |c'] eqn:E2; cbn [obind]; [|discriminate|].
  2:{ destruct (sp_alt m || is_some (sp_sign m) || sp_comma m); [cbn in E2; destruct (t_empty (t_and tp t_num))|]; discriminate. }
  destruct (match match sp_align m with None => if sp_zero m then Some 61 else None | a => a end with
            | Some a => if a =? 61 then let t := t_and tp2 t_num in if t_empty t then Err BFormatError else Ok t else Ok tp2
            | None => Ok tp2 end) as [tp3| |c'] eqn:E3; cbn [obind]; [|discriminate|].
  2:{ destruct (match sp_align m with None => if sp_zero m then Some 61 else None | a => a end) as [a|]; [|discriminate].
      destruct (a =? 61); [cbn in E3; destruct (t_empty (t_and tp2 t_num))|]; discriminate. }
  assert (Hwidth : forall c', (match sp_width m with
             | Some w => do v <- py_int U w; if (v >? M)%Z then Err BFormatError else Ok tt
             | None => Ok tt end) <> (Crash c' : outcome unit pb_err)).
  { intros c'. destruct (sp_width m) as [w|]; [|discriminate]. destruct (Hw w eq_refl) as [Hne Hd].
    pose proof (@py_int_no_crash pb_err w) as Hpi.
    destruct (py_int U w) as [v| |c''] eqn:Ep; cbn [obind]; [destruct (v >? M)%Z; discriminate|discriminate|].
    exfalso. apply (Hpi c''); [exact Hne|eapply forallb_impl; [exact (ok_ascii Hok)|exact Hd]|reflexivity]. }
  destruct (match sp_width m with
            | Some w => do v <- py_int U w; if (v >? M)%Z then Err BFormatError else Ok tt
            | None => Ok tt end) as [u| |c'] eqn:E4; cbn [obind]; [|discriminate|exfalso; exact (Hwidth c' eq_refl)].
  destruct (sp_prec m) as [p|]; [|discriminate]. destruct (Hp p eq_refl) as [Hne Hd].
  destruct (t_empty (t_and tp3 {| t_str := true; t_int := false; t_float := true |})); [discriminate|].
  pose proof (@py_int_no_crash pb_err p) as Hpi.
  destruct (py_int U p) as [v| |c''] eqn:Ep; cbn [obind]; [destruct (v >? M)%Z; discriminate|discriminate|].
  exfalso. apply (Hpi c''); [exact Hne|eapply forallb_impl; [exact (ok_d Hok)|exact Hd]|reflexivity].
Qed.

Lemma conv_check_no_crash cv tp c : conv_check cv tp <> Crash c.
Proof.
  unfold conv_check. destruct cv as [x|]; [|discriminate].
  destruct (list_eqb x s_conv_s || list_eqb x s_conv_r || list_eqb x s_conv_a); [destruct (t_str tp)|]; discriminate.
Qed.

Lemma field_init_no_crash st f c : (forall fm, f_fmt f = Some fm -> exists t, fm = 58 :: t) -> field_init U M st f <> Crash c.
Proof.
  intros Hfmt. unfold field_init.
  pose proof (@lift_add_no_crash _ (add_argument U M st (f_name f))) as Hl.
  destruct (lift_add (add_argument U M st (f_name f))) as [[key st1]| |c'] eqn:El; cbn [obind]; [|discriminate|].
  2:{ exfalso. apply (Hl c'); [intros c''; apply add_argument_no_crash|reflexivity]. }
  destruct (f_fmt f) as [fmt|].
  - destruct (Hfmt fmt eq_refl) as [t ->].
    destruct (existsb (N.eqb 123) (58 :: t)).
    + pose proof (add_nested_no_crash (f_nested f) (file_field st1 key (FField t_all))) as Hn.
      destruct (add_nested U M (file_field st1 key (FField t_all)) (f_nested f)) as [st2| |c']; cbn [obind]; [|discriminate|exfalso; exact (Hn c' eq_refl)].
      pose proof (conv_check_no_crash (f_conv f) t_all) as Hc. destruct (conv_check (f_conv f) t_all) as [u| |c']; cbn [obind]; try discriminate.
      exfalso; exact (Hc c' eq_refl).
    + cbn [N.eqb Pos.eqb].
      pose proof (spec_types_no_crash (f_text f) t) as Hs.
      destruct (spec_types U M (f_text f) t) as [tp| |c']; cbn [obind]; [|discriminate|exfalso; exact (Hs c' eq_refl)].
      pose proof (conv_check_no_crash (f_conv f) tp) as Hc. destruct (conv_check (f_conv f) tp) as [u| |c']; cbn [obind]; try discriminate.
      exfalso; exact (Hc c' eq_refl).
  - pose proof (conv_check_no_crash (f_conv f) t_all) as Hc. destruct (conv_check (f_conv f) t_all) as [u| |c']; cbn [obind]; try discriminate.
    exfalso; exact (Hc c' eq_refl).
Qed.

Lemma bloop_no_crash fuel : forall s st c, (length s < fuel)%nat -> bloop U M fuel s st <> Crash c.
Proof.
  induction fuel as [|fuel IH]; intros s st c Hl; [lia|]. cbn [bloop].
  destruct s as [|x r]; [discriminate|].
  destruct (m_field_re U (x :: r)) as [[it rest]|] eqn:Em.
  - apply m_field_re_some in Em. destruct Em as [Hlen Hfm]. destruct it as [t|f].
    + apply IH. lia.
    + pose proof (field_init_no_crash st f) as Hf.
      destruct (field_init U M st f) as [st'| |c']; cbn [obind]; [apply IH; lia|discriminate|].
      exfalso. exact (Hf c' Hfm eq_refl).
  - apply m_field_re_none in Em. unfold printable_prefix. cbn [span].
    destruct Em as [-> | ->]; cbn [is_printable_ascii N.leb N.compare Pos.compare Pos.compare_cont andb];
      destruct (span is_printable_ascii r); cbn [fst]; discriminate.
Qed.

Theorem pybrace_own_errors s c : pybrace_parse U M s <> Crash c.
Proof.
  unfold pybrace_parse. pose proof (bloop_no_crash (S (length s)) s b0) as Hb.
  destruct (bloop U M (S (length s)) s b0) as [st| |c']; cbn [obind].
  - destruct (existsb (fun kv => t_empty (common_types (snd kv))) (b_map st)); discriminate.
  - discriminate.
  - exfalso. apply (Hb c'); [lia|reflexivity].
Qed.

End Proofs.

(* unusual-character-in-translation: the "first seen" bookkeeping across strings and entries.
   Completeness, exactness of every reported set, uniqueness. *)
From Coq Require Import List NArith ZArith Bool Lia ZifyBool ZifyN Sorted.
From I18n Require Import Lib.Outcome Model.Messages Spec.Messages Proofs.MessagesLib Proofs.MessagesFlags Proofs.Messages
  Proofs.MessagesScan.
Import ListNotations.
Local Open Scope N_scope.

Definition nlt (a b : N) : Prop := N.compare a b = Lt.

Lemma sorted_ext : forall l1 l2, StronglySorted nlt l1 -> StronglySorted nlt l2 ->
  (forall c, In c l1 <-> In c l2) -> l1 = l2.
Proof.
  induction l1 as [|a l1 IH]; intros l2 S1 S2 H.
  - destruct l2 as [|b l2]; auto. exfalso. apply (H b). left; auto.
  - destruct l2 as [|b l2]; [exfalso; apply (H a); left; auto|].
    inversion S1 as [|? ? S1' F1]; subst. inversion S2 as [|? ? S2' F2]; subst.
    rewrite Forall_forall in F1, F2. unfold nlt in *.
    assert (E : a = b).
    { destruct (proj1 (H a) (or_introl eq_refl)) as [E|E]; auto.
      destruct (proj2 (H b) (or_introl eq_refl)) as [E'|E']; auto.
      apply F2 in E. apply F1 in E'. rewrite N.compare_lt_iff in *. lia. }
    subst b. f_equal. apply IH; auto. intros c. split; intros Hc.
    + destruct (proj1 (H c) (or_intror Hc)) as [E|E]; auto. subst c. apply F1 in Hc. rewrite N.compare_lt_iff in Hc. lia.
    + destruct (proj2 (H c) (or_intror Hc)) as [E|E]; auto. subst c. apply F2 in Hc. rewrite N.compare_lt_iff in Hc. lia.
Qed.

Definition mentions (c : N) (d : mdiag) : bool := match d with MUnusual cs => memN c cs | _ => false end.
Definition cmentions (c : N) (d : cdiag) : bool := match d with AtMsg _ d => mentions c d | EmptyFile => false end.

Lemma filter_none {A} (f : A -> bool) l : (forall x, In x l -> f x = false) -> filter f l = [].
Proof. induction l as [|a l IH]; cbn; intros H; auto. rewrite (H a (or_introl eq_refl)). apply IH. intros; apply H; right; auto. Qed.

Lemma In_dec_N (c : N) l : In c l \/ ~ In c l.
Proof. destruct (in_dec N.eq_dec c l); auto. Qed.

(* ------------------------------------------------------------------ *)
(* the loop over the strings of one entry                               *)

Section Loop.
  Variables (cfg : config) (m : list N).
  Let fu := find_unusual (c_isword cfg).
  Definition uxm (s : list N) (c : N) : Prop := In c (fu s) /\ ~ In c m.

  Let uc_of (found : list N) (s : list N) : list N :=
    sort_dedup N.compare (filter (fun c => negb (memN c m) && negb (memN c found)) (fu s)).

  Lemma uc_of_In found s c : In c (uc_of found s) <-> uxm s c /\ ~ In c found.
  Proof.
    unfold uc_of, uxm. rewrite (N_sort_In _ c), filter_In, andb_true_iff, !negb_true_iff. split.
    - intros [H1 [H2 H3]]. repeat split; auto; intros HH; apply memN_In in HH; congruence.
    - intros [[H1 H2] H3]. repeat split; auto.
      + destruct (memN c m) eqn:E; auto. apply memN_In in E. tauto.
      + destruct (memN c found) eqn:E; auto. apply memN_In in E. tauto.
  Qed.
  Lemma uc_of_sorted found s : StronglySorted nlt (uc_of found s).
  Proof. unfold uc_of. apply N_sort_sorted. Qed.

  Lemma loop_step found s strs :
    unusual_loop cfg m found (s :: strs) =
    if is_nil (uc_of found s) then unusual_loop cfg m found strs else
    if negb (forallb (name_ok (c_ctlnames cfg)) (uc_of found s)) then Crash CValueError else
    do x <- unusual_loop cfg m (found ++ uc_of found s) strs; Ok (MUnusual (uc_of found s) :: fst x, snd x).
  Proof. reflexivity. Qed.

  (* every case of one step: the tail runs with found1, In c found1 <-> In c found \/ In c uc *)
  Lemma loop_cons found s strs ud found' : unusual_loop cfg m found (s :: strs) = Ok (ud, found') ->
    exists found1 ud2, unusual_loop cfg m found1 strs = Ok (ud2, found')
      /\ (forall c, In c found1 <-> In c found \/ In c (uc_of found s))
      /\ ud = (if is_nil (uc_of found s) then [] else [MUnusual (uc_of found s)]) ++ ud2.
  Proof.
    rewrite loop_step. destruct (is_nil (uc_of found s)) eqn:E.
    - intros H. exists found, ud. split; auto. split; auto. apply is_nil_true in E. rewrite E. cbn. tauto.
    - destruct (negb _); [discriminate|]. intros H. apply obind_ok in H. destruct H as [[ud2 f2] [H1 H2]].
      inversion H2; subst. exists (found ++ uc_of found s), ud2. split; auto. split; auto. intros c. apply in_app_iff.
  Qed.

  Lemma loop_found : forall strs found ud found', unusual_loop cfg m found strs = Ok (ud, found') ->
    forall c, In c found' <-> In c found \/ exists s, In s strs /\ uxm s c.
  Proof.
    induction strs as [|s strs IH]; intros found ud found' H c.
    - cbn in H. inversion H; subst. split; [auto|]. intros [?|[s [[] _]]]; auto.
    - destruct (loop_cons _ _ _ _ _ H) as [found1 [ud2 [H1 [H2 _]]]].
      rewrite (IH _ _ _ H1 c), H2, uc_of_In. split.
      + intros [[A|[A _]]|[s' [A B]]]; auto; right; [exists s|exists s']; cbn; auto.
      + intros [A|[s' [[<-|A] B]]]; auto; [|right; eauto].
        destruct (In_dec_N c found); auto.
  Qed.

  (* which characters are reported *)
  Lemma loop_chars : forall strs found ud found', unusual_loop cfg m found strs = Ok (ud, found') ->
    forall c, (exists cs, In (MUnusual cs) ud /\ In c cs) <-> ~ In c found /\ exists s, In s strs /\ uxm s c.
  Proof.
    induction strs as [|s strs IH]; intros found ud found' H c.
    - cbn in H. inversion H; subst. split; [intros [cs [[] _]]|intros [_ [s [[] _]]]].
    - destruct (loop_cons _ _ _ _ _ H) as [found1 [ud2 [H1 [H2 ->]]]].
      specialize (IH _ _ _ H1 c). split.
      + intros [cs [Hin Hc]]. apply in_app_or in Hin. destruct Hin as [Hin|Hin].
        * destruct (is_nil (uc_of found s)); [contradiction|]. destruct Hin as [Hin|[]]. inversion Hin; subst.
          apply uc_of_In in Hc. destruct Hc as [A B]. split; auto. exists s. cbn; auto.
        * destruct (proj1 IH (ex_intro _ cs (conj Hin Hc))) as [A [s' [B C]]]. rewrite H2 in A.
          split; [tauto|]. exists s'. cbn; auto.
      + intros [A [s' [[<-|B] C]]].
        * exists (uc_of found s). assert (Hc : In c (uc_of found s)) by (apply uc_of_In; auto). split; auto.
          apply in_or_app. left. destruct (uc_of found s); [contradiction|]. left. reflexivity.
        * destruct (In_dec_N c (uc_of found s)) as [D|D].
          -- exists (uc_of found s). split; auto. apply in_or_app. left. destruct (uc_of found s); [contradiction|]. left. reflexivity.
          -- assert (A1 : ~ In c found1) by (rewrite H2; tauto).
             destruct (proj2 IH (conj A1 (ex_intro _ s' (conj B C)))) as [cs [E F]].
             exists cs. split; auto. apply in_or_app. auto.
  Qed.

  (* every event is exactly the set of characters first seen in its string *)
  Lemma loop_events : forall strs found ud found', unusual_loop cfg m found strs = Ok (ud, found') ->
    forall cs, In (MUnusual cs) ud <->
      exists pre s post, strs = pre ++ s :: post /\ cs <> [] /\ StronglySorted nlt cs
        /\ forall c, In c cs <-> uxm s c /\ ~ In c found /\ ~ (exists s', In s' pre /\ uxm s' c).
  Proof.
    induction strs as [|s strs IH]; intros found ud found' H cs.
    - cbn in H. inversion H; subst. split; [intros []|]. intros [pre [s [post [E _]]]]. destruct pre; discriminate.
    - destruct (loop_cons _ _ _ _ _ H) as [found1 [ud2 [H1 [H2 ->]]]].
      specialize (IH _ _ _ H1 cs). rewrite in_app_iff. split.
      + intros [Hin|Hin].
        * destruct (is_nil (uc_of found s)) eqn:E; [contradiction|]. destruct Hin as [Hin|[]]. inversion Hin; subst.
          exists [], s, strs. split; auto. split; [apply is_nil_false; auto|]. split; [apply uc_of_sorted|].
          intros c. rewrite uc_of_In. split; [intros [A B]; split; [exact A|]; split; [exact B|]; intros [s' [[] _]]|tauto].
        * destruct (proj1 IH Hin) as [pre [s0 [post [E [A [B C]]]]]]. exists (s :: pre), s0, post.
          split; [rewrite E; reflexivity|]. split; auto. split; auto.
          intros c. rewrite (C c), H2, uc_of_In. split.
          -- intros [X [Y Z]]. split; auto. split; [tauto|]. intros [s' [[<-|W] V]]; [tauto|]. apply Z. eauto.
          -- intros [X [Y Z]]. split; auto. split.
             ++ intros [W|[W _]]; [tauto|]. apply Z. exists s. cbn; auto.
             ++ intros [s' [W V]]. apply Z. exists s'. cbn; auto.
      + intros [pre [s0 [post [E [A [B C]]]]]]. destruct pre as [|p pre]; cbn in E; inversion E; subst.
        * left. assert (Eq : cs = uc_of found s0).
          { apply sorted_ext; auto; [apply uc_of_sorted|]. intros c. rewrite (C c), uc_of_In. split; [tauto|].
            intros [X Y]. split; [exact X|]. split; [exact Y|]. intros [s' [[] _]]. }
          subst cs. apply is_nil_false in A. rewrite A. left. reflexivity.
        * right. apply (proj2 IH). exists pre, s0, post. split; auto. split; auto. split; auto.
          intros c. rewrite (C c), H2, uc_of_In. split.
          -- intros [X [Y Z]]. split; auto. split.
             ++ intros [W|[W _]]; [tauto|]. apply Z. exists p. cbn; auto.
             ++ intros [s' [W V]]. apply Z. exists s'. cbn; auto.
          -- intros [X [Y Z]]. split; auto. split; [tauto|]. intros [s' [[<-|W] V]]; [tauto|]. apply Z. eauto.
  Qed.

  (* each character is mentioned at most once, and not at all if it was seen before *)
  Lemma loop_once : forall strs found ud found', unusual_loop cfg m found strs = Ok (ud, found') ->
    forall c, (length (filter (mentions c) ud) <= 1)%nat /\ (In c found -> filter (mentions c) ud = []).
  Proof.
    induction strs as [|s strs IH]; intros found ud found' H c.
    - cbn in H. inversion H; subst. cbn. split; auto.
    - destruct (loop_cons _ _ _ _ _ H) as [found1 [ud2 [H1 [H2 ->]]]].
      destruct (IH _ _ _ H1 c) as [I1 I2]. rewrite filter_app, app_length.
      destruct (is_nil (uc_of found s)) eqn:E; cbn [filter length app].
      + split; [lia|]. intros Hc. apply I2. apply H2. auto.
      + cbn [mentions]. destruct (memN c (uc_of found s)) eqn:Em; cbn [length app].
        * apply memN_In in Em. rewrite I2 by (apply H2; auto). cbn. split; [lia|].
          intros Hc. apply uc_of_In in Em. tauto.
        * split; [lia|]. intros Hc. apply I2. apply H2. auto.
  Qed.
End Loop.

(* ------------------------------------------------------------------ *)
(* one entry                                                            *)

Definition muc (cfg : config) (e : msg_entry) : list N :=
  find_unusual (c_isword cfg) (me_msgid e)
  ++ find_unusual (c_isword cfg) (match me_plural e with Some p => p | None => [] end).
Definition uxe (cfg : config) (e : msg_entry) (s : list N) (c : N) : Prop := uxm cfg (muc cfg e) s c.
Definition ux_entry (cfg : config) (e : msg_entry) (c : N) : Prop := exists s, In s (tr_strings e) /\ uxe cfg e s c.

Definition no_unusual (l : list mdiag) : Prop := forall d, In d l -> forall cs, d <> MUnusual cs.
Lemma no_unusual_app a b : no_unusual a -> no_unusual b -> no_unusual (a ++ b).
Proof. intros A B d Hd. apply in_app_or in Hd. destruct Hd; auto. Qed.
Lemma no_unusual_if (c : bool) (d : mdiag) : (forall cs, d <> MUnusual cs) -> no_unusual (if c then [d] else []).
Proof. intros H x Hx. destruct c; [|contradiction]. destruct Hx as [<-|[]]. exact H. Qed.
Lemma no_unusual_mentions c l : no_unusual l -> filter (mentions c) l = [].
Proof. intros H. apply filter_none. intros d Hd. destruct d; auto. exfalso. eapply H; eauto. Qed.

Lemma check_entry_unusual cfg seen found e ds found' : check_entry cfg seen found e = Ok (ds, found') ->
  exists A B ud, ds = A ++ ud ++ B /\ no_unusual A /\ no_unusual B
    /\ (if c_encoding cfg then unusual_loop cfg (muc cfg e) found (tr_strings e) else Ok ([], found)) = Ok (ud, found').
Proof.
  intros H. destruct (check_entry_inv _ _ _ _ _ _ H) as [fd [info [xd [ud [Hf [Hx [Hu Hds]]]]]]]. cbn zeta in Hds.
  match type of Hds with ds = fd ++ ?d ++ xd ++ ?a ++ ?b ++ ?c ++ ?l ++ ?t ++ ud ++ ?m ++ ?p =>
    exists (fd ++ d ++ xd ++ a ++ b ++ c ++ l ++ t), (m ++ p), ud end.
  split; [rewrite Hds; repeat rewrite <- app_assoc; reflexivity|]. split; [|split; [|exact Hu]].
  - repeat apply no_unusual_app; try (apply no_unusual_if; discriminate).
    + intros d Hd cs ->. apply (flags_shape _ _ _ _ _ Hf) in Hd.
      destruct Hd as [Hd|[[? Hd]|[[? Hd]|[[? Hd]|[[? [? Hd]]|[? [? Hd]]]]]]]; discriminate.
    + intros d Hd cs ->. unfold dispatch in Hd. apply in_map_iff in Hd. destruct Hd as [? [Hd _]]. discriminate.
    + intros d Hd cs ->. destruct (xml_trigger (me_comment e)); [|inversion Hx; subst; contradiction].
      destruct (xml_diags_inv _ _ _ _ Hx _ Hd) as [? [Hd' _]]. discriminate.
  - apply no_unusual_app; [|apply no_unusual_if; discriminate].
    intros d Hd cs ->. destruct (fi_fuzzy info); [contradiction|].
    destruct (first_marker (tr_strings e)); [destruct Hd as [Hd|[]]; discriminate|contradiction].
Qed.

Lemma entry_parts A B ud : no_unusual A -> no_unusual B ->
  (forall cs, In (MUnusual cs) (A ++ ud ++ B) <-> In (MUnusual cs) ud)
  /\ (forall c, filter (mentions c) (A ++ ud ++ B) = filter (mentions c) ud).
Proof.
  intros HA HB. split.
  - intros cs. rewrite !in_app_iff. split; [|auto]. intros [H|[H|H]]; auto; exfalso; [eapply HA|eapply HB]; eauto.
  - intros c. rewrite !filter_app, (no_unusual_mentions c A HA), (no_unusual_mentions c B HB), app_nil_r. reflexivity.
Qed.

(* ------------------------------------------------------------------ *)
(* the file                                                             *)

Definition earlier (cfg : config) (es : list msg_entry) (k : nat) (c : N) : Prop :=
  exists k' e', (k' < k)%nat /\ nth_error es k' = Some e' /\ live e' = true /\ ux_entry cfg e' c.

Lemma earlier_0 cfg es c : ~ earlier cfg es 0 c.
Proof. intros [k' [e' [H _]]]. lia. Qed.
Lemma earlier_cons cfg e es k c : earlier cfg (e :: es) (S k) c <-> (live e = true /\ ux_entry cfg e c) \/ earlier cfg es k c.
Proof.
  unfold earlier. split.
  - intros [[|k'] [e' [H1 [H2 [H3 H4]]]]]; cbn in H2.
    + inversion H2; subst. auto.
    + right. exists k', e'. repeat split; auto. lia.
  - intros [[H1 H2]|[k' [e' [H1 [H2 [H3 H4]]]]]].
    + exists 0%nat, e. repeat split; auto. lia.
    + exists (S k'), e'. repeat split; auto. lia.
Qed.

Section Run.
  Variable cfg : config.
  Hypothesis Henc : c_encoding cfg = true.

  (* what one live entry contributes, and the set it leaves behind *)
  Lemma entry_summary seen found e ds found' : check_entry cfg seen found e = Ok (ds, found') ->
    (forall c, In c found' <-> In c found \/ ux_entry cfg e c)
    /\ (forall c, (exists cs, In (MUnusual cs) ds /\ In c cs) <-> ~ In c found /\ ux_entry cfg e c)
    /\ (forall cs, In (MUnusual cs) ds <->
          exists pre s post, tr_strings e = pre ++ s :: post /\ cs <> [] /\ StronglySorted nlt cs
            /\ forall c, In c cs <-> uxe cfg e s c /\ ~ In c found /\ ~ (exists s', In s' pre /\ uxe cfg e s' c))
    /\ (forall c, (length (filter (mentions c) ds) <= 1)%nat /\ (In c found -> filter (mentions c) ds = [])).
  Proof.
    intros H. destruct (check_entry_unusual _ _ _ _ _ _ H) as [A [B [ud [-> [HA [HB Hu]]]]]]. rewrite Henc in Hu.
    destruct (entry_parts A B ud HA HB) as [P1 P2]. split; [|split; [|split]].
    - intros c. apply (loop_found _ _ _ _ _ _ Hu c).
    - intros c. rewrite <- (loop_chars _ _ _ _ _ _ Hu c). split; intros [cs [H1 H2]]; exists cs; (split; [apply P1; exact H1|exact H2]).
    - intros cs. rewrite P1. apply (loop_events _ _ _ _ _ _ Hu cs).
    - intros c. rewrite P2. apply (loop_once _ _ _ _ _ _ Hu c).
  Qed.

  Lemma in_run_parts i (l : list mdiag) (r : list cdiag) j d :
    In (AtMsg j d) (map (AtMsg i) l ++ r) <-> (j = i /\ In d l) \/ In (AtMsg j d) r.
  Proof.
    rewrite in_app_iff, in_map_iff. split.
    - intros [[d' [E Hd]]|H]; auto. inversion E; subst. auto.
    - intros [[-> H]|H]; auto. left. eauto.
  Qed.

  Lemma run_chars : forall es i seen found ds seen', run cfg i seen found es = Ok (ds, seen') ->
    forall j c, (exists cs, In (AtMsg j (MUnusual cs)) ds /\ In c cs) <->
      exists k e, j = (i + k)%nat /\ nth_error es k = Some e /\ live e = true /\ ux_entry cfg e c
                  /\ ~ In c found /\ ~ earlier cfg es k c.
  Proof.
    induction es as [|e es IH]; intros i seen found ds seen' H j c.
    - cbn in H. inversion H; subst. split; [intros [cs [[] _]]|]. intros [k [e [_ [E _]]]]. destruct k; discriminate.
    - rewrite run_step in H. destruct (live e) eqn:L.
      + apply obind_ok in H. destruct H as [[dse fe] [Hx H]]. apply obind_ok in H. destruct H as [[dsr sr] [Hy H]].
        inversion H; subst. cbn [fst snd] in *. destruct (entry_summary _ _ _ _ _ Hx) as [F [C _]].
        specialize (IH _ _ _ _ _ Hy j c). split.
        * intros [cs [Hin Hc]]. apply in_run_parts in Hin. destruct Hin as [[-> Hin]|Hin].
          -- destruct (proj1 (C c) (ex_intro _ cs (conj Hin Hc))) as [A B].
             exists 0%nat, e. split; [lia|]. split; [reflexivity|]. split; [exact L|]. split; [exact B|]. split; [exact A|].
             apply earlier_0.
          -- destruct (proj1 IH (ex_intro _ cs (conj Hin Hc))) as [k [e0 [A [B [D [E [G K]]]]]]].
             exists (S k), e0. rewrite (F c) in G. split; [lia|]. split; [exact B|]. split; [exact D|]. split; [exact E|].
             split; [tauto|]. rewrite earlier_cons. tauto.
        * intros [[|k] [e0 [A [B [D [E [G K]]]]]]].
          -- cbn in B. inversion B; subst e0. rewrite Nat.add_0_r in A. subst j.
             destruct (proj2 (C c) (conj G E)) as [cs [X Y]]. exists cs. split; auto. apply in_run_parts. auto.
          -- cbn in B. rewrite earlier_cons in K.
             destruct (proj2 IH) as [cs [X Y]].
             { exists k, e0. split; [lia|]. split; [exact B|]. split; [exact D|]. split; [exact E|].
               split; [rewrite (F c); tauto|tauto]. }
             exists cs. split; auto. apply in_run_parts. auto.
      + specialize (IH _ _ _ _ _ H j c). rewrite IH. split.
        * intros [k [e0 [A [B [D [E [G K]]]]]]]. exists (S k), e0.
          split; [lia|]. split; [exact B|]. split; [exact D|]. split; [exact E|]. split; [exact G|].
          rewrite earlier_cons. intros [[X _]|X]; [congruence|auto].
        * intros [[|k] [e0 [A [B [D [E [G K]]]]]]]; cbn in B; [inversion B; subst; congruence|].
          exists k, e0. split; [lia|]. split; [exact B|]. split; [exact D|]. split; [exact E|]. split; [exact G|].
          intros X. apply K. apply earlier_cons. auto.
  Qed.

  Lemma run_events : forall es i seen found ds seen', run cfg i seen found es = Ok (ds, seen') ->
    forall j cs, In (AtMsg j (MUnusual cs)) ds <->
      exists k e pre s post, j = (i + k)%nat /\ nth_error es k = Some e /\ live e = true
        /\ tr_strings e = pre ++ s :: post /\ cs <> [] /\ StronglySorted nlt cs
        /\ forall c, In c cs <-> uxe cfg e s c /\ ~ In c found /\ ~ (exists s', In s' pre /\ uxe cfg e s' c)
                                 /\ ~ earlier cfg es k c.
  Proof.
    induction es as [|e es IH]; intros i seen found ds seen' H j cs.
    - cbn in H. inversion H; subst. split; [intros []|]. intros [k [e [? [? [? [_ [E _]]]]]]]. destruct k; discriminate.
    - rewrite run_step in H. destruct (live e) eqn:L.
      + apply obind_ok in H. destruct H as [[dse fe] [Hx H]]. apply obind_ok in H. destruct H as [[dsr sr] [Hy H]].
        inversion H; subst. cbn [fst snd] in *. destruct (entry_summary _ _ _ _ _ Hx) as [F [_ [Ev _]]].
        specialize (IH _ _ _ _ _ Hy j cs). rewrite in_run_parts. split.
        * intros [[-> Hin]|Hin].
          -- apply Ev in Hin. destruct Hin as [pre [s [post [A [B [C D]]]]]].
             exists 0%nat, e, pre, s, post. split; [lia|]. split; [reflexivity|]. split; [exact L|]. split; [exact A|].
             split; [exact B|]. split; [exact C|]. intros c. rewrite (D c). pose proof (earlier_0 cfg (e :: es) c). tauto.
          -- apply IH in Hin. destruct Hin as [k [e0 [pre [s [post [A [B [C [D [E [G K]]]]]]]]]]].
             exists (S k), e0, pre, s, post. split; [lia|]. split; [exact B|]. split; [exact C|]. split; [exact D|].
             split; [exact E|]. split; [exact G|]. intros c. rewrite (K c), (F c), earlier_cons. tauto.
        * intros [[|k] [e0 [pre [s [post [A [B [C [D [E [G K]]]]]]]]]]].
          -- cbn in B. inversion B; subst e0. rewrite Nat.add_0_r in A. subst j. left. split; auto.
             apply Ev. exists pre, s, post. split; [exact D|]. split; [exact E|]. split; [exact G|].
             intros c. rewrite (K c). pose proof (earlier_0 cfg (e :: es) c). tauto.
          -- cbn in B. right. apply IH. exists k, e0, pre, s, post. split; [lia|]. split; [exact B|]. split; [exact C|].
             split; [exact D|]. split; [exact E|]. split; [exact G|]. intros c. rewrite (K c), (F c), earlier_cons. tauto.
      + specialize (IH _ _ _ _ _ H j cs). rewrite IH. split.
        * intros [k [e0 [pre [s [post [A [B [C [D [E [G K]]]]]]]]]]].
          exists (S k), e0, pre, s, post. split; [lia|]. split; [exact B|]. split; [exact C|]. split; [exact D|].
          split; [exact E|]. split; [exact G|]. intros c. rewrite (K c), earlier_cons.
          assert (NL : ~ (live e = true /\ ux_entry cfg e c)) by (intros [X _]; congruence). tauto.
        * intros [[|k] [e0 [pre [s [post [A [B [C [D [E [G K]]]]]]]]]]]; cbn in B; [inversion B; subst; congruence|].
          exists k, e0, pre, s, post. split; [lia|]. split; [exact B|]. split; [exact C|]. split; [exact D|].
          split; [exact E|]. split; [exact G|]. intros c. rewrite (K c), earlier_cons.
          assert (NL : ~ (live e = true /\ ux_entry cfg e c)) by (intros [X _]; congruence). tauto.
  Qed.

  Lemma run_once : forall es i seen found ds seen', run cfg i seen found es = Ok (ds, seen') ->
    forall c, (length (filter (cmentions c) ds) <= 1)%nat /\ (In c found -> filter (cmentions c) ds = []).
  Proof.
    induction es as [|e es IH]; intros i seen found ds seen' H c.
    - cbn in H. inversion H; subst. cbn. split; auto.
    - rewrite run_step in H. destruct (live e) eqn:L; [|apply (IH _ _ _ _ _ H c)].
      apply obind_ok in H. destruct H as [[dse fe] [Hx H]]. apply obind_ok in H. destruct H as [[dsr sr] [Hy H]].
      inversion H; subst. cbn [fst snd] in *. destruct (entry_summary _ _ _ _ _ Hx) as [F [C [_ O]]].
      destruct (IH _ _ _ _ _ Hy c) as [I1 I2]. destruct (O c) as [O1 O2].
      assert (M : forall l, filter (cmentions c) (map (AtMsg i) l) = map (AtMsg i) (filter (mentions c) l)).
      { induction l as [|d l IHl]; cbn; auto. destruct (mentions c d); cbn; rewrite IHl; reflexivity. }
      rewrite filter_app, app_length, M, map_length. split.
      + destruct (filter (mentions c) dse) as [|d l] eqn:E; cbn [length]; [lia|].
        assert (Hd : In d (filter (mentions c) dse)) by (rewrite E; left; auto). apply filter_In in Hd. destruct Hd as [Hd1 Hd2].
        destruct d; try discriminate. cbn in Hd2. apply memN_In in Hd2.
        assert (Hf : In c fe). { apply F. right. apply (proj1 (C c)). eauto. }
        rewrite (I2 Hf). cbn in *. lia.
      + intros Hc. rewrite (O2 Hc). cbn. apply I2. apply F. auto.
  Qed.
End Run.

(* ------------------------------------------------------------------ *)
(* in the words of Spec/Messages.v                                      *)

Lemma live_spec e : live e = true <-> message e.
Proof.
  unfold live, message, header, is_header. rewrite andb_true_iff, !negb_true_iff. split.
  - intros [A B]. split; auto. intros [C D]. rewrite C, D in B. discriminate.
  - intros [A B]. split; auto. destruct (me_msgid e) eqn:E1; cbn; auto. destruct (me_ctxt e) eqn:E2; cbn; auto. exfalso. auto.
Qed.

Lemma tr_strings_list e : tr_strings e = translation_list e.
Proof.
  unfold tr_strings, translation_list, has_msgstr, has_msgstr_plural. f_equal.
  - destruct (me_msgstr e); reflexivity.
  - assert (E : forall l, existsb (fun s : list N => negb (is_nil s)) l
                         = existsb (fun s : list N => match s with [] => false | _ => true end) l).
    { induction l as [|x l IH]; cbn; auto. rewrite IH. destruct x; reflexivity. }
    rewrite E. reflexivity.
Qed.

Section Words.
  Variable cfg : config.
  Let W := c_isword cfg.

  Lemma muc_spec e c : In c (muc cfg e) <-> explained W e c.
  Proof.
    unfold muc, explained. rewrite in_app_iff, !find_unusual_spec. fold W. split.
    - intros [H|[k H]]; auto. right. destruct (me_plural e) as [p|]; [eauto|]. destruct H as [H _]. destruct k; discriminate.
    - intros [H|[p [k [E H]]]]; auto. right. rewrite E. eauto.
  Qed.
  Lemma uxe_spec e s c : uxe cfg e s c <-> (exists k, unusual_at W s k c) /\ ~ explained W e c.
  Proof. unfold uxe, uxm. rewrite find_unusual_spec, muc_spec. reflexivity. Qed.
  Lemma ux_entry_spec e c : ux_entry cfg e c <-> unexplained_in W e c.
  Proof.
    unfold ux_entry, unexplained_in. split; intros [s [A B]]; exists s.
    - apply tr_strings_In in A. apply uxe_spec in B. tauto.
    - split; [apply tr_strings_In; exact A|apply uxe_spec; exact B].
  Qed.

  Lemma unexplained_at_here cat j e t s c : nth_error cat j = Some e -> live e = true ->
    nth_error (tr_strings e) t = Some s -> (unexplained_at W cat j t c <-> uxe cfg e s c).
  Proof.
    intros Hj Hl Ht. rewrite uxe_spec. unfold unexplained_at. split.
    - intros [e' [s' [A [B [C D]]]]]. rewrite Hj in A. inversion A; subst e'. rewrite <- tr_strings_list, Ht in C.
      inversion C; subst. exact D.
    - intros D. exists e, s. split; auto. split; [apply live_spec; auto|]. rewrite <- tr_strings_list. auto.
  Qed.

  Lemma unexplained_at_entry cat j t c : unexplained_at W cat j t c ->
    exists e s, nth_error cat j = Some e /\ live e = true /\ nth_error (tr_strings e) t = Some s /\ uxe cfg e s c.
  Proof.
    intros [e [s [A [B [C D]]]]]. exists e, s. split; auto. split; [apply live_spec; auto|].
    rewrite tr_strings_list. split; auto. apply uxe_spec. exact D.
  Qed.

  Lemma first_iff cat j e pre s post c : nth_error cat j = Some e -> live e = true -> tr_strings e = pre ++ s :: post ->
    (first_unexplained_at W cat j (length pre) c <->
     uxe cfg e s c /\ ~ (exists s', In s' pre /\ uxe cfg e s' c) /\ ~ earlier cfg cat j c).
  Proof.
    intros Hj Hl Ht.
    assert (Hn : nth_error (tr_strings e) (length pre) = Some s).
    { rewrite Ht, nth_error_app2 by lia. rewrite Nat.sub_diag. reflexivity. }
    unfold first_unexplained_at. rewrite (unexplained_at_here cat j e _ s c Hj Hl Hn). split.
    - intros [A B]. split; auto. split.
      + intros [s' [H1 H2]]. apply In_nth_error in H1. destruct H1 as [t' H1].
        assert (Hlt : (t' < length pre)%nat) by (apply nth_error_Some; congruence).
        apply (B j t'); [right; auto|].
        apply (unexplained_at_here cat j e t' s' c Hj Hl); auto. rewrite Ht, nth_error_app1; auto.
      + intros [j' [e' [H1 [H2 [H3 [s' [H4 H5]]]]]]]. apply In_nth_error in H4. destruct H4 as [t' H4].
        apply (B j' t'); [left; auto|]. apply (unexplained_at_here cat j' e' t' s' c H2 H3 H4). exact H5.
    - intros [A [B C]]. split; auto. intros j' t' Hpos HH.
      destruct (unexplained_at_entry _ _ _ _ HH) as [e' [s' [H1 [H2 [H3 H4]]]]].
      destruct Hpos as [Hlt|[-> Hlt]].
      + apply C. exists j', e'. repeat split; auto. exists s'. split; auto. eapply nth_error_In; eauto.
      + rewrite Hj in H1. inversion H1; subst e'. apply B. exists s'. split; auto.
        rewrite Ht, nth_error_app1 in H3 by auto. eapply nth_error_In; eauto.
  Qed.

  Lemma earlier_spec cat j c : earlier cfg cat j c <->
    exists j' e', (j' < j)%nat /\ nth_error cat j' = Some e' /\ message e' /\ unexplained_in W e' c.
  Proof.
    unfold earlier. split; intros [j' [e' [A [B [C D]]]]]; exists j', e'; (split; [exact A|]); (split; [exact B|]).
    - split; [apply live_spec; auto|apply ux_entry_spec; auto].
    - split; [apply live_spec; auto|apply ux_entry_spec; auto].
  Qed.

  Hypothesis Henc : c_encoding cfg = true.

  (* every reported set is exactly the set of characters first seen, unexplained, in one translation *)
  Theorem unusual_event_iff cat ds j cs : check_messages cfg cat = Ok ds ->
    (In (AtMsg j (MUnusual cs)) ds <->
     exists t, cs <> [] /\ StronglySorted N.lt cs /\ forall c, In c cs <-> first_unexplained_at W cat j t c).
  Proof.
    intros H. destruct (check_messages_inv _ _ _ H) as [ds0 [seen' [Hr Hds]]].
    rewrite (at_msg_in _ cat _ _ _ j _ Hds), (run_events cfg Henc _ _ _ _ _ _ Hr j cs). split.
    - intros [k [e [pre [s [post [A [B [C [D [E [G K]]]]]]]]]]]. cbn in A. subst k.
      exists (length pre). split; auto. split; [exact G|].
      intros c. rewrite (K c), (first_iff cat j e pre s post c B C D). cbn. tauto.
    - intros [t [A [B C]]]. destruct cs as [|c0 cs0]; [congruence|].
      destruct (proj1 (C c0) (or_introl eq_refl)) as [U _].
      destruct (unexplained_at_entry _ _ _ _ U) as [e [s [H1 [H2 [H3 H4]]]]].
      destruct (nth_error_split _ _ H3) as [pre [post [H5 H6]]]. subst t.
      exists j, e, pre, s, post. split; [reflexivity|]. split; auto. split; auto. split; auto. split; auto. split; [exact B|].
      intros c. rewrite (C c), (first_iff cat j e pre s post c H1 H2 H5). cbn. tauto.
  Qed.

  (* a character is reported at entry j iff j is the first message with an unexplained occurrence of it *)
  Theorem unusual_char_iff cat ds j c : check_messages cfg cat = Ok ds ->
    ((exists cs, In (AtMsg j (MUnusual cs)) ds /\ In c cs) <->
     exists e, nth_error cat j = Some e /\ message e /\ unexplained_in W e c
       /\ forall j' e', (j' < j)%nat -> nth_error cat j' = Some e' -> message e' -> ~ unexplained_in W e' c).
  Proof.
    intros H. destruct (check_messages_inv _ _ _ H) as [ds0 [seen' [Hr Hds]]].
    assert (E : (exists cs, In (AtMsg j (MUnusual cs)) ds /\ In c cs) <-> (exists cs, In (AtMsg j (MUnusual cs)) ds0 /\ In c cs)).
    { split; intros [cs [A B]]; exists cs; (split; [|exact B]); apply (at_msg_in _ cat _ _ _ j _ Hds); exact A. }
    rewrite E, (run_chars cfg Henc _ _ _ _ _ _ Hr j c). split.
    - intros [k [e [A [B [C [D [_ G]]]]]]]. cbn in A. subst k. exists e. split; auto. split; [apply live_spec; auto|].
      split; [apply ux_entry_spec; auto|]. intros j' e' X Y Z V. apply G. apply earlier_spec. exists j', e'. auto.
    - intros [e [A [B [C D]]]]. exists j, e. split; [reflexivity|]. split; auto. split; [apply live_spec; auto|].
      split; [apply ux_entry_spec; auto|]. split; [auto|]. intros X. apply earlier_spec in X.
      destruct X as [j' [e' [X1 [X2 [X3 X4]]]]]. apply (D j' e'); auto.
  Qed.

  (* no character is reported twice in a run *)
  Theorem unusual_once cat ds c : check_messages cfg cat = Ok ds -> (length (filter (cmentions c) ds) <= 1)%nat.
  Proof.
    intros H. destruct (check_messages_inv _ _ _ H) as [ds0 [seen' [Hr Hds]]].
    destruct (run_once cfg Henc _ _ _ _ _ _ Hr c) as [A _]. rewrite Hds, filter_app, app_length.
    assert (E : filter (cmentions c) (if is_nil seen' then if c_binary cfg && c_hidden cfg then [] else [EmptyFile] else []) = []).
    { destruct (is_nil seen'); auto. destruct (c_binary cfg && c_hidden cfg); auto. }
    rewrite E. cbn. lia.
  Qed.
End Words.

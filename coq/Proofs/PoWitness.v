(* Concrete witnesses: the unguarded statements of C10 are false of the faithful model (D9, dropped
   previous-msgid of obsolete entries), and non-vacuity of the guarded theorem. *)
From Coq Require Import List NArith Bool Lia.
From I18n Require Import Lib.Outcome Model.PoUnescape Model.PoParser Spec.PoSyntax Proofs.PoParser.
Import ListNotations.
Local Open Scope N_scope.

Definition O1 : oracles := mkOracles (fun b => Some b) (fun _ => None) (fun _ => false).   (* ISO-8859-1 *)
Lemma O1_ascii : ascii_compatible (o_dec O1).
Proof. intros b _. reflexivity. Qed.

Definition lit (s : str) : sstring := [[PLit s]].
Ltac solve_ok := repeat first [ exact I | discriminate | (eexists; split; [reflexivity|]) | split | constructor | (intros ?; discriminate) ].

(* msgid "a" msgid_plural "b" msgstr[0] "x" ... msgstr[10] "x" *)
Definition cat_D9 : scatalog :=
  mkScat [] [mkSentry [] false None (lit [97]) (Some (lit [98])) (repeat (lit [120]) 11)].
Lemma cat_D9_ok : scatalog_ok (o_dec O1) cat_D9 /\ no_obsolete_prev cat_D9.
Proof. unfold scatalog_ok, no_obsolete_prev, cat_D9, lit. cbn. solve_ok. Qed.

Definition machine_statement_without_nplurals_guard : Prop :=
  forall O ws c l', ascii_compatible (o_dec O) -> ~ In 34 ws -> scatalog_ok (o_dec O) c -> no_obsolete_prev c ->
  ext (toks_catalog ws c) l' ->
  run_machine O l' = Ok (mkPo (fst (catalog_value c)) (map to_entry (snd (catalog_value c))) false).

Lemma ext_refl l : ext l l.
Proof. induction l; constructor; assumption. Qed.

Lemma D9_refutes : ~ machine_statement_without_nplurals_guard.
Proof.
  intros H. destruct cat_D9_ok as [H1 H2].
  specialize (H O1 [32] cat_D9 _ O1_ascii ltac:(cbn; intros [E|[]]; discriminate) H1 H2 (ext_refl _)).
  vm_compute in H. discriminate H.
Qed.

(* #~| msgid "p" / #~ msgid "a" / #~ msgstr "b" *)
Definition cat_obs : scatalog :=
  mkScat [] [mkSentry [CPrev QId (lit [112])] true None (lit [97]) None [lit [98]]].
Lemma cat_obs_ok : scatalog_ok (o_dec O1) cat_obs /\ nplurals_le_10 cat_obs.
Proof. unfold scatalog_ok, nplurals_le_10, cat_obs, lit. cbn. split; [solve_ok|]. constructor; [cbn; lia|constructor]. Qed.

Definition machine_statement_without_obsolete_guard : Prop :=
  forall O ws c l', ascii_compatible (o_dec O) -> ~ In 34 ws -> scatalog_ok (o_dec O) c -> nplurals_le_10 c ->
  ext (toks_catalog ws c) l' ->
  run_machine O l' = Ok (mkPo (fst (catalog_value c)) (map to_entry (snd (catalog_value c))) false).

Lemma obsolete_prev_refutes : ~ machine_statement_without_obsolete_guard.
Proof.
  intros H. destruct cat_obs_ok as [H1 H2].
  assert (Hext : ext (toks_catalog [32] cat_obs) (LPrevObsolete :: toks_catalog [32] cat_obs)).
  { apply ext_prev_obsolete; [apply ext_refl|]. vm_compute. discriminate. }
  specialize (H O1 [32] cat_obs _ O1_ascii ltac:(cbn; intros [E|[]]; discriminate) H1 H2 Hext).
  vm_compute in H. discriminate H.
Qed.

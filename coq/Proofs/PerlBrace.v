(* perl-brace: the scanner accepts exactly the well-formed strings, reports their identifiers, raises only
   its own error, and makes at most 2|s|+1 character inspections. *)
From Coq Require Import List NArith Bool Lia.
From I18n Require Import Lib.Outcome Model.FmtPerlBrace Spec.PerlBrace.
Import ListNotations.
Local Open Scope N_scope.

Lemma span_spec p s a b : span p s = (a, b) ->
  s = a ++ b /\ Forall (fun x => p x = true) a /\ match b with [] => True | c :: _ => p c = false end.
Proof.
  revert a b. induction s as [|c r IH]; intros a b; cbn [span].
  - intros H; inversion H; subst. auto.
  - destruct (p c) eqn:E.
    + destruct (span p r) as [a0 b0]. intros H; inversion H; subst.
      destruct (IH _ _ eq_refl) as [-> [H1 H2]]. split; [reflexivity|split; auto].
    + intros H; inversion H; subst. split; [reflexivity|split; [constructor|exact E]].
Qed.

Lemma span_app_stop p a c r : Forall (fun x => p x = true) a -> p c = false -> span p (a ++ c :: r) = (a, c :: r).
Proof.
  induction 1 as [|x a Hx Ha IH]; intros Hc; cbn [span app].
  - rewrite Hc. reflexivity.
  - rewrite Hx, (IH Hc). reflexivity.
Qed.

Lemma span_length p s a b : span p s = (a, b) -> (length a + length b = length s)%nat.
Proof. intros H. apply span_spec in H. destruct H as [-> _]. rewrite app_length. reflexivity. Qed.

Section Proofs.
Variables is_w is_d : N -> bool.
Hypothesis w_rbrace : is_w 125 = false.

Notation match_at := (match_at is_w is_d).
Notation scan := (scan is_w is_d).
Notation perl_wf := (perl_wf is_w is_d).

Definition item_text (it : pitem) : list N :=
  match it with PLit t => t | PField n => 123 :: n ++ [125] end.

Lemma not_lbrace_iff c : not_lbrace c = true <-> c <> 123.
Proof. unfold not_lbrace, c_lbrace. destruct (N.eqb_spec c 123); cbn; split; intros; congruence. Qed.

(* a successful attempt: the shape of the item, the text it covers, its cost *)
Lemma match_at_some s it rest k : match_at s = (Some (it, rest), k) ->
  s = item_text it ++ rest /\
  (match it with
   | PLit t => t <> [] /\ Forall (fun x => x <> 123) t /\ match rest with [] => True | c :: _ => c = 123 end
   | PField n => is_ident is_w is_d n
   end) /\
  (k <= 2 * length (item_text it))%nat /\ (length rest < length s)%nat.
Proof.
  unfold FmtPerlBrace.match_at. destruct s as [|c r]; [discriminate|].
  destruct (not_lbrace c) eqn:Ec.
  - destruct (span not_lbrace (c :: r)) as [a b] eqn:Es. intros H; injection H as <- <- <-.
    pose proof (span_spec _ _ _ _ Es) as [Hs [Ha Hb]].
    assert (Hne : a <> []).
    { cbn [span] in Es. rewrite Ec in Es. destruct (span not_lbrace r). inversion Es. discriminate. }
    cbn [item_text]. split; [exact Hs|]. split.
    + split; [exact Hne|]. split.
      * eapply Forall_impl; [|exact Ha]. intros x. apply not_lbrace_iff.
      * destruct b as [|x b]; [exact I|]. unfold not_lbrace, c_lbrace in Hb.
        destruct (N.eqb_spec x 123); [assumption|discriminate].
    + destruct a as [|a0 a]; [congruence|]. rewrite Hs, app_length. cbn [length]. lia.
  - destruct r as [|d r1]; [discriminate|].
    destruct (ident_start is_w is_d d) eqn:Ed; [|discriminate].
    destruct (span is_w r1) as [w r2] eqn:Es.
    destruct r2 as [|e r3]; [discriminate|].
    destruct (N.eqb_spec e c_rbrace) as [->|]; [|discriminate].
    intros H; injection H as <- <- <-.
    pose proof (span_spec _ _ _ _ Es) as [Hs [Hw _]].
    assert (c = 123). { unfold not_lbrace, c_lbrace in Ec. destruct (N.eqb_spec c 123); [assumption|discriminate]. }
    subst c. cbn [item_text]. split.
    + rewrite Hs. cbn [app]. rewrite <- !app_assoc. reflexivity.
    + unfold ident_start in Ed. apply andb_prop in Ed. destruct Ed as [E1 E2].
      split; [cbn; split; [exact E1|split; [destruct (is_d d); [discriminate|reflexivity]|exact Hw]]|].
      rewrite Hs. cbn [length]. rewrite !app_length. cbn [length]. lia.
Qed.

(* a failed attempt happens only at a "{" *)
Lemma match_at_none c r k : match_at (c :: r) = (None, k) -> c = 123.
Proof.
  unfold FmtPerlBrace.match_at. destruct (not_lbrace c) eqn:Ec.
  - destruct (span not_lbrace (c :: r)). discriminate.
  - intros _. unfold not_lbrace, c_lbrace in Ec. destruct (N.eqb_spec c 123); [assumption|discriminate].
Qed.

Lemma wf_text_app a b ns : Forall (fun x => x <> 123) a -> perl_wf b ns -> perl_wf (a ++ b) ns.
Proof. induction 1; cbn [app]; intros; [assumption|constructor; auto]. Qed.

Lemma wf_drop_text a : Forall (fun x => x <> 123) a -> forall b ns, perl_wf (a ++ b) ns -> perl_wf b ns.
Proof.
  induction 1 as [|x a Hx Ha IH]; intros b ns H; cbn [app] in H; [assumption|].
  inversion H; subst; [eauto|congruence].
Qed.

(* ---------- accepted => well formed ---------- *)
Lemma scan_ok_wf fuel : forall s acc steps its k,
  scan fuel s acc steps = (Ok its, k) ->
  exists its', its = rev acc ++ its' /\ perl_wf s (names_of its').
Proof.
  induction fuel as [|fuel IH]; intros s acc steps its k; cbn [FmtPerlBrace.scan]; [discriminate|].
  destruct s as [|c r].
  - intros H; inversion H; subst. exists []. rewrite app_nil_r. split; [reflexivity|constructor].
  - destruct (match_at (c :: r)) as [[[it rest]|] km] eqn:Em.
    + intros H. apply IH in H. destruct H as [its' [-> Hwf]].
      apply match_at_some in Em. destruct Em as [Hs [Hit _]].
      exists (it :: its'). split; [cbn [rev]; rewrite <- app_assoc; reflexivity|].
      rewrite Hs. destruct it as [t|n]; cbn [names_of item_text].
      * apply wf_text_app; [apply Hit|exact Hwf].
      * cbn [app]. rewrite <- app_assoc. cbn [app]. constructor; assumption.
    + unfold printable_prefix. destruct (fst (span is_printable_ascii (c :: r))); discriminate.
Qed.

(* ---------- well formed => accepted, with those names ---------- *)
Lemma match_at_field n r : is_ident is_w is_d n ->
  exists k, match_at (123 :: n ++ 125 :: r) = (Some (PField n, r), k).
Proof.
  destruct n as [|d w]; [intros []|]. intros [H1 [H2 H3]].
  unfold FmtPerlBrace.match_at. cbn [app].
  replace (not_lbrace 123) with false by reflexivity.
  unfold ident_start. rewrite H1, H2. cbn [andb negb].
  rewrite (span_app_stop is_w w 125 r H3 w_rbrace).
  replace (125 =? c_rbrace) with true by reflexivity. eexists; reflexivity.
Qed.

Lemma wf_scan_ok fuel : forall s ns acc steps,
  (length s < fuel)%nat -> perl_wf s ns ->
  exists its', fst (scan fuel s acc steps) = Ok (rev acc ++ its') /\ names_of its' = ns.
Proof.
  induction fuel as [|fuel IH]; intros s ns acc steps Hlen Hwf; [lia|].
  cbn [FmtPerlBrace.scan]. destruct s as [|c r].
  - inversion Hwf; subst. exists []. rewrite app_nil_r. split; reflexivity.
  - destruct (match_at (c :: r)) as [[[it rest]|] km] eqn:Em.
    + pose proof (match_at_some _ _ _ _ Em) as [Hs [Hit [_ Hl]]].
      destruct it as [t|n].
      * (* literal run *)
        destruct Hit as [_ [Ht _]]. cbn [item_text] in Hs. rewrite Hs in Hwf.
        apply wf_drop_text in Hwf; [|exact Ht].
        destruct (IH rest ns (PLit t :: acc) (steps + km)%nat) as [its' [E1 E2]]; [cbn [length] in *; lia|exact Hwf|].
        exists (PLit t :: its'). split; [rewrite E1; cbn [rev]; rewrite <- app_assoc; reflexivity|exact E2].
      * (* field *)
        assert (c = 123). { cbn [item_text app] in Hs. congruence. } subst c.
        inversion Hwf as [| |n0 r0 ns0 Hn0 Hr0 Heq]; subst; [congruence|].
        destruct (match_at_field n0 r0 Hn0) as [k' Ek]. rewrite Ek in Em. inversion Em; subst.
        destruct (IH rest ns0 (PField n :: acc) (steps + km)%nat) as [its' [E1 E2]]; [cbn [length] in *; lia|exact Hr0|].
        exists (PField n :: its'). split; [rewrite E1; cbn [rev]; rewrite <- app_assoc; reflexivity|cbn [names_of]; rewrite E2; reflexivity].
    + exfalso. pose proof (match_at_none _ _ _ Em). subst c.
      inversion Hwf as [| |n0 r0 ns0 Hn0 Hr0 Heq]; subst; [congruence|].
      destruct (match_at_field n0 r0 Hn0) as [k' Ek]. rewrite Ek in Em. discriminate.
Qed.

Theorem perl_accept_iff s :
  (exists its, perl_parse is_w is_d s = Ok its) <-> (exists ns, perl_wf s ns).
Proof.
  unfold perl_parse, perl_parse_steps. split.
  - intros [its H]. destruct (scan (S (length s)) s [] 0%nat) as [o k] eqn:E. cbn [fst] in H. subst o.
    apply scan_ok_wf in E. destruct E as [its' [_ Hwf]]. eauto.
  - intros [ns H]. destruct (wf_scan_ok (S (length s)) s ns [] 0%nat) as [its' [E _]]; [lia|exact H|]. eauto.
Qed.

Theorem perl_names s its ns :
  perl_parse is_w is_d s = Ok its -> perl_wf s ns -> names_of its = ns.
Proof.
  unfold perl_parse, perl_parse_steps. intros H Hwf.
  destruct (wf_scan_ok (S (length s)) s ns [] 0%nat) as [its' [E En]]; [lia|exact Hwf|].
  rewrite H in E. cbn [rev app] in E. inversion E; subst. reflexivity.
Qed.

(* ---------- only its own error ---------- *)
Lemma scan_no_crash fuel : forall s acc steps c,
  (length s < fuel)%nat -> fst (scan fuel s acc steps) <> Crash c.
Proof.
  induction fuel as [|fuel IH]; intros s acc steps c Hlen; [lia|].
  cbn [FmtPerlBrace.scan]. destruct s as [|x r]; [discriminate|].
  destruct (match_at (x :: r)) as [[[it rest]|] km] eqn:Em.
  - apply match_at_some in Em. destruct Em as [_ [_ [_ Hl]]]. apply IH. cbn [length] in *. lia.
  - apply match_at_none in Em. subst x. cbn [fst]. unfold printable_prefix. cbn [span].
    replace (is_printable_ascii 123) with true by reflexivity.
    destruct (span is_printable_ascii r). cbn [fst]. discriminate.
Qed.

Theorem perl_own_errors s c : perl_parse is_w is_d s <> Crash c.
Proof. unfold perl_parse, perl_parse_steps. apply scan_no_crash. lia. Qed.

(* ---------- linear ---------- *)
Hypothesis w_lbrace : is_w 123 = false.

Lemma span_len_le p s a b : span p s = (a, b) -> (length a <= length s)%nat.
Proof. intros H. apply span_length in H. lia. Qed.

Lemma match_at_cost s o k : match_at s = (o, k) -> (k <= length s + 1)%nat.
Proof.
  unfold FmtPerlBrace.match_at. destruct s as [|c r]; [intros H; inversion H; cbn; lia|].
  destruct (not_lbrace c).
  - destruct (span not_lbrace (c :: r)) as [a b] eqn:Es. intros H; inversion H; subst.
    apply span_len_le in Es. lia.
  - destruct r as [|d r1]; [intros H; inversion H; cbn; lia|].
    destruct (ident_start is_w is_d d); [|intros H; inversion H; cbn; lia].
    destruct (span is_w r1) as [w r2] eqn:Es. apply span_len_le in Es.
    destruct r2 as [|e r3]; [intros H; inversion H; cbn [length]; lia|].
    destruct (e =? c_rbrace); intros H; inversion H; cbn [length]; lia.
Qed.

Lemma search_cost_bound s : (search_cost is_w is_d s <= 2 * length s + 1)%nat.
Proof.
  induction s as [|c r IH]; cbn [search_cost]; [cbn; lia|].
  destruct (match_at (c :: r)) as [[[it rest]|] k] eqn:Em.
  - apply match_at_cost in Em. cbn [length] in *. lia.
  - pose proof (match_at_none _ _ _ Em). subst c.
    unfold FmtPerlBrace.match_at in Em. replace (not_lbrace 123) with false in Em by reflexivity.
    destruct r as [|d r1]; [inversion Em; cbn; lia|].
    destruct (ident_start is_w is_d d) eqn:Ed.
    + (* the attempt ran over an identifier; the next position starts a literal run, found at once *)
      assert (Hk : (k <= 3 + length r1)%nat).
      { destruct (span is_w r1) as [w r2] eqn:Es. apply span_len_le in Es.
        destruct r2 as [|e r3]; [inversion Em; lia|]. destruct (e =? c_rbrace); inversion Em; lia. }
      assert (Hd : not_lbrace d = true).
      { apply not_lbrace_iff. intros ->. unfold ident_start in Ed. rewrite w_lbrace in Ed. discriminate. }
      cbn [search_cost]. unfold FmtPerlBrace.match_at at 1. rewrite Hd.
      destruct (span not_lbrace (d :: r1)) as [a b] eqn:Es. apply span_len_le in Es. cbn [length] in *. lia.
    + inversion Em; subst. cbn [length] in *. lia.
Qed.

Lemma scan_steps fuel : forall s acc steps,
  (snd (scan fuel s acc steps) <= steps + 2 * length s + 1)%nat.
Proof.
  induction fuel as [|fuel IH]; intros s acc steps; cbn [FmtPerlBrace.scan]; [cbn; lia|].
  destruct s as [|c r]; [cbn; lia|].
  destruct (match_at (c :: r)) as [[[it rest]|] k] eqn:Em.
  - pose proof (match_at_some _ _ _ _ Em) as [Hs [_ [Hk _]]].
    specialize (IH rest (it :: acc) (steps + k)%nat).
    assert (length (c :: r) = length (item_text it) + length rest)%nat by (rewrite Hs at 1; apply app_length).
    lia.
  - cbn [snd]. pose proof (search_cost_bound (c :: r)). lia.
Qed.

Theorem perl_linear s : (snd (perl_parse_steps is_w is_d s) <= 2 * length s + 1)%nat.
Proof. unfold perl_parse_steps. pose proof (scan_steps (S (length s)) s [] 0%nat). lia. Qed.

End Proofs.

(* malformed-xml: completeness w.r.t. the expat oracle; the dispatch of the format checkers. *)
From Coq Require Import List NArith ZArith Bool Lia ZifyBool ZifyN Sorted.
From I18n Require Import Lib.Outcome Model.Messages Spec.Messages Proofs.MessagesLib Proofs.MessagesFlags Proofs.Messages
  Proofs.MessagesScan.
Import ListNotations.
Local Open Scope N_scope.

(* ------------------------------------------------------------------ *)
(* malformed-xml                                                        *)

Definition xml_rule (cfg : config) (fz : bool) (e : msg_entry) (m : list N) : Prop :=
  (c_xml cfg (me_msgid e) = Some m /\ c_template cfg = true)
  \/ (c_xml cfg (me_msgid e) = None /\ fz = false /\ me_msgstr e <> [] /\ c_xml cfg (me_msgstr e) = Some m).

Lemma xml_diags_complete cfg fz e xd m : xml_diags cfg fz e = Ok xd -> c_encoding cfg = true ->
  xml_rule cfg fz e m -> In (MMalformedXml m) xd.
Proof.
  unfold xml_diags, xml_rule. intros H He R. rewrite He in H. cbn [negb] in H. cbv iota in H.
  apply obind_ok in H. destruct H as [r [Hr H]].
  unfold xml_check in Hr. inversion Hr; subst. clear Hr.
  destruct R as [[R1 R2]|[R1 [R2 [R3 R4]]]].
  - rewrite R1, R2 in H. inversion H. left. reflexivity.
  - rewrite R1, R2 in H. apply is_nil_false in R3. rewrite R3 in H.
    apply obind_ok in H. destruct H as [r2 [Hr2 H]].
    unfold xml_check in Hr2. inversion Hr2; subst.
    rewrite R4 in H. inversion H. left. reflexivity.
Qed.

Theorem malformed_xml_iff cfg cat ds j m : check_messages cfg cat = Ok ds ->
  (In (AtMsg j (MMalformedXml m)) ds <->
   exists e, nth_error cat j = Some e /\ live e = true /\ xml_trigger (me_comment e) = true /\ c_encoding cfg = true
     /\ ((c_xml cfg (me_msgid e) = Some m /\ c_template cfg = true)
         \/ (c_xml cfg (me_msgid e) = None /\ ~ fuzzy e /\ me_msgstr e <> [] /\ c_xml cfg (me_msgstr e) = Some m))).
Proof.
  intros H. split; [apply (malformed_xml_sound _ _ _ _ _ H)|].
  intros [e [A [B [C [D E]]]]]. destruct (check_messages_inv _ _ _ H) as [ds0 [seen' [Hr Hds]]].
  apply (at_msg_in _ cat _ _ _ j _ Hds).
  destruct (run_complete _ _ _ _ _ _ _ Hr j e A B) as [fnd [[r1 r2] [F G]]]. apply (G (MMalformedXml m)). cbn [fst].
  destruct (check_entry_inv _ _ _ _ _ _ F) as [fd [info [xd [ud [Hf [Hx [Hu Hds']]]]]]].
  pose proof (flags_fuzzy_iff _ _ _ _ _ Hf) as Hfz. fold (fuzzy e) in Hfz.
  cbn zeta in Hds'. rewrite Hds'. rewrite C in Hx. apply in_or_app. right. apply in_or_app. right. apply in_or_app. left.
  apply (xml_diags_complete _ _ _ _ _ Hx D). unfold xml_rule. destruct E as [E|[E1 [E2 [E3 E4]]]]; [left; exact E|right].
  split; auto. split; auto. destruct (fi_fuzzy info); auto. exfalso. apply E2. apply Hfz. reflexivity.
Qed.

(* ------------------------------------------------------------------ *)
(* the dispatch of the format checkers                                  *)

Definition str_lt (a b : list N) : Prop := str_compare a b = Lt.

Lemma sorted_filter {A} (R : A -> A -> Prop) (f : A -> bool) l : StronglySorted R l -> StronglySorted R (filter f l).
Proof.
  induction 1 as [|a l Hs IH Hf]; cbn; [constructor|]. destruct (f a); auto. constructor; auto.
  rewrite Forall_forall in *. intros x Hx. apply filter_In in Hx. apply Hf. tauto.
Qed.

Lemma dict_items_keys d : map fst (dict_items d) =
  filter (fun k => match dget k d with Some _ => true | None => false end) (sort_dedup str_compare (map fst d)).
Proof.
  unfold dict_items. induction (sort_dedup str_compare (map fst d)) as [|k l IH]; cbn; auto.
  destruct (dget k d); cbn; rewrite IH; reflexivity.
Qed.
Lemma dict_items_sorted d : StronglySorted str_lt (map fst (dict_items d)).
Proof. rewrite dict_items_keys. apply sorted_filter. apply str_sort_sorted. Qed.

Definition mdispatched (l : list mdiag) : list (list N) :=
  flat_map (fun d => match d with MDispatch f => [f] | _ => [] end) l.
Definition dispatched (j : nat) (ds : list cdiag) : list (list N) :=
  flat_map (fun d => match d with AtMsg j' (MDispatch f) => if Nat.eqb j' j then [f] else [] | _ => [] end) ds.

Lemma mdispatched_app a b : mdispatched (a ++ b) = mdispatched a ++ mdispatched b.
Proof. unfold mdispatched. apply flat_map_app. Qed.
Lemma mdispatched_none l : (forall d, In d l -> forall f, d <> MDispatch f) -> mdispatched l = [].
Proof.
  unfold mdispatched. induction l as [|d l IH]; cbn; intros H; auto. rewrite IH by (intros; apply H; right; auto).
  destruct d; auto. exfalso. eapply (H _ (or_introl eq_refl)); eauto.
Qed.
Lemma mdispatched_dispatch l : mdispatched (map MDispatch l) = l.
Proof. unfold mdispatched. induction l; cbn; congruence. Qed.

Lemma entry_dispatched cfg seen found e ds found' : check_entry cfg seen found e = Ok (ds, found') ->
  exists fd info, check_flags cfg (hp_of e) (me_flags e) = Ok (fd, info)
    /\ mdispatched ds = filter has_checker (fi_formats info)
    /\ forall f, In (MDispatch f) ds <-> In f (filter has_checker (fi_formats info)).
Proof.
  intros H. destruct (check_entry_inv _ _ _ _ _ _ H) as [fd [info [xd [ud [Hf [Hx [Hu Hds]]]]]]]. cbn zeta in Hds.
  exists fd, info. split; auto.
  assert (N1 : forall d, In d fd -> forall f, d <> MDispatch f).
  { intros d Hd f ->. apply (flags_shape _ _ _ _ _ Hf) in Hd.
    destruct Hd as [Hd|[[? Hd]|[[? Hd]|[[? Hd]|[[? [? Hd]]|[? [? Hd]]]]]]]; discriminate. }
  assert (N2 : forall d, In d xd -> forall f, d <> MDispatch f).
  { intros d Hd f ->. destruct (xml_trigger (me_comment e)); [|inversion Hx; subst; contradiction].
    destruct (xml_diags_inv _ _ _ _ Hx _ Hd) as [? [Hd' _]]. discriminate. }
  assert (N3 : forall d, In d ud -> forall f, d <> MDispatch f).
  { intros d Hd f ->. destruct (c_encoding cfg); [|inversion Hu; subst; contradiction].
    destruct (unusual_loop_inv _ _ _ _ _ _ Hu _ Hd) as [? [Hd' _]]. discriminate. }
  match type of Hds with ds = fd ++ ?d ++ xd ++ ?rest =>
    assert (N4 : forall x, In x rest -> forall f, x <> MDispatch f) end.
  { intros x Hx' f ->. rewrite !in_app_iff, !In_if in Hx'.
    repeat (destruct Hx' as [Hx'|Hx']; try (destruct Hx' as [_ Hx']; discriminate)).
    - eapply N3; eauto.
    - destruct (fi_fuzzy info); [contradiction|]. destruct (first_marker (tr_strings e)); [destruct Hx' as [Hx'|[]]; discriminate|contradiction]. }
  split.
  - rewrite Hds. rewrite mdispatched_app, mdispatched_app, mdispatched_app, (mdispatched_none fd N1), (mdispatched_none xd N2). unfold dispatch. rewrite mdispatched_dispatch.
    rewrite (mdispatched_none _ N4). cbn [app]. rewrite ?app_nil_r. reflexivity.
  - intros f. rewrite Hds, in_app_iff, in_app_iff, in_app_iff. unfold dispatch. rewrite in_map_iff. split.
    + intros [X|[[f' [E X]]|[X|X]]]; try (exfalso; [eapply N1|eapply N2|eapply N4]; eauto; fail).
      * exfalso. eapply N1; eauto.
      * inversion E; subst. exact X.
      * exfalso. eapply N2; eauto.
      * exfalso. eapply N4; eauto.
    + intros X. right. left. eauto.
Qed.

(* which checkers run: those of the positive format flags of the message that have a checker *)
Theorem dispatch_iff cfg cat ds j f : check_messages cfg cat = Ok ds ->
  (In (AtMsg j (MDispatch f)) ds <->
   exists e, nth_error cat j = Some e /\ live e = true /\ has_checker f = true
     /\ exists flag, In flag (me_flags e) /\ classify cfg flag = Ok (FFormat (Some (TpPos, f)))).
Proof.
  intros H. destruct (check_messages_inv _ _ _ H) as [ds0 [seen' [Hr Hds]]]. rewrite (at_msg_in _ cat _ _ _ j _ Hds).
  assert (K : forall e r fnd sn, check_entry cfg sn fnd e = Ok r ->
            (In (MDispatch f) (fst r) <-> has_checker f = true
               /\ exists flag, In flag (me_flags e) /\ classify cfg flag = Ok (FFormat (Some (TpPos, f))))).
  { intros e [r1 r2] fnd sn Hc. cbn [fst]. destruct (entry_dispatched _ _ _ _ _ _ Hc) as [fd [info [Hf [_ Hd]]]].
    rewrite (Hd f), filter_In.
    destruct (whole_items _ _ _ _ _ Hf) as [items [Hit [_ ->]]]. cbn [fi_formats flags_info]. rewrite in_map_iff. split.
    - intros [[[k v] [E Hin]] Hc']. cbn in E. subst k. split; auto. apply dict_items_In in Hin.
      exists v. apply (dict_from_flags cfg (me_flags e) items TpPos f v Hit Hin).
    - intros [Hc' [flag [Hin Hcl]]]. split; auto.
      destruct (dict_has_flag cfg (me_flags e) items TpPos f flag Hit Hin Hcl) as [flag' Hg].
      exists (f, flag'). split; auto. apply dict_items_In. exact Hg. }
  split.
  - intros Hin. destruct (run_sound _ _ _ _ _ _ _ Hr j _ Hin) as [k [e [fnd [r [A [B [C [D E]]]]]]]]. cbn in A. subst k.
    exists e. split; auto. split; auto. apply (K e r fnd _ D). exact E.
  - intros [e [A [B C]]]. destruct (run_complete _ _ _ _ _ _ _ Hr j e A B) as [fnd [r [D E]]].
    apply E. apply (K e r fnd _ D). exact C.
Qed.

(* in which order: by increasing name (sorted(flags.formats)) *)
Lemma run_dispatched cfg j : forall es i seen found ds seen', run cfg i seen found es = Ok (ds, seen') ->
  ((j < i)%nat -> dispatched j ds = []) /\ StronglySorted str_lt (dispatched j ds).
Proof.
  induction es as [|e es IH]; intros i seen found ds seen' H.
  - cbn in H. inversion H; subst. cbn. split; [auto|constructor].
  - rewrite run_step in H. destruct (live e) eqn:L.
    + apply obind_ok in H. destruct H as [[dse fe] [Hx H]]. apply obind_ok in H. destruct H as [[dsr sr] [Hy H]].
      inversion H; subst. cbn [fst snd] in *. destruct (IH _ _ _ _ _ Hy) as [I1 I2].
      assert (E : dispatched j (map (AtMsg i) dse ++ dsr) = (if Nat.eqb i j then mdispatched dse else []) ++ dispatched j dsr).
      { unfold dispatched at 1. rewrite flat_map_app. f_equal. clear. induction dse as [|d l IHl]; cbn.
        - destruct (Nat.eqb i j); reflexivity.
        - rewrite IHl. destruct d; destruct (Nat.eqb i j); reflexivity. }
      rewrite E. split.
      * intros Hlt. assert (Nat.eqb i j = false) by (apply Nat.eqb_neq; lia). rewrite H0. cbn. apply I1. lia.
      * destruct (Nat.eqb i j) eqn:Eq.
        -- apply Nat.eqb_eq in Eq. subst. rewrite I1 by lia. rewrite app_nil_r.
           destruct (entry_dispatched _ _ _ _ _ _ Hx) as [fd [info [Hf [-> _]]]]. apply sorted_filter.
           destruct (whole_items _ _ _ _ _ Hf) as [items [_ [_ ->]]]. cbn [fi_formats flags_info]. apply dict_items_sorted.
        -- cbn. exact I2.
    + destruct (IH _ _ _ _ _ H) as [I1 I2]. split; [intros Hlt; apply I1; lia|exact I2].
Qed.

Theorem dispatch_sorted cfg cat ds j : check_messages cfg cat = Ok ds -> StronglySorted str_lt (dispatched j ds).
Proof.
  intros H. destruct (check_messages_inv _ _ _ H) as [ds0 [seen' [Hr Hds]]]. rewrite Hds.
  unfold dispatched. rewrite flat_map_app.
  assert (E : flat_map (fun d => match d with AtMsg j' (MDispatch f) => if Nat.eqb j' j then [f] else [] | _ => [] end)
                (if is_nil seen' then if c_binary cfg && c_hidden cfg then [] else [EmptyFile] else []) = []).
  { destruct (is_nil seen'); auto. destruct (c_binary cfg && c_hidden cfg); auto. }
  rewrite E, app_nil_r. apply (run_dispatched cfg j _ _ _ _ _ _ Hr).
Qed.

(* C14: the argument-comparison diagnostics are exactly the declarative signature differences. *)
From Coq Require Import List ZArith NArith Bool Lia Arith.
From I18n Require Import Model.MsgFormat.
Import ListNotations.

Lemma str_eqb_eq a : forall b, str_eqb a b = true <-> a = b.
Proof.
  induction a as [|x a IH]; destruct b as [|y b]; cbn; split; try discriminate; auto.
  - intros H. apply andb_prop in H. destruct H as [H1 H2]. apply N.eqb_eq in H1. apply IH in H2. congruence.
  - intros H. inversion H; subst. rewrite N.eqb_refl. cbn. apply IH. auto.
Qed.
Lemma str_eqb_refl a : str_eqb a a = true. Proof. apply str_eqb_eq. auto. Qed.

Lemma key_eqb_eq a b : key_eqb a b = true <-> a = b.
Proof.
  destruct a, b; cbn; split; try discriminate; intros H.
  - apply Z.eqb_eq in H. congruence.
  - inversion H. apply Z.eqb_refl.
  - apply str_eqb_eq in H. congruence.
  - inversion H. apply str_eqb_refl.
Qed.

Lemma mem_key_in k l : mem_key k l = true <-> In k l.
Proof.
  unfold mem_key. rewrite existsb_exists. split.
  - intros [x [Hx He]]. apply key_eqb_eq in He. subst. auto.
  - intros H. exists k. split; auto. apply key_eqb_eq. auto.
Qed.

(* ---------- c-format ---------- *)
Definition pos_mismatch (src dst : list str) (dt st : list str) : Prop :=
  exists i s d, nth_error src i = Some s /\ nth_error dst i = Some d /\ s <> d /\ dt = [d] /\ st = [s].

Lemma zip_mismatch_iff src : forall dst dt st,
  In (ATypeMismatch dt st)
     (flat_map (fun p => if str_eqb (fst p) (snd p) then [] else [ATypeMismatch [snd p] [fst p]]) (combine src dst))
  <-> pos_mismatch src dst dt st.
Proof.
  induction src as [|s src IH]; intros dst dt st.
  - cbn. split; [intros []|]. intros [i [s [d [H _]]]]. destruct i; discriminate.
  - destruct dst as [|d dst].
    + cbn. split; [intros []|]. intros [i [s0 [d0 [_ [H _]]]]]. destruct i; discriminate.
    + cbn [combine flat_map fst snd]. rewrite in_app_iff, IH. split.
      * intros [H|H].
        -- destruct (str_eqb s d) eqn:E; [destruct H|]. destruct H as [H|[]]. inversion H; subst.
           exists 0%nat, s, d. repeat split; auto. intros Heq. apply str_eqb_eq in Heq. congruence.
        -- destruct H as [i [s0 [d0 [H1 [H2 H3]]]]]. exists (S i), s0, d0. auto.
      * intros [i [s0 [d0 [H1 [H2 [H3 [H4 H5]]]]]]]. destruct i as [|i].
        -- left. cbn in H1, H2. inversion H1; inversion H2; subst.
           destruct (str_eqb s0 d0) eqn:E; [apply str_eqb_eq in E; contradiction|left; auto].
        -- right. exists i, s0, d0. auto.
Qed.

Theorem c_excess_iff src dst li om a b :
  In (AExcess a b) (c_check_args src dst li om) <-> a = length dst /\ b = length src /\ (length src < length dst)%nat.
Proof.
  unfold c_check_args. rewrite in_app_iff. split.
  - intros [H|H].
    + destruct (Nat.ltb (length src) (length dst)) eqn:E.
      * destruct H as [H|[]]. inversion H. apply Nat.ltb_lt in E. auto.
      * destruct (Nat.ltb (length dst) (length src)); [destruct (om && li _)|]; cbn in H; intuition discriminate.
    + apply in_flat_map in H. destruct H as [p [_ H]]. destruct (str_eqb (fst p) (snd p)); cbn in H; intuition discriminate.
  - intros [-> [-> H]]. left. apply Nat.ltb_lt in H. rewrite H. left. auto.
Qed.

Theorem c_missing_iff src dst li om a b :
  In (AMissingN a b) (c_check_args src dst li om) <->
  a = length dst /\ b = length src /\ (length dst < length src)%nat /\ (om && li (length src - length dst)%nat = false).
Proof.
  unfold c_check_args. rewrite in_app_iff. split.
  - intros [H|H].
    + destruct (Nat.ltb (length src) (length dst)) eqn:E; [cbn in H; intuition discriminate|].
      destruct (Nat.ltb (length dst) (length src)) eqn:E2; [|destruct H].
      destruct (om && li (length src - length dst)%nat) eqn:E3; [destruct H|].
      destruct H as [H|[]]. inversion H. apply Nat.ltb_lt in E2. auto.
    + apply in_flat_map in H. destruct H as [p [_ H]]. destruct (str_eqb (fst p) (snd p)); cbn in H; intuition discriminate.
  - intros [-> [-> [H1 H2]]]. left.
    assert (E : Nat.ltb (length src) (length dst) = false) by (apply Nat.ltb_ge; lia). rewrite E.
    apply Nat.ltb_lt in H1. rewrite H1, H2. left. auto.
Qed.

Theorem c_type_iff src dst li om dt st :
  In (ATypeMismatch dt st) (c_check_args src dst li om) <-> pos_mismatch src dst dt st.
Proof.
  unfold c_check_args. rewrite in_app_iff, zip_mismatch_iff. split; [|auto].
  intros [H|H]; auto.
  destruct (Nat.ltb (length src) (length dst)); [cbn in H; intuition discriminate|].
  destruct (Nat.ltb (length dst) (length src)); [destruct (om && li _)|]; cbn in H; intuition discriminate.
Qed.

Lemma zip_same s : flat_map (fun p : str * str => if str_eqb (fst p) (snd p) then [] else [ATypeMismatch [snd p] [fst p]]) (combine s s) = [].
Proof. induction s as [|x s IH]; cbn; auto. rewrite str_eqb_refl. auto. Qed.

Theorem c_same_silent s li om : c_check_args s s li om = [].
Proof. unfold c_check_args. rewrite Nat.ltb_irrefl. cbn. apply zip_same. Qed.

(* ---------- maps ---------- *)
Lemma in_keys (x : key * list str * bool) m : In x m -> In (fst (fst x)) (keys m).
Proof. intros H. unfold keys. apply (in_map (fun y : key * list str * bool => fst (fst y))). auto. Qed.

Theorem map_unknown_iff brace src dst om k :
  In (AUnknown k) (map_check_args brace src dst om) <-> In k (keys dst) /\ ~ In k (keys src).
Proof.
  unfold map_check_args. rewrite !in_app_iff. split.
  - intros [H|[H|H]].
    + apply in_flat_map in H. destruct H as [x [_ H]]. destruct (lookup _ src) as [[st b]|]; [|destruct H].
      destruct (if brace then _ else _); cbn in H; intuition discriminate.
    + apply in_map_iff in H. destruct H as [x [Hx Hin]]. inversion Hx; subst. apply filter_In in Hin.
      destruct Hin as [Hin Hn]. split; [apply in_keys; auto|].
      intros Hc. apply mem_key_in in Hc. rewrite Hc in Hn. discriminate.
    + apply in_map_iff in H. destruct H as [x [Hx _]]. discriminate.
  - intros [Hd Hs]. right. left. unfold keys in Hd. apply in_map_iff in Hd. destruct Hd as [x [Hx Hin]].
    apply in_map_iff. exists x. split; [congruence|]. apply filter_In. split; auto.
    destruct (mem_key (fst (fst x)) (keys src)) eqn:E; auto. apply mem_key_in in E. rewrite Hx in E. contradiction.
Qed.

Definition missing_set (src dst : amap) : amap := filter (fun x => negb (mem_key (fst (fst x)) (keys dst))) src.
Definition tolerated (src dst : amap) (om : bool) : bool :=
  match missing_set src dst with [(_, _, allint)] => om && allint | _ => false end.

Theorem map_missing_iff brace src dst om k :
  In (AMissing k) (map_check_args brace src dst om) <->
  In k (keys (missing_set src dst)) /\ tolerated src dst om = false.
Proof.
  unfold map_check_args, tolerated. fold (missing_set src dst). rewrite !in_app_iff. split.
  - intros [H|[H|H]].
    + apply in_flat_map in H. destruct H as [x [_ H]]. destruct (lookup _ src) as [[st b]|]; [|destruct H].
      destruct (if brace then _ else _); cbn in H; intuition discriminate.
    + apply in_map_iff in H. destruct H as [x [Hx _]]. discriminate.
    + apply in_map_iff in H. destruct H as [x [Hx Hin]]. inversion Hx; subst.
      destruct (missing_set src dst) as [|[[k0 t0] a0] [|y r]] eqn:Em.
      * destruct Hin.
      * destruct (om && a0) eqn:E; [destruct Hin|]. split; auto. apply (in_keys (k, t0, a0)) || apply in_keys. auto.
      * split; auto. apply (in_keys (k, t0, a0)) || apply in_keys. auto.
  - intros [Hk Ht]. right. right. unfold keys in Hk. apply in_map_iff in Hk. destruct Hk as [x [Hx Hin]].
    apply in_map_iff. exists x. split; [congruence|].
    destruct (missing_set src dst) as [|[[k0 t0] a0] [|y r]] eqn:Em; auto. rewrite Ht. auto.
Qed.

Lemma missing_set_keys src dst k : In k (keys (missing_set src dst)) <-> In k (keys src) /\ ~ In k (keys dst).
Proof.
  split.
  - intros H. unfold keys in H at 1. apply in_map_iff in H. destruct H as [x [Hx Hin]].
    unfold missing_set in Hin. apply filter_In in Hin. destruct Hin as [Hin Hn]. subst k.
    split; [apply in_keys; auto|]. intros Hc. apply mem_key_in in Hc. rewrite Hc in Hn. discriminate.
  - intros [Hs Hn]. unfold keys in Hs. apply in_map_iff in Hs. destruct Hs as [x [Hx Hin]]. subst k.
    apply in_keys. unfold missing_set. apply filter_In. split; auto.
    destruct (mem_key (fst (fst x)) (keys dst)) eqn:E; auto. apply mem_key_in in E. contradiction.
Qed.

Lemma lookup_self m : forall x, In x m -> exists t b, lookup (fst (fst x)) m = Some (t, b).
Proof.
  induction m as [|[[k t] b] r IH]; intros x Hin; [destruct Hin|]. cbn.
  destruct (key_eqb (fst (fst x)) k) eqn:E; [eauto|]. destruct Hin as [<-|Hin]; [|auto].
  cbn in E. assert (key_eqb k k = true) by (apply key_eqb_eq; auto). congruence.
Qed.

(* with distinct keys, looking a row's key up gives that row *)
Lemma lookup_nodup m : NoDup (keys m) -> forall k t b, In (k, t, b) m -> lookup k m = Some (t, b).
Proof.
  induction m as [|[[k0 t0] b0] r IH]; intros Hnd k t b Hin; [destruct Hin|]. cbn.
  cbn in Hnd. inversion Hnd as [|? ? Hnotin Hnd']; subst.
  destruct Hin as [Heq|Hin].
  - inversion Heq; subst. assert (E : key_eqb k k = true) by (apply key_eqb_eq; auto). rewrite E. auto.
  - destruct (key_eqb k k0) eqn:E.
    + apply key_eqb_eq in E. subst. exfalso. apply Hnotin. unfold keys. apply in_map_iff. exists (k0, t, b). auto.
    + apply IH; auto.
Qed.

Lemma types_intersect_refl t : t <> [] -> types_intersect t t = true.
Proof.
  destruct t as [|x t]; [contradiction|]. intros _. cbn. rewrite str_eqb_refl. reflexivity.
Qed.

Lemma filter_all_false {A} (f : A -> bool) l : (forall x, In x l -> f x = false) -> filter f l = [].
Proof. induction l as [|a l IH]; cbn; intros H; auto. rewrite (H a (or_introl eq_refl)). apply IH. intros; apply H; right; auto. Qed.
Lemma filter_all_true {A} (f : A -> bool) l : (forall x, In x l -> f x = true) -> filter f l = l.
Proof. induction l as [|a l IH]; cbn; intros H; auto. rewrite (H a (or_introl eq_refl)). f_equal. apply IH. intros; apply H; right; auto. Qed.
Lemma flat_map_all_nil {A B} (g : A -> list B) l : (forall x, In x l -> g x = []) -> flat_map g l = [].
Proof. induction l as [|a l IH]; cbn; intros H; auto. rewrite (H a (or_introl eq_refl)). apply IH. intros; apply H; right; auto. Qed.

(* a msgstr with the same named arguments and types as the msgid is never flagged *)
Theorem map_same_silent (brace : bool) (m : amap) (om : bool) :
  NoDup (keys m) ->
  (forall k t b, In (k, t, b) m -> if brace then t <> @nil str else exists a : str, t = [a]) ->
  map_check_args brace m m om = [].
Proof.
  intros Hnd Hty. unfold map_check_args.
  assert (Hmem : forall x : key * list str * bool, In x m -> mem_key (fst (fst x)) (keys m) = true).
  { intros x Hx. apply mem_key_in. apply in_keys. auto. }
  rewrite (filter_all_false (fun x : key * list str * bool => negb (mem_key (fst (fst x)) (keys m))) m)
    by (intros x Hx; rewrite (Hmem x Hx); auto).
  rewrite (filter_all_true (fun x : key * list str * bool => mem_key (fst (fst x)) (keys m)) m) by auto.
  cbn. rewrite app_nil_r. apply flat_map_all_nil.
  intros [[k t] b] Hin. cbn [fst snd]. rewrite (lookup_nodup m Hnd k t b Hin).
  specialize (Hty k t b Hin). destruct brace.
  - rewrite types_intersect_refl; auto.
  - destruct Hty as [a ->]. rewrite str_eqb_refl. auto.
Qed.

Theorem py_same_silent sq m om :
  NoDup (keys m) -> (forall k t b, In (k, t, b) m -> exists a, t = [a]) ->
  py_check_args sq sq m m om = [].
Proof.
  intros Hnd Hty. unfold py_check_args. rewrite Nat.eqb_refl, zip_same. cbn.
  apply (map_same_silent false m om Hnd). intros k t b Hin. cbn. eauto.
Qed.

Theorem py_number_iff ss ds sm dm om a b :
  In (ANumber a b) (py_check_args ss ds sm dm om) <-> a = length ds /\ b = length ss /\ length ds <> length ss.
Proof.
  unfold py_check_args. rewrite !in_app_iff. split.
  - intros [H|[H|H]].
    + destruct (Nat.eqb (length ds) (length ss)) eqn:E; [destruct H|]. destruct H as [H|[]]. inversion H.
      apply Nat.eqb_neq in E. auto.
    + apply in_flat_map in H. destruct H as [p [_ H]]. destruct (str_eqb (fst p) (snd p)); cbn in H; intuition discriminate.
    + unfold map_check_args in H. rewrite !in_app_iff in H. destruct H as [H|[H|H]].
      * apply in_flat_map in H. destruct H as [x [_ H]]. destruct (lookup _ sm) as [[st b0]|]; [|destruct H].
        destruct (match st with [a0] => _ | _ => _ end); cbn in H; intuition discriminate.
      * apply in_map_iff in H. destruct H as [x [Hx _]]. discriminate.
      * apply in_map_iff in H. destruct H as [x [Hx _]]. discriminate.
  - intros [-> [-> H]]. left. apply Nat.eqb_neq in H. rewrite H. left. auto.
Qed.

(* ---------- perl-brace ---------- *)
Theorem perl_unknown_iff src dst om k :
  In (AUnknown k) (perl_check_args src dst om) <-> In k dst /\ ~ In k src.
Proof.
  unfold perl_check_args. rewrite in_app_iff. split.
  - intros [H|H].
    + apply in_map_iff in H. destruct H as [x [Hx Hin]]. inversion Hx; subst. apply filter_In in Hin.
      destruct Hin as [Hin Hn]. split; auto. intros Hc. apply mem_key_in in Hc. rewrite Hc in Hn. discriminate.
    + destruct (filter _ src) as [|a [|b r]]; [destruct H| |].
      * destruct om; [destruct H|]. cbn in H. intuition discriminate.
      * apply in_map_iff in H. destruct H as [x [Hx _]]. discriminate.
  - intros [Hd Hs]. left. apply in_map_iff. exists k. split; auto. apply filter_In. split; auto.
    destruct (mem_key k src) eqn:E; auto. apply mem_key_in in E. contradiction.
Qed.

Theorem perl_missing_iff src dst om k :
  In (AMissing k) (perl_check_args src dst om) <->
  In k src /\ ~ In k dst /\
  (om = false \/ length (filter (fun k => negb (mem_key k dst)) src) <> 1%nat).
Proof.
  unfold perl_check_args. rewrite in_app_iff. split.
  - intros [H|H].
    + apply in_map_iff in H. destruct H as [x [Hx _]]. discriminate.
    + assert (Hgen : In k (filter (fun k => negb (mem_key k dst)) src) -> In k src /\ ~ In k dst).
      { intros Hin. apply filter_In in Hin. destruct Hin as [Hin Hn]. split; auto.
        intros Hc. apply mem_key_in in Hc. rewrite Hc in Hn. discriminate. }
      destruct (filter (fun k => negb (mem_key k dst)) src) as [|a [|b r]] eqn:Ef; [destruct H| |].
      * destruct om; [destruct H|]. apply in_map_iff in H. destruct H as [x [Hx Hin]]. inversion Hx; subst.
        destruct (Hgen Hin). auto.
      * apply in_map_iff in H. destruct H as [x [Hx Hin]]. inversion Hx; subst.
        destruct (Hgen Hin). split; auto. split; auto. right. cbn. lia.
  - intros [Hs [Hd Hor]]. right.
    assert (Hin : In k (filter (fun k => negb (mem_key k dst)) src)).
    { apply filter_In. split; auto. destruct (mem_key k dst) eqn:E; auto. apply mem_key_in in E. contradiction. }
    destruct (filter (fun k => negb (mem_key k dst)) src) as [|a [|b r]] eqn:Ef; [destruct Hin| |].
    + destruct Hor as [->|Hne]; [apply in_map; auto|cbn in Hne; lia].
    + apply in_map. auto.
Qed.

Theorem perl_same_silent s om : perl_check_args s s om = [].
Proof.
  unfold perl_check_args.
  rewrite (filter_all_false (fun k => negb (mem_key k s)) s); auto.
  intros x Hx. apply mem_key_in in Hx. rewrite Hx. auto.
Qed.

(* ---------- the tolerated-omission rule of check_message ---------- *)
Definition single_or_zero_plus_one (pre : list Z) : Prop :=
  pre = [] \/ (exists x, pre = [x]) \/ (exists x, pre = [0%Z; x]).

Theorem omission_only_when_rule_allows m p i iv :
  In iv (plan_plural m p i) -> iv_omit_ok iv = true ->
  exists pre, assoc i p = Some pre /\
    single_or_zero_plus_one (filter (in_range (mi_rmin m) (mi_rmax m)) pre).
Proof.
  unfold plan_plural. destruct (assoc i p) as [pre|]; [|intros []].
  intros Hin Hok. exists pre. split; auto.
  set (pre' := filter (in_range (mi_rmin m) (mi_rmax m)) pre) in *.
  unfold omission_rule in Hin. unfold single_or_zero_plus_one.
  destruct pre' as [|x [|y [|z r]]]; auto.
  - right. left. eauto.
  - destruct (Z.eqb x 0) eqn:E.
    + apply Z.eqb_eq in E. subst. right. right. eauto.
    + destruct (mi_has_plural m && mi_plural_ok m); [|destruct Hin]. destruct Hin as [<-|[]]. discriminate.
  - destruct (mi_has_plural m && mi_plural_ok m); [|destruct Hin]. destruct Hin as [<-|[]]. discriminate.
Qed.

(* every comparison of a plural form is against msgid_plural, except the form selected for n = 1 only *)
Theorem plural_source m p i iv : In iv (plan_plural m p i) ->
  iv_dst iv = LMsgstrN i /\
  (iv_src iv = LMsgidPlural \/
   (iv_src iv = LMsgid /\ exists pre, assoc i p = Some pre /\ filter (in_range (mi_rmin m) (mi_rmax m)) pre = [1%Z])).
Proof.
  unfold plan_plural. destruct (assoc i p) as [pre|]; [|intros []].
  set (pre' := filter (in_range (mi_rmin m) (mi_rmax m)) pre) in *.
  unfold omission_rule. intros Hin.
  destruct pre' as [|x [|y [|z r]]] eqn:Ep.
  - destruct (mi_has_plural m && mi_plural_ok m); [|destruct Hin]. destruct Hin as [<-|[]]. cbn. auto.
  - destruct (Z.eqb x 1) eqn:E.
    + apply Z.eqb_eq in E. subst. destruct (mi_msgid_ok m); [|destruct Hin]. destruct Hin as [<-|[]]. cbn.
      split; auto. right. split; auto. exists pre. auto.
    + destruct (mi_has_plural m && mi_plural_ok m); [|destruct Hin]. destruct Hin as [<-|[]]. cbn. auto.
  - destruct (Z.eqb x 0); (destruct (mi_has_plural m && mi_plural_ok m); [|destruct Hin]); destruct Hin as [<-|[]]; cbn; auto.
  - destruct (mi_has_plural m && mi_plural_ok m); [|destruct Hin]. destruct Hin as [<-|[]]. cbn. auto.
Qed.

(* fuzzy messages and catalogs without a usable charset: nothing is compared against a translation *)
Theorem no_translation_checks_when_exempt m iv :
  (mi_fuzzy m = true \/ mi_encoding_known m = false) -> In iv (plan_message m) ->
  iv_dst iv = LMsgid.
Proof.
  intros Hex. unfold plan_message.
  destruct (negb (mi_template m) && _); [intros []|].
  assert (E : mi_fuzzy m || negb (mi_encoding_known m) = true) by (destruct Hex as [-> | ->]; auto using orb_true_r).
  rewrite E. destruct (mi_template m && mi_msgid_ok m && _); [|intros []].
  intros [<-|[]]. auto.
Qed.

(* a non-fuzzy, non-plural message with valid msgid and msgstr and a usable charset: msgstr is compared with msgid, strictly *)
Theorem plain_message_compared m :
  mi_template m = false -> mi_fuzzy m = false -> mi_encoding_known m = true ->
  mi_msgid_ok m = true -> mi_has_plural m = false -> mi_msgstr m = Some true ->
  mi_any_plural_nonempty m = false ->
  plan_message m = [{| iv_src := LMsgid; iv_dst := LMsgstr; iv_omit_ok := false |}].
Proof.
  intros H1 H2 H3 H4 H5 H6 H7. unfold plan_message. rewrite H1, H2, H3, H4, H5, H6, H7. cbn.
  destruct (mi_preimage m) as [[|]|]; reflexivity.
Qed.

(* String-level lemmas about the Python operations of Model/PoParser.v: strip, split(','), split(),
   rsplit(':', 1), on the texts the printer family produces. *)
From Coq Require Import List NArith Bool Lia ZifyBool Arith.
From I18n Require Import Lib.Outcome Model.PoUnescape Model.PoParser Spec.PoSyntax.
Import ListNotations.
Local Open Scope N_scope.

(* ---------------------------------------------------------------- white space *)
Lemma is_space_iff c : is_space c <-> py_isspace c = true.
Proof.
  unfold is_space, py_isspace, between. split.
  - cbn [In]. intros H. repeat (destruct H as [H|H]; [subst c; reflexivity|]). destruct H.
  - intros H. cbn [In].
    assert (Hc : c = 9 \/ c = 10 \/ c = 11 \/ c = 12 \/ c = 13 \/ c = 28 \/ c = 29 \/ c = 30 \/ c = 31 \/ c = 32 \/ c = 133
            \/ c = 160 \/ c = 5760 \/ c = 8192 \/ c = 8193 \/ c = 8194 \/ c = 8195 \/ c = 8196 \/ c = 8197 \/ c = 8198
            \/ c = 8199 \/ c = 8200 \/ c = 8201 \/ c = 8202 \/ c = 8232 \/ c = 8233 \/ c = 8239 \/ c = 8287 \/ c = 12288) by lia.
    repeat (destruct Hc as [Hc|Hc]; [subst c; tauto|]). subst c. tauto.
Qed.

Lemma not_space_false c : ~ is_space c -> py_isspace c = false.
Proof. intros H. destruct (py_isspace c) eqn:E; [|reflexivity]. exfalso. apply H. now apply is_space_iff. Qed.
Lemma space_true c : is_space c -> py_isspace c = true.
Proof. apply is_space_iff. Qed.

(* ---------------------------------------------------------------- strip *)
Lemma lstrip_by_all p a s : Forall (fun c => p c = true) a -> lstrip_by p (a ++ s) = lstrip_by p s.
Proof. induction 1 as [|c a Hc _ IH]; [reflexivity|]. cbn [app lstrip_by]. now rewrite Hc. Qed.

Lemma lstrip_by_stop p c s : p c = false -> lstrip_by p (c :: s) = c :: s.
Proof. intros H. cbn. now rewrite H. Qed.

Lemma lstrip_by_only p a : Forall (fun c => p c = true) a -> lstrip_by p a = [].
Proof. intros H. rewrite <- (app_nil_r a). now rewrite lstrip_by_all. Qed.

Lemma strip_by_padded p pl f pr :
  Forall (fun c => p c = true) pl -> Forall (fun c => p c = true) pr ->
  match f with [] => True | c :: _ => p c = false /\ p (last f 0) = false end ->
  strip_by p (pl ++ f ++ pr) = f.
Proof.
  intros Hl Hr Hf. unfold strip_by, rstrip_by. rewrite lstrip_by_all by assumption.
  destruct f as [|c f'].
  - cbn [app]. rewrite (lstrip_by_only p pr) by assumption. reflexivity.
  - destruct Hf as [Hc Hlast]. cbn [app]. rewrite lstrip_by_stop by assumption.
    change (c :: f' ++ pr) with ((c :: f') ++ pr). rewrite rev_app_distr. rewrite lstrip_by_all by (apply Forall_rev; assumption).
    assert (Hrev : exists r, rev (c :: f') = last (c :: f') 0 :: r).
    { destruct (@exists_last _ (c :: f') ltac:(discriminate)) as (l' & a & E). rewrite E.
      rewrite last_last, rev_app_distr. cbn. eauto. }
    destruct Hrev as [r Er]. rewrite Er, lstrip_by_stop by assumption. rewrite <- Er. apply rev_involutive.
Qed.

Lemma all_space_py s : all_space s -> Forall (fun c => py_isspace c = true) s.
Proof. apply Forall_impl. intros c. apply space_true. Qed.

Lemma trimmed_py f : trimmed f ->
  match f with [] => True | c :: _ => py_isspace c = false /\ py_isspace (last f 0) = false end.
Proof. destruct f; [auto|]. intros [H1 H2]. split; now apply not_space_false. Qed.

Lemma strip_padded pl f pr : all_space pl -> all_space pr -> trimmed f -> strip (pl ++ f ++ pr) = f.
Proof. intros Hl Hr Hf. apply strip_by_padded; [now apply all_space_py|now apply all_space_py|now apply trimmed_py]. Qed.

Lemma strip_trimmed f : trimmed f -> strip f = f.
Proof. intros H. pose proof (strip_padded [] f [] (Forall_nil _) (Forall_nil _) H) as E. cbn [app] in E. now rewrite app_nil_r in E. Qed.

Definition flag_space (c : N) : bool := N.eqb c 32 || N.eqb c 9 || N.eqb c 13 || N.eqb c 12 || N.eqb c 11.

Lemma flag_strip_trimmed f : trimmed f -> flag_strip f = f.
Proof.
  intros H. unfold flag_strip. change (strip_by flag_space f = f).
  pose proof (strip_by_padded flag_space [] f [] (Forall_nil _) (Forall_nil _)) as E. cbn [app] in E. rewrite app_nil_r in E.
  apply E. destruct f as [|c f']; [exact I|]. destruct H as [H1 H2].
  assert (Hs : forall x, ~ is_space x -> flag_space x = false).
  { intros x Hx. unfold flag_space. destruct (flag_space x) eqn:Ex; unfold flag_space in Ex; [|assumption].
    exfalso. apply Hx. unfold is_space. cbn [In]. lia. }
  split; now apply Hs.
Qed.

(* ---------------------------------------------------------------- split(sep) *)
Lemma split_on_aux_nosep sep a : forall s cur, ~ In sep a ->
  split_on_aux sep (a ++ s) cur = split_on_aux sep s (rev a ++ cur).
Proof.
  induction a as [|x a IH]; intros s cur H; [reflexivity|]. cbn [app split_on_aux].
  destruct (N.eqb_spec x sep) as [->|Hne]; [exfalso; apply H; now left|].
  rewrite IH by (intros Hin; apply H; now right). cbn [rev]. now rewrite <- app_assoc.
Qed.

Lemma split_on_single sep a : ~ In sep a -> split_on sep a = [a].
Proof. intros H. unfold split_on. pose proof (split_on_aux_nosep sep a [] [] H) as E. rewrite !app_nil_r in E.
  rewrite E. cbn. now rewrite rev_involutive. Qed.

Lemma split_on_cons sep a s : ~ In sep a -> split_on sep (a ++ sep :: s) = a :: split_on sep s.
Proof. intros H. unfold split_on. rewrite split_on_aux_nosep by assumption. cbn [split_on_aux].
  rewrite N.eqb_refl, app_nil_r, rev_involutive. reflexivity. Qed.

(* ---------------------------------------------------------------- flags *)
Definition flag_of (x : str * str * str) : str := snd (fst x).
Definition fitem_text (x : str * str * str) : str := fst (fst x) ++ snd (fst x) ++ snd x.

Lemma space_not_comma s : all_space s -> ~ In 44 s.
Proof. intros H Hin. unfold all_space in H. rewrite Forall_forall in H. specialize (H _ Hin). unfold is_space in H. cbn [In] in H.
  repeat (destruct H as [H|H]; [discriminate H|]). destruct H. Qed.

Lemma item_no_comma x : flag_item_ok x -> ~ In 44 (fitem_text x).
Proof. destruct x as [[pl f] pr]. cbn. intros (Hl & Hr & _ & _ & _ & Hf & _). unfold fitem_text. cbn.
  rewrite !in_app_iff. intros [H|[H|H]]; [apply (space_not_comma pl) | apply Hf | apply (space_not_comma pr)]; assumption. Qed.

Lemma flags_body_cons x y r : flags_body (x :: y :: r) = fitem_text x ++ 44 :: flags_body (y :: r).
Proof. destruct x as [[pl f] pr]. unfold fitem_text. cbn [fst snd]. rewrite <- !app_assoc. reflexivity. Qed.
Lemma flags_body_one x : flags_body [x] = fitem_text x.
Proof. destruct x as [[pl f] pr]. reflexivity. Qed.

Lemma split_flags_body items : Forall flag_item_ok items -> items <> [] ->
  split_on 44 (flags_body items) = map fitem_text items.
Proof.
  induction items as [|x items IH]; intros Hok Hne; [congruence|]. inversion Hok as [|? ? Hx Hr]; subst.
  destruct items as [|y items].
  - rewrite flags_body_one. cbn [map]. apply split_on_single. exact (item_no_comma _ Hx).
  - rewrite flags_body_cons. rewrite split_on_cons by exact (item_no_comma _ Hx).
    rewrite IH by (assumption || discriminate). reflexivity.
Qed.

Lemma strip_item x : flag_item_ok x -> strip (fitem_text x) = flag_of x.
Proof. destruct x as [[pl f] pr]. cbn. intros (Hl & Hr & _ & _ & Hf & _). now apply strip_padded. Qed.

Lemma flags_line items : Forall flag_item_ok items -> items <> [] ->
  map strip (split_on 44 (flags_body items)) = map flag_of items.
Proof. intros Hok Hne. rewrite split_flags_body by assumption. rewrite map_map. apply map_ext_in.
  intros x Hx. rewrite Forall_forall in Hok. now apply strip_item, Hok. Qed.

Definition flag_clean (f : str) : Prop := ~ In 44 f /\ flag_strip f = f.

Lemma flags_setter_clean l : Forall flag_clean l -> flags_setter l = l.
Proof. induction 1 as [|f l [Hc Hs] _ IH]; [reflexivity|]. unfold flags_setter in *. cbn [flat_map].
  rewrite split_on_single by assumption. cbn [map app]. now rewrite Hs, IH. Qed.

Lemma item_flag_clean x : flag_item_ok x -> flag_clean (flag_of x).
Proof. destruct x as [[pl f] pr]. cbn. intros (_ & _ & _ & _ & Hf & Hc & _). split; [assumption|now apply flag_strip_trimmed]. Qed.

(* ---------------------------------------------------------------- split() and file:line references *)
Definition ref_text (r : str * str) : str := fst r ++ match snd r with [] => [] | l => 58 :: l end.

Lemma split_ws_skip ws s : all_space ws -> split_ws_aux (ws ++ s) [] = split_ws_aux s [].
Proof. induction 1 as [|c ws Hc _ IH]; [reflexivity|]. cbn [app split_ws_aux]. now rewrite (space_true _ Hc). Qed.

Lemma split_ws_word w : forall s cur, no_space w -> split_ws_aux (w ++ s) cur = split_ws_aux s (rev w ++ cur).
Proof. induction w as [|c w IH]; intros s cur H; [reflexivity|]. inversion H as [|? ? Hc Hw]; subst.
  cbn [app split_ws_aux]. rewrite (not_space_false _ Hc), IH by assumption. cbn [rev]. now rewrite <- app_assoc. Qed.

Lemma ref_text_no_space r : ref_ok r -> no_space (ref_text r) /\ ref_text r <> [].
Proof.
  destruct r as [f l]. cbn. intros (Hne & Hf & Hl). unfold ref_text. cbn [fst snd]. split.
  - apply Forall_app. split; [assumption|]. destruct Hl as [[Hl1 Hl2]|[-> _]]; [|constructor].
    destruct l; [constructor|]. constructor.
    + unfold is_space. cbn [In]. intros H. repeat (destruct H as [H|H]; [discriminate H|]). destruct H.
    + eapply Forall_impl; [|exact Hl2]. intros c Hc. unfold c_decimal in Hc. unfold is_space. cbn [In].
      intros H. repeat (destruct H as [H|H]; [lia|]). destruct H.
  - destruct f; [congruence|discriminate].
Qed.

Lemma rev_ne {A} (a : list A) : a <> [] -> rev a <> [].
Proof. intros H E. apply H. rewrite <- (rev_involutive a), E. reflexivity. Qed.

Definition refs_text (refs : list (str * (str * str))) : str := flat_map (fun x => fst x ++ ref_text (snd x)) refs.

Lemma refs_body_text refs : refs_body refs = refs_text refs.
Proof. unfold refs_body, refs_text, ref_text. apply flat_map_ext. intros [ws [f l]]. reflexivity. Qed.

Lemma split_ws_refs_tail : forall refs cur, cur <> [] -> refs_ok false refs ->
  split_ws_aux (refs_text refs) cur = rev cur :: map (fun x => ref_text (snd x)) refs.
Proof.
  induction refs as [|[ws r] refs IH]; intros cur Hcur Hok.
  - cbn. destruct cur; [congruence|reflexivity].
  - cbn [refs_ok] in Hok. destruct Hok as (Hws & _ & Hne & Hr & Hrest).
    destruct (ref_text_no_space r Hr) as [Hns Hrne].
    unfold refs_text in *. cbn [flat_map fst snd]. specialize (Hne eq_refl).
    destruct ws as [|c ws]; [congruence|]. inversion Hws as [|? ? Hc Hws']; subst.
    rewrite <- !app_assoc. cbn [app split_ws_aux]. rewrite (space_true _ Hc).
    destruct cur as [|x cur']; [congruence|]. f_equal.
    rewrite split_ws_skip by assumption. rewrite split_ws_word by assumption. rewrite app_nil_r.
    rewrite IH; [now rewrite rev_involutive| |assumption].
    now apply rev_ne.
Qed.

Lemma split_ws_refs refs : refs <> [] -> refs_ok true refs ->
  split_ws (refs_body refs) = map (fun x => ref_text (snd x)) refs.
Proof.
  intros Hne Hok. rewrite refs_body_text. destruct refs as [|[ws r] refs]; [congruence|].
  cbn [refs_ok] in Hok. destruct Hok as (Hws & _ & _ & Hr & Hrest).
  destruct (ref_text_no_space r Hr) as [Hns Hrne].
  unfold split_ws, refs_text. cbn [flat_map fst snd]. rewrite <- app_assoc.
  rewrite split_ws_skip by assumption. rewrite split_ws_word by assumption. rewrite app_nil_r.
  fold (refs_text refs). rewrite split_ws_refs_tail; [now rewrite rev_involutive| |assumption].
  now apply rev_ne.
Qed.

Lemma rsplit_colon_rev_found a : forall b acc, ~ In 58 a ->
  rsplit_colon_rev (a ++ 58 :: b) acc = Some (rev b, rev a ++ acc).
Proof. induction a as [|x a IH]; intros b acc H; cbn [app rsplit_colon_rev].
  - reflexivity.
  - destruct (N.eqb_spec x 58) as [->|Hne]; [exfalso; apply H; now left|].
    rewrite IH by (intros Hin; apply H; now right). cbn [rev]. now rewrite <- app_assoc. Qed.

Lemma rsplit_colon_rev_none a : forall acc, ~ In 58 a -> rsplit_colon_rev a acc = None.
Proof. induction a as [|x a IH]; intros acc H; cbn [rsplit_colon_rev]; [reflexivity|].
  destruct (N.eqb_spec x 58) as [->|Hne]; [exfalso; apply H; now left|]. apply IH. intros Hin. apply H. now right. Qed.

Lemma occurrence_ref O r : ref_ok r -> occurrence O (ref_text r) = r.
Proof.
  destruct r as [f l]. cbn. intros (Hne & Hf & Hl). unfold occurrence, ref_text, rsplit_colon. cbn [fst snd].
  destruct Hl as [[Hl1 Hl2]|[-> Hnc]].
  - destruct l as [|d l']; [congruence|]. set (l := d :: l') in *.
    rewrite rev_app_distr. cbn [rev]. rewrite <- app_assoc. cbn [app].
    assert (Hnc : ~ In 58 (rev l)).
    { rewrite <- in_rev. intros Hin. rewrite Forall_forall in Hl2. specialize (Hl2 _ Hin). unfold c_decimal in Hl2. lia. }
    change (rev l' ++ [d]) with (rev l). rewrite rsplit_colon_rev_found by assumption.
    rewrite !rev_involutive, app_nil_r.
    assert (Hd : py_isdigit O l = true).
    { unfold py_isdigit. unfold l at 1. apply forallb_forall. intros c Hc. rewrite Forall_forall in Hl2. specialize (Hl2 _ Hc).
      unfold c_decimal in Hl2. unfold is_ascii_digit, between. replace (c <? 128) with true by lia. lia. }
    now rewrite Hd.
  - rewrite app_nil_r. rewrite rsplit_colon_rev_none; [reflexivity|]. now rewrite <- in_rev.
Qed.

Lemma refs_line O refs : refs <> [] -> refs_ok true refs ->
  map (occurrence O) (split_ws (refs_body refs)) = map snd refs.
Proof.
  intros Hne Hok. rewrite split_ws_refs by assumption. rewrite map_map.
  assert (Hall : Forall (fun x => ref_ok (snd x)) refs).
  { clear Hne. revert Hok. generalize true. induction refs as [|[ws r] refs IH]; intros b Hok; constructor.
    - cbn in Hok. tauto.
    - cbn [refs_ok] in Hok. apply (IH false). tauto. }
  apply map_ext_in. intros x Hx. rewrite Forall_forall in Hall. now apply occurrence_ref, Hall.
Qed.

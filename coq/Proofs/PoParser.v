(* The state machine of polib's _POFileParser on the tokens of a rendered catalog rebuilds the catalog. *)
From Coq Require Import List NArith Bool Lia ZifyBool Arith.
From I18n Require Import Lib.Outcome Model.PoUnescape Model.PoParser Spec.PoSyntax Proofs.PoUnescape Proofs.PoStrings.
Import ListNotations.
Local Open Scope N_scope.

(* ---------------------------------------------------------------- small facts *)
Definition quoted (c : chunk) : str := 34 :: chunk_text c ++ [34].

Lemma inner_quoted c : inner (quoted c) = chunk_text c.
Proof. unfold inner, quoted. cbn [tl]. apply removelast_last. Qed.

Lemma dict_get_set k v d : dict_get k (dict_set k v d) = Some v.
Proof. induction d as [|[k' v'] d IH]; cbn [dict_set dict_get].
  - now rewrite N.eqb_refl.
  - destruct (N.eqb_spec k k') as [->|Hne]; cbn [dict_get].
    + now rewrite N.eqb_refl.
    + destruct (N.eqb_spec k k'); [congruence|]. exact IH. Qed.

Lemma dict_set_set k v v' d : dict_set k v' (dict_set k v d) = dict_set k v' d.
Proof. induction d as [|[k' w] d IH]; cbn [dict_set].
  - now rewrite N.eqb_refl.
  - destruct (N.eqb_spec k k') as [->|Hne]; cbn [dict_set].
    + now rewrite N.eqb_refl.
    + destruct (N.eqb_spec k k'); [congruence|]. now rewrite IH. Qed.

Lemma dict_set_same k v d : dict_get k d = Some v -> dict_set k v d = d.
Proof. induction d as [|[k' w'] l IHl]; cbn; [discriminate|].
  destruct (N.eqb_spec k k'); [congruence|]. intros H. f_equal. now apply IHl. Qed.

Lemma get_set_field f v e : get_field f (set_field f v e) = Some v.
Proof. destruct e, f; reflexivity. Qed.
Lemma set_set_field f v v' e : set_field f v' (set_field f v e) = set_field f v' e.
Proof. destruct e, f; reflexivity. Qed.

Lemma with_warned_false p : with_warned p false = p.
Proof. destruct p. unfold with_warned. cbn. now rewrite orb_false_r. Qed.

(* ---------------------------------------------------------------- running a block of lines *)
Section Machine.
Variable O : oracles.
Hypothesis Hdec : ascii_compatible (o_dec O).

(* the lines [ls] take the machine from (last, p) to (last', p'), whatever follows and whatever the line number *)
Definition runs (ls : list lexed) (last : option bool) (p : pstate) (last' : option bool) (p' : pstate) : Prop :=
  forall r n, exists n', machine O (ls ++ r) n last p = machine O r n' last' p'.

Lemma runs_nil last p : runs [] last p last p.
Proof. intros r n. exists n. reflexivity. Qed.

Lemma runs_app l1 l2 a p b p1 c p2 : runs l1 a p b p1 -> runs l2 b p1 c p2 -> runs (l1 ++ l2) a p c p2.
Proof. intros H1 H2 r n. rewrite <- app_assoc. destruct (H1 (l2 ++ r) n) as [n1 ->]. apply H2. Qed.

Lemma runs_proc y obs h cur last p p' : process O y obs cur p = Some p' ->
  runs [LLine obs h (AProc y cur)] last p (Some h) p'.
Proof. intros H r n. exists (n + 1). cbn [app machine]. now rewrite H. Qed.

Lemma runs_prev_obsolete last p : runs [LPrevObsolete] last p (Some true) p.
Proof. intros r n. exists (n + 1). reflexivity. Qed.

Lemma unescape_chunk c : chunk_ok (o_dec O) c -> unescape (o_dec O) (inner (quoted c)) = Ok (chunk_value c, false).
Proof. intros H. rewrite inner_quoted. now apply unescape_roundtrip. Qed.

(* ---- continuation lines ---- *)
Definition cont_tok (obs h : bool) (c : chunk) : lexed := LLine obs h (AProc Ymc (quoted c)).

Lemma runs_conts_field obs h f : forall cs last p v,
  Forall (chunk_ok (o_dec O)) cs ->
  state_field (p_state p) = Some f -> p_state p <> Smx -> get_field f (p_cur p) = Some v ->
  runs (map (cont_tok obs h) cs) last p (match cs with [] => last | _ => Some h end)
       (with_cur p (set_field f (v ++ flat_map chunk_value cs) (p_cur p))).
Proof.
  induction cs as [|c cs IH]; intros last p v Hok Hsf Hnx Hget.
  - cbn [map flat_map]. rewrite app_nil_r.
    assert (E : with_cur p (set_field f v (p_cur p)) = p).
    { destruct p as [s e d hd i w]. unfold with_cur. cbn in *. f_equal. destruct e, f; cbn in *; congruence. }
    rewrite E. apply runs_nil.
  - inversion Hok as [|? ? Hc Hcs]; subst. cbn [map flat_map].
    change (cont_tok obs h c :: map (cont_tok obs h) cs) with ([cont_tok obs h c] ++ map (cont_tok obs h) cs).
    set (p1 := with_cur p (set_field f (v ++ chunk_value c) (p_cur p))).
    assert (Hstep : process O Ymc obs (quoted c) p = Some p1).
    { unfold process. assert (Hns : exists ns, next_state Ymc (p_state p) = Some ns).
      { destruct (p_state p); cbn in Hsf; try discriminate; cbn; eauto. }
      destruct Hns as [ns ->]. unfold handle. rewrite (unescape_chunk c Hc). cbn [caught].
      rewrite with_warned_false. destruct (p_state p) eqn:Es; try congruence; cbn in Hsf; try discriminate;
        inversion Hsf; subst; cbn [state_field]; rewrite Hget; reflexivity. }
    eapply runs_app; [apply runs_proc; exact Hstep|].
    assert (Hp1 : p_state p1 = p_state p) by reflexivity.
    specialize (IH (Some h) p1 (v ++ chunk_value c) Hcs).
    rewrite Hp1 in IH. specialize (IH Hsf Hnx).
    assert (Hg1 : get_field f (p_cur p1) = Some (v ++ chunk_value c)) by (unfold p1; cbn; apply get_set_field).
    specialize (IH Hg1).
    assert (E : with_cur p1 (set_field f ((v ++ chunk_value c) ++ flat_map chunk_value cs) (p_cur p1))
              = with_cur p (set_field f (v ++ chunk_value c ++ flat_map chunk_value cs) (p_cur p))).
    { unfold p1, with_cur. cbn. now rewrite set_set_field, app_assoc. }
    rewrite E in IH. destruct cs; exact IH.
Qed.

Lemma runs_conts_mx obs h : forall cs last p v,
  Forall (chunk_ok (o_dec O)) cs ->
  p_state p = Smx -> dict_get (p_index p) (pe_plural (p_cur p)) = Some v ->
  runs (map (cont_tok obs h) cs) last p (match cs with [] => last | _ => Some h end)
       (with_cur p (set_plural (dict_set (p_index p) (v ++ flat_map chunk_value cs) (pe_plural (p_cur p))) (p_cur p))).
Proof.
  induction cs as [|c cs IH]; intros last p v Hok Hst Hget.
  - cbn [map flat_map]. rewrite app_nil_r.
    assert (E : with_cur p (set_plural (dict_set (p_index p) v (pe_plural (p_cur p))) (p_cur p)) = p).
    { destruct p as [s e d hd i w]. unfold with_cur. cbn in *. f_equal. rewrite (dict_set_same _ _ _ Hget).
      destruct e; reflexivity. }
    rewrite E. apply runs_nil.
  - inversion Hok as [|? ? Hc Hcs]; subst. cbn [map flat_map].
    change (cont_tok obs h c :: map (cont_tok obs h) cs) with ([cont_tok obs h c] ++ map (cont_tok obs h) cs).
    set (p1 := with_cur p (set_plural (dict_set (p_index p) (v ++ chunk_value c) (pe_plural (p_cur p))) (p_cur p))).
    assert (Hstep : process O Ymc obs (quoted c) p = Some p1).
    { unfold process. rewrite Hst. cbn [next_state]. unfold handle. rewrite (unescape_chunk c Hc). cbn [caught].
      rewrite with_warned_false, Hst, Hget. reflexivity. }
    eapply runs_app; [apply runs_proc; exact Hstep|].
    assert (Hg1 : dict_get (p_index p1) (pe_plural (p_cur p1)) = Some (v ++ chunk_value c)).
    { unfold p1. destruct p as [s e d hd i w]; destruct e; cbn. apply dict_get_set. }
    specialize (IH (Some h) p1 (v ++ chunk_value c) Hcs Hst Hg1).
    assert (E : with_cur p1 (set_plural (dict_set (p_index p1) ((v ++ chunk_value c) ++ flat_map chunk_value cs) (pe_plural (p_cur p1))) (p_cur p1))
              = with_cur p (set_plural (dict_set (p_index p) (v ++ chunk_value c ++ flat_map chunk_value cs) (pe_plural (p_cur p))) (p_cur p))).
    { unfold p1. destruct p as [s e d hd i w]; destruct e; unfold with_cur; cbn. now rewrite dict_set_set, app_assoc. }
    rewrite E in IH. destruct cs; exact IH.
Qed.

(* ---------------------------------------------------------------- keyword lines *)
Definition kw_tok (obs h : bool) (y : sym) (c : chunk) : lexed := LLine obs h (AProc y (quoted c)).
Definition toks_sstring (obs h : bool) (y : sym) (s : sstring) : list lexed :=
  match s with [] => [] | c :: r => kw_tok obs h y c :: map (cont_tok obs h) r end.

Definition kw_field (y : sym) : option (field * st) :=
  match y with
  | Yct => Some (FCtxt, Sct) | Ymi => Some (FId, Smi) | Ymp => Some (FPlural, Smp) | Yms => Some (FStr, Sms)
  | Ypc => Some (FPrevCtxt, Spc) | Ypm => Some (FPrevId, Spm) | Ypp => Some (FPrevPlural, Spp)
  | _ => None
  end.

Definition kw_prep (y : sym) (obs : bool) (p : pstate) : pstate :=
  match y with
  | Ymp | Yms => p
  | Ymi => with_cur (flush_entry p) (set_obsolete obs (p_cur (flush_entry p)))
  | _ => flush_entry p
  end.

Lemma process_kw y obs c p f ns : kw_field y = Some (f, ns) -> next_state y (p_state p) = Some ns ->
  chunk_ok (o_dec O) c ->
  process O y obs (quoted c) p =
  Some (with_state (with_cur (kw_prep y obs p) (set_field f (chunk_value c) (p_cur (kw_prep y obs p)))) ns).
Proof.
  intros Hk Hn Hc. unfold process. rewrite Hn.
  destruct y; cbn in Hk; inversion Hk; subst; unfold handle; rewrite (unescape_chunk c Hc); cbn [caught option_map kw_prep];
    rewrite with_warned_false; reflexivity.
Qed.

Lemma state_field_kw y f ns : kw_field y = Some (f, ns) -> state_field ns = Some f /\ ns <> Smx.
Proof. destruct y; cbn; intros H; inversion H; subst; split; (reflexivity || discriminate). Qed.

Lemma runs_sstring y obs h s last p f ns : kw_field y = Some (f, ns) -> next_state y (p_state p) = Some ns ->
  sstring_ok (o_dec O) s ->
  runs (toks_sstring obs h y s) last p (Some h)
       (with_state (with_cur (kw_prep y obs p) (set_field f (sval s) (p_cur (kw_prep y obs p)))) ns).
Proof.
  intros Hk Hn [Hne Hok]. destruct s as [|c r]; [congruence|]. inversion Hok as [|? ? Hc Hr]; subst.
  cbn [toks_sstring]. change (kw_tok obs h y c :: map (cont_tok obs h) r) with ([kw_tok obs h y c] ++ map (cont_tok obs h) r).
  destruct (state_field_kw _ _ _ Hk) as [Hsf Hnx].
  set (p1 := with_state (with_cur (kw_prep y obs p) (set_field f (chunk_value c) (p_cur (kw_prep y obs p)))) ns).
  eapply runs_app; [apply runs_proc; apply (process_kw y obs c p f ns Hk Hn Hc)|]. fold p1.
  pose proof (runs_conts_field obs h f r (Some h) p1 (chunk_value c) Hr Hsf Hnx (get_set_field _ _ _)) as H.
  assert (E : with_cur p1 (set_field f (chunk_value c ++ flat_map chunk_value r) (p_cur p1))
            = with_state (with_cur (kw_prep y obs p) (set_field f (sval (c :: r)) (p_cur (kw_prep y obs p)))) ns).
  { unfold p1, with_cur, with_state. cbn. now rewrite set_set_field. }
  rewrite E in H. destruct r; exact H.
Qed.

(* ---- msgstr[i] ---- *)
Definition idx_digits (i : N) : str := if i <? 10 then [48 + i] else [48 + i / 10; 48 + i mod 10].   (* decimal, i < 100 *)
Definition mx_cur (i : N) (ws : str) (c : chunk) : str := k_msgstr_br ++ idx_digits i ++ [93] ++ ws ++ quoted c.
Definition toks_mx (obs : bool) (ws : str) (i : N) (s : sstring) : list lexed :=
  match s with [] => [] | c :: r => LLine obs false (AProc Ymx (mx_cur i ws c)) :: map (cont_tok obs false) r end.

Lemma find_quote_app pre s : ~ In 34 pre -> find_quote (pre ++ 34 :: s) = Some (length pre).
Proof. induction pre as [|a pre IH]; intros H; cbn [app find_quote length].
  - reflexivity.
  - destruct (N.eqb_spec a 34); [exfalso; apply H; left; auto|]. rewrite IH; [reflexivity|]. intros Hin. apply H. now right. Qed.

Lemma process_mx obs i ws c p : i < 10 -> ~ In 34 ws -> chunk_ok (o_dec O) c ->
  next_state Ymx (p_state p) = Some Smx ->
  process O Ymx obs (mx_cur i ws c) p =
  Some (with_state (with_index (with_cur p (set_plural (dict_set i (chunk_value c) (pe_plural (p_cur p))) (p_cur p))) i) Smx).
Proof.
  intros Hi Hws Hc Hn. unfold process. rewrite Hn. unfold handle.
  assert (Hd : idx_digits i = [48 + i]) by (unfold idx_digits; replace (i <? 10) with true by lia; reflexivity).
  assert (H7 : nth_error (mx_cur i ws c) 7 = Some (48 + i)) by (unfold mx_cur; rewrite Hd; reflexivity). rewrite H7.
  assert (Hint : py_int_char O (48 + i) = Some i).
  { unfold py_int_char, is_ascii_digit, between. replace (48 + i <? 128) with true by lia.
    replace ((48 <=? 48 + i) && (48 + i <=? 57)) with true by lia. f_equal. lia. }
  rewrite Hint.
  set (pre := k_msgstr_br ++ [48 + i; 93] ++ ws).
  assert (Hcur : mx_cur i ws c = pre ++ 34 :: (chunk_text c ++ [34])).
  { unfold mx_cur, quoted, pre. rewrite Hd. rewrite <- !app_assoc. reflexivity. }
  assert (Hpre : ~ In 34 pre).
  { unfold pre. rewrite !in_app_iff. intros [H|[H|H]]; [| |contradiction].
    - unfold k_msgstr_br, k_msgstr in H. cbn in H. repeat (destruct H as [H|H]; [discriminate H|]). destruct H.
    - cbn [In] in H. destruct H as [H|[H|H]]; [lia|discriminate H|destruct H]. }
  rewrite Hcur, (find_quote_app pre _ Hpre).
  assert (Hval : removelast (drop (S (length pre)) (pre ++ 34 :: (chunk_text c ++ [34]))) = chunk_text c).
  { unfold drop. change (pre ++ 34 :: (chunk_text c ++ [34])) with (pre ++ [34] ++ (chunk_text c ++ [34])).
    rewrite app_assoc. replace (S (length pre)) with (length (pre ++ [34])) by (rewrite app_length; cbn; lia).
    rewrite skipn_app, skipn_all, Nat.sub_diag. cbn [skipn app]. apply removelast_last. }
  rewrite Hval.
  rewrite (unescape_roundtrip _ Hdec _ Hc). cbn [caught]. rewrite with_warned_false. reflexivity.
Qed.

Lemma runs_mx obs ws i s last p : i < 10 -> ~ In 34 ws -> sstring_ok (o_dec O) s ->
  next_state Ymx (p_state p) = Some Smx ->
  runs (toks_mx obs ws i s) last p (Some false)
       (with_state (with_index (with_cur p (set_plural (dict_set i (sval s) (pe_plural (p_cur p))) (p_cur p))) i) Smx).
Proof.
  intros Hi Hws [Hne Hok] Hn. destruct s as [|c r]; [congruence|]. inversion Hok as [|? ? Hc Hr]; subst.
  cbn [toks_mx].
  change (LLine obs false (AProc Ymx (mx_cur i ws c)) :: map (cont_tok obs false) r)
    with ([LLine obs false (AProc Ymx (mx_cur i ws c))] ++ map (cont_tok obs false) r).
  set (p1 := with_state (with_index (with_cur p (set_plural (dict_set i (chunk_value c) (pe_plural (p_cur p))) (p_cur p))) i) Smx).
  eapply runs_app; [apply runs_proc; apply (process_mx obs i ws c p Hi Hws Hc Hn)|]. fold p1.
  assert (Hg : dict_get (p_index p1) (pe_plural (p_cur p1)) = Some (chunk_value c)).
  { unfold p1. destruct p as [s0 e d hd i0 w]; destruct e; cbn. apply dict_get_set. }
  pose proof (runs_conts_mx obs false r (Some false) p1 (chunk_value c) Hr eq_refl Hg) as H.
  assert (E : with_cur p1 (set_plural (dict_set (p_index p1) (chunk_value c ++ flat_map chunk_value r) (pe_plural (p_cur p1))) (p_cur p1))
            = with_state (with_index (with_cur p (set_plural (dict_set i (sval (c :: r)) (pe_plural (p_cur p))) (p_cur p))) i) Smx).
  { unfold p1. destruct p as [s0 e d hd i0 w]; destruct e; unfold with_cur, with_state, with_index; cbn. now rewrite dict_set_set. }
  rewrite E in H. destruct r; exact H.
Qed.


(* ---------------------------------------------------------------- comment lines *)
Definition tc_cur (t : str) : str := 35 :: match t with [] => [] | _ => 32 :: t end.

Definition prev_sym (k : pkind) : sym := match k with QCtxt => Ypc | QId => Ypm | QPlural => Ypp end.
Definition prev_field (k : pkind) : field := match k with QCtxt => FPrevCtxt | QId => FPrevId | QPlural => FPrevPlural end.
Definition prev_state (k : pkind) : st := match k with QCtxt => Spc | QId => Spm | QPlural => Spp end.

Definition toks_cline (cl : cline) : list lexed :=
  match cl with
  | CTrans t => [LLine false true (AProc Ytc (tc_cur t))]
  | CExtr sep t => [LLine false true (AProc Ygc (35 :: 46 :: sep :: t))]
  | CRefs sep refs => [LLine false true (AProc Yoc (35 :: 58 :: sep :: refs_body refs))]
  | CFlags sep items => [LLine false true (AProc Yfl (35 :: 44 :: sep :: flags_body items))]
  | CPrev k s => toks_sstring false true (prev_sym k) s
  end.

Definition apply_cline (cl : cline) (e : po_entry) : po_entry :=
  match cl with
  | CTrans t => set_tcomment (join_nl (pe_tcomment e) t) e
  | CExtr _ t => set_comment (join_nl (pe_comment e) t) e
  | CRefs _ refs => set_occ (pe_occ e ++ map snd refs) e
  | CFlags _ items => set_flags (pe_flags e ++ map flag_of items) e
  | CPrev k s => set_field (prev_field k) (sval s) e
  end.

Definition cline_state (cl : cline) : st :=
  match cl with CTrans _ => Stc | CExtr _ _ => Sgc | CRefs _ _ => Soc | CFlags _ _ => Sfl | CPrev k _ => prev_state k end.

Definition flags_clean (e : po_entry) : Prop := Forall flag_clean (pe_flags e).

(* states from which a comment line may start or continue an po_entry *)
Definition comment_ok (cl : cline) (s : st) : Prop :=
  match cl with CTrans _ => s <> Sst /\ s <> She /\ s <> Sct | _ => True end.

Lemma lstrip_hash_tc t : (let x := lstrip_by (N.eqb HASH) (tc_cur t) in if startswith [32] x then drop 1 x else x) = t.
Proof. unfold tc_cur. destruct t as [|c t]; [reflexivity|]. cbn. reflexivity. Qed.

Lemma runs_cline cl last p : cline_ok (o_dec O) cl -> comment_ok cl (p_state p) -> flags_clean (p_cur (flush_entry p)) ->
  runs (toks_cline cl) last p (Some true)
       (with_state (with_cur (flush_entry p) (apply_cline cl (p_cur (flush_entry p)))) (cline_state cl)).
Proof.
  intros Hok Hst Hfl. destruct cl as [t | sep t | sep refs | sep items | k s]; cbn [toks_cline apply_cline cline_state].
  - apply runs_proc. unfold process. destruct Hst as (H1 & H2 & H3).
    assert (Hn : next_state Ytc (p_state p) = Some Stc) by (destruct (p_state p); try congruence; reflexivity).
    rewrite Hn. destruct t as [|c t']; reflexivity.
  - apply runs_proc. unfold process. cbn [next_state]. unfold handle. reflexivity.
  - apply runs_proc. unfold process. cbn [next_state]. unfold handle.
    destruct Hok as (_ & Hne & Hr). change (drop 3 (35 :: 58 :: sep :: refs_body refs)) with (refs_body refs).
    rewrite (refs_line O refs Hne Hr). reflexivity.
  - apply runs_proc. unfold process. cbn [next_state]. unfold handle.
    destruct Hok as (_ & Hi & [x [Hx _]] & _). change (drop 3 (35 :: 44 :: sep :: flags_body items)) with (flags_body items).
    assert (Hne : items <> []) by (destruct items; [destruct Hx|discriminate]).
    rewrite (flags_line items Hi Hne). rewrite flags_setter_clean; [reflexivity|].
    apply Forall_app. split; [exact Hfl|]. apply Forall_forall. intros f Hf. apply in_map_iff in Hf.
    destruct Hf as (y & <- & Hy). rewrite Forall_forall in Hi. now apply item_flag_clean, Hi.
  - assert (Hk : kw_field (prev_sym k) = Some (prev_field k, prev_state k)) by (destruct k; reflexivity).
    assert (Hn : next_state (prev_sym k) (p_state p) = Some (prev_state k)) by (destruct k; reflexivity).
    pose proof (runs_sstring (prev_sym k) false true s last p _ _ Hk Hn Hok) as H.
    assert (E : kw_prep (prev_sym k) false p = flush_entry p) by (destruct k; reflexivity).
    now rewrite E in H.
Qed.

Lemma apply_cline_clean cl e : cline_ok (o_dec O) cl -> flags_clean e -> flags_clean (apply_cline cl e).
Proof.
  intros Hok H. unfold flags_clean in *. destruct cl as [t | sep t | sep refs | sep items | k s]; destruct e; cbn in *; try assumption.
  - apply Forall_app. split; [assumption|]. destruct Hok as (_ & Hi & _). apply Forall_forall. intros f Hf.
    apply in_map_iff in Hf. destruct Hf as (y & <- & Hy). rewrite Forall_forall in Hi. now apply item_flag_clean, Hi.
  - destruct k; assumption.
Qed.

Definition comment_state (s : st) : Prop :=
  s = Stc \/ s = Sgc \/ s = Soc \/ s = Sfl \/ s = Spc \/ s = Spm \/ s = Spp.

Lemma cline_state_comment cl : comment_state (cline_state cl).
Proof. unfold comment_state. destruct cl as [| | | |k ?]; cbn; try tauto. destruct k; cbn; tauto. Qed.

Lemma flush_comment_state p : comment_state (p_state p) -> flush_entry p = p.
Proof. unfold comment_state, flush_entry. intros H. destruct (p_state p); try reflexivity; exfalso; intuition discriminate. Qed.

Lemma comment_ok_comment_state cl s : comment_state s -> comment_ok cl s.
Proof. unfold comment_state. intros H. destruct cl; cbn; try exact I. repeat split; intros ->; intuition discriminate. Qed.

(* a whole comment block, started in state p: the po_entry under construction is (flush_entry p)'s *)
Lemma runs_pre : forall pre lst p, pre <> [] -> Forall (cline_ok (o_dec O)) pre ->
  comment_ok (hd (CTrans []) pre) (p_state p) -> flags_clean (p_cur (flush_entry p)) ->
  runs (flat_map toks_cline pre) lst p (Some true)
       (with_state (with_cur (flush_entry p) (fold_left (fun e cl => apply_cline cl e) pre (p_cur (flush_entry p))))
                   (cline_state (last pre (CTrans [])))).
Proof.
  induction pre as [|cl pre IH]; intros last0 p Hne Hok Hst Hfl; [congruence|].
  inversion Hok as [|? ? Hcl Hpre]; subst. cbn [flat_map fold_left hd] in *.
  set (p1 := with_state (with_cur (flush_entry p) (apply_cline cl (p_cur (flush_entry p)))) (cline_state cl)).
  pose proof (runs_cline cl last0 p Hcl Hst Hfl) as H1. fold p1 in H1.
  destruct pre as [|cl2 pre'].
  - cbn [flat_map fold_left last]. rewrite app_nil_r. exact H1.
  - assert (Hcs : comment_state (p_state p1)) by apply cline_state_comment.
    assert (Hf1 : flush_entry p1 = p1) by now apply flush_comment_state.
    specialize (IH (Some true) p1 ltac:(discriminate) Hpre).
    rewrite Hf1 in IH.
    specialize (IH (comment_ok_comment_state _ _ Hcs)).
    assert (Hc1 : flags_clean (p_cur p1)) by (unfold p1; cbn; now apply apply_cline_clean).
    specialize (IH Hc1).
    eapply runs_app; [exact H1|]. exact IH.
Qed.


(* ---------------------------------------------------------------- plural forms *)
Fixpoint toks_plurals (obs : bool) (ws : str) (i : N) (l : list sstring) : list lexed :=
  match l with [] => [] | s :: r => toks_mx obs ws i s ++ toks_plurals obs ws (i + 1) r end.

Definition dict_add (d : list (N * str)) (kv : N * str) := dict_set (fst kv) (snd kv) d.

Lemma runs_plurals obs ws : ~ In 34 ws -> forall l i lst q, l <> [] -> Forall (sstring_ok (o_dec O)) l ->
  N.of_nat (length l) + i <= 10 -> next_state Ymx (p_state q) = Some Smx ->
  exists j, runs (toks_plurals obs ws i l) lst q (Some false)
     (mkP Smx (set_plural (fold_left dict_add (number_from i (map sval l)) (pe_plural (p_cur q))) (p_cur q))
          (p_done q) (p_header q) j (p_warned q)).
Proof.
  intros Hws. induction l as [|s l IH]; intros i lst q Hne Hok Hlen Hn; [congruence|].
  inversion Hok as [|? ? Hs Hl]; subst. cbn [toks_plurals map number_from fold_left length] in *.
  assert (Hi : i < 10) by lia.
  pose proof (runs_mx obs ws i s lst q Hi Hws Hs Hn) as H1.
  set (q1 := with_state (with_index (with_cur q (set_plural (dict_set i (sval s) (pe_plural (p_cur q))) (p_cur q))) i) Smx) in *.
  destruct l as [|s2 l'].
  - exists i. cbn [toks_plurals map number_from fold_left]. rewrite app_nil_r. exact H1.
  - destruct (IH (i + 1) (Some false) q1 ltac:(discriminate) Hl ltac:(cbn [length] in *; lia) eq_refl) as [j Hj].
    exists j. eapply runs_app; [exact H1|].
    assert (E : set_plural (fold_left dict_add (number_from (i + 1) (map sval (s2 :: l'))) (pe_plural (p_cur q1))) (p_cur q1)
              = set_plural (fold_left dict_add (number_from (i + 1) (map sval (s2 :: l'))) (dict_add (pe_plural (p_cur q)) (i, sval s))) (p_cur q)).
    { unfold q1. destruct q as [s0 e d hd i0 w]; destruct e; reflexivity. }
    rewrite E in Hj. exact Hj.
Qed.

Lemma dict_set_fresh k v d : Forall (fun kv => fst kv < k) d -> dict_set k v d = d ++ [(k, v)].
Proof. induction 1 as [|[k' v'] d Hk _ IH]; [reflexivity|]. cbn [dict_set app]. cbn in Hk.
  destruct (N.eqb_spec k k'); [lia|]. now rewrite IH. Qed.

Lemma fold_dict_add : forall l i d, Forall (fun kv : N * str => fst kv < i) d ->
  fold_left dict_add (number_from i l) d = d ++ number_from i l.
Proof.
  induction l as [|v l IH]; intros i d Hd; cbn [number_from fold_left]; [now rewrite app_nil_r|].
  unfold dict_add at 2. cbn [fst snd]. rewrite dict_set_fresh by assumption.
  rewrite IH.
  - now rewrite <- app_assoc.
  - apply Forall_app. split; [eapply Forall_impl; [|exact Hd]; intros kv; cbn; lia|]. constructor; [cbn; lia|constructor].
Qed.


(* ---------------------------------------------------------------- one po_entry *)
Definition is_prev (cl : cline) : bool := match cl with CPrev _ _ => true | _ => false end.
(* the #~| lines of an obsolete po_entry are dropped by the parser (they are LPrevObsolete tokens, see [ext]) *)
Definition eff_pre (e : sentry) : list cline :=
  if s_obsolete e then filter (fun cl => negb (is_prev cl)) (s_pre e) else s_pre e.

Definition toks_strs (obs : bool) (ws : str) (e : sentry) : list lexed :=
  match s_plural e with
  | None => flat_map (toks_sstring obs false Yms) (s_strs e)
  | Some pl => toks_sstring obs false Ymp pl ++ toks_plurals obs ws 0 (s_strs e)
  end.

Definition toks_entry (ws : str) (e : sentry) : list lexed :=
  let obs := s_obsolete e in
  flat_map toks_cline (eff_pre e) ++
  match s_ctxt e with Some s => toks_sstring obs false Yct s | None => [] end ++
  toks_sstring obs false Ymi (s_id e) ++ toks_strs obs ws e.

Definition build_msg (e : sentry) (en : po_entry) : po_entry :=
  let en := match s_ctxt e with Some s => set_field FCtxt (sval s) en | None => en end in
  let en := set_field FId (sval (s_id e)) (set_obsolete (s_obsolete e) en) in
  match s_plural e with
  | None => match s_strs e with s :: _ => set_field FStr (sval s) en | [] => en end
  | Some pl => set_plural (number_from 0 (map sval (s_strs e))) (set_field FPlural (sval pl) en)
  end.
Definition build (e : sentry) : po_entry :=
  build_msg e (fold_left (fun en cl => apply_cline cl en) (eff_pre e) new_entry).

(* the machine is between two entries *)
Definition at_boundary (p : pstate) : Prop :=
  (p_state p = Sms \/ p_state p = Smx) \/ ((p_state p = Sst \/ p_state p = She) /\ p_cur p = new_entry).
Definition done_after (p : pstate) : list po_entry :=
  match p_state p with Sms | Smx => p_cur p :: p_done p | _ => p_done p end.

Lemma flush_boundary p : at_boundary p ->
  flush_entry p = mkP (p_state p) new_entry (done_after p) (p_header p) (p_index p) (p_warned p).
Proof. unfold at_boundary, flush_entry, done_after. intros [[H|H]|[[H|H] Hc]]; rewrite H; try reflexivity;
  destruct p; cbn in *; subst; reflexivity. Qed.

Lemma eff_pre_ok e : Forall (cline_ok (o_dec O)) (s_pre e) -> Forall (cline_ok (o_dec O)) (eff_pre e).
Proof. intros H. unfold eff_pre. destruct (s_obsolete e); [|assumption]. rewrite Forall_forall in *.
  intros x Hx. apply filter_In in Hx. now apply H. Qed.

Lemma fold_clean pre : forall en, Forall (cline_ok (o_dec O)) pre -> flags_clean en ->
  flags_clean (fold_left (fun en cl => apply_cline cl en) pre en).
Proof. induction pre as [|cl pre IH]; intros en Hok Hc; [assumption|]. inversion Hok; subst. cbn [fold_left].
  apply IH; [assumption|]. now apply apply_cline_clean. Qed.

Lemma runs_entry ws e lst p : ~ In 34 ws -> sentry_ok (o_dec O) e -> (length (s_strs e) <= 10)%nat ->
  at_boundary p ->
  (p_state p = Sst \/ p_state p = She -> match eff_pre e with CTrans _ :: _ => False | _ => True end) ->
  exists j s', (s' = Sms \/ s' = Smx) /\
    runs (toks_entry ws e) lst p (Some false) (mkP s' (build e) (done_after p) (p_header p) j (p_warned p)).
Proof.
  intros Hws (Hpre & Hctx & Hid & Hstrs) Hlen Hb Hfirst.
  pose proof (eff_pre_ok e Hpre) as Hpre'.
  set (E := fold_left (fun en cl => apply_cline cl en) (eff_pre e) new_entry).
  (* after the comment block *)
  assert (Hq : exists q lq, runs (flat_map toks_cline (eff_pre e)) lst p lq q /\
            flush_entry q = mkP (p_state q) E (done_after p) (p_header p) (p_index p) (p_warned p) /\
            next_state Yct (p_state q) = Some Sct /\ next_state Ymi (p_state q) = Some Smi).
  { destruct (eff_pre e) as [|cl pre] eqn:Epre.
    - exists p, lst. split; [apply runs_nil|]. split; [unfold E; cbn [fold_left]; now apply flush_boundary|].
      destruct Hb as [[H|H]|[[H|H] _]]; rewrite H; split; reflexivity.
    - assert (Hok1 : comment_ok (hd (CTrans []) (cl :: pre)) (p_state p)).
      { cbn [hd]. destruct cl; cbn; try exact I. destruct Hb as [[H|H]|[H _]].
        - rewrite H. repeat split; discriminate.
        - rewrite H. repeat split; discriminate.
        - exfalso. exact (Hfirst H). }
      assert (Hcl : flags_clean (p_cur (flush_entry p))) by (rewrite flush_boundary by assumption; constructor).
      pose proof (runs_pre (cl :: pre) lst p ltac:(discriminate) Hpre' Hok1 Hcl) as H.
      eexists _, _. split; [exact H|].
      pose proof (cline_state_comment (last (cl :: pre) (CTrans []))) as Hcs.
      split.
      + rewrite flush_comment_state by exact Hcs. rewrite flush_boundary by assumption. reflexivity.
      + cbn [p_state with_state]. unfold comment_state in Hcs.
        destruct Hcs as [H1|[H1|[H1|[H1|[H1|[H1|H1]]]]]]; rewrite H1; split; reflexivity. }
  destruct Hq as (q & lq & Hrun_pre & Hfq & Hnct & Hnmi).
  set (obs := s_obsolete e) in *.
  (* msgctxt *)
  set (E1 := match s_ctxt e with Some s => set_field FCtxt (sval s) E | None => E end).
  assert (Hq2 : exists q2 l2, runs (match s_ctxt e with Some s => toks_sstring obs false Yct s | None => [] end) lq q l2 q2 /\
            flush_entry q2 = mkP (p_state q2) E1 (done_after p) (p_header p) (p_index p) (p_warned p) /\
            next_state Ymi (p_state q2) = Some Smi).
  { unfold E1. destruct (s_ctxt e) as [s|].
    - pose proof (runs_sstring Yct obs false s lq q FCtxt Sct eq_refl Hnct Hctx) as H. cbn [kw_prep] in H.
      eexists _, _. split; [exact H|]. rewrite Hfq. split; reflexivity.
    - exists q, lq. split; [apply runs_nil|]. split; assumption. }
  destruct Hq2 as (q2 & l2 & Hrun_ctx & Hfq2 & Hnmi2).
  (* msgid *)
  set (E2 := set_field FId (sval (s_id e)) (set_obsolete obs E1)).
  pose proof (runs_sstring Ymi obs false (s_id e) l2 q2 FId Smi eq_refl Hnmi2 Hid) as Hrun_id.
  cbn [kw_prep] in Hrun_id. rewrite Hfq2 in Hrun_id. cbn [p_cur with_cur] in Hrun_id.
  set (q3 := with_state (with_cur (mkP (p_state q2) E1 (done_after p) (p_header p) (p_index p) (p_warned p)) E2) Smi).
  assert (Hrun_id' : runs (toks_sstring obs false Ymi (s_id e)) l2 q2 (Some false) q3) by exact Hrun_id.
  clear Hrun_id.
  (* msgstr / plural forms *)
  assert (Hfin : exists j s', (s' = Sms \/ s' = Smx) /\
     runs (toks_strs obs ws e) (Some false) q3 (Some false) (mkP s' (build e) (done_after p) (p_header p) j (p_warned p))).
  { unfold toks_strs, build, build_msg. fold E. fold obs. fold E1. fold E2.
    destruct (s_plural e) as [pl|].
    - destruct Hstrs as (Hpl & Hne & Hall).
      pose proof (runs_sstring Ymp obs false pl (Some false) q3 FPlural Smp eq_refl eq_refl Hpl) as H1. cbn [kw_prep] in H1.
      set (q4 := with_state (with_cur q3 (set_field FPlural (sval pl) (p_cur q3))) Smp) in *.
      destruct (runs_plurals obs ws Hws (s_strs e) 0 (Some false) q4 Hne Hall ltac:(lia) eq_refl) as [j Hj].
      exists j, Smx. split; [now right|]. eapply runs_app; [exact H1|].
      assert (Ed : fold_left dict_add (number_from 0 (map sval (s_strs e))) (pe_plural (p_cur q4)) = number_from 0 (map sval (s_strs e))).
      { assert (Ep : pe_plural (p_cur q4) = []).
        { unfold q4, q3, E2, E1, E. cbn [p_cur with_cur with_state].
          assert (Hpl0 : forall en, pe_plural en = [] -> pe_plural (set_field FPlural (sval pl) (set_field FId (sval (s_id e)) (set_obsolete obs en))) = []) by (intros en; destruct en; cbn; auto).
          assert (Hc0 : forall f v en, pe_plural (set_field f v en) = pe_plural en) by (intros f v en; destruct en, f; reflexivity).
          apply Hpl0. destruct (s_ctxt e); [rewrite Hc0|].
          all: clear; generalize (eff_pre e); intros l; assert (G : forall en, pe_plural en = [] -> pe_plural (fold_left (fun en cl => apply_cline cl en) l en) = []);
            [induction l as [|cl l IH]; intros en He; [assumption|]; cbn [fold_left]; apply IH; destruct cl as [| | | |k ?]; destruct en; cbn in *; try assumption; destruct k; assumption | apply G; reflexivity]. }
        rewrite Ep. rewrite fold_dict_add by constructor. reflexivity. }
      rewrite Ed in Hj. exact Hj.
    - destruct Hstrs as (s & Hs & Hsok). rewrite Hs. cbn [flat_map]. rewrite app_nil_r.
      pose proof (runs_sstring Yms obs false s (Some false) q3 FStr Sms eq_refl eq_refl Hsok) as H1. cbn [kw_prep] in H1.
      exists (p_index p), Sms. split; [now left|]. exact H1. }
  destruct Hfin as (j & s' & Hs' & Hrun_str).
  exists j, s'. split; [assumption|]. unfold toks_entry. fold obs.
  eapply runs_app; [exact Hrun_pre|]. eapply runs_app; [exact Hrun_ctx|]. eapply runs_app; [exact Hrun_id'|]. exact Hrun_str.
Qed.


(* ---------------------------------------------------------------- the catalog *)
Definition toks_header (hs : list str) : list lexed := map (fun t => LLine false true (AProc Ytc (tc_cur t))) hs.
Definition toks_catalog (ws : str) (c : scatalog) : list lexed :=
  toks_header (sc_header c) ++ flat_map (toks_entry ws) (sc_entries c).

Lemma drop2_tc t : drop 2 (tc_cur t) = t.
Proof. destruct t; reflexivity. Qed.

Lemma runs_header : forall hs lst p, p_state p = Sst \/ p_state p = She ->
  runs (toks_header hs) lst p (match hs with [] => lst | _ => Some true end)
       (mkP (match hs with [] => p_state p | _ => She end) (p_cur p) (p_done p) (fold_left join_line hs (p_header p)) (p_index p) (p_warned p)).
Proof.
  induction hs as [|t hs IH]; intros lst p Hs.
  - cbn. destruct p. apply runs_nil.
  - cbn [toks_header map fold_left].
    change (LLine false true (AProc Ytc (tc_cur t)) :: map (fun t0 => LLine false true (AProc Ytc (tc_cur t0))) hs)
      with ([LLine false true (AProc Ytc (tc_cur t))] ++ toks_header hs).
    set (p1 := mkP She (p_cur p) (p_done p) (join_line (p_header p) t) (p_index p) (p_warned p)).
    assert (H1 : process O Ytc false (tc_cur t) p = Some p1).
    { unfold process. assert (Hn : next_state Ytc (p_state p) = Some She) by (destruct Hs as [H|H]; rewrite H; reflexivity).
      rewrite Hn. unfold handle. rewrite drop2_tc. reflexivity. }
    eapply runs_app; [apply runs_proc; exact H1|].
    specialize (IH (Some true) p1 (or_intror eq_refl)). destruct hs; exact IH.
Qed.

Lemma runs_entries ws : ~ In 34 ws -> forall es lst p,
  Forall (sentry_ok (o_dec O)) es -> Forall (fun e => (length (s_strs e) <= 10)%nat) es ->
  at_boundary p ->
  (p_state p = Sst \/ p_state p = She -> match es with e :: _ => match eff_pre e with CTrans _ :: _ => False | _ => True end | [] => True end) ->
  exists p' lst', runs (flat_map (toks_entry ws) es) lst p lst' p' /\ at_boundary p' /\
    p_header p' = p_header p /\ p_warned p' = p_warned p /\
    rev (done_after p') = rev (done_after p) ++ map build es /\
    (es <> [] -> lst' = Some false /\ (p_state p' = Sms \/ p_state p' = Smx)) /\ (es = [] -> lst' = lst /\ p' = p).
Proof.
  intros Hws. induction es as [|e es IH]; intros lst p Hok Hlen Hb Hfirst.
  - exists p, lst. cbn [flat_map map]. rewrite app_nil_r. repeat split; try assumption; try congruence. apply runs_nil.
  - inversion Hok as [|? ? He Hes]; subst. inversion Hlen as [|? ? Hle Hles]; subst.
    destruct (runs_entry ws e lst p Hws He Hle Hb Hfirst) as (j & s' & Hs' & Hrun).
    set (p1 := mkP s' (build e) (done_after p) (p_header p) j (p_warned p)) in *.
    assert (Hb1 : at_boundary p1) by (left; exact Hs').
    assert (Hf1 : p_state p1 = Sst \/ p_state p1 = She -> match es with e0 :: _ => match eff_pre e0 with CTrans _ :: _ => False | _ => True end | [] => True end).
    { cbn. intros [H|H]; destruct Hs' as [-> | ->]; discriminate. }
    destruct (IH (Some false) p1 Hes Hles Hb1 Hf1) as (p' & lst' & Hrun' & Hb' & Hh & Hw & Hd & Hne & Hnil).
    exists p', lst'. cbn [flat_map map]. split; [eapply runs_app; eassumption|].
    split; [assumption|]. split; [exact Hh|]. split; [exact Hw|]. split.
    + rewrite Hd. assert (Ed : done_after p1 = build e :: done_after p) by (unfold done_after, p1; cbn; destruct Hs' as [-> | ->]; reflexivity).
      rewrite Ed. cbn [rev]. now rewrite <- app_assoc.
    + split; [|discriminate]. intros _. destruct es as [|e2 es'].
      * destruct (Hnil eq_refl) as [-> ->]. split; [reflexivity|exact Hs'].
      * apply Hne. discriminate.
Qed.

Lemma machine_catalog ws c : ~ In 34 ws ->
  Forall (sentry_ok (o_dec O)) (sc_entries c) -> Forall (fun e => (length (s_strs e) <= 10)%nat) (sc_entries c) ->
  match sc_entries c with e :: _ => match eff_pre e with CTrans _ :: _ => False | _ => True end | [] => True end ->
  run_machine O (toks_catalog ws c) = Ok (mkPo (fold_left join_line (sc_header c) []) (map build (sc_entries c)) false).
Proof.
  intros Hws Hok Hlen Hfirst. unfold run_machine, toks_catalog.
  pose proof (runs_header (sc_header c) None init_pstate (or_introl eq_refl)) as Hh.
  set (p0 := mkP (match sc_header c with [] => p_state init_pstate | _ => She end) (p_cur init_pstate) (p_done init_pstate)
                 (fold_left join_line (sc_header c) (p_header init_pstate)) (p_index init_pstate) (p_warned init_pstate)) in *.
  assert (Hb0 : at_boundary p0) by (right; split; [destruct (sc_header c); [left|right]; reflexivity|reflexivity]).
  destruct (runs_entries ws Hws (sc_entries c) (match sc_header c with [] => None | _ => Some true end) p0 Hok Hlen Hb0 (fun _ => Hfirst))
    as (p' & lst' & Hrun & Hb' & Hhd & Hw & Hd & Hne & Hnil).
  pose proof (runs_app _ _ _ _ _ _ _ _ Hh Hrun) as Hall.
  destruct (Hall [] 0) as [n' Hm]. rewrite app_nil_r in Hm. rewrite Hm. cbn [machine obind].
  rewrite Hhd, Hw. cbn [p_header p_warned p0 init_pstate]. f_equal. f_equal.
  destruct (sc_entries c) as [|e es] eqn:Ees.
  - destruct (Hnil eq_refl) as [-> ->]. cbn [map]. destruct (sc_header c); reflexivity.
  - destruct (Hne ltac:(discriminate)) as [-> Hst].
    assert (Ed : done_after p' = p_cur p' :: p_done p') by (unfold done_after; destruct Hst as [-> | ->]; reflexivity).
    rewrite <- Ed, Hd. assert (E0 : done_after p0 = []) by (unfold done_after, p0; cbn; destruct (sc_header c); reflexivity).
    rewrite E0. reflexivity.
Qed.

End Machine.

(* ---------------------------------------------------------------- what was built is the catalog *)
Definition to_entry (c : centry) : po_entry :=
  mkEntry (c_msgctxt c) (c_msgid c) (c_msgid_plural c) (c_msgstr c) (c_plural c) (c_obsolete c) (c_comment c) (c_tcomment c)
          (c_refs c) (c_flags c) (c_prev_ctxt c) (c_prev_id c) (c_prev_plural c).

(* what the tool yields: the previous-msgid annotations of an obsolete po_entry are dropped *)
Definition tool_view (c : centry) : centry :=
  if c_obsolete c then
    mkCentry (c_msgctxt c) (c_msgid c) (c_msgid_plural c) (c_msgstr c) (c_plural c) (c_obsolete c) (c_comment c) (c_tcomment c)
             (c_refs c) (c_flags c) None None None
  else c.

Definition extr_of (cl : cline) : list str := match cl with CExtr _ t => [t] | _ => [] end.
Definition trans_of (cl : cline) : list str := match cl with CTrans t => [t] | _ => [] end.
Definition refs_of (cl : cline) : list (str * str) := match cl with CRefs _ refs => map snd refs | _ => [] end.
Definition flags_of (cl : cline) : list str := match cl with CFlags _ items => map (fun x => snd (fst x)) items | _ => [] end.

Lemma fold_pre : forall pre en,
  fold_left (fun en cl => apply_cline cl en) pre en =
  mkEntry (pe_msgctxt en) (pe_msgid en) (pe_msgid_plural en) (pe_msgstr en) (pe_plural en) (pe_obsolete en)
    (fold_left join_line (flat_map extr_of pre) (pe_comment en))
    (fold_left join_line (flat_map trans_of pre) (pe_tcomment en))
    (pe_occ en ++ flat_map refs_of pre) (pe_flags en ++ flat_map flags_of pre)
    (last_prev QCtxt pre (pe_prev_ctxt en)) (last_prev QId pre (pe_prev_id en)) (last_prev QPlural pre (pe_prev_plural en)).
Proof.
  induction pre as [|cl pre IH]; intros en.
  - cbn. rewrite !app_nil_r. destruct en; reflexivity.
  - cbn [fold_left]. rewrite IH. destruct en. destruct cl as [t | sep t | sep refs | sep items | k s]; cbn.
    + reflexivity.
    + reflexivity.
    + now rewrite <- app_assoc.
    + unfold flag_of. now rewrite <- app_assoc.
    + destruct k; reflexivity.
Qed.

Lemma flat_map_filter_prev {A} (f : cline -> list A) pre : (forall k s, f (CPrev k s) = []) ->
  flat_map f (filter (fun cl => negb (is_prev cl)) pre) = flat_map f pre.
Proof. intros Hf. induction pre as [|cl pre IH]; [reflexivity|]. cbn [filter flat_map].
  destruct cl; cbn [is_prev negb flat_map]; rewrite ?IH; try reflexivity. now rewrite Hf. Qed.

Lemma last_prev_filter k pre acc : last_prev k (filter (fun cl => negb (is_prev cl)) pre) acc = acc.
Proof. revert acc. induction pre as [|cl pre IH]; intros acc; [reflexivity|]. cbn [filter].
  destruct cl; cbn [is_prev negb last_prev]; apply IH. Qed.

Lemma build_value e : build e = to_entry (tool_view (entry_value e)).
Proof.
  unfold build, build_msg, eff_pre, tool_view, entry_value. cbn [c_obsolete].
  destruct e as [pre obs ctxt sid pl strs]. cbn [s_pre s_obsolete s_ctxt s_id s_plural s_strs].
  destruct obs.
  - rewrite fold_pre. cbn [new_entry pe_msgctxt pe_msgid pe_msgid_plural pe_msgstr pe_plural pe_obsolete pe_comment pe_tcomment pe_occ pe_flags pe_prev_ctxt pe_prev_id pe_prev_plural].
    rewrite !last_prev_filter. rewrite !flat_map_filter_prev by reflexivity. cbn [app].
    unfold to_entry. cbn.
    destruct ctxt, pl; cbn; try reflexivity; destruct strs; reflexivity.
  - rewrite fold_pre. cbn [new_entry pe_msgctxt pe_msgid pe_msgid_plural pe_msgstr pe_plural pe_obsolete pe_comment pe_tcomment pe_occ pe_flags pe_prev_ctxt pe_prev_id pe_prev_plural].
    cbn [app]. unfold to_entry. cbn.
    destruct ctxt, pl; cbn; try reflexivity; destruct strs; reflexivity.
Qed.

(* ---------------------------------------------------------------- blank lines and #~| lines anywhere *)
Inductive ext : list lexed -> list lexed -> Prop :=
| ext_nil : ext [] []
| ext_blank l l' : ext l l' -> ext l (LBlank :: l')
| ext_prev_obsolete l l' : ext l l' -> l <> [] -> ext l (LPrevObsolete :: l')    (* not after the last line *)
| ext_keep x l l' : ext l l' -> ext (x :: l) (x :: l').

Definition is_lline (x : lexed) : Prop := match x with LLine _ _ _ => True | _ => False end.

Lemma machine_ext O : forall l l', ext l l' -> Forall is_lline l ->
  forall n lst p r, machine O l n lst p = Ok r ->
  forall n2 lst2, (l = [] -> lst2 = lst) -> machine O l' n2 lst2 p = Ok r.
Proof.
  induction 1 as [| l l' Hext IH | l l' Hext IH Hne | x l l' Hext IH]; intros Hall n lst p r Hm n2 lst2 Hl.
  - cbn in *. now rewrite (Hl eq_refl).
  - cbn [machine]. now apply (IH Hall n lst p r Hm).
  - cbn [machine]. apply (IH Hall n lst p r Hm). intros E. congruence.
  - inversion Hall as [|? ? Hx Hall']; subst. destruct x as [| |obs h a]; try contradiction.
    cbn [machine] in *. destruct a as [|y cur|d].
    + apply (IH Hall' _ _ _ _ Hm). reflexivity.
    + destruct (process O y obs cur p) as [p'|]; [|discriminate]. apply (IH Hall' _ _ _ _ Hm). reflexivity.
    + discriminate.
Qed.

Lemma run_machine_ext O l l' f : ext l l' -> Forall is_lline l -> run_machine O l = Ok f -> run_machine O l' = Ok f.
Proof.
  intros Hext Hall. unfold run_machine. destruct (machine O l 0 None init_pstate) as [r| |] eqn:Em; cbn [obind]; try discriminate.
  intros Hf. rewrite (machine_ext O l l' Hext Hall _ _ _ _ Em 0 None (fun _ => eq_refl)). exact Hf.
Qed.

(* ---------------------------------------------------------------- the theorem *)
Lemma toks_sstring_lline obs h y s : Forall is_lline (toks_sstring obs h y s).
Proof. destruct s as [|c r]; [constructor|]. cbn. constructor; [exact I|]. apply Forall_forall. intros x Hx.
  apply in_map_iff in Hx. destruct Hx as (? & <- & _). exact I. Qed.

Lemma toks_catalog_lline ws c : Forall is_lline (toks_catalog ws c).
Proof.
  unfold toks_catalog. apply Forall_app. split.
  - apply Forall_forall. intros x Hx. apply in_map_iff in Hx. destruct Hx as (? & <- & _). exact I.
  - apply Forall_forall. intros x Hx. apply in_flat_map in Hx. destruct Hx as (e & _ & Hx).
    revert x Hx. apply Forall_forall. unfold toks_entry.
    apply Forall_app; split; [|apply Forall_app; split; [|apply Forall_app; split]].
    + apply Forall_forall. intros x Hx. apply in_flat_map in Hx. destruct Hx as (cl & _ & Hx). revert x Hx. apply Forall_forall.
      destruct cl; cbn [toks_cline]; try (constructor; [exact I|constructor]). apply toks_sstring_lline.
    + destruct (s_ctxt e); [apply toks_sstring_lline|constructor].
    + apply toks_sstring_lline.
    + unfold toks_strs. destruct (s_plural e).
      * apply Forall_app. split; [apply toks_sstring_lline|]. generalize 0. induction (s_strs e) as [|s1 l IH]; intros i; cbn; [constructor|].
        apply Forall_app. split; [|apply IH]. destruct s1 as [|c0 r]; cbn; [constructor|]. constructor; [exact I|].
        apply Forall_forall. intros x Hx. apply in_map_iff in Hx. destruct Hx as (? & <- & _). exact I.
      * apply Forall_forall. intros x Hx. apply in_flat_map in Hx. destruct Hx as (s1 & _ & Hx). revert x Hx. apply Forall_forall, toks_sstring_lline.
Qed.

Theorem machine_roundtrip O ws c l' :
  ascii_compatible (o_dec O) -> ~ In 34 ws -> scatalog_ok (o_dec O) c -> nplurals_le_10 c ->
  ext (toks_catalog ws c) l' ->
  run_machine O l' = Ok (mkPo (fst (catalog_value c)) (map (fun e => to_entry (tool_view e)) (snd (catalog_value c))) false).
Proof.
  intros Hdec Hws (Hh & Hes & Hfirst) Hn Hext.
  apply (run_machine_ext O _ _ _ Hext (toks_catalog_lline ws c)).
  rewrite (machine_catalog O Hdec ws c Hws Hes Hn).
  - unfold catalog_value. cbn [fst snd]. f_equal. f_equal. rewrite map_map. apply map_ext. intros e. apply build_value.
  - destruct (sc_entries c) as [|e es]; [exact I|]. destruct Hfirst as [H1 H2]. unfold eff_pre.
    destruct (s_obsolete e); [|exact H1].
    assert (E : filter (fun cl => negb (is_prev cl)) (s_pre e) = filter (fun cl => match cl with CPrev _ _ => false | _ => true end) (s_pre e)).
    { apply filter_ext. intros []; reflexivity. }
    now rewrite E.
Qed.

Lemma tool_view_id c : no_obsolete_prev c -> forall e, In e (sc_entries c) -> tool_view (entry_value e) = entry_value e.
Proof.
  intros Hno e Hin. unfold no_obsolete_prev in Hno. rewrite Forall_forall in Hno. specialize (Hno e Hin).
  unfold tool_view, entry_value. cbn [c_obsolete]. destruct (s_obsolete e) eqn:Eo; [|reflexivity].
  specialize (Hno eq_refl).
  assert (G : forall k acc, last_prev k (s_pre e) acc = acc).
  { intros k. induction (s_pre e) as [|cl pre IH]; intros acc; [reflexivity|]. inversion Hno as [|? ? Hcl Hpre]; subst.
    destruct cl; cbn [last_prev]; try (apply IH; assumption). contradiction. }
  now rewrite !G.
Qed.

Theorem machine_roundtrip_full O ws c l' :
  ascii_compatible (o_dec O) -> ~ In 34 ws -> scatalog_ok (o_dec O) c -> nplurals_le_10 c -> no_obsolete_prev c ->
  ext (toks_catalog ws c) l' ->
  run_machine O l' = Ok (mkPo (fst (catalog_value c)) (map to_entry (snd (catalog_value c))) false).
Proof.
  intros Hdec Hws Hok Hn Hno Hext. rewrite (machine_roundtrip O ws c l' Hdec Hws Hok Hn Hext). f_equal. f_equal.
  unfold catalog_value. cbn [snd]. rewrite !map_map. apply map_ext_in. intros e He. now rewrite (tool_view_id c Hno e He).
Qed.

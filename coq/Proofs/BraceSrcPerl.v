(* Source tie for lib/strformat/perlbrace.py (notes/SRC12.md): the translation of FormatString.__init__
   (Generated/BraceSrc.v, regenerated from the working tree on every run) equals Model/FmtPerlBrace.perl_parse, for every
   string and every pair of character classes, when `_field_re.finditer` is the iteration of the model's one-attempt scanner. *)
From Coq Require Import List NArith ZArith Bool Lia.
From I18n Require Import Lib.Outcome Model.FmtPerlBrace Model.FmtBracePy Generated.BraceSrc.
Import ListNotations.

(* ---------------------------------------------------------------- re.finditer *)
Lemma finditer_head_ge {G} (att : pystr -> option (G * pystr)) fuel : forall pos s m l,
  py_finditer att fuel pos s = m :: l -> (pos <= pm_start m)%nat.
Proof.
  induction fuel as [|fuel IH]; intros pos s m l; cbn [py_finditer]; [discriminate|].
  destruct s as [|c r]; [discriminate|].
  destruct (att (c :: r)) as [[g rest]|].
  - intros H; inversion H; subst; cbn; lia.
  - intros H. apply IH in H. lia.
Qed.

Lemma skipn_add {A} a b : forall l : list A, skipn (a + b) l = skipn b (skipn a l).
Proof. induction a as [|a IH]; intros l; [reflexivity|]. destruct l; [rewrite !skipn_nil; reflexivity|apply IH]. Qed.

Lemma skipn_suffix {A} (s0 s x rest : list A) pos :
  skipn pos s0 = s -> s = x ++ rest -> skipn (pos + (length s - length rest)) s0 = rest.
Proof.
  intros H1 H2. rewrite skipn_add, H1, H2, app_length, Nat.add_sub, skipn_app, skipn_all, Nat.sub_diag.
  reflexivity.
Qed.

(* the pattern text the scanner Model/FmtPerlBrace.match_at was written for *)
Definition perlbrace_field_re_pattern : pystr :=
  [10; 32; 32; 32; 32; 40; 63; 80; 60; 108; 105; 116; 101; 114; 97; 108; 62; 32; 91; 94; 123; 93; 43; 32; 41; 32; 124; 10; 32; 32; 32; 32; 40; 63; 58; 10; 32; 32; 32; 32; 32; 32; 32; 32; 91; 123; 93; 10; 32; 32; 32; 32; 32; 32; 32; 32; 32; 32; 32; 32; 40; 63; 80; 60; 110; 97; 109; 101; 62; 32; 91; 94; 92; 87; 92; 100; 93; 92; 119; 42; 32; 41; 10; 32; 32; 32; 32; 32; 32; 32; 32; 91; 125; 93; 10; 32; 32; 32; 32; 41; 10]%N.
Definition printable_pattern : pystr := [91; 32; 45; 126; 93; 43]%N.        (* [ -~]+ *)
Definition str_Error : pystr := [69; 114; 114; 111; 114]%N.
Definition str_Exception : pystr := [69; 120; 99; 101; 112; 116; 105; 111; 110]%N.

Lemma src_perlbrace_patterns :
  src_perlbrace_field_re_pattern = perlbrace_field_re_pattern /\ src_perlbrace_printable_pattern = printable_pattern /\
  src_perlbrace_error_classes = [(str_Error, str_Exception)].
Proof. repeat split. Qed.

Section Perl.
Variables is_w is_d : N -> bool.

Definition perl_attempt (s : pystr) : option (pitem * pystr) := fst (match_at is_w is_d s).
Definition perl_finditer (s : pystr) : list (pymatch pitem) := py_finditer perl_attempt (S (length s)) 0 s.

(* frozenset(arguments): the names in order of first occurrence *)
Definition names_set (its : list pitem) (args : list pystr) : list pystr := fold_left set_add (names_of its) args.

Definition of_perl (x : outcome (list pitem) perl_err) : bres perl_err (list pystr * list pystr) :=
  match x with
  | Ok its => BRet (map perl_group0 its, names_set its [])
  | Err e => BRaise (XOwn e)
  | Crash c => BRaise (XCrash c)
  end.

Lemma attempt_suffix s it rest : perl_attempt s = Some (it, rest) ->
  exists x, s = x ++ rest /\ (length rest < length s)%nat.
Proof.
  unfold perl_attempt, match_at. destruct s as [|c r]; [discriminate|].
  destruct (not_lbrace c) eqn:Ec.
  - destruct (span not_lbrace (c :: r)) as [a b] eqn:Es. cbn [fst]. intros H; inversion H; subst.
    assert (Hs : c :: r = a ++ rest /\ a <> []).
    { clear H. cbn [span] in Es. rewrite Ec in Es. destruct (span not_lbrace r) as [a' b'] eqn:E'. inversion Es; subst.
      split; [|discriminate]. cbn [app]. f_equal.
      clear -E'. revert a' rest E'. induction r as [|x r IH]; intros a' b' E'; cbn [span] in E'.
      - inversion E'; reflexivity.
      - destruct (not_lbrace x).
        + destruct (span not_lbrace r) as [a2 b2]. inversion E'; subst. cbn [app]. f_equal. apply IH. reflexivity.
        + inversion E'; reflexivity. }
    destruct Hs as [Hs Hne]. exists a. split; [exact Hs|]. rewrite Hs, app_length. destruct a; [congruence|cbn; lia].
  - destruct r as [|d r1]; [discriminate|]. destruct (ident_start is_w is_d d); [|discriminate].
    destruct (span is_w r1) as [w r2] eqn:Es. destruct r2 as [|e r3]; [discriminate|].
    destruct (N.eqb e c_rbrace); [|discriminate]. cbn [fst]. intros H; inversion H; subst.
    assert (Hs : r1 = w ++ e :: rest).
    { clear -Es. revert w Es. induction r1 as [|x r IH]; intros w Es; cbn [span] in Es.
      - inversion Es.
      - destruct (is_w x).
        + destruct (span is_w r) as [a2 b2]. inversion Es; subst. cbn [app]. f_equal. apply IH. reflexivity.
        + inversion Es; reflexivity. }
    exists (c :: d :: w ++ [e]). split.
    + rewrite Hs. cbn [app]. rewrite <- app_assoc. reflexivity.
    + rewrite Hs. cbn [length]. rewrite app_length. cbn [length]. lia.
Qed.

Lemma scan_acc fuel : forall s acc steps,
  fst (scan is_w is_d fuel s acc steps) =
  match fst (scan is_w is_d fuel s [] 0%nat) with Ok its => Ok (rev acc ++ its) | Err e => Err e | Crash c => Crash c end.
Proof.
  induction fuel as [|fuel IH]; intros s acc steps; cbn [scan fst]; [reflexivity|].
  destruct s as [|c r]; cbn [fst]; [rewrite app_nil_r; reflexivity|].
  destruct (match_at is_w is_d (c :: r)) as [[[it rest]|] k].
  - rewrite (IH rest (it :: acc)), (IH rest [it]). destruct (fst (scan is_w is_d fuel rest [] 0%nat)); try reflexivity.
    cbn [rev app]. rewrite <- app_assoc. reflexivity.
  - cbn [fst]. unfold printable_prefix. destruct (fst (span is_printable_ascii (c :: r))); reflexivity.
Qed.

Definition perl_raise_prefix (s : pystr) : bres perl_err (list pystr * list pystr) :=
  bbind (src_perlbrace_printable_prefix s) (fun r => BRaise (XOwn (PerlError r))).
Lemma printable_prefix_eq (s : pystr) : perl_raise_prefix s = of_perl (@printable_prefix (list pitem) s).
Proof.
  unfold perl_raise_prefix, src_perlbrace_printable_prefix, printable_match, printable_prefix.
  destruct (fst (span is_printable_ascii s)); reflexivity.
Qed.

(* what follows the loop in __init__ *)
Definition perl_after (s0 : pystr) (r : bres perl_err (list pystr * list pystr * nat)) : bres perl_err (list pystr * list pystr) :=
  bbind r (fun '(v_items, v_arguments, v_last_pos) =>
    if negb (Nat.eqb v_last_pos (length s0)) then
      bbind (src_perlbrace_printable_prefix (str_from v_last_pos s0)) (fun r4 => BRaise (XOwn (PerlError r4)))
    else BRet (v_items, v_arguments)).

Lemma src_perlbrace_loop_eq s0 fuel : forall s pos items args,
  (length s < fuel)%nat -> skipn pos s0 = s -> (pos + length s = length s0)%nat ->
  perl_after s0 (src_perlbrace_init_loop1 s0 items args pos (py_finditer perl_attempt fuel pos s)) =
  match fst (scan is_w is_d fuel s [] 0%nat) with
  | Ok its => BRet (items ++ map perl_group0 its, names_set its args)
  | Err e => BRaise (XOwn e)
  | Crash c => BRaise (XCrash c)
  end.
Proof.
  induction fuel as [|fuel IH]; intros s pos items args Hf Hs Hl; [lia|].
  cbn [py_finditer scan]. destruct s as [|c r].
  - cbn [src_perlbrace_init_loop1 perl_after bbind fst rev map names_set names_of fold_left]. cbn [length] in Hl.
    replace (pos =? length s0)%nat with true by (symmetry; apply Nat.eqb_eq; lia). cbn [negb]. rewrite app_nil_r. reflexivity.
  - unfold perl_attempt at 1. destruct (match_at is_w is_d (c :: r)) as [[[it rest]|] k] eqn:Em; cbn [fst].
    + assert (Ha : perl_attempt (c :: r) = Some (it, rest)) by (unfold perl_attempt; rewrite Em; reflexivity).
      destruct (attempt_suffix _ _ _ Ha) as [x [Hx Hlen]].
      cbn [src_perlbrace_init_loop1 pm_start pm_end pm_groups]. rewrite Nat.eqb_refl. cbn [negb].
      rewrite scan_acc.
      assert (Hs' : skipn (pos + (length (c :: r) - length rest)) s0 = rest) by (eapply skipn_suffix; eauto).
      assert (Hl' : (pos + (length (c :: r) - length rest) + length rest = length s0)%nat) by lia.
      assert (Hf' : (length rest < fuel)%nat) by (cbn [length] in *; lia).
      destruct it as [t|n]; cbn [perl_group_name].
      * rewrite (IH rest _ (items ++ [perl_group0 (PLit t)]) args Hf' Hs' Hl').
        destruct (fst (scan is_w is_d fuel rest [] 0%nat)); try reflexivity.
        cbn [rev app map names_set names_of]. rewrite <- app_assoc. reflexivity.
      * rewrite (IH rest _ (items ++ [perl_group0 (PField n)]) (set_add args n) Hf' Hs' Hl').
        destruct (fst (scan is_w is_d fuel rest [] 0%nat)); try reflexivity.
        cbn [rev app map names_set names_of fold_left]. rewrite <- app_assoc. reflexivity.
    + (* a failed attempt at last_pos: whatever finditer finds later, Error(_printable_prefix(s[last_pos:])) *)
      transitivity (perl_raise_prefix (c :: r)); unfold perl_raise_prefix.
      * destruct (py_finditer perl_attempt fuel (S pos) r) as [|m l] eqn:Ef.
        -- cbn [src_perlbrace_init_loop1 perl_after bbind]. cbn [length] in Hl.
           replace (pos =? length s0)%nat with false by (symmetry; apply Nat.eqb_neq; lia). cbn [negb].
           unfold str_from. rewrite Hs. reflexivity.
        -- apply finditer_head_ge in Ef. cbn [src_perlbrace_init_loop1].
           replace (pm_start m =? pos)%nat with false by (symmetry; apply Nat.eqb_neq; lia). cbn [negb].
           unfold str_from. rewrite Hs. unfold perl_after.
           destruct (@src_perlbrace_printable_prefix perl_err (c :: r)); reflexivity.
      * fold (perl_raise_prefix (c :: r)). rewrite printable_prefix_eq. unfold of_perl, printable_prefix. destruct (fst (span is_printable_ascii (c :: r))); reflexivity.
Qed.

(* FormatString.__init__ of perlbrace.py = the model, for every string *)
Theorem src_perlbrace_init_eq s : src_perlbrace_init perl_finditer s = of_perl (perl_parse is_w is_d s).
Proof.
  unfold src_perlbrace_init, perl_finditer, perl_parse, perl_parse_steps.
  pose proof (src_perlbrace_loop_eq s (S (length s)) s 0%nat [] []) as H.
  unfold perl_after in H. cbn [app] in H. rewrite H; [|lia|reflexivity|lia].
  unfold of_perl. destruct (fst (scan is_w is_d (S (length s)) s [] 0%nat)); reflexivity.
Qed.

End Perl.

(* Source tie for C02 (notes/SRC5.md): every definition of Generated/TagsSrc.v - the translation of lib/tags.py
   (OrderedEnum, severities, certainties, _is_safe, _escape, safe_format, Tag.get_priority / get_colors / format) and of
   lib/terminal.py (attr_fg, attr_reset) made by tools/gen/gen_tags_src.py on every run - EQUALS the corresponding piece of
   the hand-written model (Model/Tags.v, Model/Terminal.v), for all arguments and all oracles.
   The proofs go by case analysis and computation, not by syntactic matching of the generated text, so that renaming a
   local, reordering the entries of a dict / of the character class, or splitting an expression still proves. *)
From Coq Require Import List NArith Bool Lia ZifyBool ZifyN.
From I18n Require Import Lib.Outcome Lib.PySrc Model.Tags Model.TagsPy Model.Terminal Generated.TagsSrc Proofs.Tags.
Import ListNotations.
Local Open Scope N_scope.

(* ---------------------------------------------------------------- generic facts about the vocabulary *)
Lemma smap_ret {A B} (f : A -> sres B) (g : A -> B) l : (forall x, f x = SRet (g x)) -> smap f l = SRet (map g l).
Proof. intros H. induction l as [|x r IH]; cbn [smap map]; [reflexivity|]. rewrite H, IH. reflexivity. Qed.

Lemma sbind1_sret {A B} (r : sres A) (k : A -> sres B) : sbind1 (sbind1 r (fun t => SRet t)) k = sbind1 r k.
Proof. destruct r; reflexivity. Qed.

Lemma or_else_nil o : or_else o [] = match o with Some s => s | None => [] end.
Proof. destruct o as [[|c r]|]; reflexivity. Qed.

Lemma forallb_pointwise {A} (f g : A -> bool) l : (forall x, f x = g x) -> forallb f l = forallb g l.
Proof. intros H. induction l as [|x r IH]; cbn [forallb]; [reflexivity|]. rewrite H, IH. reflexivity. Qed.

(* lists built with ++ and :: in different groupings *)
Ltac norm_app := repeat first [rewrite <- app_assoc | rewrite <- app_comm_cons | rewrite app_nil_r]; cbn [app].

(* ---------------------------------------------------------------- the enums *)
(* the member names, in the order that gives the model's ranks: severities.<sev_name s>.value = sev_rank s *)
Lemma src_enums_eq :
  src_severities = map sev_name all_severities /\ src_certainties = map cer_name all_certainties /\
  map sev_rank all_severities = [1; 2; 3; 4; 5; 6] /\ map cer_rank all_certainties = [1; 2; 3].
Proof. repeat split; reflexivity. Qed.

(* OrderedEnum.__lt__ / __eq__ compare the values *)
Lemma src_enum_order_eq a b : src_enum_lt a b = (a <? b) /\ src_enum_eq a b = (a =? b).
Proof. unfold src_enum_lt, src_enum_eq. split; lia. Qed.

(* ---------------------------------------------------------------- _is_safe *)
Lemma src_is_safe_char_eq c : src_is_safe_char c = safe_char c.
Proof. unfold src_is_safe_char, safe_char, in_range. lia. Qed.

Lemma src_is_safe_eq s : src_is_safe s = is_safe s.
Proof.
  unfold src_is_safe, is_safe. destruct s as [|c r]; [reflexivity|].
  apply forallb_pointwise. exact src_is_safe_char_eq.
Qed.

(* ---------------------------------------------------------------- _escape *)
(* repr() of a bytes object in full; the model has repr(b)[1:] *)
Definition repr_bytes_full (b : list N) : list N := 98 :: repr_bytes_tail b.

Lemma src_escape_eq U a : src_escape (repr_str U) repr_bytes_full a = SRet (escape U a).
Proof.
  unfold src_escape. destruct a as [s|s|b]; cbn [is_safestr is_bytes content py_str escape]; cbv zeta.
  - reflexivity.
  - destruct s as [|c r]; [reflexivity|]. cbn [text_eqb]. rewrite src_is_safe_eq.
    destruct (is_safe (c :: r)); reflexivity.
  - reflexivity.
Qed.

(* ---------------------------------------------------------------- safe_format *)
Lemma src_safe_format_eq U fmt t args kw :
  src_safe_format (repr_str U) repr_bytes_full fmt t args kw = sbind1 (safe_format U fmt t args kw) (fun r => SRet (ASafe r)).
Proof.
  unfold src_safe_format, safe_format.
  rewrite (smap_ret _ (escape U)) by (intros x; rewrite src_escape_eq; reflexivity).
  cbn [sbind1 sbind]; cbv zeta.
  rewrite (smap_ret _ (fun kv => (fst kv, escape U (snd kv)))) by (intros [k v]; rewrite src_escape_eq; reflexivity).
  reflexivity.
Qed.

(* ---------------------------------------------------------------- Tag.get_priority *)
Lemma src_get_priority_eq s c : src_get_priority (sev_rank s) (cer_rank c) = SRet [priority s c].
Proof. destruct s, c; vm_compute; reflexivity. Qed.

(* a severity that is no member of the enum: KeyError (dead: _set_severity only stores members) *)
Lemma src_get_priority_keyerror v c : (v = 0 \/ 6 < v) -> src_get_priority v c = SRaise (XCrash CKeyError).
Proof.
  intros H. unfold src_get_priority, dict_get; cbv zeta.
  assert (E : forall k, 1 <= k <= 6 -> src_enum_eq k v = false) by (intros k Hk; unfold src_enum_eq; lia).
  cbn [assoc]. rewrite !E by lia. reflexivity.
Qed.

(* ---------------------------------------------------------------- lib/terminal.py *)
Definition setaf_name : list N := [115; 101; 116; 97; 102].
Definition sgr0_name : list N := [115; 103; 114; 48].

(* .decode() is an oracle applied to the model's byte string *)
Lemma src_attr_reset_eq tig dec :
  src_attr_reset tig strip_delay dec = sbind1 (dec (attr_reset (tig sgr0_name))) (fun t => SRet t).
Proof. unfold src_attr_reset, attr_reset. rewrite or_else_nil. reflexivity. Qed.

Lemma src_attr_fg_eq {C} tig (tparm : list N -> C -> list N) dec i :
  src_attr_fg tig strip_delay tparm dec i = sbind1 (dec (attr_fg (tig setaf_name) (fun s => tparm s i))) (fun t => SRet t).
Proof.
  unfold src_attr_fg, attr_fg. rewrite or_else_nil. cbv zeta. fold setaf_name.
  set (sd := strip_delay _). destruct sd; reflexivity.
Qed.

(* ---------------------------------------------------------------- Tag.get_colors *)
(* the model of get_colors: the colour named by prio_colour, through the model's attr_fg / attr_reset and the decode oracle *)
Definition model_colors {C} tig (tparm : list N -> C -> list N) dec (colors : list N -> C) (p : N) : sres (list N * list N) :=
  match prio_colour p with
  | None => SRaise (XCrash CKeyError)
  | Some name =>
      sbind1 (dec (attr_fg (tig setaf_name) (fun s => tparm s (colors name)))) (fun on =>
      sbind1 (dec (attr_reset (tig sgr0_name))) (fun off => SRet (on, off)))
  end.

Lemma src_get_colors_eq {C} tig (tparm : list N -> C -> list N) dec colors s c :
  src_get_colors tig strip_delay tparm dec colors (sev_rank s) (cer_rank c) = model_colors tig tparm dec colors (priority s c).
Proof.
  unfold src_get_colors. rewrite src_get_priority_eq. cbn [sbind1 sbind]; cbv zeta.
  assert (P : priority s c = 80 \/ priority s c = 73 \/ priority s c = 87 \/ priority s c = 69) by (destruct s, c; cbn; auto).
  unfold model_colors.
  destruct P as [E|[E|[E|E]]]; rewrite E; cbn [dict_get assoc text_eqb N.eqb Pos.eqb andb prio_colour sbind1 sbind];
    rewrite src_attr_fg_eq, sbind1_sret;
    (destruct (dec (attr_fg _ _)); cbn [sbind1 sbind]; try reflexivity);
    rewrite src_attr_reset_eq, sbind1_sret; reflexivity.
Qed.

(* ---------------------------------------------------------------- Tag.format *)
(* what follows the choice of the two colour strings: the priority letter, the f-string, the escaped arguments *)
Ltac fmt_tail U :=
  rewrite ?src_get_priority_eq; cbn [sbind1 sbind fst snd]; cbv zeta; unfold format_line;
  match goal with |- context [nonempty ?e] => destruct e as [|e0 er] end; cbn [nonempty];
  [|rewrite (smap_ret _ (escape U)) by (intros x; rewrite src_escape_eq; reflexivity); cbn [sbind1 sbind]; cbv zeta];
  f_equal; norm_app; reflexivity.

Lemma src_format_eq {C} U tig (tparm : list N -> C -> list N) dec colors s c name target extra color :
  src_format (repr_str U) repr_bytes_full tig strip_delay tparm dec colors (sev_rank s) (cer_rank c) name target extra color
  = sbind1 (if color then model_colors tig tparm dec colors (priority s c) else SRet ([], []))
           (fun p => SRet (format_line U (priority s c) target name (fst p) (snd p) extra)).
Proof.
  unfold src_format. destruct color; cbv zeta;
    rewrite ?src_get_colors_eq, ?src_get_priority_eq; cbn [sbind1 sbind fst snd]; cbv zeta.
  - destruct (model_colors tig tparm dec colors (priority s c)) as [[on off]| | |]; cbn [sbind1 sbind fst snd]; try reflexivity.
    fmt_tail U.
  - fmt_tail U.
Qed.

(* colour off: the line is exactly the model's uncoloured line *)
Corollary src_format_plain {C} U tig (tparm : list N -> C -> list N) dec colors s c name target extra :
  src_format (repr_str U) repr_bytes_full tig strip_delay tparm dec colors (sev_rank s) (cer_rank c) name target extra false
  = SRet (format_line U (priority s c) target name [] [] extra).
Proof. rewrite src_format_eq. reflexivity. Qed.

(* the CLI always passes color=True (lib/cli.py Checker.tag); when stdout is no terminal, terminal.initialize is not called and
   _curses is the dummy whose tigetstr returns b'': the line is again the uncoloured one (b''.decode() is '') *)
Corollary src_format_no_tty {C} U (tparm : list N -> C -> list N) dec colors s c name target extra :
  dec [] = SRet [] ->
  src_format (repr_str U) repr_bytes_full (fun _ => Some []) strip_delay tparm dec colors (sev_rank s) (cer_rank c) name target extra true
  = SRet (format_line U (priority s c) target name [] [] extra).
Proof.
  intros Hd. rewrite src_format_eq. unfold model_colors, attr_fg, attr_reset. change (strip_delay []) with (@nil N).
  destruct (prio_colour (priority s c)) eqn:E; [|destruct s, c; discriminate E].
  cbv beta iota zeta. rewrite !Hd. reflexivity.
Qed.

(* ---------------------------------------------------------------- consequence for the translated code itself *)

Lemma priority_ascii s c : 32 <= priority s c <= 126.
Proof. destruct s, c; cbn; lia. Qed.

(* the line the TRANSLATED Tag.format returns (colour off) for a clean path, a clean tag name and arguments that are escaped
   or clean verbatim text is clean; and every string the TRANSLATED safe_format hands to str.format is clean *)
Theorem src_format_clean {C} U tig (tparm : list N -> C -> list N) dec colors s c name target extra :
  ascii_ok U -> clean U target -> clean U name -> Forall (arg_clean U) extra ->
  exists line,
    src_format (repr_str U) repr_bytes_full tig strip_delay tparm dec colors (sev_rank s) (cer_rank c) name target extra false = SRet line
    /\ clean U line.
Proof.
  intros HU Ht Hn He. eexists. split; [apply src_format_plain|].
  apply format_line_clean; auto using clean_nil. apply HU, priority_ascii.
Qed.

Theorem src_safe_format_clean U t args kw :
  ascii_ok U -> Forall (arg_clean U) args -> Forall (fun kv => arg_clean U (snd kv)) kw ->
  forall fmt, exists a' kw',
    src_safe_format (repr_str U) repr_bytes_full fmt t args kw = sbind1 (fmt t a' kw') (fun r => SRet (ASafe r))
    /\ Forall (clean U) a' /\ Forall (fun kv => clean U (snd kv)) kw'.
Proof.
  intros HU Ha Hk fmt. do 2 eexists. split; [apply src_safe_format_eq|]. split.
  - apply Forall_forall. intros x Hx. apply in_map_iff in Hx. destruct Hx as [a [<- Hin]].
    apply escape_clean_gen; auto. rewrite Forall_forall in Ha. auto.
  - apply Forall_forall. intros x Hx. apply in_map_iff in Hx. destruct Hx as [kv [<- Hin]]. cbn [snd].
    apply escape_clean_gen; auto. rewrite Forall_forall in Hk. exact (Hk kv Hin).
Qed.

(* Source tie of C14: the Gallina text that tools/gen/gen_msgformat_src.py produces from the Python source of the four
   check_args and of the tail of check_message (Generated/MsgFormatSrc.v) EQUALS the hand-written model (Model/MsgFormat.v),
   for all arguments, under the model's stated input assumptions (maps / key sets sorted by sort_key, distinct keys,
   python-format rows hold one type name).  A behavioural edit of the Python code changes the generated text and breaks
   one of these lemmas. *)
From Coq Require Import List ZArith NArith Bool Lia Arith Sorted.
From I18n Require Import Model.MsgFormat Model.MsgFormatPy Proofs.MsgFormat Generated.MsgFormatSrc.
Import ListNotations.

(* ---------- input assumptions, as in the harness: built from dict keys with the code's own sort key ---------- *)
Definition ksorted (l : list key) : Prop := StronglySorted (fun a b => key_leb a b = true) l.
Definition wf_map (m : amap) : Prop := NoDup (keys m) /\ ksorted (keys m).
Definition single_typed (m : amap) : Prop := forall k t b, In (k, t, b) m -> exists a, t = [a].

(* ---------- generic list facts ---------- *)
Lemma flat_map_single {A B} (f : A -> B) l : flat_map (fun x => [f x]) l = map f l.
Proof. induction l as [|a l IH]; cbn; congruence. Qed.

Lemma flat_map_map_l {A B C} (f : B -> list C) (g : A -> B) l : flat_map f (map g l) = flat_map (fun x => f (g x)) l.
Proof. induction l as [|a l IH]; cbn; congruence. Qed.

Lemma flat_map_ext_in {A B} (f g : A -> list B) l : (forall x, In x l -> f x = g x) -> flat_map f l = flat_map g l.
Proof.
  induction l as [|a l IH]; cbn; intros H; auto. rewrite (H a (or_introl eq_refl)). f_equal. apply IH. intros; apply H; auto.
Qed.

Lemma flat_map_flat_map {A B C} (f : B -> list C) (g : A -> list B) l :
  flat_map f (flat_map g l) = flat_map (fun x => flat_map f (g x)) l.
Proof. induction l as [|a l IH]; cbn; auto. rewrite flat_map_app. congruence. Qed.

Lemma filter_map_comm {A B} (p : B -> bool) (g : A -> B) l : filter p (map g l) = map g (filter (fun x => p (g x)) l).
Proof. induction l as [|a l IH]; cbn; auto. destruct (p (g a)); cbn; congruence. Qed.

(* ---------- sorted() ---------- *)
Lemma ksort_sorted l : ksorted l -> ksort l = l.
Proof.
  induction l as [|h t IH]; intros Hs; auto. inversion Hs as [|? ? Ht Hall]; subst. cbn [ksort]. rewrite (IH Ht).
  destruct t as [|h' t']; auto. cbn [kinsert]. inversion Hall; subst. rewrite H1. auto.
Qed.

Lemma ksorted_filter p l : ksorted l -> ksorted (filter p l).
Proof.
  induction l as [|h t IH]; intros Hs; cbn; auto. inversion Hs as [|? ? Ht Hall]; subst.
  destruct (p h); [|apply IH; exact Ht]. constructor; [apply IH; exact Ht|].
  apply Forall_forall. intros x Hx. apply filter_In in Hx. rewrite Forall_forall in Hall. apply Hall. tauto.
Qed.

Lemma ksort_filter p l : ksorted l -> ksort (filter p l) = filter p l.
Proof. intros H. apply ksort_sorted, ksorted_filter, H. Qed.

(* the order is antisymmetric: two sorted duplicate-free lists with the same elements are equal
   (only needed so that `a.keys() & b.keys()` may be written either way round) *)
Lemma str_ltb_tricho a : forall b, str_ltb a b = false -> str_ltb b a = false -> a = b.
Proof.
  induction a as [|x a IH]; destruct b as [|y b]; cbn; auto; try discriminate. intros H1 H2.
  destruct (N.ltb x y) eqn:E1; [discriminate|]. destruct (N.ltb y x) eqn:E2; [discriminate|].
  apply N.ltb_ge in E1, E2. assert (x = y) by lia. subst. rewrite N.eqb_refl in *. f_equal. auto.
Qed.

Lemma key_leb_antisym a b : key_leb a b = true -> key_leb b a = true -> a = b.
Proof.
  destruct a as [x|x], b as [y|y]; cbn; try discriminate; intros H1 H2.
  - apply Z.leb_le in H1, H2. f_equal. lia.
  - apply negb_true_iff in H1, H2. f_equal. apply str_ltb_tricho; auto.
Qed.

Lemma ksorted_unique l1 : forall l2, ksorted l1 -> ksorted l2 -> NoDup l1 -> NoDup l2 -> (forall k, In k l1 <-> In k l2) -> l1 = l2.
Proof.
  induction l1 as [|h1 t1 IH]; intros l2 S1 S2 N1 N2 Heq.
  - destruct l2 as [|h2 t2]; auto. exfalso. apply (Heq h2). left; auto.
  - destruct l2 as [|h2 t2]; [exfalso; apply (Heq h1); left; auto|].
    inversion S1 as [|? ? S1' A1]; inversion S2 as [|? ? S2' A2]; inversion N1 as [|? ? Hn1 N1']; inversion N2 as [|? ? Hn2 N2']; subst.
    rewrite Forall_forall in A1, A2.
    assert (Hh : h1 = h2).
    { destruct (proj1 (Heq h1) (or_introl eq_refl)) as [E|Hin1]; auto.
      destruct (proj2 (Heq h2) (or_introl eq_refl)) as [E|Hin2]; auto.
      apply key_leb_antisym; auto. }
    subst h2. f_equal. apply IH; auto. intros k. split; intros Hk.
    + destruct (proj1 (Heq k) (or_intror Hk)) as [E|]; auto. subst. contradiction.
    + destruct (proj2 (Heq k) (or_intror Hk)) as [E|]; auto. subst. contradiction.
Qed.

Lemma NoDup_filter {A} (p : A -> bool) l : NoDup l -> NoDup (filter p l).
Proof.
  induction l as [|h t IH]; intros H; cbn; auto. inversion H; subst. destruct (p h); auto. constructor; auto.
  intros Hc. apply filter_In in Hc. tauto.
Qed.

Lemma kinter_comm_sorted a b : ksorted a -> ksorted b -> NoDup a -> NoDup b -> kinter a b = kinter b a.
Proof.
  intros Sa Sb Na Nb. unfold kinter. apply ksorted_unique; auto using ksorted_filter, NoDup_filter.
  intros k. rewrite !filter_In, !mem_key_in. tauto.
Qed.

(* ---------- c-format ---------- *)
Lemma src_c_check_args_eq src dst lastint om : src_c_check_args src dst lastint om = c_check_args src dst lastint om.
Proof.
  unfold src_c_check_args, c_check_args. cbv zeta. f_equal.
  - destruct (Nat.ltb (length src) (length dst)); auto. destruct (Nat.ltb (length dst) (length src)); auto.
    destruct om; cbn [andb negb]; auto. destruct (lastint _); auto.
  - apply flat_map_ext. intros [a b]. cbn [fst snd]. destruct (str_eqb a b); auto.
Qed.

(* ---------- perl-brace-format ---------- *)
Lemma src_perl_check_args_eq src dst om : ksorted src -> ksorted dst ->
  src_perl_check_args src dst om = perl_check_args src dst om.
Proof.
  intros Ss Sd. unfold src_perl_check_args, perl_check_args, kdiff. cbv zeta. rewrite !flat_map_single. f_equal.
  - rewrite ksort_filter; auto.
  - pose proof (ksort_filter (fun k => negb (mem_key k dst)) src Ss) as Hs.
    destruct (filter (fun k => negb (mem_key k dst)) src) as [|a [|b r]]; destruct om; cbn [length Nat.eqb andb]; try rewrite Hs; auto.
Qed.

(* ---------- named-argument maps ---------- *)
Definition keyof (x : key * list str * bool) : key := fst (fst x).

Lemma keys_filter p m : keys (filter (fun x => p (keyof x)) m) = filter p (keys m).
Proof. unfold keys. symmetry. apply (filter_map_comm p (fun x : key * list str * bool => fst (fst x))). Qed.

Lemma wf_filter_keys p m : wf_map m -> ksort (filter p (keys m)) = filter p (keys m).
Proof. intros [_ Hs]. apply ksort_filter, Hs. Qed.

Lemma mget_row m k t b : NoDup (keys m) -> In (k, t, b) m -> mget m k = (t, b).
Proof. intros Hn Hin. unfold mget. rewrite (lookup_nodup m Hn k t b Hin). auto. Qed.

Lemma mem_key_lookup k m : mem_key k (keys m) = true -> exists r, lookup k m = Some r.
Proof.
  induction m as [|[[k0 t0] b0] r IH]; cbn; [discriminate|]. intros H. destruct (key_eqb k k0); eauto.
Qed.

Lemma unknown_part_eq src dst : wf_map dst ->
  flat_map (fun k => [AUnknown k]) (ksort (kdiff (keys dst) (keys src)))
  = map (fun x : key * list str * bool => AUnknown (fst (fst x))) (filter (fun x => negb (mem_key (fst (fst x)) (keys src))) dst).
Proof.
  intros Hd. unfold kdiff. rewrite wf_filter_keys by auto. rewrite flat_map_single.
  rewrite <- (keys_filter (fun k => negb (mem_key k (keys src))) dst). unfold keys, keyof. rewrite map_map. auto.
Qed.

Lemma missing_part_eq src dst om : wf_map src ->
  flat_map (fun k => [AMissing k])
    (ksort (if (Nat.eqb (length (kdiff (keys src) (keys dst))) 1 && om)%bool
            then (if snd (mget src (khd (kdiff (keys src) (keys dst)))) then [] else kdiff (keys src) (keys dst))
            else kdiff (keys src) (keys dst)))
  = map (fun x : key * list str * bool => AMissing (fst (fst x)))
      (match filter (fun x : key * list str * bool => negb (mem_key (fst (fst x)) (keys dst))) src with
       | [(k, _, allint)] => if (om && allint)%bool then [] else filter (fun x : key * list str * bool => negb (mem_key (fst (fst x)) (keys dst))) src
       | _ => filter (fun x : key * list str * bool => negb (mem_key (fst (fst x)) (keys dst))) src
       end).
Proof.
  intros Hs. unfold kdiff. pose proof (wf_filter_keys (fun k => negb (mem_key k (keys dst))) src Hs) as Hk.
  rewrite <- (keys_filter (fun k => negb (mem_key k (keys dst))) src) in *. unfold keyof in *.
  assert (Hin : forall x, In x (filter (fun x : key * list str * bool => negb (mem_key (fst (fst x)) (keys dst))) src) -> In x src)
    by (intros x Hx; apply filter_In in Hx; tauto).
  destruct (filter (fun x : key * list str * bool => negb (mem_key (fst (fst x)) (keys dst))) src) as [|[[k t] b] [|y r]].
  - cbn. auto.
  - cbn [keys map length Nat.eqb fst snd khd andb]. rewrite (mget_row src k t b (proj1 Hs) (Hin _ (or_introl eq_refl))).
    cbn [snd]. destruct om, b; cbn [andb]; auto.
  - cbn [keys map length Nat.eqb andb] in *. rewrite Hk. rewrite flat_map_single. cbn [map]. rewrite map_map. auto.
Qed.

(* python-brace-format: type sets, mismatch = empty intersection *)
Lemma nonempty_sinter a b : nonempty (sinter a b) = types_intersect a b.
Proof.
  unfold sinter, types_intersect. induction a as [|x a IH]; cbn; auto. destruct (existsb (str_eqb x) b); cbn; auto.
Qed.

Lemma brace_mismatch_part_eq src dst : wf_map src -> wf_map dst ->
  flat_map (fun k => if negb (nonempty (sinter (fst (mget src k)) (fst (mget dst k))))
                     then [ATypeMismatch (fst (mget dst k)) (fst (mget src k))] else [])
    (ksort (kinter (keys dst) (keys src)))
  = flat_map (fun x : key * list str * bool =>
      match lookup (fst (fst x)) src with
      | Some (st, _) => if types_intersect st (snd (fst x)) then [] else [ATypeMismatch (snd (fst x)) st]
      | None => []
      end) (filter (fun x => mem_key (fst (fst x)) (keys src)) dst).
Proof.
  intros Hs Hd. unfold kinter. rewrite wf_filter_keys by auto.
  rewrite <- (keys_filter (fun k => mem_key k (keys src)) dst). unfold keys at 1. rewrite flat_map_map_l. unfold keyof.
  apply flat_map_ext_in. intros [[k t] b] Hx. apply filter_In in Hx. destruct Hx as [Hin Hmem]. cbn [fst snd] in *.
  rewrite (mget_row dst k t b (proj1 Hd) Hin). destruct (mem_key_lookup k src Hmem) as [[st sb] Hl].
  unfold mget. rewrite Hl. cbn [fst]. rewrite nonempty_sinter. destruct (types_intersect st t); auto.
Qed.

Lemma src_brace_check_args_eq src dst om : wf_map src -> wf_map dst ->
  src_brace_check_args src dst om = map_check_args true src dst om.
Proof.
  intros Hs Hd. unfold src_brace_check_args, map_check_args. cbv zeta.
  rewrite <- ?(kinter_comm_sorted (keys dst) (keys src)) by (apply Hs || apply Hd).
  f_equal; [|f_equal].
  - apply brace_mismatch_part_eq; auto.
  - apply unknown_part_eq; auto.
  - apply missing_part_eq; auto.
Qed.

(* python-format: one type name per argument *)
Lemma py_mismatch_part_eq src dst : wf_map src -> wf_map dst -> single_typed src -> single_typed dst ->
  flat_map (fun k => if negb (str_eqb (type_of (fst (mget src k))) (type_of (fst (mget dst k))))
                     then [ATypeMismatch [type_of (fst (mget dst k))] [type_of (fst (mget src k))]] else [])
    (ksort (kinter (keys dst) (keys src)))
  = flat_map (fun x : key * list str * bool =>
      match lookup (fst (fst x)) src with
      | Some (st, _) => if match st, snd (fst x) with [a], [b] => str_eqb a b | _, _ => false end
                        then [] else [ATypeMismatch (snd (fst x)) st]
      | None => []
      end) (filter (fun x => mem_key (fst (fst x)) (keys src)) dst).
Proof.
  intros Hs Hd Ts Td. unfold kinter. rewrite wf_filter_keys by auto.
  rewrite <- (keys_filter (fun k => mem_key k (keys src)) dst). unfold keys at 1. rewrite flat_map_map_l. unfold keyof.
  apply flat_map_ext_in. intros [[k t] b] Hx. apply filter_In in Hx. destruct Hx as [Hin Hmem]. cbn [fst snd] in *.
  rewrite (mget_row dst k t b (proj1 Hd) Hin). destruct (mem_key_lookup k src Hmem) as [[st sb] Hl].
  unfold mget. rewrite Hl. cbn [fst].
  destruct (Td k t b Hin) as [d ->].
  assert (Hins : In (k, st, sb) src).
  { clear - Hl. induction src as [|[[k0 t0] b0] r IH]; cbn in Hl; [discriminate|].
    destruct (key_eqb k k0) eqn:E; [|right; auto]. apply key_eqb_eq in E. inversion Hl; subst. left; auto. }
  destruct (Ts k st sb Hins) as [s ->]. cbn [type_of]. destruct (str_eqb s d); auto.
Qed.

Lemma src_py_check_args_eq ss ds sm dm om : wf_map sm -> wf_map dm -> single_typed sm -> single_typed dm ->
  src_py_check_args ss ds sm dm om = py_check_args ss ds sm dm om.
Proof.
  intros Hs Hd Ts Td. unfold src_py_check_args, py_check_args, map_check_args. cbv zeta.
  rewrite <- ?(kinter_comm_sorted (keys dm) (keys sm)) by (apply Hs || apply Hd).
  f_equal; [|f_equal; [|f_equal; [|f_equal]]].
  - destruct (Nat.eqb (length ds) (length ss)); auto.
  - apply flat_map_ext. intros [a b]. cbn [fst snd]. destruct (str_eqb a b); auto.
  - apply py_mismatch_part_eq; auto.
  - apply unknown_part_eq; auto.
  - apply missing_part_eq; auto.
Qed.

(* ---------- check_message, from `if flags.fuzzy: return` to the end ---------- *)
(* the part of check_message before that statement (parsing msgid / msgid_plural, the POT-only comparison) is not
   translated: it appears here as in the model *)
Definition plan_head_exits (m : msg_in) : bool :=
  negb (mi_template m) && (negb (mi_msgid_ok m) || (mi_has_plural m && negb (mi_plural_ok m))).
Definition plan_head (m : msg_in) : list invocation :=
  if mi_template m && mi_msgid_ok m && (mi_has_plural m && mi_plural_ok m)
  then [{| iv_src := LMsgidPlural; iv_dst := LMsgid; iv_omit_ok := true |}] else [].

Lemma src_plural_item_eq m p (ib : Z * bool) :
  flat_map (fun d : pending =>
      if negb (pd_dst_fmt d) then [] else if negb (pd_src_fmt d) then []
      else [{| iv_src := pd_src_loc d; iv_dst := pd_dst_loc d; iv_omit_ok := pd_omit d |}])
    (if negb (snd ib) then []
     else match assoc (fst ib) p with
          | Some pre =>
            let pre' := filter (fun x => Z.leb (mi_rmin m) x && Z.leb x (mi_rmax m)) pre in
            [{| pd_src_loc := if zlist_eqb pre' [1%Z] then LMsgid else LMsgidPlural;
                pd_src_fmt := if zlist_eqb pre' [1%Z] then mi_msgid_ok m else mi_has_plural m && mi_plural_ok m;
                pd_dst_loc := LMsgstrN (fst ib);
                pd_dst_fmt := snd ib;
                pd_omit := if zlist_eqb pre' [1%Z] then mi_msgid_ok m && (mi_has_plural m && mi_plural_ok m) && mi_lens_equal m
                           else if Nat.leb (length pre') 1 then true
                           else if Nat.eqb (length pre') 2 && Z.eqb (nth 0 pre' 0%Z) 0%Z then true else false |}]
          | None => []
          end)
  = (if snd ib then plan_plural m p (fst ib) else []).
Proof.
  destruct ib as [i b]. cbn [fst snd]. destruct b; cbn [negb]; auto. unfold plan_plural, in_range.
  destruct (assoc i p) as [pre|]; auto. cbv zeta.
  generalize (filter (fun x : Z => (mi_rmin m <=? x)%Z && (x <=? mi_rmax m)%Z) pre). intros pre'.
  destruct pre' as [|x [|y [|z r]]]; cbn [zlist_eqb length Nat.leb Nat.eqb nth omission_rule andb flat_map app pd_dst_fmt pd_src_fmt pd_src_loc pd_dst_loc pd_omit negb].
  - destruct (mi_has_plural m && mi_plural_ok m); auto.
  - rewrite andb_true_r. destruct (Z.eqb x 1).
    + destruct (mi_msgid_ok m); auto.
    + destruct (mi_has_plural m && mi_plural_ok m); auto.
  - rewrite andb_false_r. destruct (Z.eqb x 0); destruct (mi_has_plural m && mi_plural_ok m); auto.
  - rewrite andb_false_r. destruct (mi_has_plural m && mi_plural_ok m); auto.
Qed.

Lemma src_check_message_tail_eq m :
  plan_message m = if plan_head_exits m then [] else plan_head m ++ src_check_message_tail m.
Proof.
  unfold plan_message, plan_head_exits, plan_head, src_check_message_tail. cbv zeta.
  destruct (negb (mi_template m) && (negb (mi_msgid_ok m) || mi_has_plural m && negb (mi_plural_ok m))); auto.
  destruct (mi_fuzzy m); cbn [orb]; [rewrite app_nil_r; auto|].
  destruct (mi_encoding_known m); cbn [negb]; [|rewrite app_nil_r; auto].
  f_equal. rewrite flat_map_app. f_equal.
  - unfold has_msgstr, msgstr_fmt_ok. destruct (mi_msgstr m) as [[|]|]; cbn [flat_map pd_dst_fmt pd_src_fmt negb app]; auto.
    destruct (mi_msgid_ok m); auto.
  - unfold preimage_of. destruct (mi_preimage m) as [[|a p]|]; cbn [nonempty]; rewrite ?andb_false_r; auto.
    rewrite andb_true_r. destruct (mi_any_plural_nonempty m); auto.
    rewrite flat_map_flat_map. symmetry. apply flat_map_ext. intros ib. apply (src_plural_item_eq m (a :: p) ib).
Qed.

(* polib_unescape returns the string for every spelling of the printer family (Spec/PoSyntax.v, part 1)
   and emits no warning. *)
From Coq Require Import List NArith Bool Lia ZifyBool Arith.
From I18n Require Import Lib.Outcome Model.PoUnescape Spec.PoSyntax.
Import ListNotations.
Local Open Scope N_scope.

(* ---------------- bridges between the specification's predicates and the model's ---------------- *)
Lemma oct_is_oct c : c_octal c -> is_oct c = true.
Proof. unfold c_octal, is_oct, between. lia. Qed.
Lemma oct_is_dec c : c_octal c -> is_dec c = true.
Proof. unfold c_octal, is_dec, between. lia. Qed.
Lemma hex_is_hex c : c_hex c -> is_hex c = true.
Proof. unfold c_hex, is_hex, between. lia. Qed.
Lemma not_dec c : ~ c_decimal c -> is_dec c = false.
Proof. unfold c_decimal, is_dec, between. lia. Qed.
Lemma not_hex c : ~ c_hex c -> is_hex c = false.
Proof. unfold c_hex, is_hex, between. lia. Qed.
Lemma hexval_eq c : c_hex c -> hexval c = c_hexval c.
Proof. unfold c_hex, hexval, c_hexval, between. intros H.
  destruct (48 <=? c) eqn:A, (c <=? 57) eqn:B, (97 <=? c) eqn:C, (c <=? 102) eqn:D; cbn; try reflexivity; lia. Qed.
Lemma hexval_lt c : c_hex c -> c_hexval c < 16.
Proof. unfold c_hex, c_hexval. intros H.
  destruct (c <=? 57) eqn:B, (97 <=? c) eqn:C; lia. Qed.
Lemma named_simple e b : In (e, b) c_named -> simple_escape e = Some b.
Proof. unfold c_named. cbn [In]. intros H.
  repeat (destruct H as [H | H]; [inversion H; subst; reflexivity |]). destruct H. Qed.
Lemma named_not_x e b : In (e, b) c_named -> N.eqb e LX = false /\ is_hex e = false \/ e = 98 \/ e = 102 \/ e = 97.
Proof. unfold c_named. cbn [In]. intros H.
  repeat (destruct H as [H | H]; [inversion H; subst; cbn; auto |]). destruct H. Qed.
Lemma named_byte_small e b : In (e, b) c_named -> b < 128.
Proof. unfold c_named. cbn [In]. intros H.
  repeat (destruct H as [H | H]; [inversion H; subst; reflexivity |]). destruct H. Qed.

(* ---------------- the skip counter ---------------- *)
Lemma go_skip dec pre : forall s run,
  unescape_go dec (pre ++ s) (length pre) run = unescape_go dec s 0 run.
Proof. induction pre as [|a pre IH]; intros s run; [reflexivity|]. cbn [app length unescape_go]. apply IH. Qed.
Lemma fixup_skip pre : forall s, fixup (pre ++ s) (length pre) = fixup s 0.
Proof. induction pre as [|a pre IH]; intros s; [reflexivity|]. cbn [app length fixup]. apply IH. Qed.
Lemma bytes_eval_skip pre : forall s, bytes_eval (pre ++ s) (length pre) = bytes_eval s 0.
Proof. induction pre as [|a pre IH]; intros s; [reflexivity|]. cbn [app length bytes_eval]. apply IH. Qed.

(* ---------------- one escape of the family is one alternative of the regex ---------------- *)
Definition follows (i : item) (s : list N) : Prop :=
  match s with [] => True | c :: _ => may_follow i c end.

Lemma follows_backslash i s : follows i (92 :: s).
Proof. destruct i; cbn; unfold c_decimal, c_hex; intros; lia. Qed.
Lemma follows_item i j s : follows i (item_text j ++ s).
Proof. destruct j; apply follows_backslash. Qed.

Lemma escape_len_item i s : item_ok i -> follows i s ->
  escape_len (item_text i ++ s) = Some (length (item_text i)).
Proof.
  intros Hok Hf. destruct i as [e b | d | d]; cbn [item_text item_ok] in *.
  - unfold escape_len, nth_is. cbn [app nth_error]. rewrite N.eqb_refl.
    rewrite (named_simple _ _ Hok). reflexivity.
  - destruct Hok as (Hlen & Hd & _).
    assert (Hne : forall a, c_octal a -> simple_escape a = None).
    { intros a Ha. unfold c_octal in Ha. unfold simple_escape.
      repeat match goal with |- context [N.eqb a ?k] => destruct (N.eqb_spec a k); [lia|] end. reflexivity. }
    destruct d as [|a [|b' [|c [|? ?]]]]; cbn [length] in Hlen; try lia;
      repeat match goal with H : Forall _ (_ :: _) |- _ => inversion H; subst; clear H end;
      unfold escape_len, nth_is; cbn [app nth_error length]; rewrite N.eqb_refl;
      rewrite Hne by assumption; repeat rewrite oct_is_dec by assumption.
    + destruct s as [|x s]; cbn [app nth_error]; [reflexivity|].
      cbn in Hf. rewrite not_dec by (apply Hf; cbn; lia). reflexivity.
    + destruct s as [|x s]; cbn [app nth_error]; [reflexivity|].
      cbn in Hf. rewrite not_dec by (apply Hf; cbn; lia). reflexivity.
    + reflexivity.
  - destruct Hok as (Hlen & Hd).
    destruct d as [|a [|b' [|? ?]]]; cbn [length] in Hlen; try lia;
      repeat match goal with H : Forall _ (_ :: _) |- _ => inversion H; subst; clear H end;
      unfold escape_len, nth_is; cbn [app nth_error length]; rewrite N.eqb_refl;
      change (simple_escape 120) with (@None N); change (is_dec 120) with false;
      change (N.eqb 120 LX) with true; cbv iota; repeat rewrite hex_is_hex by assumption.
    + destruct s as [|x s]; cbn [app nth_error]; [reflexivity|].
      cbn in Hf. rewrite not_hex by assumption. reflexivity.
    + reflexivity.
Qed.

Lemma item_text_cons i : exists tl, item_text i = 92 :: tl.
Proof. destruct i; cbn; eauto. Qed.

Lemma go_item dec i s run : item_ok i -> follows i s ->
  unescape_go dec (item_text i ++ s) 0 run = unescape_go dec s 0 (run ++ item_text i).
Proof.
  intros Hok Hf. pose proof (escape_len_item i s Hok Hf) as HL.
  destruct (item_text_cons i) as [tl Htl]. rewrite Htl in *.
  cbn [app] in *. cbn [unescape_go]. rewrite HL. cbn [length pred].
  replace (firstn (S (length tl)) (92 :: tl ++ s)) with (92 :: tl).
  - apply go_skip.
  - cbn [firstn]. f_equal. rewrite firstn_app, Nat.sub_diag, firstn_all. cbn. now rewrite app_nil_r.
Qed.

Definition items_text (its : list item) : list N := flat_map item_text its.

Lemma go_items dec : forall its s run, Forall item_ok its ->
  follows (last its (INamed 0 0)) s ->
  unescape_go dec (items_text its ++ s) 0 run = unescape_go dec s 0 (run ++ items_text its).
Proof.
  induction its as [|i its IH]; intros s run Hok Hf.
  - cbn. now rewrite app_nil_r.
  - inversion Hok as [|? ? Hi Hits]; subst. unfold items_text in *. cbn [flat_map]. rewrite <- app_assoc.
    rewrite go_item; [| assumption |].
    + rewrite IH; [now rewrite app_assoc | assumption |].
      destruct its; [destruct s; exact I|]. exact Hf.
    + destruct its as [|j its]; [cbn; exact Hf|]. cbn [flat_map]. rewrite <- app_assoc. apply follows_item.
Qed.

(* ---------------- the short-x fix-up pads one-digit hex escapes ---------------- *)
Definition pad (i : item) : item :=
  match i with IHex [a] => IHex [48; a] | _ => i end.

Lemma short_x_nonbs c s : c <> 92 -> short_x_at (c :: s) = false.
Proof. intros H. unfold short_x_at, nth_is. cbn [nth_error]. destruct (N.eqb_spec BSL c); [unfold BSL in *; congruence|reflexivity]. Qed.

Lemma fixup_copy : forall d s, Forall (fun c => c <> 92) d -> fixup (d ++ s) 0 = d ++ fixup s 0.
Proof. induction d as [|a d IH]; intros s H; [reflexivity|]. inversion H; subst.
  cbn [app fixup]. rewrite short_x_nonbs by assumption. f_equal. now apply IH. Qed.

Lemma oct_nonbs d : Forall c_octal d -> Forall (fun c => c <> 92) d.
Proof. apply Forall_impl. unfold c_octal. intros; lia. Qed.
Lemma hex_nonbs d : Forall c_hex d -> Forall (fun c => c <> 92) d.
Proof. apply Forall_impl. unfold c_hex. intros; lia. Qed.

(* the rest of a run: empty or the next escape *)
Definition run_tail (s : list N) : Prop := s = [] \/ exists r, s = 92 :: r.

Lemma items_run_tail its : run_tail (items_text its).
Proof. destruct its as [|i its]; [now left|]. right. unfold items_text. cbn [flat_map].
  destruct (item_text_cons i) as [tl ->]. eexists. reflexivity. Qed.

Lemma fixup_item i s : item_ok i -> run_tail s ->
  fixup (item_text i ++ s) 0 = item_text (pad i) ++ fixup s 0.
Proof.
  intros Hok Hs. destruct i as [e b | d | d]; cbn [item_text item_ok pad] in *.
  - cbn [app]. cbn [fixup].
    assert (HSX : short_x_at (92 :: e :: s) = false).
    { unfold short_x_at, nth_is. cbn [nth_error].
      destruct (N.eqb_spec LX e) as [<-|]; [|now rewrite andb_false_r].
      exfalso. unfold c_named in Hok. cbn in Hok. unfold LX in Hok.
      repeat (destruct Hok as [Hok|Hok]; [inversion Hok|]). destruct Hok. }
    rewrite HSX. f_equal.
    assert (HSY : short_x_at (e :: s) = false).
    { unfold short_x_at, nth_is. cbn [nth_error].
      destruct (N.eqb_spec BSL e) as [<-|]; [|reflexivity].
      destruct Hs as [-> | [r ->]]; reflexivity. }
    rewrite HSY. reflexivity.
  - destruct Hok as (_ & Hd & _). cbn [app fixup].
    assert (HSX : short_x_at (92 :: d ++ s) = false).
    { unfold short_x_at, nth_is. cbn [nth_error].
      destruct d as [|a d]; cbn [app nth_error].
      - destruct Hs as [-> | [r ->]]; reflexivity.
      - inversion Hd; subst. unfold c_octal in *. destruct (N.eqb_spec LX a); [unfold LX in *; lia|]. now rewrite andb_false_r. }
    rewrite HSX. f_equal. apply fixup_copy. now apply oct_nonbs.
  - destruct Hok as (Hlen & Hd).
    destruct d as [|a [|b' [|? ?]]]; cbn [length] in Hlen; try lia;
      repeat match goal with H : Forall _ (_ :: _) |- _ => inversion H; subst; clear H end.
    + (* one digit: padded *)
      cbn [app fixup].
      assert (HSX : short_x_at (92 :: 120 :: a :: s) = true).
      { unfold short_x_at, nth_is. cbn [nth_error]. rewrite hex_is_hex by assumption.
        destruct Hs as [-> | [r ->]]; reflexivity. }
      rewrite HSX. cbn [nth pad item_text app]. reflexivity.
    + cbn [app fixup pad item_text].
      assert (HSX : short_x_at (92 :: 120 :: a :: b' :: s) = false).
      { unfold short_x_at, nth_is. cbn [nth_error].
        destruct (N.eqb_spec b' BSL); [unfold c_hex, BSL in *; lia|]. now rewrite andb_false_r. }
      rewrite HSX. f_equal.
      rewrite !short_x_nonbs by (unfold c_hex in *; lia). reflexivity.
Qed.

Lemma fixup_items : forall its, Forall item_ok its ->
  fixup (items_text its) 0 = items_text (map pad its).
Proof.
  induction its as [|i its IH]; intros Hok; [reflexivity|]. inversion Hok; subst.
  unfold items_text in *. cbn [flat_map map]. rewrite fixup_item; [|assumption|apply items_run_tail].
  f_equal. now apply IH.
Qed.

(* ---------------- evaluation of the bytes literal ---------------- *)
Lemma pad_byte i : item_ok i -> item_byte (pad i) = item_byte i.
Proof. destruct i as [| |d]; try reflexivity. destruct d as [|a [|]]; reflexivity. Qed.

Lemma bytes_eval_bind_ok s k b w : bytes_eval s k = Ok (b, w) ->
  forall x v, (do y <- bytes_eval s k; Ok (x :: fst y, v || snd y)) = Ok (x :: b, v || w) :> outcome (list N * bool) unit.
Proof. intros -> x v. reflexivity. Qed.

Lemma oct_len_app d s : (1 <= length d <= 3)%nat -> Forall c_octal d -> nth_is is_oct s 0 = false ->
  oct_len (d ++ s) = length d.
Proof.
  intros Hlen Hd Hn. unfold oct_len, nth_is in *.
  destruct d as [|a [|b' [|c [|? ?]]]]; cbn [length] in Hlen; try lia;
    repeat match goal with H : Forall _ (_ :: _) |- _ => inversion H; subst; clear H end;
    cbn [app nth_error length].
  - destruct s as [|x s]; cbn [nth_error] in *; [reflexivity|]. now rewrite Hn.
  - rewrite (oct_is_oct b') by assumption. destruct s as [|x s]; cbn [nth_error] in *; [reflexivity|]. now rewrite Hn.
  - now rewrite (oct_is_oct b'), (oct_is_oct c) by assumption.
Qed.

Lemma oct_value_app d s : oct_value (d ++ s) (length d) = digits_value 8 (fun c => c - 48) d.
Proof. unfold oct_value, digits_value. rewrite firstn_app, Nat.sub_diag, firstn_all. cbn [firstn]. now rewrite app_nil_r. Qed.

Lemma bytes_eval_oct_step d s : (1 <= length d)%nat -> Forall c_octal d ->
  bytes_eval (92 :: d ++ s) 0 =
  (do x <- bytes_eval (d ++ s) (oct_len (d ++ s));
   Ok (oct_value (d ++ s) (oct_len (d ++ s)) mod 256 :: fst x, (255 <? oct_value (d ++ s) (oct_len (d ++ s))) || snd x)).
Proof.
  intros Hlen Hd. destruct d as [|a d]; [cbn in Hlen; lia|]. inversion Hd as [|? ? Ha _]; subst.
  cbn [app]. cbn [bytes_eval]. change (N.eqb 92 BSL) with true. cbv iota.
  assert (Hne : simple_escape a = None /\ N.eqb a 39 = false /\ N.eqb a 10 = false).
  { unfold c_octal in Ha. unfold simple_escape.
    repeat match goal with |- context [N.eqb a ?k] => destruct (N.eqb_spec a k); [lia|] end. auto. }
  destruct Hne as (-> & -> & ->). rewrite (oct_is_oct a) by assumption. reflexivity.
Qed.

Lemma bytes_eval_item i s b w : item_ok i -> run_tail s -> bytes_eval s 0 = Ok (b, w) ->
  bytes_eval (item_text (pad i) ++ s) 0 = Ok (item_byte i :: b, w).
Proof.
  intros Hok Hs Hrest. destruct i as [e v | d | d]; cbn [item_text item_ok pad item_byte] in *.
  - cbn [app bytes_eval]. change (N.eqb 92 BSL) with true. cbv iota.
    assert (He : N.eqb e 39 = false /\ N.eqb e 10 = false).
    { unfold c_named in Hok. cbn in Hok.
      repeat (destruct Hok as [Hok|Hok]; [inversion Hok; subst; split; reflexivity|]). destruct Hok. }
    destruct He as [-> ->]. rewrite (named_simple _ _ Hok).
    change (bytes_eval (e :: s) 1) with (bytes_eval s 0). rewrite Hrest. reflexivity.
  - destruct Hok as (Hlen & Hd & Hv).
    assert (Hnext : nth_is is_oct s 0 = false).
    { destruct Hs as [-> | [r ->]]; reflexivity. }
    cbn [app]. rewrite (bytes_eval_oct_step d s) by (assumption || lia).
    rewrite oct_len_app, bytes_eval_skip, Hrest, oct_value_app by (assumption || lia).
    cbn [obind fst snd]. rewrite N.mod_small by exact Hv.
    replace (255 <? _) with false by lia. reflexivity.
  - destruct Hok as (Hlen & Hd).
    assert (Hpy : forall a b', c_hex a -> c_hex b' ->
       bytes_eval (92 :: 120 :: a :: b' :: s) 0 = Ok (c_hexval a * 16 + c_hexval b' :: b, w)).
    { intros a b' Ha Hb. cbn [bytes_eval]. change (N.eqb 92 BSL) with true. cbv iota.
      change (N.eqb 120 39) with false. change (N.eqb 120 10) with false.
      change (simple_escape 120) with (@None N). change (is_oct 120) with false.
      change (N.eqb 120 LX) with true. cbv iota. unfold nth_is. cbn [nth_error nth].
      rewrite (hex_is_hex a), (hex_is_hex b') by assumption. cbn [andb].
      change (bytes_eval (120 :: a :: b' :: s) 3) with (bytes_eval s 0). rewrite Hrest. cbn [obind fst snd].
      now rewrite !hexval_eq by assumption. }
    destruct d as [|a [|b' [|? ?]]]; cbn [length] in Hlen; try lia;
      repeat match goal with H : Forall _ (_ :: _) |- _ => inversion H; subst; clear H end;
      cbn [pad item_text app].
    + rewrite Hpy; [|unfold c_hex; lia|assumption]. unfold digits_value. cbn. reflexivity.
    + rewrite Hpy by assumption. unfold digits_value. cbn. reflexivity.
Qed.

Lemma bytes_eval_items : forall its, Forall item_ok its ->
  bytes_eval (items_text (map pad its)) 0 = Ok (map item_byte its, false).
Proof.
  induction its as [|i its IH]; intros Hok; [reflexivity|]. inversion Hok; subst.
  unfold items_text in *. cbn [flat_map map].
  apply bytes_eval_item; [assumption|apply items_run_tail|now apply IH].
Qed.

(* ---------------- a run ---------------- *)
Lemma decode_run_ok dec b t : ascii_compatible dec -> dec b = Some t -> decode_run dec b = Ok t.
Proof.
  intros Hc Hd. unfold decode_run. destruct (forallb (fun c => c <? 128) b) eqn:E.
  - rewrite forallb_forall in E. rewrite Hc in Hd; [congruence|].
    apply Forall_forall. intros x Hx. specialize (E x Hx). lia.
  - now rewrite Hd.
Qed.

Lemma unescape_run_items dec its t : ascii_compatible dec -> Forall item_ok its ->
  dec (map item_byte its) = Some t ->
  unescape_run dec (items_text its) = Ok (t, false).
Proof.
  intros Hc Hok Hd. unfold unescape_run. rewrite fixup_items, bytes_eval_items by assumption.
  cbn [lift_crash obind fst snd]. now rewrite (decode_run_ok _ _ _ Hc Hd).
Qed.

Lemma items_text_nonempty its : its <> [] -> items_text its <> [].
Proof. destruct its as [|i its]; [congruence|]. intros _. unfold items_text. cbn [flat_map].
  destruct (item_text_cons i) as [tl ->]. discriminate. Qed.

(* ---------------- literal characters ---------------- *)
Lemma escape_len_lit c s : c <> 92 -> escape_len (c :: s) = None.
Proof. intros H. unfold escape_len, nth_is. cbn [nth_error]. destruct (N.eqb_spec BSL c); [unfold BSL in *; congruence|reflexivity]. Qed.

Lemma go_lit_flush dec c s run : c <> 92 ->
  unescape_go dec (c :: s) 0 run =
  (do a <- flush_run dec run; do b <- unescape_go dec (c :: s) 0 []; Ok (fst a ++ fst b, snd a || snd b)).
Proof.
  intros H. cbn [unescape_go]. rewrite escape_len_lit by assumption. cbn [flush_run].
  destruct (flush_run dec run) as [[ta wa]| |]; cbn [obind]; try reflexivity.
  destruct (unescape_go dec s 0 []) as [[tb wb]| |]; cbn [obind fst snd]; reflexivity.
Qed.

Lemma go_lits dec : forall cs s, Forall (fun c => c <> 92) cs ->
  unescape_go dec (cs ++ s) 0 [] = (do b <- unescape_go dec s 0 []; Ok (cs ++ fst b, snd b)).
Proof.
  induction cs as [|c cs IH]; intros s H.
  - cbn. destruct (unescape_go dec s 0 []) as [[tb wb]| |]; reflexivity.
  - inversion H; subst. cbn [app unescape_go]. rewrite escape_len_lit by assumption.
    cbn [flush_run obind]. rewrite IH by assumption.
    destruct (unescape_go dec s 0 []) as [[tb wb]| |]; reflexivity.
Qed.

(* ---------------- the chunk ---------------- *)
Theorem unescape_roundtrip dec : ascii_compatible dec -> forall ps, chunk_ok dec ps ->
  unescape dec (chunk_text ps) = Ok (chunk_value ps, false).
Proof.
  intros Hc. unfold unescape. induction ps as [|p ps IH]; intros Hok; [reflexivity|].
  destruct p as [cs | its t]; cbn [chunk_ok] in Hok.
  - destruct Hok as (_ & Hl & _ & Hr). unfold chunk_text, chunk_value in *. cbn [flat_map piece_text piece_value].
    rewrite go_lits by (eapply Forall_impl; [|exact Hl]; unfold lit_ok; tauto).
    rewrite (IH Hr). reflexivity.
  - destruct Hok as (Hne & Hi & Hd & Hf & Hr). unfold chunk_text, chunk_value in *.
    cbn [flat_map piece_text piece_value]. specialize (IH Hr).
    change (flat_map item_text its) with (items_text its).
    destruct ps as [|q ps].
    + cbn [flat_map]. rewrite go_items by (try assumption; exact I). cbn [unescape_go app].
      pose proof (items_text_nonempty its Hne) as Hn. unfold flush_run.
      destruct (items_text its) eqn:E; [congruence|]. rewrite <- E.
      rewrite (unescape_run_items _ _ _ Hc Hi Hd). now rewrite !app_nil_r.
    + destruct q as [[|c cs]|]; try contradiction.
      cbn [chunk_ok] in Hr. destruct Hr as (_ & Hl & _). inversion Hl as [|? ? Hcl _]; subst.
      cbn [flat_map piece_text piece_value] in *. rewrite <- !app_comm_cons in *.
      rewrite go_items by (try assumption; exact Hf).
      rewrite go_lit_flush by (unfold lit_ok in Hcl; tauto). rewrite IH. cbn [app].
      pose proof (items_text_nonempty its Hne) as Hn. unfold flush_run.
      destruct (items_text its) eqn:E; [congruence|]. rewrite <- E.
      rewrite (unescape_run_items _ _ _ Hc Hi Hd). reflexivity.
Qed.

(* ---------------- the per-character view ---------------- *)
Lemma last_app_ne {A} (l1 l2 : list A) d : l2 <> [] -> last (l1 ++ l2) d = last l2 d.
Proof. intros H. induction l1 as [|a l1 IH]; [reflexivity|]. cbn [app].
  rewrite <- IH. destruct (l1 ++ l2) eqn:E; [destruct l1, l2; cbn in E; congruence|]. reflexivity. Qed.

Lemma pieces_of_spec enc dec : codec_ok enc dec -> forall sp, cspell_ok enc sp ->
  chunk_ok dec (pieces_of sp) /\ chunk_text (pieces_of sp) = cspell_text sp /\
  chunk_value (pieces_of sp) = map fst sp /\
  match sp with
  | [] => pieces_of sp = []
  | (c, None) :: _ => exists cs q, pieces_of sp = PLit (c :: cs) :: q
  | (c, Some its) :: r => exists its1 t q, pieces_of sp = PEsc its1 (c :: t) :: q /\
       map item_byte its1 = flat_map enc (c :: t) /\
       match r with (c', None) :: _ => last its1 dflt_item = last its dflt_item | _ => True end
  end.
Proof.
  intros Hcod.
  assert (Hone : forall c its, map item_byte its = enc c -> dec (map item_byte its) = Some [c]).
  { intros c its Hb. rewrite Hb. specialize (Hcod [c]). cbn in Hcod. now rewrite app_nil_r in Hcod. }
  induction sp as [|[c o] r IH]; intros Hok.
  - cbn. auto.
  - assert (IH' : cspell_ok enc r) by (destruct o; cbn [cspell_ok] in Hok; tauto).
    specialize (IH IH'). destruct IH as (IHok & IHt & IHv & IHh).
    destruct o as [its|]; cbn [cspell_ok] in Hok; cbn [pieces_of].
    + destruct Hok as (Hne & Hi & Hb & Hf & Hr).
      destruct r as [|[c' [its'|]] r'].
      * cbn in IHh. cbn [pieces_of] in *. cbn [chunk_ok]. repeat split; try assumption; auto.
        exists its, [], []. repeat split. cbn. now rewrite app_nil_r.
      * destruct IHh as (its1 & t & q & Hp & Hb1 & _). rewrite Hp in *.
        cbn [chunk_ok] in IHok. destruct IHok as (Hne1 & Hi1 & Hd1 & Hf1 & Hq).
        cbn [chunk_ok]. split; [|split; [|split]].
        -- repeat split.
           ++ destruct its; [congruence|discriminate].
           ++ apply Forall_app; auto.
           ++ rewrite map_app, Hb, Hb1. apply (Hcod (c :: c' :: t)).
           ++ rewrite last_app_ne by assumption. exact Hf1.
           ++ exact Hq.
        -- unfold chunk_text, cspell_text in *. cbn [flat_map piece_text fst snd] in *.
           rewrite flat_map_app, <- app_assoc. f_equal. exact IHt.
        -- unfold chunk_value in *. cbn [flat_map piece_value map fst] in *. cbn [app]. f_equal. exact IHv.
        -- exists (its ++ its1), (c' :: t), q. repeat split. rewrite map_app, Hb, Hb1. reflexivity.
      * destruct IHh as (cs & q & Hp). rewrite Hp in *.
        pose proof IHok as IHok'. cbn [chunk_ok] in IHok'. destruct IHok' as (? & ? & ? & ?).
        cbn [chunk_ok]. split; [|split; [|split]].
        -- repeat split; auto.
        -- unfold chunk_text, cspell_text in *. cbn [flat_map piece_text fst snd] in *. f_equal. exact IHt.
        -- unfold chunk_value in *. cbn [flat_map piece_value map fst] in *. cbn [app]. f_equal. exact IHv.
        -- exists its, [], (PLit (c' :: cs) :: q). repeat split. cbn. now rewrite app_nil_r.
    + destruct Hok as (Hl & Hr).
      destruct r as [|[c' [its'|]] r'].
      * cbn in IHh. cbn [pieces_of]. cbn [chunk_ok]. repeat split; auto; try discriminate.
        exists [], []. reflexivity.
      * destruct IHh as (its1 & t & q & Hp & _). rewrite Hp in *.
        cbn [chunk_ok]. split; [|split; [|split]].
        -- repeat split; auto; try discriminate; try (cbn [chunk_ok] in IHok; tauto).
        -- unfold chunk_text, cspell_text in *. cbn [flat_map piece_text fst snd] in *. cbn [app]. f_equal. exact IHt.
        -- unfold chunk_value in *. cbn [flat_map piece_value map fst] in *. cbn [app]. f_equal. exact IHv.
        -- exists [], (PEsc its1 (c' :: t) :: q). reflexivity.
      * destruct IHh as (cs & q & Hp). rewrite Hp in *.
        cbn [chunk_ok] in IHok. destruct IHok as (_ & Hl1 & Hq1 & Hq).
        cbn [chunk_ok]. split; [|split; [|split]].
        -- repeat split; auto; try discriminate; try (cbn [chunk_ok] in IHok; tauto).
        -- unfold chunk_text, cspell_text in *. cbn [flat_map piece_text fst snd] in *. cbn [app] in *. f_equal. exact IHt.
        -- unfold chunk_value in *. cbn [flat_map piece_value map fst] in *. cbn [app] in *. f_equal. exact IHv.
        -- exists (c' :: cs), q. reflexivity.
Qed.

Theorem unescape_roundtrip_chars enc dec : ascii_compatible dec -> codec_ok enc dec ->
  forall sp, cspell_ok enc sp -> unescape dec (cspell_text sp) = Ok (map fst sp, false).
Proof.
  intros Ha Hc sp Hok. destruct (pieces_of_spec enc dec Hc sp Hok) as (H1 & H2 & H3 & _).
  rewrite <- H2, <- H3. now apply unescape_roundtrip.
Qed.

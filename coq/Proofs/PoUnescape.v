(* polib_unescape returns the string for every spelling of the printer family (Spec/PoSyntax.v, part 1)
   and emits no warning.  Hex escapes have any number of digits (the code after the repair of D29). *)
From Coq Require Import List NArith Bool Lia ZifyBool Arith.
From I18n Require Import Lib.Outcome Model.PoUnescape Spec.PoSyntax.
Import ListNotations.
Local Open Scope N_scope.

(* ---------------- bridges between the specification's predicates and the model's ---------------- *)
Lemma oct_is_oct c : c_octal c -> is_oct c = true.
Proof. unfold c_octal, is_oct, between. lia. Qed.
Lemma oct_is_dec c : c_octal c -> is_dec c = true.
Proof. unfold c_octal, is_dec, between. lia. Qed.
Lemma hex_is_hex c : c_hex c -> is_hex c = true.
Proof. unfold c_hex, is_hex, between. lia. Qed.
Lemma not_dec c : ~ c_decimal c -> is_dec c = false.
Proof. unfold c_decimal, is_dec, between. lia. Qed.
Lemma not_hex c : ~ c_hex c -> is_hex c = false.
Proof. unfold c_hex, is_hex, between. lia. Qed.
Lemma hexval_eq c : c_hex c -> hexval c = c_hexval c.
Proof. unfold c_hex, hexval, c_hexval, between. intros H.
  destruct (48 <=? c) eqn:A, (c <=? 57) eqn:B, (97 <=? c) eqn:C, (c <=? 102) eqn:D; cbn; try reflexivity; lia. Qed.
Lemma hexval_lt c : c_hex c -> c_hexval c < 16.
Proof. unfold c_hex, c_hexval. intros H.
  destruct (c <=? 57) eqn:B, (97 <=? c) eqn:C; lia. Qed.
Lemma named_simple e b : In (e, b) c_named -> simple_escape e = Some b.
Proof. unfold c_named. cbn [In]. intros H.
  repeat (destruct H as [H | H]; [inversion H; subst; reflexivity |]). destruct H. Qed.
Lemma named_not_x e b : In (e, b) c_named -> N.eqb e LX = false /\ is_hex e = false \/ e = 98 \/ e = 102 \/ e = 97.
Proof. unfold c_named. cbn [In]. intros H.
  repeat (destruct H as [H | H]; [inversion H; subst; cbn; auto |]). destruct H. Qed.
Lemma named_byte_small e b : In (e, b) c_named -> b < 128.
Proof. unfold c_named. cbn [In]. intros H.
  repeat (destruct H as [H | H]; [inversion H; subst; reflexivity |]). destruct H. Qed.

(* ---------------- the skip counter ---------------- *)
Lemma go_skip dec pre : forall s run,
  unescape_go dec (pre ++ s) (length pre) run = unescape_go dec s 0 run.
Proof. induction pre as [|a pre IH]; intros s run; [reflexivity|]. cbn [app length unescape_go]. apply IH. Qed.
Lemma fixup_skip pre : forall s, fixup (pre ++ s) (length pre) = fixup s 0.
Proof. induction pre as [|a pre IH]; intros s; [reflexivity|]. cbn [app length fixup]. apply IH. Qed.
Lemma fixup_long_skip pre : forall s, fixup_long (pre ++ s) (length pre) = fixup_long s 0.
Proof. induction pre as [|a pre IH]; intros s; [reflexivity|]. cbn [app length fixup_long]. apply IH. Qed.
Lemma bytes_eval_skip pre : forall s, bytes_eval (pre ++ s) (length pre) = bytes_eval s 0.
Proof. induction pre as [|a pre IH]; intros s; [reflexivity|]. cbn [app length bytes_eval]. apply IH. Qed.

(* ---------------- a hex escape takes every hex digit that follows ---------------- *)
Definition hexb (c : N) : Prop := is_hex c = true.

Lemma hex_hexb d : Forall c_hex d -> Forall hexb d.
Proof. apply Forall_impl. exact hex_is_hex. Qed.

Lemma hex_span_app d s : Forall hexb d -> nth_is is_hex s 0 = false -> hex_span (d ++ s) = length d.
Proof.
  induction d as [|a d IH]; intros Hd Hs; cbn [app].
  - destruct s as [|x s]; [reflexivity|]. unfold nth_is in Hs. cbn [nth_error] in Hs. cbn [hex_span]. now rewrite Hs.
  - inversion Hd as [|? ? Ha Hd']; subst. cbn [hex_span length]. unfold hexb in Ha. rewrite Ha. f_equal. now apply IH.
Qed.

Lemma hex_span_firstn r :
  Forall hexb (firstn (hex_span r) r) /\ length (firstn (hex_span r) r) = hex_span r.
Proof.
  induction r as [|c r [IH1 IH2]]; [split; [constructor|reflexivity]|]. cbn [hex_span].
  destruct (is_hex c) eqn:E; cbn [firstn length].
  - split; [constructor; assumption|now f_equal].
  - split; [constructor|reflexivity].
Qed.

Lemma escape_len_hex d s : d <> [] -> Forall hexb d -> nth_is is_hex s 0 = false ->
  escape_len (92 :: 120 :: d ++ s) = Some (S (S (length d))).
Proof.
  intros Hne Hd Hs. unfold escape_len, nth_is. cbn [nth_error skipn].
  change (N.eqb BSL 92) with true. cbv iota.
  change (simple_escape 120) with (@None N). change (is_dec 120) with false.
  change (N.eqb 120 LX) with true. cbv iota.
  rewrite hex_span_app by assumption. destruct d; [congruence|reflexivity].
Qed.

(* ---------------- one escape of the family is one alternative of the regex ---------------- *)
Definition follows (i : item) (s : list N) : Prop :=
  match s with [] => True | c :: _ => may_follow i c end.

Lemma follows_backslash i s : follows i (92 :: s).
Proof. destruct i; cbn; unfold c_decimal, c_hex; intros; lia. Qed.
Lemma follows_item i j s : follows i (item_text j ++ s).
Proof. destruct j; apply follows_backslash. Qed.

Lemma escape_len_item i s : item_ok i -> follows i s ->
  escape_len (item_text i ++ s) = Some (length (item_text i)).
Proof.
  intros Hok Hf. destruct i as [e b | d | d]; cbn [item_text item_ok] in *.
  - unfold escape_len, nth_is. cbn [app nth_error]. rewrite N.eqb_refl.
    rewrite (named_simple _ _ Hok). reflexivity.
  - destruct Hok as (Hlen & Hd & _).
    assert (Hne : forall a, c_octal a -> simple_escape a = None).
    { intros a Ha. unfold c_octal in Ha. unfold simple_escape.
      repeat match goal with |- context [N.eqb a ?k] => destruct (N.eqb_spec a k); [lia|] end. reflexivity. }
    destruct d as [|a [|b' [|c [|? ?]]]]; cbn [length] in Hlen; try lia;
      repeat match goal with H : Forall _ (_ :: _) |- _ => inversion H; subst; clear H end;
      unfold escape_len, nth_is; cbn [app nth_error length]; rewrite N.eqb_refl;
      rewrite Hne by assumption; repeat rewrite oct_is_dec by assumption.
    + destruct s as [|x s]; cbn [app nth_error]; [reflexivity|].
      cbn in Hf. rewrite not_dec by (apply Hf; cbn; lia). reflexivity.
    + destruct s as [|x s]; cbn [app nth_error]; [reflexivity|].
      cbn in Hf. rewrite not_dec by (apply Hf; cbn; lia). reflexivity.
    + reflexivity.
  - destruct Hok as (Hlen & Hd). cbn [app length].
    assert (Hs : nth_is is_hex s 0 = false).
    { destruct s as [|x s]; [reflexivity|]. cbn in Hf. unfold nth_is. cbn [nth_error]. now apply not_hex. }
    rewrite escape_len_hex; [reflexivity| |now apply hex_hexb|exact Hs].
    destruct d; [cbn in Hlen; lia|discriminate].
Qed.

Lemma item_text_cons i : exists tl, item_text i = 92 :: tl.
Proof. destruct i; cbn; eauto. Qed.

Definition items_text (its : list item) : list N := flat_map item_text its.

Lemma go_item dec i s run : item_ok i -> follows i s ->
  unescape_go dec (item_text i ++ s) 0 run = unescape_go dec s 0 (run ++ item_text i).
Proof.
  intros Hok Hf. pose proof (escape_len_item i s Hok Hf) as HL.
  destruct (item_text_cons i) as [tl Htl]. rewrite Htl in *.
  cbn [app] in *. cbn [unescape_go]. rewrite HL. cbn [length pred].
  replace (firstn (S (length tl)) (92 :: tl ++ s)) with (92 :: tl).
  - apply go_skip.
  - cbn [firstn]. f_equal. rewrite firstn_app, Nat.sub_diag, firstn_all. cbn. now rewrite app_nil_r.
Qed.

Lemma go_items dec : forall its s run, Forall item_ok its ->
  follows (last its (INamed 0 0)) s ->
  unescape_go dec (items_text its ++ s) 0 run = unescape_go dec s 0 (run ++ items_text its).
Proof.
  induction its as [|i its IH]; intros s run Hok Hf.
  - cbn. now rewrite app_nil_r.
  - inversion Hok as [|? ? Hi Hits]; subst. unfold items_text in *. cbn [flat_map]. rewrite <- app_assoc.
    rewrite go_item; [| assumption |].
    + rewrite IH; [now rewrite app_assoc | assumption |].
      destruct its; [destruct s; exact I|]. exact Hf.
    + destruct its as [|j its]; [cbn; exact Hf|]. cbn [flat_map]. rewrite <- app_assoc. apply follows_item.
Qed.

(* ---------------- the long-x fix-up keeps the last two digits of a hex escape ---------------- *)
(* the rest of a run: empty or the next escape *)
Definition run_tail (s : list N) : Prop := s = [] \/ exists r, s = 92 :: r.

Lemma run_tail_not_hex s : run_tail s -> nth_is is_hex s 0 = false.
Proof. intros [-> | [r ->]]; reflexivity. Qed.

Definition last2 (d : list N) : list N := skipn (length d - 2) d.

Lemma last2_split d : (2 <= length d)%nat -> exists pre a b, d = pre ++ [a; b] /\ last2 d = [a; b].
Proof.
  intros H. pose proof (firstn_skipn (length d - 2) d) as E. fold (last2 d) in E.
  assert (L : length (last2 d) = 2%nat) by (unfold last2; rewrite skipn_length; lia).
  destruct (last2 d) as [|a [|b [|? ?]]]; cbn [length] in L; try lia.
  exists (firstn (length d - 2) d), a, b. split; [now symmetry|reflexivity].
Qed.

Lemma Forall_skipn_ {A} (P : A -> Prop) n : forall l, Forall P l -> Forall P (skipn n l).
Proof. induction n as [|n IH]; intros l H; [exact H|]. destruct l; [constructor|]. inversion H; subst. cbn [skipn]. now apply IH. Qed.

Lemma last2_length d : (2 <= length d)%nat -> length (last2 d) = 2%nat.
Proof. intros H. unfold last2. rewrite skipn_length. lia. Qed.

Lemma skipn_last2 d s : (2 <= length d)%nat -> skipn (length d) (92 :: 120 :: d ++ s) = last2 d ++ s.
Proof.
  intros H. unfold last2. remember (length d - 2)%nat as k eqn:Ek.
  replace (length d) with (S (S k)) by lia. cbn [skipn]. rewrite skipn_app.
  replace (k - length d)%nat with O by lia. reflexivity.
Qed.

Lemma long_x_nonbs c s : c <> 92 -> long_x_at (c :: s) = None.
Proof. intros H. unfold long_x_at, nth_is. cbn [nth_error]. destruct (N.eqb_spec BSL c); [unfold BSL in *; congruence|reflexivity]. Qed.

Lemma long_x_not_x e s : e <> 120 -> long_x_at (92 :: e :: s) = None.
Proof. intros H. unfold long_x_at, nth_is. cbn [nth_error]. destruct (N.eqb_spec LX e); [unfold LX in *; congruence|]. now rewrite andb_false_r. Qed.

Lemma long_x_hex d s : Forall hexb d -> nth_is is_hex s 0 = false ->
  long_x_at (92 :: 120 :: d ++ s) = match d with _ :: _ :: _ => Some (length d) | _ => None end.
Proof.
  intros Hd Hs. unfold long_x_at, nth_is. cbn [nth_error skipn].
  change (N.eqb BSL 92) with true. change (N.eqb LX 120) with true. cbn [andb].
  rewrite hex_span_app by assumption. destruct d as [|a [|b d]]; reflexivity.
Qed.

Lemma fixup_long_copy : forall d s, Forall (fun c => c <> 92) d -> fixup_long (d ++ s) 0 = d ++ fixup_long s 0.
Proof. induction d as [|a d IH]; intros s H; [reflexivity|]. inversion H; subst.
  cbn [app fixup_long]. rewrite long_x_nonbs by assumption. f_equal. now apply IH. Qed.

(* backslash + one character that is not x *)
Lemma fixup_long_pair e s : e <> 120 -> run_tail s -> fixup_long (92 :: e :: s) 0 = 92 :: e :: fixup_long s 0.
Proof.
  intros He Hs. cbn [fixup_long]. rewrite long_x_not_x by assumption. f_equal.
  assert (HY : long_x_at (e :: s) = None).
  { unfold long_x_at, nth_is. cbn [nth_error]. destruct (N.eqb_spec BSL e) as [<-|]; [|reflexivity].
    destruct Hs as [-> | [r ->]]; reflexivity. }
  rewrite HY. reflexivity.
Qed.

(* backslash + digits *)
Lemma fixup_long_digits d s : Forall (fun c => c <> 92 /\ c <> 120) d -> run_tail s ->
  fixup_long (92 :: d ++ s) 0 = 92 :: d ++ fixup_long s 0.
Proof.
  intros Hd Hs. cbn [fixup_long].
  assert (HX : long_x_at (92 :: d ++ s) = None).
  { destruct d as [|a d]; cbn [app].
    - unfold long_x_at, nth_is. cbn [nth_error]. destruct Hs as [-> | [r ->]]; reflexivity.
    - inversion Hd as [|? ? [_ Ha] _]; subst. now apply long_x_not_x. }
  rewrite HX. f_equal. apply fixup_long_copy. eapply Forall_impl; [|exact Hd]. cbn. tauto.
Qed.

(* backslash x + hex digits *)
Lemma fixup_long_hex1 a s : hexb a -> run_tail s ->
  fixup_long (92 :: 120 :: a :: s) 0 = 92 :: 120 :: a :: fixup_long s 0.
Proof.
  intros Ha Hs. cbn [fixup_long].
  pose proof (long_x_hex [a] s (Forall_cons _ Ha (Forall_nil _)) (run_tail_not_hex s Hs)) as HX.
  cbn [app] in HX. rewrite HX. f_equal.
  assert (Ha' : a <> 92) by (unfold hexb, is_hex, between in Ha; lia).
  rewrite (long_x_nonbs 120) by discriminate. f_equal. rewrite long_x_nonbs by assumption. reflexivity.
Qed.

Lemma fixup_long_hex d s : Forall hexb d -> (2 <= length d)%nat -> run_tail s ->
  fixup_long (92 :: 120 :: d ++ s) 0 = 92 :: 120 :: last2 d ++ fixup_long s 0.
Proof.
  intros Hd Hlen Hs. cbn [fixup_long].
  assert (HX : long_x_at (92 :: 120 :: d ++ s) = Some (length d)).
  { rewrite long_x_hex by (try apply run_tail_not_hex; auto). destruct d as [|a [|b d]]; cbn [length] in Hlen; try lia. reflexivity. }
  rewrite HX. rewrite skipn_last2 by assumption.
  change (120 :: d ++ s) with ((120 :: d) ++ s). change (S (length d)) with (length (120 :: d)).
  rewrite fixup_long_skip. unfold BSL, LX. f_equal. f_equal. f_equal.
  pose proof (last2_length d Hlen) as L. destruct (last2 d) as [|x [|y [|? ?]]]; cbn [length] in L; try lia. reflexivity.
Qed.

Lemma hexb_nonbs_ d : Forall hexb d -> Forall (fun c => c <> 92) d.
Proof. apply Forall_impl. unfold hexb, is_hex, between. intros; lia. Qed.

(* on the items of the family *)
Definition plong (i : item) : item :=
  match i with IHex (a :: b :: d) => IHex (last2 (a :: b :: d)) | _ => i end.
Definition item_short (i : item) : Prop :=
  match i with IHex d => (length d <= 2)%nat | _ => True end.

Lemma items_run_tail its : run_tail (items_text its).
Proof. destruct its as [|i its]; [now left|]. right. unfold items_text. cbn [flat_map].
  destruct (item_text_cons i) as [tl ->]. eexists. reflexivity. Qed.

Lemma fixup_long_item i s : item_ok i -> run_tail s ->
  fixup_long (item_text i ++ s) 0 = item_text (plong i) ++ fixup_long s 0.
Proof.
  intros Hok Hs. destruct i as [e b | d | d]; cbn [item_text item_ok plong] in *.
  - cbn [app]. apply fixup_long_pair; [|assumption].
    intros ->. unfold c_named in Hok. cbn in Hok.
    repeat (destruct Hok as [Hok|Hok]; [inversion Hok|]). destruct Hok.
  - destruct Hok as (_ & Hd & _). cbn [app]. apply fixup_long_digits; [|assumption].
    eapply Forall_impl; [|exact Hd]. unfold c_octal. cbn. intros; lia.
  - destruct Hok as (Hlen & Hd). apply hex_hexb in Hd.
    destruct d as [|a [|b' d']]; [cbn in Hlen; lia| |].
    + inversion Hd; subst. cbn [app]. now apply fixup_long_hex1.
    + change (fixup_long (92 :: 120 :: (a :: b' :: d') ++ s) 0 = 92 :: 120 :: last2 (a :: b' :: d') ++ fixup_long s 0).
      apply fixup_long_hex; [assumption|cbn [length]; lia|assumption].
Qed.

Lemma fixup_long_items : forall its, Forall item_ok its ->
  fixup_long (items_text its) 0 = items_text (map plong its).
Proof.
  induction its as [|i its IH]; intros Hok; [reflexivity|]. inversion Hok; subst.
  unfold items_text in *. cbn [flat_map map]. rewrite fixup_long_item; [|assumption|apply items_run_tail].
  f_equal. now apply IH.
Qed.

Lemma plong_ok i : item_ok i -> item_ok (plong i) /\ item_short (plong i).
Proof.
  destruct i as [e b | d | d]; cbn [plong item_ok item_short]; try tauto.
  intros (Hlen & Hd). destruct d as [|a [|b' d']].
  - cbn [length] in Hlen. lia.
  - cbn [plong item_ok item_short length]. split; [split; [lia|assumption]|lia].
  - cbn [plong item_ok item_short]. rewrite last2_length by (cbn [length]; lia).
    split; [split; [lia|]|lia]. now apply Forall_skipn_.
Qed.

Lemma dv_last2 v pre a b : digits_value 16 v (pre ++ [a; b]) mod 256 = digits_value 16 v [a; b] mod 256.
Proof.
  unfold digits_value. rewrite fold_left_app. cbn [fold_left].
  set (X := fold_left (fun acc c => acc * 16 + v c) pre 0).
  replace ((X * 16 + v a) * 16 + v b) with ((0 * 16 + v a) * 16 + v b + X * 256) by lia.
  apply N.mod_add. discriminate.
Qed.

Lemma plong_byte i : item_byte (plong i) = item_byte i.
Proof.
  destruct i as [e b | d | d]; try reflexivity. destruct d as [|a [|b' d']]; try reflexivity.
  cbn [plong item_byte].
  destruct (last2_split (a :: b' :: d') ltac:(cbn [length]; lia)) as (pre & x & y & E & ->).
  rewrite E. symmetry. apply dv_last2.
Qed.

(* ---------------- the short-x fix-up pads one-digit hex escapes ---------------- *)
Definition pad (i : item) : item :=
  match i with IHex [a] => IHex [48; a] | _ => i end.

Lemma short_x_nonbs c s : c <> 92 -> short_x_at (c :: s) = false.
Proof. intros H. unfold short_x_at, nth_is. cbn [nth_error]. destruct (N.eqb_spec BSL c); [unfold BSL in *; congruence|reflexivity]. Qed.

Lemma fixup_copy : forall d s, Forall (fun c => c <> 92) d -> fixup (d ++ s) 0 = d ++ fixup s 0.
Proof. induction d as [|a d IH]; intros s H; [reflexivity|]. inversion H; subst.
  cbn [app fixup]. rewrite short_x_nonbs by assumption. f_equal. now apply IH. Qed.

Lemma oct_nonbs d : Forall c_octal d -> Forall (fun c => c <> 92) d.
Proof. apply Forall_impl. unfold c_octal. intros; lia. Qed.
Lemma hex_nonbs d : Forall c_hex d -> Forall (fun c => c <> 92) d.
Proof. apply Forall_impl. unfold c_hex. intros; lia. Qed.

Lemma fixup_item i s : item_ok i -> item_short i -> run_tail s ->
  fixup (item_text i ++ s) 0 = item_text (pad i) ++ fixup s 0.
Proof.
  intros Hok Hsh Hs. destruct i as [e b | d | d]; cbn [item_text item_ok pad] in *.
  - cbn [app]. cbn [fixup].
    assert (HSX : short_x_at (92 :: e :: s) = false).
    { unfold short_x_at, nth_is. cbn [nth_error].
      destruct (N.eqb_spec LX e) as [<-|]; [|now rewrite andb_false_r].
      exfalso. unfold c_named in Hok. cbn in Hok. unfold LX in Hok.
      repeat (destruct Hok as [Hok|Hok]; [inversion Hok|]). destruct Hok. }
    rewrite HSX. f_equal.
    assert (HSY : short_x_at (e :: s) = false).
    { unfold short_x_at, nth_is. cbn [nth_error].
      destruct (N.eqb_spec BSL e) as [<-|]; [|reflexivity].
      destruct Hs as [-> | [r ->]]; reflexivity. }
    rewrite HSY. reflexivity.
  - destruct Hok as (_ & Hd & _). cbn [app fixup].
    assert (HSX : short_x_at (92 :: d ++ s) = false).
    { unfold short_x_at, nth_is. cbn [nth_error].
      destruct d as [|a d]; cbn [app nth_error].
      - destruct Hs as [-> | [r ->]]; reflexivity.
      - inversion Hd; subst. unfold c_octal in *. destruct (N.eqb_spec LX a); [unfold LX in *; lia|]. now rewrite andb_false_r. }
    rewrite HSX. f_equal. apply fixup_copy. now apply oct_nonbs.
  - destruct Hok as (Hlen & Hd). cbn [item_short] in Hsh.
    destruct d as [|a [|b' [|? ?]]]; cbn [length] in Hlen, Hsh; try lia;
      repeat match goal with H : Forall _ (_ :: _) |- _ => inversion H; subst; clear H end.
    + (* one digit: padded *)
      cbn [app fixup].
      assert (HSX : short_x_at (92 :: 120 :: a :: s) = true).
      { unfold short_x_at, nth_is. cbn [nth_error]. rewrite hex_is_hex by assumption.
        destruct Hs as [-> | [r ->]]; reflexivity. }
      rewrite HSX. cbn [nth pad item_text app]. reflexivity.
    + cbn [app fixup pad item_text].
      assert (HSX : short_x_at (92 :: 120 :: a :: b' :: s) = false).
      { unfold short_x_at, nth_is. cbn [nth_error].
        destruct (N.eqb_spec b' BSL); [unfold c_hex, BSL in *; lia|]. now rewrite andb_false_r. }
      rewrite HSX. f_equal.
      rewrite !short_x_nonbs by (unfold c_hex in *; lia). reflexivity.
Qed.

Lemma fixup_items : forall its, Forall item_ok its -> Forall item_short its ->
  fixup (items_text its) 0 = items_text (map pad its).
Proof.
  induction its as [|i its IH]; intros Hok Hsh; [reflexivity|]. inversion Hok; subst. inversion Hsh; subst.
  unfold items_text in *. cbn [flat_map map]. rewrite fixup_item; [|assumption|assumption|apply items_run_tail].
  f_equal. now apply IH.
Qed.

(* ---------------- evaluation of the bytes literal ---------------- *)
Lemma pad_byte i : item_ok i -> item_byte (pad i) = item_byte i.
Proof. destruct i as [| |d]; try reflexivity. destruct d as [|a [|]]; reflexivity. Qed.

Lemma hex2_small a b' : c_hex a -> c_hex b' -> c_hexval a * 16 + c_hexval b' < 256.
Proof. intros Ha Hb. pose proof (hexval_lt a Ha). pose proof (hexval_lt b' Hb). lia. Qed.

Lemma bytes_eval_bind_ok s k b w : bytes_eval s k = Ok (b, w) ->
  forall x v, (do y <- bytes_eval s k; Ok (x :: fst y, v || snd y)) = Ok (x :: b, v || w) :> outcome (list N * bool) unit.
Proof. intros -> x v. reflexivity. Qed.

Lemma oct_len_app d s : (1 <= length d <= 3)%nat -> Forall c_octal d -> nth_is is_oct s 0 = false ->
  oct_len (d ++ s) = length d.
Proof.
  intros Hlen Hd Hn. unfold oct_len, nth_is in *.
  destruct d as [|a [|b' [|c [|? ?]]]]; cbn [length] in Hlen; try lia;
    repeat match goal with H : Forall _ (_ :: _) |- _ => inversion H; subst; clear H end;
    cbn [app nth_error length].
  - destruct s as [|x s]; cbn [nth_error] in *; [reflexivity|]. now rewrite Hn.
  - rewrite (oct_is_oct b') by assumption. destruct s as [|x s]; cbn [nth_error] in *; [reflexivity|]. now rewrite Hn.
  - now rewrite (oct_is_oct b'), (oct_is_oct c) by assumption.
Qed.

Lemma oct_value_app d s : oct_value (d ++ s) (length d) = digits_value 8 (fun c => c - 48) d.
Proof. unfold oct_value, digits_value. rewrite firstn_app, Nat.sub_diag, firstn_all. cbn [firstn]. now rewrite app_nil_r. Qed.

Lemma bytes_eval_oct_step d s : (1 <= length d)%nat -> Forall c_octal d ->
  bytes_eval (92 :: d ++ s) 0 =
  (do x <- bytes_eval (d ++ s) (oct_len (d ++ s));
   Ok (oct_value (d ++ s) (oct_len (d ++ s)) mod 256 :: fst x, (255 <? oct_value (d ++ s) (oct_len (d ++ s))) || snd x)).
Proof.
  intros Hlen Hd. destruct d as [|a d]; [cbn in Hlen; lia|]. inversion Hd as [|? ? Ha _]; subst.
  cbn [app]. cbn [bytes_eval]. change (N.eqb 92 BSL) with true. cbv iota.
  assert (Hne : simple_escape a = None /\ N.eqb a 39 = false /\ N.eqb a 10 = false).
  { unfold c_octal in Ha. unfold simple_escape.
    repeat match goal with |- context [N.eqb a ?k] => destruct (N.eqb_spec a k); [lia|] end. auto. }
  destruct Hne as (-> & -> & ->). rewrite (oct_is_oct a) by assumption. reflexivity.
Qed.

Lemma bytes_eval_item i s b w : item_ok i -> item_short i -> run_tail s -> bytes_eval s 0 = Ok (b, w) ->
  bytes_eval (item_text (pad i) ++ s) 0 = Ok (item_byte i :: b, w).
Proof.
  intros Hok Hsh Hs Hrest. destruct i as [e v | d | d]; cbn [item_text item_ok pad item_byte] in *.
  - cbn [app bytes_eval]. change (N.eqb 92 BSL) with true. cbv iota.
    assert (He : N.eqb e 39 = false /\ N.eqb e 10 = false).
    { unfold c_named in Hok. cbn in Hok.
      repeat (destruct Hok as [Hok|Hok]; [inversion Hok; subst; split; reflexivity|]). destruct Hok. }
    destruct He as [-> ->]. rewrite (named_simple _ _ Hok).
    change (bytes_eval (e :: s) 1) with (bytes_eval s 0). rewrite Hrest. reflexivity.
  - destruct Hok as (Hlen & Hd & Hv).
    assert (Hnext : nth_is is_oct s 0 = false).
    { destruct Hs as [-> | [r ->]]; reflexivity. }
    cbn [app]. rewrite (bytes_eval_oct_step d s) by (assumption || lia).
    rewrite oct_len_app, bytes_eval_skip, Hrest, oct_value_app by (assumption || lia).
    cbn [obind fst snd]. rewrite N.mod_small by exact Hv.
    replace (255 <? _) with false by lia. reflexivity.
  - destruct Hok as (Hlen & Hd).
    assert (Hpy : forall a b', c_hex a -> c_hex b' ->
       bytes_eval (92 :: 120 :: a :: b' :: s) 0 = Ok (c_hexval a * 16 + c_hexval b' :: b, w)).
    { intros a b' Ha Hb. cbn [bytes_eval]. change (N.eqb 92 BSL) with true. cbv iota.
      change (N.eqb 120 39) with false. change (N.eqb 120 10) with false.
      change (simple_escape 120) with (@None N). change (is_oct 120) with false.
      change (N.eqb 120 LX) with true. cbv iota. unfold nth_is. cbn [nth_error nth].
      rewrite (hex_is_hex a), (hex_is_hex b') by assumption. cbn [andb].
      change (bytes_eval (120 :: a :: b' :: s) 3) with (bytes_eval s 0). rewrite Hrest. cbn [obind fst snd].
      now rewrite !hexval_eq by assumption. }
    cbn [item_short] in Hsh.
    destruct d as [|a [|b' [|? ?]]]; cbn [length] in Hlen, Hsh; try lia;
      repeat match goal with H : Forall _ (_ :: _) |- _ => inversion H; subst; clear H end;
      cbn [pad item_text app].
    + rewrite Hpy; [|unfold c_hex; lia|assumption]. unfold digits_value. cbn [fold_left].
      change (c_hexval 48) with 0. rewrite N.mod_small; [reflexivity|].
      match goal with H : c_hex a |- _ => pose proof (hexval_lt a H) end. lia.
    + rewrite Hpy by assumption. unfold digits_value. cbn [fold_left].
      rewrite N.mod_small; [reflexivity|]. change (0 * 16 + c_hexval a) with (c_hexval a). now apply hex2_small.
Qed.

Lemma bytes_eval_items : forall its, Forall item_ok its -> Forall item_short its ->
  bytes_eval (items_text (map pad its)) 0 = Ok (map item_byte its, false).
Proof.
  induction its as [|i its IH]; intros Hok Hsh; [reflexivity|]. inversion Hok; subst. inversion Hsh; subst.
  unfold items_text in *. cbn [flat_map map].
  apply bytes_eval_item; [assumption|assumption|apply items_run_tail|now apply IH].
Qed.

(* both fix-ups, then the evaluation: the bytes of the items, every hex escape reduced mod 256 *)
Lemma plong_all its : Forall item_ok its ->
  Forall item_ok (map plong its) /\ Forall item_short (map plong its) /\ map item_byte (map plong its) = map item_byte its.
Proof.
  induction 1 as [|i its Hi _ (IH1 & IH2 & IH3)]; [repeat split; constructor|].
  destruct (plong_ok i Hi) as [H1 H2]. cbn [map]. repeat split; try (constructor; assumption).
  rewrite plong_byte. now f_equal.
Qed.

Lemma eval_run_items its : Forall item_ok its ->
  bytes_eval (fixup (fixup_long (items_text its) 0) 0) 0 = Ok (map item_byte its, false).
Proof.
  intros Hok. destruct (plong_all its Hok) as (H1 & H2 & H3).
  rewrite fixup_long_items, fixup_items, bytes_eval_items by assumption. now rewrite H3.
Qed.

(* ---------------- a run ---------------- *)
Lemma decode_run_ok dec b t : ascii_compatible dec -> dec b = Some t -> decode_run dec b = Ok t.
Proof.
  intros Hc Hd. unfold decode_run. destruct (forallb (fun c => c <? 128) b) eqn:E.
  - rewrite forallb_forall in E. rewrite Hc in Hd; [congruence|].
    apply Forall_forall. intros x Hx. specialize (E x Hx). lia.
  - now rewrite Hd.
Qed.

Lemma unescape_run_items dec its t : ascii_compatible dec -> Forall item_ok its ->
  dec (map item_byte its) = Some t ->
  unescape_run dec (items_text its) = Ok (t, false).
Proof.
  intros Hc Hok Hd. unfold unescape_run. rewrite eval_run_items by assumption.
  cbn [lift_crash obind fst snd]. now rewrite (decode_run_ok _ _ _ Hc Hd).
Qed.

Lemma items_text_nonempty its : its <> [] -> items_text its <> [].
Proof. destruct its as [|i its]; [congruence|]. intros _. unfold items_text. cbn [flat_map].
  destruct (item_text_cons i) as [tl ->]. discriminate. Qed.

(* ---------------- literal characters ---------------- *)
Lemma escape_len_lit c s : c <> 92 -> escape_len (c :: s) = None.
Proof. intros H. unfold escape_len, nth_is. cbn [nth_error]. destruct (N.eqb_spec BSL c); [unfold BSL in *; congruence|reflexivity]. Qed.

Lemma go_lit_flush dec c s run : c <> 92 ->
  unescape_go dec (c :: s) 0 run =
  (do a <- flush_run dec run; do b <- unescape_go dec (c :: s) 0 []; Ok (fst a ++ fst b, snd a || snd b)).
Proof.
  intros H. cbn [unescape_go]. rewrite escape_len_lit by assumption. cbn [flush_run].
  destruct (flush_run dec run) as [[ta wa]| |]; cbn [obind]; try reflexivity.
  destruct (unescape_go dec s 0 []) as [[tb wb]| |]; cbn [obind fst snd]; reflexivity.
Qed.

Lemma go_lits dec : forall cs s, Forall (fun c => c <> 92) cs ->
  unescape_go dec (cs ++ s) 0 [] = (do b <- unescape_go dec s 0 []; Ok (cs ++ fst b, snd b)).
Proof.
  induction cs as [|c cs IH]; intros s H.
  - cbn. destruct (unescape_go dec s 0 []) as [[tb wb]| |]; reflexivity.
  - inversion H; subst. cbn [app unescape_go]. rewrite escape_len_lit by assumption.
    cbn [flush_run obind]. rewrite IH by assumption.
    destruct (unescape_go dec s 0 []) as [[tb wb]| |]; reflexivity.
Qed.

(* ---------------- the chunk ---------------- *)
Theorem unescape_roundtrip dec : ascii_compatible dec -> forall ps, chunk_ok dec ps ->
  unescape dec (chunk_text ps) = Ok (chunk_value ps, false).
Proof.
  intros Hc. unfold unescape. induction ps as [|p ps IH]; intros Hok; [reflexivity|].
  destruct p as [cs | its t]; cbn [chunk_ok] in Hok.
  - destruct Hok as (_ & Hl & _ & Hr). unfold chunk_text, chunk_value in *. cbn [flat_map piece_text piece_value].
    rewrite go_lits by (eapply Forall_impl; [|exact Hl]; unfold lit_ok; tauto).
    rewrite (IH Hr). reflexivity.
  - destruct Hok as (Hne & Hi & Hd & Hf & Hr). unfold chunk_text, chunk_value in *.
    cbn [flat_map piece_text piece_value]. specialize (IH Hr).
    change (flat_map item_text its) with (items_text its).
    destruct ps as [|q ps].
    + cbn [flat_map]. rewrite go_items by (try assumption; exact I). cbn [unescape_go app].
      pose proof (items_text_nonempty its Hne) as Hn. unfold flush_run.
      destruct (items_text its) eqn:E; [congruence|]. rewrite <- E.
      rewrite (unescape_run_items _ _ _ Hc Hi Hd). now rewrite !app_nil_r.
    + destruct q as [[|c cs]|]; try contradiction.
      cbn [chunk_ok] in Hr. destruct Hr as (_ & Hl & _). inversion Hl as [|? ? Hcl _]; subst.
      cbn [flat_map piece_text piece_value] in *. rewrite <- !app_comm_cons in *.
      rewrite go_items by (try assumption; exact Hf).
      rewrite go_lit_flush by (unfold lit_ok in Hcl; tauto). rewrite IH. cbn [app].
      pose proof (items_text_nonempty its Hne) as Hn. unfold flush_run.
      destruct (items_text its) eqn:E; [congruence|]. rewrite <- E.
      rewrite (unescape_run_items _ _ _ Hc Hi Hd). reflexivity.
Qed.

(* ---------------- the per-character view ---------------- *)
Lemma last_app_ne {A} (l1 l2 : list A) d : l2 <> [] -> last (l1 ++ l2) d = last l2 d.
Proof. intros H. induction l1 as [|a l1 IH]; [reflexivity|]. cbn [app].
  rewrite <- IH. destruct (l1 ++ l2) eqn:E; [destruct l1, l2; cbn in E; congruence|]. reflexivity. Qed.

Lemma pieces_of_spec enc dec : codec_ok enc dec -> forall sp, cspell_ok enc sp ->
  chunk_ok dec (pieces_of sp) /\ chunk_text (pieces_of sp) = cspell_text sp /\
  chunk_value (pieces_of sp) = map fst sp /\
  match sp with
  | [] => pieces_of sp = []
  | (c, None) :: _ => exists cs q, pieces_of sp = PLit (c :: cs) :: q
  | (c, Some its) :: r => exists its1 t q, pieces_of sp = PEsc its1 (c :: t) :: q /\
       map item_byte its1 = flat_map enc (c :: t) /\
       match r with (c', None) :: _ => last its1 dflt_item = last its dflt_item | _ => True end
  end.
Proof.
  intros Hcod.
  assert (Hone : forall c its, map item_byte its = enc c -> dec (map item_byte its) = Some [c]).
  { intros c its Hb. rewrite Hb. specialize (Hcod [c]). cbn in Hcod. now rewrite app_nil_r in Hcod. }
  induction sp as [|[c o] r IH]; intros Hok.
  - cbn. auto.
  - assert (IH' : cspell_ok enc r) by (destruct o; cbn [cspell_ok] in Hok; tauto).
    specialize (IH IH'). destruct IH as (IHok & IHt & IHv & IHh).
    destruct o as [its|]; cbn [cspell_ok] in Hok; cbn [pieces_of].
    + destruct Hok as (Hne & Hi & Hb & Hf & Hr).
      destruct r as [|[c' [its'|]] r'].
      * cbn in IHh. cbn [pieces_of] in *. cbn [chunk_ok]. repeat split; try assumption; auto.
        exists its, [], []. repeat split. cbn. now rewrite app_nil_r.
      * destruct IHh as (its1 & t & q & Hp & Hb1 & _). rewrite Hp in *.
        cbn [chunk_ok] in IHok. destruct IHok as (Hne1 & Hi1 & Hd1 & Hf1 & Hq).
        cbn [chunk_ok]. split; [|split; [|split]].
        -- repeat split.
           ++ destruct its; [congruence|discriminate].
           ++ apply Forall_app; auto.
           ++ rewrite map_app, Hb, Hb1. apply (Hcod (c :: c' :: t)).
           ++ rewrite last_app_ne by assumption. exact Hf1.
           ++ exact Hq.
        -- unfold chunk_text, cspell_text in *. cbn [flat_map piece_text fst snd] in *.
           rewrite flat_map_app, <- app_assoc. f_equal. exact IHt.
        -- unfold chunk_value in *. cbn [flat_map piece_value map fst] in *. cbn [app]. f_equal. exact IHv.
        -- exists (its ++ its1), (c' :: t), q. repeat split. rewrite map_app, Hb, Hb1. reflexivity.
      * destruct IHh as (cs & q & Hp). rewrite Hp in *.
        pose proof IHok as IHok'. cbn [chunk_ok] in IHok'. destruct IHok' as (? & ? & ? & ?).
        cbn [chunk_ok]. split; [|split; [|split]].
        -- repeat split; auto.
        -- unfold chunk_text, cspell_text in *. cbn [flat_map piece_text fst snd] in *. f_equal. exact IHt.
        -- unfold chunk_value in *. cbn [flat_map piece_value map fst] in *. cbn [app]. f_equal. exact IHv.
        -- exists its, [], (PLit (c' :: cs) :: q). repeat split. cbn. now rewrite app_nil_r.
    + destruct Hok as (Hl & Hr).
      destruct r as [|[c' [its'|]] r'].
      * cbn in IHh. cbn [pieces_of]. cbn [chunk_ok]. repeat split; auto; try discriminate.
        exists [], []. reflexivity.
      * destruct IHh as (its1 & t & q & Hp & _). rewrite Hp in *.
        cbn [chunk_ok]. split; [|split; [|split]].
        -- repeat split; auto; try discriminate; try (cbn [chunk_ok] in IHok; tauto).
        -- unfold chunk_text, cspell_text in *. cbn [flat_map piece_text fst snd] in *. cbn [app]. f_equal. exact IHt.
        -- unfold chunk_value in *. cbn [flat_map piece_value map fst] in *. cbn [app]. f_equal. exact IHv.
        -- exists [], (PEsc its1 (c' :: t) :: q). reflexivity.
      * destruct IHh as (cs & q & Hp). rewrite Hp in *.
        cbn [chunk_ok] in IHok. destruct IHok as (_ & Hl1 & Hq1 & Hq).
        cbn [chunk_ok]. split; [|split; [|split]].
        -- repeat split; auto; try discriminate; try (cbn [chunk_ok] in IHok; tauto).
        -- unfold chunk_text, cspell_text in *. cbn [flat_map piece_text fst snd] in *. cbn [app] in *. f_equal. exact IHt.
        -- unfold chunk_value in *. cbn [flat_map piece_value map fst] in *. cbn [app] in *. f_equal. exact IHv.
        -- exists (c' :: cs), q. reflexivity.
Qed.

Theorem unescape_roundtrip_chars enc dec : ascii_compatible dec -> codec_ok enc dec ->
  forall sp, cspell_ok enc sp -> unescape dec (cspell_text sp) = Ok (map fst sp, false).
Proof.
  intros Ha Hc sp Hok. destruct (pieces_of_spec enc dec Hc sp Hok) as (H1 & H2 & H3 & _).
  rewrite <- H2, <- H3. now apply unescape_roundtrip.
Qed.

(* ---------------- a hex escape with any number of digits is ONE byte: the value mod 256 ---------------- *)
(* the run on its own: whatever the codec *)
Lemma hex_run_byte dec d : d <> [] -> Forall c_hex d ->
  unescape_run dec (92 :: 120 :: d) =
  (do t <- decode_run dec [digits_value 16 c_hexval d mod 256]; Ok (t, false)).
Proof.
  intros Hne Hd. unfold unescape_run.
  assert (Hok : Forall item_ok [IHex d]).
  { constructor; [|constructor]. cbn [item_ok]. split; [|assumption]. destruct d; [congruence|cbn [length]; lia]. }
  pose proof (eval_run_items [IHex d] Hok) as E. unfold items_text in E. cbn [flat_map item_text map item_byte] in E.
  rewrite app_nil_r in E. rewrite E. reflexivity.
Qed.

(* inside a chunk: literal text before, literal text after that does not begin with a hex digit *)
Theorem hex_escape_all_digits dec : ascii_compatible dec -> forall pre d post t,
  Forall lit_ok pre -> d <> [] -> Forall c_hex d ->
  Forall lit_ok post -> match post with c :: _ => ~ c_hex c | [] => True end ->
  dec [digits_value 16 c_hexval d mod 256] = Some t ->
  unescape dec (pre ++ 92 :: 120 :: d ++ post) = Ok (pre ++ t ++ post, false).
Proof.
  intros Hc pre d post t Hpre Hne Hd Hpost Hnext Ht.
  assert (Hi : item_ok (IHex d)).
  { cbn [item_ok]. split; [|assumption]. destruct d; [congruence|cbn [length]; lia]. }
  assert (Hmid : chunk_ok dec (PEsc [IHex d] t :: match post with [] => [] | _ => [PLit post] end)).
  { cbn [chunk_ok]. repeat split; try discriminate; auto.
    - destruct post as [|c post]; [exact I|]. cbn [last may_follow]. exact Hnext.
    - destruct post as [|c post]; [exact I|]. cbn [chunk_ok]. repeat split; auto; discriminate. }
  assert (Hall : chunk_ok dec (match pre with [] => [] | _ => [PLit pre] end ++
                               PEsc [IHex d] t :: match post with [] => [] | _ => [PLit post] end)).
  { destruct pre as [|c pre]; [exact Hmid|]. cbn [app].
    set (r := PEsc [IHex d] t :: _) in *.
    change (c :: pre <> [] /\ Forall lit_ok (c :: pre) /\ match r with PLit _ :: _ => False | _ => True end /\ chunk_ok dec r).
    split; [discriminate|]. split; [assumption|]. split; [exact I|exact Hmid]. }
  pose proof (unescape_roundtrip dec Hc _ Hall) as R.
  replace (chunk_text _) with (pre ++ 92 :: 120 :: d ++ post) in R.
  2:{ unfold chunk_text. destruct pre, post; cbn [app flat_map piece_text item_text]; rewrite ?app_nil_r; try reflexivity;
      rewrite <- ?app_assoc; reflexivity. }
  rewrite R. f_equal. f_equal. unfold chunk_value.
  destruct pre, post; cbn [app flat_map piece_value]; rewrite ?app_nil_r; try reflexivity; rewrite <- ?app_assoc; reflexivity.
Qed.

(* Proofs about Model/Header.v against Spec/HeaderRules.v *)
From Coq Require Import List NArith Bool Lia PeanoNat.
From Coq Require String.
From I18n Require Import Lib.Outcome Model.Header Spec.HeaderRules Proofs.HeaderBase Proofs.HeaderComments.
Import ListNotations.
Import String.StringSyntax.
Local Open Scope N_scope.

(* decompose a hypothesis  In d <expression built from ++, flat_map, if, match, singletons> *)
Ltac in_cases :=
  repeat match goal with
  | H : In _ (_ ++ _) |- _ => apply in_app_or in H; destruct H as [H|H]
  | H : In _ [] |- _ => destruct H
  | H : In _ (_ :: _) |- _ => destruct H as [H|H]
  | H : In _ (flat_map _ _) |- _ => apply in_flat_map in H; let x := fresh "x" in let Hx := fresh "Hx" in destruct H as (x & Hx & H)
  | H : In _ (if ?c then _ else _) |- _ => destruct c eqn:?
  | H : In _ (match ?x with _ => _ end) |- _ => destruct x eqn:?
  end.

(* ------------------------------------------------------------------ *)
(* the pieces check_mime / check_project / check_translator are made of *)

Lemma piece_if : forall (c : bool) (d0 d : diag), In d (if c then [d0] else []) <-> c = true /\ d = d0.
Proof. intros [] d0 d; cbn; intuition congruence. Qed.

Lemma piece_nil : forall A (l : list A) (d0 d : diag),
  In d (match l with [] => [d0] | _ => [] end) <-> l = [] /\ d = d0.
Proof. intros A [|x l] d0 d; cbn; intuition congruence. Qed.

Lemma piece_values : forall (P : str -> bool) (C : str -> diag) l d,
  In d (flat_map (fun v => if P v then [] else [C v]) l) <-> exists v, In v l /\ P v = false /\ d = C v.
Proof.
  intros P C l d. rewrite in_flat_map. split.
  - intros (v & Hv & H). exists v. destruct (P v); cbn in H; [destruct H | intuition].
  - intros (v & Hv & HP & ->). exists v. rewrite HP. cbn. auto.
Qed.

Lemma count_values_of : forall k fs, length (values_of k fs) = count k fs.
Proof. intros. unfold count. rewrite values_of_spec. reflexivity. Qed.

Lemma values_of_nil : forall k fs, values_of k fs = [] <-> absent k fs.
Proof.
  intros k fs. unfold absent. rewrite <- count_values_of. destruct (values_of k fs); cbn; split; congruence.
Qed.

Lemma many_values : forall k fs, many (values_of k fs) = true <-> repeated k fs.
Proof. intros. rewrite many_iff, count_values_of. reflexivity. Qed.

(* ------------------------------------------------------------------ *)
(* Content-Type *)

Lemma lit_text_plain_charset : lit "text/plain; charset=" = s_text_plain ++ s_charset.
Proof. vm_compute. reflexivity. Qed.

Lemma charset_token_ok_iff : forall O tok, charset_token_ok O tok = true <-> charset_token (o_space O) tok.
Proof.
  intros O tok. unfold charset_token_ok, charset_token. rewrite andb_true_iff, nonempty_iff, forallb_forall.
  split; intros [H1 H2]; split; auto; intros c Hc; specialize (H2 c Hc).
  - apply andb_prop in H2. destruct H2 as [Ha Hb]. apply negb_true_iff in Ha, Hb. apply N.eqb_neq in Hb. auto.
  - destruct H2 as [Ha Hb]. rewrite Ha. apply N.eqb_neq in Hb. rewrite Hb. reflexivity.
Qed.

Lemma content_type_match_true : forall O ct,
  o_word O 32 = false -> o_word O 99 = true ->
  ((exists tok, content_type_match O ct = Some (true, tok)) <-> content_type_ok (o_space O) ct).
Proof.
  intros O ct H32 H99. unfold content_type_ok. rewrite lit_text_plain_charset. split.
  - intros (tok & H). unfold content_type_match in H.
    destruct (hstrip_prefix s_text_plain ct) as [r|] eqn:E1.
    + destruct (m_charset O (Some 32) r) as [tok'|] eqn:E2.
      * injection H as <-. unfold m_charset in E2.
        destruct (hstrip_prefix s_charset r) as [tk|] eqn:E3; [|discriminate].
        destruct (wb O (Some 32) (hd_opt r) && charset_token_ok O tk) eqn:E4; [|discriminate].
        injection E2 as <-. apply andb_prop in E4. destruct E4 as [_ E4].
        apply hstrip_prefix_some in E1, E3. subst. exists tk. rewrite <- app_assoc. split; [reflexivity | apply charset_token_ok_iff; exact E4].
      * destruct (charset_search O None ct); discriminate.
    + destruct (charset_search O None ct); discriminate.
  - intros (tok & -> & Htok). exists tok. unfold content_type_match.
    rewrite <- app_assoc, hstrip_prefix_app. unfold m_charset. rewrite hstrip_prefix_app.
    apply charset_token_ok_iff in Htok. rewrite Htok.
    replace (wb O (Some 32) (hd_opt (s_charset ++ tok))) with true; [reflexivity|].
    unfold wb, isw. cbn [s_charset app hd_opt]. rewrite H32, H99. reflexivity.
Qed.

Lemma content_type_diags_invalid : forall O t ct v,
  (exists h, In (DInvalidContentType v h) (content_type_diags O t ct)) <->
  v = ct /\ forall tok, content_type_match O ct <> Some (true, tok).
Proof.
  intros O t ct v. unfold content_type_diags. destruct (content_type_match O ct) as [[pref enc]|] eqn:E.
  - destruct (o_enc O enc) as [|ac portable proposal] eqn:Ee.
    + destruct pref; split.
      * intros (h & H). in_cases; discriminate.
      * intros [_ H]. exfalso. exact (H enc eq_refl).
      * intros (h & H). in_cases; try discriminate; (injection H as <- _; split; [reflexivity | congruence]).
      * intros [-> _]. eexists. apply in_or_app. right. left. reflexivity.
    + destruct (if negb ac then ([DNonAsciiCompatible enc], enc)
        else if portable then ([], enc)
        else match proposal with Some ne => ([DNonPortable enc (Some ne)], ne) | None => ([DNonPortable enc None], enc) end) as [ds1 enc1] eqn:E1.
      assert (Hds1 : forall h, ~ In (DInvalidContentType v h) ds1).
      { intros h Hin. destruct (negb ac); [injection E1 as <- _; in_cases; discriminate|].
        destruct portable; [injection E1 as <- _; destruct Hin|].
        destruct proposal; injection E1 as <- _; in_cases; discriminate. }
      destruct pref; split.
      * intros (h & H). apply in_app_or in H. destruct H as [H|[]]. apply in_app_or in H. destruct H as [H|H]; [destruct (Hds1 _ H)|].
        destruct (o_unrep O enc1); in_cases; discriminate.
      * intros [_ H]. exfalso. exact (H enc eq_refl).
      * intros (h & H). apply in_app_or in H. destruct H as [H|H].
        -- exfalso. apply in_app_or in H. destruct H as [H|H]; [destruct (Hds1 _ H)|]. destruct (o_unrep O enc1); in_cases; discriminate.
        -- destruct H as [H|[]]. injection H as <- _. split; [reflexivity | congruence].
      * intros [-> _]. eexists. apply in_or_app. right. left. reflexivity.
  - split.
    + intros (h & [H|[]]). injection H as <- _. split; [reflexivity | congruence].
    + intros [-> _]. eexists. left. reflexivity.
Qed.

Lemma content_type_diags_only : forall O t ct d, In d (content_type_diags O t ct) ->
  match d with
  | DInvalidContentType _ _ | DBoilerplateContentType _ | DUnknownEncoding _ | DNonAsciiCompatible _
  | DNonPortable _ _ | DUnrepresentable _ _ => True
  | _ => False
  end.
Proof.
  intros O t ct d H. unfold content_type_diags in H.
  destruct (content_type_match O ct) as [[pref enc]|]; [|in_cases; subst; exact I].
  destruct (o_enc O enc) as [|ac portable proposal].
  - in_cases; subst; exact I.
  - destruct (negb ac); [|destruct portable; [|destruct proposal]]; in_cases; subst; exact I.
Qed.

Lemma content_type_boilerplate : forall O t ct v,
  In (DBoilerplateContentType v) (content_type_diags O t ct) <->
  v = ct /\ t = false /\ exists pref, content_type_match O ct = Some (pref, s_CHARSET) /\ o_enc O s_CHARSET = EUnknown.
Proof.
  intros O t ct v. unfold content_type_diags. destruct (content_type_match O ct) as [[pref enc]|] eqn:E.
  - destruct (o_enc O enc) as [|ac portable proposal] eqn:Ee.
    + destruct (str_eqb enc s_CHARSET) eqn:Es.
      * apply str_eqb_eq in Es. subst enc. destruct t; split.
        -- intro H. in_cases; discriminate.
        -- intros (_ & H & _). discriminate.
        -- intro H. in_cases; try discriminate. injection H as <-. split; [reflexivity|]. split; [reflexivity|]. exists pref. auto.
        -- intros (-> & _). apply in_or_app. left. left. reflexivity.
      * split.
        -- intro H. in_cases; discriminate.
        -- intros (_ & _ & p & H & _). injection H as _ ->. rewrite str_eqb_refl in Es. discriminate.
    + split.
      * intro H. destruct (negb ac); [|destruct portable; [|destruct proposal]]; in_cases; discriminate.
      * intros (_ & _ & p & H & H2). injection H as _ ->. congruence.
  - split; [intro H; in_cases; discriminate | intros (_ & _ & p & H & _); discriminate].
Qed.

(* ------------------------------------------------------------------ *)
(* check_mime *)

Section Mime.
Variable O : oracles.
Variable t : bool.
Variable fs : list (str * str).

Lemma check_mime_in : forall d, In d (check_mime O t fs) <->
  (repeated (field_name FMime) fs /\ d = DDuplicateDedicated FMime) \/
  (exists v, In v (values (field_name FMime) fs) /\ v <> lit "1.0" /\ d = DInvalidMimeVersion v) \/
  (absent (field_name FMime) fs /\ d = DNoField FMime) \/
  (repeated (field_name FCte) fs /\ d = DDuplicateDedicated FCte) \/
  (exists v, In v (values (field_name FCte) fs) /\ v <> lit "8bit" /\ d = DInvalidCte v) \/
  (absent (field_name FCte) fs /\ d = DNoField FCte) \/
  (repeated (field_name FContentType) fs /\ d = DDuplicateDedicated FContentType) \/
  (absent (field_name FContentType) fs /\ d = DNoField FContentType) \/
  (exists v, In v (values (field_name FContentType) fs) /\ In d (content_type_diags O t v)).
Proof.
  intro d. unfold check_mime. rewrite !in_app_iff.
  rewrite !piece_if, !piece_nil, !piece_values, !dedup_nil, !many_values, !values_of_nil.
  assert (Hct : In d (match values_of (field_name FContentType) fs with
                      | [] => [DNoField FContentType]
                      | _ :: _ => flat_map (content_type_diags O t) (dedup (values_of (field_name FContentType) fs))
                      end) <->
                (absent (field_name FContentType) fs /\ d = DNoField FContentType) \/
                (exists v, In v (values (field_name FContentType) fs) /\ In d (content_type_diags O t v))).
  { rewrite <- values_of_nil, <- values_of_spec. destruct (values_of (field_name FContentType) fs) as [|x l] eqn:E.
    - cbn. split; [intros [<-|[]]; left; auto | intros [[_ ->]|(v & [] & _)]; left; reflexivity].
    - rewrite in_flat_map. split.
      + intros (v & Hv & H). right. exists v. split; [apply (proj1 (In_dedup _ _)) in Hv; exact Hv | exact H].
      + intros [[H _]|(v & Hv & H)]; [discriminate|]. exists v. split; [apply (proj2 (In_dedup _ _)); exact Hv | exact H]. }
  rewrite Hct. clear Hct.
  assert (E1 : forall v, str_eqb v s_1_0 = false <-> v <> lit "1.0") by (intro v; apply str_eqb_neq).
  assert (E2 : forall v, str_eqb v s_8bit = false <-> v <> lit "8bit") by (intro v; apply str_eqb_neq).
  setoid_rewrite In_dedup. setoid_rewrite E1. setoid_rewrite E2. setoid_rewrite values_of_spec.
  tauto.
Qed.

End Mime.

(* ------------------------------------------------------------------ *)
(* lib/domains.py *)

Lemma is_subdomain_of_iff : forall name d, is_subdomain_of name d = true <-> below name d.
Proof.
  intros name d. unfold is_subdomain_of, below. destruct (hstrip_suffix (46 :: name) d) as [pre|] eqn:E.
  - apply hstrip_suffix_some in E. rewrite andb_true_iff, nonempty_iff, negb_true_iff, hmem_false. split.
    + intros [H1 H2]. exists pre. auto.
    + intros (x & H1 & H2 & H3). subst d. apply app_inv_tail in H3. subst. auto.
  - split; [discriminate|]. intros (x & _ & _ & H). apply hstrip_suffix_some in H. congruence.
Qed.

Lemma is_special_iff : forall nb ob d, is_special nb ob d = true <-> reserved nb ob d.
Proof.
  intros nb ob d. unfold is_special, reserved. rewrite orb_true_iff, !existsb_exists. split.
  - intros [(n & Hn & H)|(n & Hn & H)].
    + left. exists n. split; [exact Hn|]. apply orb_prop in H. destruct H as [H|H]; [left; apply str_eqb_eq; exact H | right; apply is_subdomain_of_iff; exact H].
    + right. exists n. split; [exact Hn | apply is_subdomain_of_iff; exact H].
  - intros [(n & Hn & [H|H])|(n & Hn & H)].
    + left. exists n. split; [exact Hn|]. subst. rewrite str_eqb_refl. reflexivity.
    + left. exists n. split; [exact Hn|]. apply is_subdomain_of_iff in H. rewrite H. apply orb_true_r.
    + right. exists n. split; [exact Hn | apply is_subdomain_of_iff; exact H].
Qed.

Lemma after_last_some : forall sep s d, after_last sep s = Some d <-> exists l, s = l ++ sep :: d /\ ~ In sep d.
Proof.
  intros sep. induction s as [|c s IH]; intro d; cbn [after_last].
  - split; [discriminate | intros ([|? ?] & H & _); discriminate].
  - destruct (after_last sep s) as [d'|] eqn:E.
    + split.
      * intro H. injection H as <-. destruct (proj1 (IH d') eq_refl) as (l & -> & Hn). exists (c :: l). auto.
      * intros (l & H & Hn). f_equal. destruct l as [|c' l]; cbn in H; injection H as -> ->.
        -- exfalso. destruct (proj1 (IH d') eq_refl) as (l' & H' & _). apply Hn. rewrite H'. apply in_or_app. right. left. reflexivity.
        -- assert (Some d' = Some d) as H by (apply IH; exists l; auto). injection H as ->. reflexivity.
    + destruct (N.eqb c sep) eqn:Ec.
      * apply N.eqb_eq in Ec. subst c. split.
        -- intro H. injection H as <-. exists []. split; [reflexivity|]. intro Hin.
           apply in_split in Hin. destruct Hin as (a & b & ->).
           assert (exists d0, after_last sep (a ++ sep :: b) = Some d0) as (d0 & Hd0).
           { clear. induction a as [|x a IHa]; cbn [app after_last].
             - destruct (after_last sep b); [eauto|]. rewrite N.eqb_refl. eauto.
             - destruct IHa as (d0 & ->). eauto. }
           congruence.
        -- intros (l & H & Hn). destruct l as [|c' l]; cbn in H; [injection H as ->; reflexivity|].
           injection H as <- ->.
           exfalso. assert (None = Some d) as H by (apply IH; exists l; auto). discriminate.
      * apply N.eqb_neq in Ec. split; [discriminate|]. intros (l & H & Hn). destruct l as [|c' l]; cbn in H; injection H as -> ->; [contradiction|].
        assert (None = Some d) as H by (apply IH; exists l; auto). discriminate.
Qed.

Lemma after_last_none : forall sep s, after_last sep s = None <-> ~ In sep s.
Proof.
  intros sep. induction s as [|c s IH]; cbn [after_last In]; [intuition|].
  destruct (after_last sep s) as [d|] eqn:E.
  - split; [discriminate|]. intro H. exfalso. apply after_last_some in E. destruct E as (l & -> & _). apply H. right. apply in_or_app. right. left. reflexivity.
  - destruct (N.eqb c sep) eqn:Ec.
    + apply N.eqb_eq in Ec. split; [discriminate | intro H; exfalso; apply H; left; exact Ec].
    + apply N.eqb_neq in Ec. split; [|reflexivity]. intros _ [H|H]; [contradiction | apply (proj1 IH eq_refl H)].
Qed.

(* ------------------------------------------------------------------ *)
(* address verdicts: the decision ladder shared by Report-Msgid-Bugs-To, Last-Translator, Language-Team *)

Section Addr.
Variable O : oracles.
Variable nb ob : list str.

Inductive verdict := VNoAt | VReserved | VBoilerplate | VDotless | VFine.

Definition domain_pure (email : str) : str := match after_last 64 email with Some d => d | None => [] end.

Definition addr_verdict (boiler : str -> bool) (email : str) : verdict :=
  if negb (hmem 64 email) then VNoAt
  else if is_special nb ob (o_lower O (domain_pure email)) then VReserved
  else if boiler email then VBoilerplate
  else if negb (hmem 46 (domain_pure email)) then VDotless
  else VFine.

Lemma domain_of_ok : forall email, hmem 64 email = true -> domain_of email = Ok (domain_pure email).
Proof.
  intros email H. unfold domain_of, domain_pure. destruct (after_last 64 email) eqn:E; [reflexivity|].
  apply after_last_none in E. apply hmem_In in H. contradiction.
Qed.

Lemma domain_pure_part : forall email, In 64 email -> domain_part email (domain_pure email).
Proof.
  intros email H. unfold domain_pure, domain_part. destruct (after_last 64 email) eqn:E.
  - apply after_last_some in E. exact E.
  - apply after_last_none in E. contradiction.
Qed.

Lemma domain_part_unique : forall email d, domain_part email d -> d = domain_pure email.
Proof.
  intros email d H. unfold domain_pure. apply after_last_some in H. rewrite H. reflexivity.
Qed.

Definition is_boiler1 (email : str) : bool := str_eqb email s_EMAIL_ADDRESS.
Definition is_boiler2 (email : str) : bool := str_eqb email (LIT "LL@li.org") || str_eqb email s_EMAIL_ADDRESS.

Lemma translator_diags_eq : forall t v,
  translator_diags O nb ob t v =
  Ok (match addr_verdict is_boiler1 (o_parseaddr O v) with
      | VNoAt | VReserved | VDotless => [DInvalidTranslator v]
      | VBoilerplate => if t then [] else [DBoilerplateTranslator v]
      | VFine => []
      end).
Proof.
  intros t v. unfold translator_diags, addr_verdict, email_in_special_domain, email_in_dotless_domain, is_boiler1.
  destruct (hmem 64 (o_parseaddr O v)) eqn:E; cbn [negb]; [|reflexivity].
  rewrite (domain_of_ok _ E). cbn [obind].
  destruct (is_special nb ob (o_lower O (domain_pure (o_parseaddr O v)))); [reflexivity|].
  destruct (str_eqb (o_parseaddr O v) s_EMAIL_ADDRESS); [reflexivity|].
  destruct (negb (hmem 46 (domain_pure (o_parseaddr O v)))); reflexivity.
Qed.

Lemma team_diags_eq : forall t trs v,
  team_diags O nb ob t trs v =
  Ok (match addr_verdict is_boiler2 (o_parseaddr O v) with
      | VNoAt => []
      | VReserved | VDotless => [DInvalidTeam v]
      | VBoilerplate => if t then [] else [DBoilerplateTeam v]
      | VFine => match translator_with_email O trs (o_parseaddr O v) with
                 | Some tr => [DTeamEqualsTranslator v tr]
                 | None => []
                 end
      end).
Proof.
  intros t trs v. unfold team_diags, addr_verdict, email_in_special_domain, email_in_dotless_domain, is_boiler2.
  destruct (hmem 64 (o_parseaddr O v)) eqn:E; cbn [negb]; [|reflexivity].
  rewrite (domain_of_ok _ E). cbn [obind].
  destruct (is_special nb ob (o_lower O (domain_pure (o_parseaddr O v)))); [reflexivity|].
  destruct (str_eqb (o_parseaddr O v) (LIT "LL@li.org") || str_eqb (o_parseaddr O v) s_EMAIL_ADDRESS); [reflexivity|].
  destruct (negb (hmem 46 (domain_pure (o_parseaddr O v)))); reflexivity.
Qed.

Lemma report_diags_eq : forall v,
  report_diags O nb ob v =
  match addr_verdict is_boiler1 (o_parseaddr O v) with
  | VNoAt => match o_urlscheme O v with
             | URaise => Ok [DInvalidReport v]
             | UNoScheme => Ok [DInvalidReport v]
             | UScheme => Ok []
             end
  | VReserved | VDotless => Ok [DInvalidReport v]
  | VBoilerplate => Ok [DBoilerplateReport v]
  | VFine => Ok []
  end.
Proof.
  intros v. unfold report_diags, addr_verdict, email_in_special_domain, email_in_dotless_domain, is_boiler1.
  destruct (hmem 64 (o_parseaddr O v)) eqn:E; cbn [negb]; [|reflexivity].
  rewrite (domain_of_ok _ E). cbn [obind].
  destruct (is_special nb ob (o_lower O (domain_pure (o_parseaddr O v)))); [reflexivity|].
  destruct (str_eqb (o_parseaddr O v) s_EMAIL_ADDRESS); [reflexivity|].
  destruct (negb (hmem 46 (domain_pure (o_parseaddr O v)))); reflexivity.
Qed.

(* the verdict against the declarative reading *)
Lemma verdict_invalid_iff : forall email,
  (match addr_verdict is_boiler1 email with VNoAt | VReserved | VDotless => True | _ => False end) <->
  bad_address (o_lower O) nb ob email.
Proof.
  intro email. unfold addr_verdict, bad_address, is_boiler1, boilerplate_address.
  destruct (hmem 64 email) eqn:E; cbn [negb].
  - apply hmem_In in E. pose proof (domain_pure_part _ E) as HP.
    destruct (is_special nb ob (o_lower O (domain_pure email))) eqn:Es.
    + apply is_special_iff in Es. split; [intros _; right; exists (domain_pure email); auto | auto].
    + assert (Hns : ~ reserved nb ob (o_lower O (domain_pure email))) by (intro H; apply is_special_iff in H; congruence).
      destruct (str_eqb email s_EMAIL_ADDRESS) eqn:Eb.
      * apply str_eqb_eq in Eb. split; [intros []|]. intros [H|(d & Hd & [H|[_ H]])]; [contradiction| |].
        -- apply domain_part_unique in Hd. subst d. contradiction.
        -- apply H. exact Eb.
      * apply str_eqb_neq in Eb. destruct (hmem 46 (domain_pure email)) eqn:Ed; cbn [negb].
        -- apply hmem_In in Ed. split; [intros []|]. intros [H|(d & Hd & [H|[H _]])]; [contradiction| |];
             apply domain_part_unique in Hd; subst d; contradiction.
        -- apply hmem_false in Ed. split; [intros _|auto]. right. exists (domain_pure email). split; [exact HP|]. right. split; [exact Ed | exact Eb].
  - apply hmem_false in E. split; auto.
Qed.

End Addr.

(* ------------------------------------------------------------------ *)
(* check_project, check_translator *)

Lemma piece_dup_or_none : forall (l : list str) (d1 d2 d : diag),
  In d (if many l then [d1] else match l with [] => [d2] | _ => [] end) <->
  ((1 < length l)%nat /\ d = d1) \/ (l = [] /\ d = d2).
Proof.
  intros l d1 d2 d. destruct (many l) eqn:E.
  - apply many_iff in E. cbn. split; [intros [<-|[]]; auto | intros [[_ ->]|[-> _]]; [auto | cbn in E; lia]].
  - assert (~ (1 < length l)%nat) by (intro H; apply many_iff in H; congruence).
    destruct l; cbn; split; intuition (try congruence; try discriminate).
Qed.

Section ProjTr.
Variable O : oracles.
Variable nb ob : list str.

Definition tr_pure (t : bool) (v : str) : list diag :=
  match addr_verdict O nb ob is_boiler1 (o_parseaddr O v) with
  | VNoAt | VReserved | VDotless => [DInvalidTranslator v]
  | VBoilerplate => if t then [] else [DBoilerplateTranslator v]
  | VFine => []
  end.

Definition team_pure (t : bool) (trs : list str) (v : str) : list diag :=
  match addr_verdict O nb ob is_boiler2 (o_parseaddr O v) with
  | VNoAt => []
  | VReserved | VDotless => [DInvalidTeam v]
  | VBoilerplate => if t then [] else [DBoilerplateTeam v]
  | VFine => match translator_with_email O trs (o_parseaddr O v) with
             | Some tr => [DTeamEqualsTranslator v tr]
             | None => []
             end
  end.

Definition report_raises (v : str) : Prop :=
  ~ In 64 (o_parseaddr O v) /\ o_urlscheme O v = URaise.

Definition report_pure (v : str) : list diag :=
  match addr_verdict O nb ob is_boiler1 (o_parseaddr O v) with
  | VNoAt => match o_urlscheme O v with UScheme => [] | _ => [DInvalidReport v] end
  | VReserved | VDotless => [DInvalidReport v]
  | VBoilerplate => [DBoilerplateReport v]
  | VFine => []
  end.

Lemma verdict_noat : forall b e, addr_verdict O nb ob b e = VNoAt <-> ~ In 64 e.
Proof.
  intros b e. unfold addr_verdict. destruct (hmem 64 e) eqn:E; cbn [negb].
  - apply hmem_In in E. split; [|contradiction].
    destruct (is_special nb ob (o_lower O (domain_pure e))); [discriminate|]. destruct (b e); [discriminate|].
    destruct (negb (hmem 46 (domain_pure e))); discriminate.
  - apply hmem_false in E. split; auto.
Qed.

Lemma report_diags_ok : forall v, report_diags O nb ob v = Ok (report_pure v).
Proof.
  intro v. rewrite report_diags_eq. unfold report_pure.
  destruct (addr_verdict O nb ob is_boiler1 (o_parseaddr O v)); try reflexivity. destruct (o_urlscheme O v); reflexivity.
Qed.

Lemma In_report_values : forall fs v, In v (report_values fs) ->
  In v (values (field_name FReport) fs).
Proof.
  intros fs v H. unfold report_values in H. rewrite <- values_of_spec.
  destruct (dedup (values_of (field_name FReport) fs)) as [|x [|y l]] eqn:E.
  - destruct H.
  - destruct x; [destruct H|]. apply In_dedup. rewrite E. exact H.
  - apply In_dedup. rewrite E. destruct x; exact H.
Qed.

Lemma str_cmp_refl : forall a, str_cmp a a = Eq.
Proof. induction a as [|c a IH]; cbn [str_cmp]; [reflexivity|]. rewrite N.compare_refl. exact IH. Qed.

Lemma sort_u_const : forall a l, (forall x, In x l -> x = a) -> sort_u l = [] \/ sort_u l = [a].
Proof.
  intros a. induction l as [|y l IH]; intro H; [left; reflexivity|].
  right. cbn [sort_u fold_right]. fold (sort_u l).
  rewrite (H y (or_introl eq_refl)).
  destruct (IH (fun x Hx => H x (or_intror Hx))) as [->| ->]; cbn [insert_u]; [reflexivity|].
  rewrite str_cmp_refl. reflexivity.
Qed.

Lemma report_values_nil : forall fs,
  report_values fs = [] <-> forall v, In v (values (field_name FReport) fs) -> v = [].
Proof.
  intro fs. unfold report_values. rewrite <- values_of_spec.
  assert (HD := In_dedup (values_of (field_name FReport) fs)). split.
  - intros H v Hv. apply HD in Hv.
    destruct (dedup (values_of (field_name FReport) fs)) as [|x [|y l]]; [destruct Hv | | destruct x; discriminate].
    destruct x; [|discriminate]. destruct Hv as [<-|[]]. reflexivity.
  - intro H. unfold dedup in *. destruct (many (values_of (field_name FReport) fs)) eqn:Em.
    + destruct (sort_u_const [] _ H) as [-> | ->]; reflexivity.
    + destruct (values_of (field_name FReport) fs) as [|x [|y l]]; [reflexivity | | cbn in Em; discriminate].
      rewrite (H x (or_introl eq_refl)). reflexivity.
Qed.

Lemma check_project_eq : forall fs,
  let pivs := values_of (field_name FProject) fs in
  let rs := values_of (field_name FReport) fs in
  check_project O nb ob fs =
  Ok ((if many pivs then [DDuplicateDedicated FProject] else match pivs with [] => [DNoField FProject] | _ => [] end)
      ++ flat_map (project_diags O) (dedup pivs)
      ++ (if many rs then [DDuplicateDedicated FReport] else [])
      ++ (match report_values fs with [] => [DNoField FReport] | _ => [] end)
      ++ flat_map report_pure (report_values fs)).
Proof.
  intros fs pivs rs. unfold check_project. fold pivs rs.
  rewrite (ocollect_pure _ _ report_pure) by (intros; apply report_diags_ok). reflexivity.
Qed.

Lemma check_translator_eq : forall t fs,
  let trs := values_of (field_name FTranslator) fs in
  let teams := values_of (field_name FTeam) fs in
  check_translator O nb ob t fs =
  Ok ((if many trs then [DDuplicateDedicated FTranslator] else match trs with [] => [DNoField FTranslator] | _ => [] end)
      ++ flat_map (tr_pure t) (dedup trs)
      ++ (if many teams then [DDuplicateDedicated FTeam] else match teams with [] => [DNoField FTeam] | _ => [] end)
      ++ flat_map (team_pure t (dedup trs)) (dedup teams)).
Proof.
  intros t fs trs teams. unfold check_translator. fold trs teams.
  rewrite (ocollect_pure _ _ (tr_pure t)) by (intros; apply translator_diags_eq). cbn [obind].
  rewrite (ocollect_pure _ _ (team_pure t (dedup trs))) by (intros; apply team_diags_eq). reflexivity.
Qed.

End ProjTr.

(* ------------------------------------------------------------------ *)
(* parse_header *)

Lemma fname_char_iff : forall c, fname_char c = true <-> ftext c.
Proof.
  intro c. unfold fname_char, in_rng, ftext. rewrite orb_true_iff, !andb_true_iff, !N.leb_le. lia.
Qed.

Lemma valid_field_name_iff : forall k, valid_field_name k = true <-> k <> [] /\ Forall ftext k.
Proof.
  intro k. unfold valid_field_name. rewrite andb_true_iff, nonempty_iff, forallb_forall, Forall_forall.
  split; intros [H1 H2]; split; auto; intros c Hc; apply fname_char_iff; auto.
Qed.

Lemma split_first_some : forall sep s a b, split_first sep s = Some (a, b) <-> s = a ++ sep :: b /\ ~ In sep a.
Proof.
  intros sep. induction s as [|c s IH]; intros a b; cbn [split_first].
  - split; [discriminate | intros [H _]; destruct a; discriminate].
  - destruct (N.eqb c sep) eqn:Ec.
    + apply N.eqb_eq in Ec. subst c. split.
      * intro H. injection H as <- <-. split; [reflexivity | intros []].
      * intros [H Hn]. destruct a as [|x a]; cbn in H; [injection H as ->; reflexivity|].
        injection H as <- _. exfalso. apply Hn. left. reflexivity.
    + apply N.eqb_neq in Ec. destruct (split_first sep s) as [[a' b']|] eqn:E.
      * destruct (proj1 (IH a' b') eq_refl) as [-> Hn']. split.
        -- intro H. injection H as <- <-. split; [reflexivity | intros [H|H]; [congruence | contradiction]].
        -- intros [H Hn]. destruct a as [|x a]; cbn in H; injection H as -> H; [contradiction|].
           assert (Some (a', b') = Some (a, b)) as H' by (apply IH; split; [exact H | intro Hx; apply Hn; right; exact Hx]).
           injection H' as -> ->. reflexivity.
      * split; [discriminate|]. intros [H Hn]. destruct a as [|x a]; cbn in H; injection H as -> H; [contradiction|].
        assert (None = Some (a, b)) as H' by (apply IH; split; [exact H | intro Hx; apply Hn; right; exact Hx]). discriminate.
Qed.

Lemma split_first_none : forall sep s, split_first sep s = None <-> ~ In sep s.
Proof.
  intros sep. induction s as [|c s IH]; cbn [split_first In]; [intuition|].
  destruct (N.eqb c sep) eqn:Ec.
  - apply N.eqb_eq in Ec. split; [discriminate | intro H; exfalso; apply H; left; exact Ec].
  - apply N.eqb_neq in Ec. destruct (split_first sep s) as [[a b]|].
    + split; [discriminate|]. intro H. exfalso. apply (proj1 IH); [|]. 
      * assert (~ In sep s) by (intro Hx; apply H; right; exact Hx). apply IH in H0. discriminate.
      * assert (~ In sep s) by (intro Hx; apply H; right; exact Hx). apply IH in H0. discriminate.
    + split; [|reflexivity]. intros _ [H|H]; [contradiction | apply (proj1 IH eq_refl H)].
Qed.

Lemma ftext_no_colon : forall k, Forall ftext k -> ~ In 58 k.
Proof. intros k H Hin. rewrite Forall_forall in H. destruct (H _ Hin) as (_ & _ & Hc). apply Hc. reflexivity. Qed.

Lemma parse_line_stray : forall l l', parse_line l = HStray l' -> l' = l /\ ~ has_field_name l.
Proof.
  intros l l' H. unfold parse_line in H. destruct (split_first 58 l) as [[k v]|] eqn:E.
  - destruct (valid_field_name k) eqn:Ev; [discriminate|]. injection H as <-. split; [reflexivity|].
    intros (k' & rest & Hl & Hk). pose proof (proj2 (valid_field_name_iff k') Hk) as Hv.
    assert (Some (k, v) = Some (k', rest)) as H by (rewrite <- E; apply split_first_some; split; [exact Hl | apply ftext_no_colon; apply Hk]).
    injection H as -> _. congruence.
  - injection H as <-. split; [reflexivity|]. intros (k' & rest & Hl & _). apply split_first_none in E. apply E. rewrite Hl. apply in_or_app. right. left. reflexivity.
Qed.

Lemma parse_line_field : forall l k v, parse_line l = HField k v ->
  exists rest, l = k ++ 58 :: rest /\ k <> [] /\ Forall ftext k /\ v = strip_blank rest.
Proof.
  intros l k v H. unfold parse_line in H. destruct (split_first 58 l) as [[k' v']|] eqn:E; [|discriminate].
  destruct (valid_field_name k') eqn:Ev; [|discriminate]. injection H as <- <-.
  apply split_first_some in E. apply valid_field_name_iff in Ev. exists v'. intuition.
Qed.

Lemma parse_line_total : forall l, has_field_name l -> exists k v, parse_line l = HField k v.
Proof.
  intros l H. destruct (parse_line l) as [k v|l'] eqn:E; [eauto|]. apply parse_line_stray in E. destruct E as [_ E]. contradiction.
Qed.

Lemma In_strays_of : forall ls l, In l (strays_of (map parse_line ls)) <-> In l ls /\ ~ has_field_name l.
Proof.
  intros ls l. unfold strays_of. rewrite in_flat_map. split.
  - intros (x & Hx & H). apply in_map_iff in Hx. destruct Hx as (l0 & E & Hl0). subst x.
    destruct (parse_line l0) eqn:Ep; [destruct H|]. destruct H as [<-|[]]. apply parse_line_stray in Ep. destruct Ep as [-> Hn]. auto.
  - intros [Hl Hn]. exists (parse_line l). split; [apply in_map; exact Hl|].
    destruct (parse_line l) as [k v|l'] eqn:Ep.
    + apply parse_line_field in Ep. destruct Ep as (rest & H1 & H2 & H3 & _). exfalso. apply Hn. exists k, rest. auto.
    + apply parse_line_stray in Ep. destruct Ep as [-> _]. left. reflexivity.
Qed.

Lemma is_conflict_marker_iff : forall l, is_conflict_marker l = true <-> conflict_marker l.
Proof.
  intro l. unfold is_conflict_marker, conflict_marker.
  change (lit "#-#-#-#-#  ") with s_marker_l. change (lit "  #-#-#-#-#") with s_marker_r.
  destruct (hstrip_prefix s_marker_l l) as [r|] eqn:E1.
  - apply hstrip_prefix_some in E1. subst l. destruct (hstrip_suffix s_marker_r r) as [mid|] eqn:E2.
    + apply hstrip_suffix_some in E2. subst r. rewrite nonempty_iff. split.
      * intro H. exists mid. auto.
      * intros (m & Hm & H). apply app_inv_head in H. apply app_inv_tail in H. congruence.
    + split; [discriminate|]. intros (m & _ & H). apply app_inv_head in H. apply hstrip_suffix_some in H. congruence.
  - split; [discriminate|]. intros (m & _ & H). apply hstrip_prefix_some in H. congruence.
Qed.

Lemma stray_diags_stray : forall strays seen l,
  In (DStrayLine l) (stray_diags seen strays) <-> In l strays /\ is_conflict_marker l = false.
Proof.
  induction strays as [|s r IH]; intros seen l; cbn [stray_diags In]; [intuition|].
  destruct (is_conflict_marker s) eqn:E.
  - rewrite in_app_iff, IH. split.
    + intros [H|H]; [destruct seen; in_cases; discriminate | intuition].
    + intros [[->|H] H2]; [congruence | right; auto].
  - cbn [In]. rewrite IH. split.
    + intros [H|H]; [injection H as ->; auto | intuition].
    + intros [[->|H] H2]; [left; reflexivity | right; auto].
Qed.

Lemma stray_diags_marker : forall strays l,
  In (DConflictMarker l) (stray_diags false strays) <->
  exists a b, strays = a ++ l :: b /\ is_conflict_marker l = true /\ forall x, In x a -> is_conflict_marker x = false.
Proof.
  assert (Hseen : forall strays l, ~ In (DConflictMarker l) (stray_diags true strays)).
  { induction strays as [|s r IH]; intros l H; cbn [stray_diags] in H; [destruct H|].
    destruct (is_conflict_marker s); [cbn in H; exact (IH _ H) | destruct H as [H|H]; [discriminate | exact (IH _ H)]]. }
  induction strays as [|s r IH]; intro l; cbn [stray_diags].
  - split; [intros [] | intros ([|? ?] & b & H & _); discriminate].
  - destruct (is_conflict_marker s) eqn:E.
    + cbn [app In]. split.
      * intros [H|H]; [injection H as <- | destruct (Hseen _ _ H)]. exists [], r. split; [reflexivity|]. split; [exact E | intros x []].
      * intros (a & b & H & Hm & Ha). destruct a as [|x a]; cbn in H; [injection H as <- <-; left; reflexivity|].
        injection H as <- _. specialize (Ha s (or_introl eq_refl)). congruence.
    + cbn [In]. rewrite IH. split.
      * intros [H|(a & b & -> & Hm & Ha)]; [discriminate|]. exists (s :: a), b. split; [reflexivity|]. split; [exact Hm|].
        intros x [<-|Hx]; auto.
      * intros (a & b & H & Hm & Ha). right. destruct a as [|x a]; cbn in H; [injection H as <- <-; congruence|].
        injection H as <- ->. exists a, b. split; [reflexivity|]. split; [exact Hm | intros y Hy; apply Ha; right; exact Hy].
Qed.

(* unknown / duplicate fields *)
Lemma x_prefixed_iff : forall k, hstarts s_X k || hstarts s_x k = true <-> x_prefixed k.
Proof.
  intro k. rewrite orb_true_iff, !hstarts_iff. unfold x_prefixed.
  change (lit "X-") with s_X. change (lit "x-") with s_x. split.
  - intros [(r & H)|(r & H)]; exists r; auto.
  - intros (r & [H|H]); [left | right]; exists r; exact H.
Qed.

Lemma key_diags_unknown : forall O known dedicated fs key k h,
  In (DUnknownField k h) (key_diags O known dedicated fs key) -> k = key /\ unknown_name known key.
Proof.
  intros O known dedicated fs key k h H. unfold key_diags in H. apply in_app_or in H. destruct H as [H|H].
  - destruct (hstarts s_X key || hstarts s_x key) eqn:Ex; [destruct H|].
    destruct (smem key known) eqn:Ek; [destruct H|]. destruct H as [H|[]]. injection H as <- _.
    split; [reflexivity|]. split; [apply smem_false; exact Ek|]. intro Hx. apply x_prefixed_iff in Hx. congruence.
  - in_cases; discriminate.
Qed.

Lemma key_diags_unknown_ex : forall O known dedicated fs key,
  unknown_name known key -> exists h, In (DUnknownField key h) (key_diags O known dedicated fs key).
Proof.
  intros O known dedicated fs key [Hk Hx]. unfold key_diags.
  destruct (hstarts s_X key || hstarts s_x key) eqn:Ex; [apply x_prefixed_iff in Ex; contradiction|].
  apply smem_false in Hk. rewrite Hk. eexists. apply in_or_app. left. left. reflexivity.
Qed.

Lemma key_diags_dup : forall O known dedicated fs key k,
  In (DDuplicateField k) (key_diags O known dedicated fs key) <->
  k = key /\ repeated key fs /\ ~ In key dedicated.
Proof.
  intros O known dedicated fs key k. unfold key_diags. rewrite in_app_iff. split.
  - intros [H|H]; [in_cases; discriminate|].
    destruct (Nat.ltb 1 (length (values_of key fs)) && negb (smem key dedicated)) eqn:E; [|destruct H].
    destruct H as [H|[]]. injection H as <-. apply andb_prop in E. destruct E as [E1 E2].
    split; [reflexivity|]. split; [apply many_values; exact E1 | apply smem_false; apply negb_true_iff; exact E2].
  - intros (-> & H1 & H2). right. apply many_values in H1. unfold many in H1. rewrite H1.
    apply smem_false in H2. rewrite H2. left. reflexivity.
Qed.

(* ------------------------------------------------------------------ *)
(* which method a diagnostic comes from *)

Definition cls (d : diag) : nat :=
  match d with
  | DBoilerplateComment _ => 0
  | DDuplicateHeaderEntry | DEmptyMsgidRefs _ | DEmptyMsgidPlural | DFuzzyHeader | DUnexpectedFlag _ _ | DDuplicateFlag _
  | DDistantHeader | DUnusualChars _ | DConflictMarker _ | DStrayLine _ | DUnknownField _ _ | DDuplicateField _ => 1
  | DDuplicateDedicated f | DNoField f =>
    match f with FMime | FCte | FContentType => 2 | FProject | FReport => 3 | FTranslator | FTeam => 4 end
  | DInvalidMimeVersion _ | DInvalidCte _ | DInvalidContentType _ _ | DBoilerplateContentType _ | DUnknownEncoding _
  | DNonAsciiCompatible _ | DNonPortable _ _ | DUnrepresentable _ _ => 2
  | DBoilerplateProject _ | DNoPackageName _ | DNoVersion _ | DInvalidReport _ | DBoilerplateReport _ => 3
  | DInvalidTranslator _ | DBoilerplateTranslator _ | DInvalidTeam _ | DBoilerplateTeam _ | DTeamEqualsTranslator _ _ => 4
  end%nat.

Lemma cls_comments : forall O t c d, In d (check_comments O t c) -> cls d = 0%nat.
Proof. intros O t c d H. unfold check_comments in H. in_cases; subst; reflexivity. Qed.

Lemma cls_stray_diags : forall strays seen d, In d (stray_diags seen strays) -> cls d = 1%nat.
Proof.
  induction strays as [|s r IH]; intros seen d H; cbn [stray_diags] in H; [destruct H|].
  destruct (is_conflict_marker s).
  - apply in_app_or in H. destruct H as [H|H]; [destruct seen; in_cases; subst; reflexivity | exact (IH _ _ H)].
  - destruct H as [<-|H]; [reflexivity | exact (IH _ _ H)].
Qed.

Lemma stray_diags_only : forall strays seen d, In d (stray_diags seen strays) ->
  match d with DConflictMarker _ | DStrayLine _ => True | _ => False end.
Proof.
  induction strays as [|s r IH]; intros seen d H; cbn [stray_diags] in H; [destruct H|].
  destruct (is_conflict_marker s).
  - apply in_app_or in H. destruct H as [H|H]; [destruct seen; in_cases; subst; exact I | exact (IH _ _ H)].
  - destruct H as [<-|H]; [exact I | exact (IH _ _ H)].
Qed.

(* ctx.metadata as a field list *)
Definition metadata_of (es : list entry) : list (str * str) :=
  match header_entries true es with
  | [] => []
  | (_, e) :: _ => fields_of (parse_header (entry_msgstr e))
  end.

Lemma check_headers_fst : forall O known dedicated t es, fst (check_headers O known dedicated t es) = metadata_of es.
Proof. intros. unfold check_headers, metadata_of. destruct (header_entries true es) as [|[f e] more]; reflexivity. Qed.

Lemma cls_headers : forall O known dedicated t es d, In d (snd (check_headers O known dedicated t es)) -> cls d = 1%nat.
Proof.
  intros O known dedicated t es d H. unfold check_headers in H. destruct (header_entries true es) as [|[f e] more]; [destruct H|].
  cbn [snd] in H. apply in_app_or in H. destruct H as [H|H].
  { unfold header_entry_diags, flag_diags in H. in_cases; subst; reflexivity. }
  apply in_app_or in H. destruct H as [H|H]; [in_cases; subst; reflexivity|].
  apply in_app_or in H. destruct H as [H|H]; [exact (cls_stray_diags _ _ _ H)|].
  unfold key_diags in H. in_cases; subst; reflexivity.
Qed.

Lemma cls_mime : forall O t fs d, In d (check_mime O t fs) -> cls d = 2%nat.
Proof.
  intros O t fs d H. apply check_mime_in in H.
  destruct H as [[_ ->]|[(v & _ & _ & ->)|[[_ ->]|[[_ ->]|[(v & _ & _ & ->)|[[_ ->]|[[_ ->]|[[_ ->]|(v & _ & H)]]]]]]]]; try reflexivity.
  apply content_type_diags_only in H. destruct d; try destruct H; reflexivity.
Qed.

Lemma cls_project : forall O nb ob fs ds d, check_project O nb ob fs = Ok ds -> In d ds -> cls d = 3%nat.
Proof.
  intros O nb ob fs ds d E H. rewrite check_project_eq in E. injection E as <-. unfold project_diags, report_pure in H. in_cases; subst; reflexivity.
Qed.

Lemma cls_translator : forall O nb ob t fs ds d, check_translator O nb ob t fs = Ok ds -> In d ds -> cls d = 4%nat.
Proof.
  intros O nb ob t fs ds d E H. rewrite check_translator_eq in E. injection E as <-.
  unfold tr_pure, team_pure in H. in_cases; subst; reflexivity.
Qed.

Section Top.
Variable O : oracles.
Variable known dedicated nb ob : list str.

Lemma hdr_check_ok : forall inp ds, hdr_check O known dedicated nb ob inp = Ok ds ->
  exists pd td,
    check_project O nb ob (metadata_of (h_entries inp)) = Ok pd /\
    check_translator O nb ob (h_template inp) (metadata_of (h_entries inp)) = Ok td /\
    ds = check_comments O (h_template inp) (h_comment inp)
         ++ snd (check_headers O known dedicated (h_template inp) (h_entries inp))
         ++ check_mime O (h_template inp) (metadata_of (h_entries inp)) ++ pd ++ td.
Proof.
  intros inp ds H. unfold hdr_check in H. rewrite <- (check_headers_fst O known dedicated (h_template inp)).
  destruct (check_headers O known dedicated (h_template inp) (h_entries inp)) as [fs hd]. cbn [fst snd].
  unfold obind in H. destruct (check_project O nb ob fs) as [pd| |]; try discriminate.
  destruct (check_translator O nb ob (h_template inp) fs) as [td| |]; try discriminate.
  injection H as <-. exists pd, td. auto.
Qed.

Lemma hdr_check_in : forall inp ds d, hdr_check O known dedicated nb ob inp = Ok ds ->
  (In d ds <->
   match cls d with
   | 0%nat => In d (check_comments O (h_template inp) (h_comment inp))
   | 1%nat => In d (snd (check_headers O known dedicated (h_template inp) (h_entries inp)))
   | 2%nat => In d (check_mime O (h_template inp) (metadata_of (h_entries inp)))
   | 3%nat => exists pd, check_project O nb ob (metadata_of (h_entries inp)) = Ok pd /\ In d pd
   | _ => exists td, check_translator O nb ob (h_template inp) (metadata_of (h_entries inp)) = Ok td /\ In d td
   end).
Proof.
  intros inp ds d H. destruct (hdr_check_ok _ _ H) as (pd & td & Hp & Ht & ->).
  rewrite !in_app_iff. split.
  - intros [Hd|[Hd|[Hd|[Hd|Hd]]]].
    + rewrite (cls_comments _ _ _ _ Hd). exact Hd.
    + rewrite (cls_headers _ _ _ _ _ _ Hd). exact Hd.
    + rewrite (cls_mime _ _ _ _ Hd). exact Hd.
    + rewrite (cls_project _ _ _ _ _ _ Hp Hd). eauto.
    + rewrite (cls_translator _ _ _ _ _ _ _ Ht Hd). eauto.
  - destruct (cls d) as [|[|[|[|n]]]]; intro Hd; auto.
    + destruct Hd as (pd' & E & Hd). assert (pd' = pd) by congruence. subst. auto.
    + destruct Hd as (td' & E & Hd). assert (td' = td) by congruence. subst. auto 6.
Qed.

End Top.

(* ------------------------------------------------------------------ *)
(* the characterisations, on the result of the whole header check *)

Ltac absurd_in H := unfold project_diags, report_pure, tr_pure, team_pure in H; in_cases; discriminate.

Section Rules.
Variable O : oracles.
Variable known dedicated nb ob : list str.
Variable inp : hinput.
Variable ds : list diag.
Hypothesis Hok : hdr_check O known dedicated nb ob inp = Ok ds.
Let md := metadata_of (h_entries inp).
Let t := h_template inp.

Lemma project_result : exists pd,
  check_project O nb ob md = Ok pd /\
  pd = (if many (values_of (field_name FProject) md) then [DDuplicateDedicated FProject]
        else match values_of (field_name FProject) md with [] => [DNoField FProject] | _ => [] end)
       ++ flat_map (project_diags O) (dedup (values_of (field_name FProject) md))
       ++ (if many (values_of (field_name FReport) md) then [DDuplicateDedicated FReport] else [])
       ++ (match report_values md with [] => [DNoField FReport] | _ => [] end)
       ++ flat_map (report_pure O nb ob) (report_values md).
Proof.
  destruct (hdr_check_ok _ _ _ _ _ _ _ Hok) as (pd & td & Hp & _ & _). fold md in Hp.
  exists pd. split; [exact Hp|]. rewrite check_project_eq in Hp. congruence.
Qed.

Lemma translator_result :
  check_translator O nb ob t md =
  Ok ((if many (values_of (field_name FTranslator) md) then [DDuplicateDedicated FTranslator]
       else match values_of (field_name FTranslator) md with [] => [DNoField FTranslator] | _ => [] end)
      ++ flat_map (tr_pure O nb ob t) (dedup (values_of (field_name FTranslator) md))
      ++ (if many (values_of (field_name FTeam) md) then [DDuplicateDedicated FTeam]
          else match values_of (field_name FTeam) md with [] => [DNoField FTeam] | _ => [] end)
      ++ flat_map (team_pure O nb ob t (dedup (values_of (field_name FTranslator) md))) (dedup (values_of (field_name FTeam) md))).
Proof. apply check_translator_eq. Qed.

(* no-<f>-header-field *)
Lemma no_field_iff : forall f,
  In (DNoField f) ds <->
  match f with
  | FReport => forall v, In v (values (field_name FReport) md) -> v = []    (* "does not exist or it is empty" *)
  | _ => absent (field_name f) md
  end.
Proof.
  intro f. rewrite (hdr_check_in _ _ _ _ _ _ _ _ Hok). fold md t.
  destruct f; cbn [cls].
  1-3: rewrite check_mime_in; split;
    [ intros [[_ H]|[(v & _ & _ & H)|[[Ha H]|[[_ H]|[(v & _ & _ & H)|[[Ha H]|[[_ H]|[[Ha H]|(v & _ & H)]]]]]]]]; try discriminate; try exact Ha;
      apply content_type_diags_only in H; destruct H
    | intro Ha; tauto ].
  - destruct project_result as (pd & Hp & Epd). split.
    + intros (pd' & E & H). assert (pd' = pd) by congruence. subst pd'. rewrite Epd in H.
      apply in_app_or in H. destruct H as [H|H].
      * apply piece_dup_or_none in H. destruct H as [[_ H]|[H _]]; [discriminate|]. apply values_of_nil. exact H.
      * exfalso. absurd_in H.
    + intro Ha. exists pd. split; [exact Hp|]. rewrite Epd. apply in_or_app. left. apply piece_dup_or_none. right.
      split; [apply values_of_nil; exact Ha | reflexivity].
  - destruct project_result as (pd & Hp & Epd). rewrite <- report_values_nil. split.
    + intros (pd' & E & H). assert (pd' = pd) by congruence. subst pd'. rewrite Epd in H.
      apply in_app_or in H. destruct H as [H|H]; [exfalso; absurd_in H|].
      apply in_app_or in H. destruct H as [H|H]; [exfalso; absurd_in H|].
      apply in_app_or in H. destruct H as [H|H]; [exfalso; absurd_in H|].
      apply in_app_or in H. destruct H as [H|H]; [|exfalso; absurd_in H].
      apply piece_nil in H. apply H.
    + intro Ha. exists pd. split; [exact Hp|]. rewrite Epd. do 3 (apply in_or_app; right). apply in_or_app. left. rewrite Ha. left. reflexivity.
  - rewrite translator_result. split.
    + intros (td & E & H). injection E as <-.
      apply in_app_or in H. destruct H as [H|H].
      * apply piece_dup_or_none in H. destruct H as [[_ H]|[H _]]; [discriminate|]. apply values_of_nil. exact H.
      * exfalso. absurd_in H.
    + intro Ha. eexists. split; [reflexivity|]. apply in_or_app. left. apply piece_dup_or_none. right.
      split; [apply values_of_nil; exact Ha | reflexivity].
  - rewrite translator_result. split.
    + intros (td & E & H). injection E as <-.
      apply in_app_or in H. destruct H as [H|H]; [exfalso; absurd_in H|].
      apply in_app_or in H. destruct H as [H|H]; [exfalso; absurd_in H|].
      apply in_app_or in H. destruct H as [H|H]; [|exfalso; absurd_in H].
      apply piece_dup_or_none in H. destruct H as [[_ H]|[H _]]; [discriminate|]. apply values_of_nil. exact H.
    + intro Ha. eexists. split; [reflexivity|]. do 2 (apply in_or_app; right). apply in_or_app. left. apply piece_dup_or_none. right.
      split; [apply values_of_nil; exact Ha | reflexivity].
Qed.

(* duplicate-header-field-<f> *)
Lemma duplicate_dedicated_iff : forall f, In (DDuplicateDedicated f) ds <-> repeated (field_name f) md.
Proof.
  intro f. rewrite (hdr_check_in _ _ _ _ _ _ _ _ Hok). fold md t.
  destruct f; cbn [cls].
  1-3: rewrite check_mime_in; split;
    [ intros [[Ha H]|[(v & _ & _ & H)|[[_ H]|[[Ha H]|[(v & _ & _ & H)|[[_ H]|[[Ha H]|[[_ H]|(v & _ & H)]]]]]]]]; try discriminate; try exact Ha;
      apply content_type_diags_only in H; destruct H
    | intro Ha; tauto ].
  - destruct project_result as (pd & Hp & Epd). split.
    + intros (pd' & E & H). assert (pd' = pd) by congruence. subst pd'. rewrite Epd in H.
      apply in_app_or in H. destruct H as [H|H].
      * apply piece_dup_or_none in H. destruct H as [[H _]|[_ H]]; [|discriminate]. apply many_values. apply many_iff. exact H.
      * exfalso. absurd_in H.
    + intro Ha. exists pd. split; [exact Hp|]. rewrite Epd. apply in_or_app. left. apply piece_dup_or_none. left.
      split; [apply many_iff; apply many_values; exact Ha | reflexivity].
  - destruct project_result as (pd & Hp & Epd). split.
    + intros (pd' & E & H). assert (pd' = pd) by congruence. subst pd'. rewrite Epd in H.
      apply in_app_or in H. destruct H as [H|H]; [exfalso; absurd_in H|].
      apply in_app_or in H. destruct H as [H|H]; [exfalso; absurd_in H|].
      apply in_app_or in H. destruct H as [H|H]; [|exfalso; absurd_in H].
      apply piece_if in H. apply many_values. apply H.
    + intro Ha. exists pd. split; [exact Hp|]. rewrite Epd. do 2 (apply in_or_app; right). apply in_or_app. left.
      apply piece_if. split; [apply many_values; exact Ha | reflexivity].
  - rewrite translator_result. split.
    + intros (td & E & H). injection E as <-.
      apply in_app_or in H. destruct H as [H|H].
      * apply piece_dup_or_none in H. destruct H as [[H _]|[_ H]]; [|discriminate]. apply many_values. apply many_iff. exact H.
      * exfalso. absurd_in H.
    + intro Ha. eexists. split; [reflexivity|]. apply in_or_app. left. apply piece_dup_or_none. left.
      split; [apply many_iff; apply many_values; exact Ha | reflexivity].
  - rewrite translator_result. split.
    + intros (td & E & H). injection E as <-.
      apply in_app_or in H. destruct H as [H|H]; [exfalso; absurd_in H|].
      apply in_app_or in H. destruct H as [H|H]; [exfalso; absurd_in H|].
      apply in_app_or in H. destruct H as [H|H]; [|exfalso; absurd_in H].
      apply piece_dup_or_none in H. destruct H as [[H _]|[_ H]]; [|discriminate]. apply many_values. apply many_iff. exact H.
    + intro Ha. eexists. split; [reflexivity|]. do 2 (apply in_or_app; right). apply in_or_app. left. apply piece_dup_or_none. left.
      split; [apply many_iff; apply many_values; exact Ha | reflexivity].
Qed.

(* invalid-mime-version, invalid-content-transfer-encoding *)
Lemma invalid_mime_version_iff : forall v,
  In (DInvalidMimeVersion v) ds <-> In v (values (field_name FMime) md) /\ ~ mime_version_ok v.
Proof.
  intro v. rewrite (hdr_check_in _ _ _ _ _ _ _ _ Hok). fold md t. cbn [cls]. rewrite check_mime_in. unfold mime_version_ok. split.
  - intros [[_ H]|[(v' & H1 & H2 & H)|[[_ H]|[[_ H]|[(v' & _ & _ & H)|[[_ H]|[[_ H]|[[_ H]|(v' & _ & H)]]]]]]]]; try discriminate.
    + injection H as ->. auto.
    + apply content_type_diags_only in H. destruct H.
  - intros [H1 H2]. right. left. exists v. auto.
Qed.

Lemma invalid_cte_iff : forall v,
  In (DInvalidCte v) ds <-> In v (values (field_name FCte) md) /\ ~ cte_ok v.
Proof.
  intro v. rewrite (hdr_check_in _ _ _ _ _ _ _ _ Hok). fold md t. cbn [cls]. rewrite check_mime_in. unfold cte_ok. split.
  - intros [[_ H]|[(v' & _ & _ & H)|[[_ H]|[[_ H]|[(v' & H1 & H2 & H)|[[_ H]|[[_ H]|[[_ H]|(v' & _ & H)]]]]]]]]; try discriminate.
    + injection H as ->. auto.
    + apply content_type_diags_only in H. destruct H.
  - intros [H1 H2]. do 4 right. left. exists v. auto.
Qed.

(* invalid-content-type *)
Lemma invalid_content_type_iff : o_word O 32 = false -> o_word O 99 = true -> forall v,
  (exists hint, In (DInvalidContentType v hint) ds) <->
  In v (values (field_name FContentType) md) /\ ~ content_type_ok (o_space O) v.
Proof.
  intros H32 H99 v. split.
  - intros (h & H). rewrite (hdr_check_in _ _ _ _ _ _ _ _ Hok) in H. fold md t in H. cbn [cls] in H. apply check_mime_in in H.
    destruct H as [[_ H]|[(v' & _ & _ & H)|[[_ H]|[[_ H]|[(v' & _ & _ & H)|[[_ H]|[[_ H]|[[_ H]|(v' & Hv' & H)]]]]]]]]; try discriminate.
    destruct (proj1 (content_type_diags_invalid O t v' v) (ex_intro _ h H)) as [-> Hm].
    split; [exact Hv'|]. intro Hc. apply (content_type_match_true O v' H32 H99) in Hc. destruct Hc as (tok & Hc). exact (Hm tok Hc).
  - intros [Hv Hn]. destruct (proj2 (content_type_diags_invalid O t v v)) as (h & H).
    + split; [reflexivity|]. intros tok Hc. apply Hn. apply (content_type_match_true O v H32 H99). eauto.
    + exists h. rewrite (hdr_check_in _ _ _ _ _ _ _ _ Hok). fold md t. cbn [cls]. apply check_mime_in. do 8 right. exists v. auto.
Qed.

(* boilerplate-in-content-type: reported for PO/MO files only *)
Lemma boilerplate_content_type_iff : forall v,
  In (DBoilerplateContentType v) ds <->
  In v (values (field_name FContentType) md) /\ t = false /\
  exists pref, content_type_match O v = Some (pref, s_CHARSET) /\ o_enc O s_CHARSET = EUnknown.
Proof.
  intro v. rewrite (hdr_check_in _ _ _ _ _ _ _ _ Hok). fold md t. cbn [cls]. rewrite check_mime_in. split.
  - intros [[_ H]|[(v' & _ & _ & H)|[[_ H]|[[_ H]|[(v' & _ & _ & H)|[[_ H]|[[_ H]|[[_ H]|(v' & Hv' & H)]]]]]]]]; try discriminate.
    apply content_type_boilerplate in H. destruct H as (-> & H). auto.
  - intros (Hv & H). do 8 right. exists v. split; [exact Hv|]. apply content_type_boilerplate. auto.
Qed.

End Rules.

(* ------------------------------------------------------------------ *)
(* rules decided in check_headers *)

Definition header_lines_of (es : list entry) : list str :=
  match header_entries true es with
  | [] => []
  | (_, e) :: _ => header_lines (entry_msgstr e)
  end.

Lemma headers_snd : forall O known dedicated t es,
  snd (check_headers O known dedicated t es) =
  match header_entries true es with
  | [] => []
  | (first, e) :: more =>
    header_entry_diags O t first e
    ++ (match more with [] => [] | _ => [DDuplicateHeaderEntry] end)
    ++ stray_diags false (strays_of (map parse_line (header_lines_of es)))
    ++ flat_map (key_diags O known dedicated (metadata_of es)) (sort_u (map fst (metadata_of es)))
  end.
Proof.
  intros. unfold check_headers, metadata_of, header_lines_of. destruct (header_entries true es) as [|[f e] more]; reflexivity.
Qed.

Ltac absurd_hd H := unfold header_entry_diags, flag_diags, key_diags in H; in_cases; discriminate.

Section HeaderRules.
Variable O : oracles.
Variable known dedicated nb ob : list str.
Variable inp : hinput.
Variable ds : list diag.
Hypothesis Hok : hdr_check O known dedicated nb ob inp = Ok ds.
Local Notation es := (h_entries inp).
Let md := metadata_of es.
Let t := h_template inp.

Lemma stray_line_iff : forall l,
  In (DStrayLine l) ds <-> In l (header_lines_of es) /\ stray l.
Proof.
  intro l. rewrite (hdr_check_in _ _ _ _ _ _ _ _ Hok). cbn [cls]. rewrite headers_snd.
  unfold stray. unfold header_lines_of at 2. destruct (header_entries true es) as [|[f e] more] eqn:E.
  - split; [intros [] | intros [[] _]].
  - rewrite !in_app_iff, stray_diags_stray, In_strays_of. unfold header_lines_of. rewrite E. split.
    + intros [H|[H|[H|H]]]; [exfalso; absurd_hd H | exfalso; in_cases; discriminate | | exfalso; absurd_hd H].
      destruct H as [[H1 H2] H3]. split; [exact H1|]. split; [exact H2|]. intro Hc. apply is_conflict_marker_iff in Hc. congruence.
    + intros (H1 & H2 & H3). right. right. left. split; [auto|].
      destruct (is_conflict_marker l) eqn:Ec; [apply is_conflict_marker_iff in Ec; contradiction | reflexivity].
Qed.

Lemma conflict_marker_diag_iff : forall l,
  In (DConflictMarker l) ds <->
  exists a b, strays_of (map parse_line (header_lines_of es)) = a ++ l :: b /\ conflict_marker l /\ forall x, In x a -> ~ conflict_marker x.
Proof.
  intro l. rewrite (hdr_check_in _ _ _ _ _ _ _ _ Hok). cbn [cls]. rewrite headers_snd.
  destruct (header_entries true es) as [|[f e] more] eqn:E.
  - unfold header_lines_of. rewrite E. split; [intros [] | intros ([|? ?] & b & H & _); discriminate].
  - rewrite !in_app_iff, stray_diags_marker. split.
    + intros [H|[H|[H|H]]]; [exfalso; absurd_hd H | exfalso; in_cases; discriminate | | exfalso; absurd_hd H].
      destruct H as (a & b & H1 & H2 & H3). exists a, b. split; [exact H1|]. split; [apply is_conflict_marker_iff; exact H2|].
      intros x Hx Hc. apply is_conflict_marker_iff in Hc. rewrite (H3 x Hx) in Hc. discriminate.
    + intros (a & b & H1 & H2 & H3). right. right. left. exists a, b. split; [exact H1|]. split; [apply is_conflict_marker_iff; exact H2|].
      intros x Hx. destruct (is_conflict_marker x) eqn:Ec; [apply is_conflict_marker_iff in Ec; destruct (H3 x Hx Ec) | reflexivity].
Qed.

Lemma metadata_nil : header_entries true es = [] -> md = [].
Proof. intro E. unfold md, metadata_of. rewrite E. reflexivity. Qed.

Lemma unknown_field_iff : forall k,
  (exists hint, In (DUnknownField k hint) ds) <-> In k (map fst md) /\ unknown_name known k.
Proof.
  intro k. split.
  - intros (h & H). rewrite (hdr_check_in _ _ _ _ _ _ _ _ Hok) in H. cbn [cls] in H. rewrite headers_snd in H. fold md in H.
    destruct (header_entries true es) as [|[f e] more] eqn:E; [destruct H|].
    apply in_app_or in H. destruct H as [H|H]; [exfalso; absurd_hd H|].
    apply in_app_or in H. destruct H as [H|H]; [exfalso; in_cases; discriminate|].
    apply in_app_or in H. destruct H as [H|H]; [apply stray_diags_only in H; destruct H|].
    apply in_flat_map in H. destruct H as (key & Hkey & H). apply key_diags_unknown in H. destruct H as [-> H].
    split; [apply (proj1 (In_sort_u _ _)) in Hkey; exact Hkey | exact H].
  - intros [Hk Hu]. destruct (key_diags_unknown_ex O known dedicated md k Hu) as (h & H). exists h.
    rewrite (hdr_check_in _ _ _ _ _ _ _ _ Hok). cbn [cls]. rewrite headers_snd. fold md.
    destruct (header_entries true es) as [|[f e] more] eqn:E; [rewrite (metadata_nil E) in Hk; destruct Hk|].
    do 3 (apply in_or_app; right). apply in_flat_map. exists k. split; [apply In_sort_u; exact Hk | exact H].
Qed.

Lemma repeated_in_keys : forall k fs, repeated k fs -> In k (map fst fs).
Proof.
  intros k fs H. unfold repeated, count in H. destruct (values k fs) eqn:E; [cbn in H; lia|].
  destruct (in_dec (list_eq_dec N.eq_dec) k (map fst fs)) as [Hi|Hn]; [exact Hi|]. apply values_nil_iff in Hn. congruence.
Qed.

Lemma duplicate_field_iff : forall k,
  In (DDuplicateField k) ds <-> repeated k md /\ ~ In k dedicated.
Proof.
  intro k. rewrite (hdr_check_in _ _ _ _ _ _ _ _ Hok). cbn [cls]. rewrite headers_snd. fold md.
  destruct (header_entries true es) as [|[f e] more] eqn:E.
  - rewrite (metadata_nil E). split; [intros [] | intros [H _]; unfold repeated, count in H; cbn in H; lia].
  - rewrite !in_app_iff. split.
    + intros [H|[H|[H|H]]]; [exfalso; absurd_hd H | exfalso; in_cases; discriminate | apply stray_diags_only in H; destruct H |].
      apply in_flat_map in H. destruct H as (key & Hkey & H). apply key_diags_dup in H. destruct H as (-> & H). exact H.
    + intros [H1 H2]. do 3 right. apply in_flat_map. exists k. split; [apply In_sort_u; apply repeated_in_keys; exact H1|].
      apply key_diags_dup. auto.
Qed.

(* header entry: position, duplicates, fuzzy flag *)
Lemma duplicate_header_entry_iff :
  In DDuplicateHeaderEntry ds <-> (1 < length (header_entries true es))%nat.
Proof.
  rewrite (hdr_check_in _ _ _ _ _ _ _ _ Hok). cbn [cls]. rewrite headers_snd. fold md.
  destruct (header_entries true es) as [|[f e] more] eqn:E; [cbn; split; [intros [] | lia]|].
  rewrite !in_app_iff. split.
  - intros [H|[H|[H|H]]]; [exfalso; absurd_hd H | | apply stray_diags_only in H; destruct H | exfalso; absurd_hd H].
    destruct more; [destruct H | cbn; lia].
  - intro H. right. left. destruct more; [cbn in H; lia | left; reflexivity].
Qed.

Lemma distant_header_entry_iff :
  In DDistantHeader ds <-> exists e more, header_entries true es = (false, e) :: more.
Proof.
  rewrite (hdr_check_in _ _ _ _ _ _ _ _ Hok). cbn [cls]. rewrite headers_snd. fold md.
  destruct (header_entries true es) as [|[f e] more] eqn:E; [split; [intros [] | intros (? & ? & H); discriminate]|].
  rewrite !in_app_iff. split.
  - intros [H|[H|[H|H]]]; [| exfalso; in_cases; discriminate | apply stray_diags_only in H; destruct H | exfalso; absurd_hd H].
    destruct f; [exfalso; absurd_hd H | eauto].
  - intros (e' & more' & H). injection H as -> _ _. left. unfold header_entry_diags. do 3 (apply in_or_app; right). apply in_or_app. left. left. reflexivity.
Qed.

Lemma fuzzy_header_entry_iff :
  In DFuzzyHeader ds <-> t = false /\ exists f e more, header_entries true es = (f, e) :: more /\ In s_fuzzy (e_flags e).
Proof.
  rewrite (hdr_check_in _ _ _ _ _ _ _ _ Hok). cbn [cls]. rewrite headers_snd. fold md t.
  destruct (header_entries true es) as [|[f e] more] eqn:E; [split; [intros [] | intros (_ & ? & ? & ? & H & _); discriminate]|].
  rewrite !in_app_iff. split.
  - intros [H|[H|[H|H]]]; [| exfalso; in_cases; discriminate | apply stray_diags_only in H; destruct H | exfalso; absurd_hd H].
    unfold header_entry_diags in H. apply in_app_or in H. destruct H as [H|H]; [in_cases; discriminate|].
    apply in_app_or in H. destruct H as [H|H]; [in_cases; discriminate|].
    apply in_app_or in H. destruct H as [H|H]; [|in_cases; discriminate].
    unfold flag_diags in H. apply in_flat_map in H. destruct H as (flag & Hflag & H). apply (proj1 (In_sort_u _ _)) in Hflag.
    apply in_app_or in H. destruct H as [H|H]; [|in_cases; discriminate].
    destruct (str_eqb flag s_fuzzy) eqn:Ef; [|in_cases; discriminate]. apply str_eqb_eq in Ef. subst flag.
    destruct t; [destruct H|]. split; [reflexivity|]. exists f, e, more. auto.
  - intros (Ht & f' & e' & more' & H & Hf). injection H as <- <- <-. left. unfold header_entry_diags.
    do 2 (apply in_or_app; right). apply in_or_app. left. unfold flag_diags. apply in_flat_map. exists s_fuzzy.
    split; [apply In_sort_u; exact Hf|]. apply in_or_app. left. rewrite str_eqb_refl, Ht. left. reflexivity.
Qed.

End HeaderRules.

(* ------------------------------------------------------------------ *)
(* no exception escapes: every Crash branch of the model is dead (the rsplit unpack in lib/domains.py is guarded by
   the '@' test; urlparse's ValueError is caught since the D13 fix) *)

Section NoCrash.
Variable O : oracles.
Variable known dedicated nb ob : list str.

Lemma hdr_check_no_crash : forall inp, exists ds, hdr_check O known dedicated nb ob inp = Ok ds.
Proof.
  intro inp. unfold hdr_check.
  destruct (check_headers O known dedicated (h_template inp) (h_entries inp)) as [fs hd].
  rewrite check_project_eq. cbn [obind]. rewrite check_translator_eq. cbn [obind]. eauto.
Qed.

(* a Report-Msgid-Bugs-To value that is not an e-mail address and on which urlparse raises is reported as invalid *)
Lemma urlparse_failure_reported : forall inp ds v, hdr_check O known dedicated nb ob inp = Ok ds ->
  In v (report_values (metadata_of (h_entries inp))) -> report_raises O v -> In (DInvalidReport v) ds.
Proof.
  intros inp ds v Hok Hv [Hn Hu]. rewrite (hdr_check_in _ _ _ _ _ _ _ _ Hok). cbn [cls].
  eexists. split; [apply check_project_eq|]. do 4 (apply in_or_app; right).
  apply in_flat_map. exists v. split; [exact Hv|]. unfold report_pure.
  apply (verdict_noat O nb ob is_boiler1) in Hn. rewrite Hn, Hu. left. reflexivity.
Qed.

End NoCrash.

(* ------------------------------------------------------------------ *)
(* a header that follows every convention yields no diagnostic *)

Lemma values_single : forall k v fs, NoDup (map fst fs) -> In (k, v) fs -> values_of k fs = [v].
Proof.
  intros k v fs. rewrite values_of_spec. induction fs as [|[k' v'] fs IH]; intros Hnd Hin; [destruct Hin|].
  cbn [map fst] in Hnd. inversion Hnd as [|? ? Hni Hnd']; subst. cbn [values].
  destruct Hin as [H|H].
  - assert (k' = k) by congruence. assert (v' = v) by congruence. subst k' v'. destruct (list_eq_dec N.eq_dec k k) as [_|Hne]; [|contradiction].
    f_equal. apply values_nil_iff. exact Hni.
  - destruct (list_eq_dec N.eq_dec k' k) as [->|Hne]; [|exact (IH Hnd' H)].
    exfalso. apply Hni. apply in_map_iff. exists (k, v). auto.
Qed.

Lemma values_le1 : forall k fs, NoDup (map fst fs) -> (length (values_of k fs) <= 1)%nat.
Proof.
  intros k fs Hnd. destruct (values_of k fs) as [|v l] eqn:E; [cbn; lia|].
  assert (In (k, v) fs) as Hin by (apply In_values; rewrite <- values_of_spec, E; left; reflexivity).
  rewrite (values_single k v fs Hnd Hin) in E. injection E as <-. cbn. lia.
Qed.

Lemma flat_map_nil : forall A B (f : A -> list B) l, (forall x, In x l -> f x = []) -> flat_map f l = [].
Proof.
  induction l as [|x l IH]; intro H; [reflexivity|]. cbn [flat_map]. rewrite (H x (or_introl eq_refl)), IH; [reflexivity|].
  intros y Hy. apply H. right. exact Hy.
Qed.

Lemma unusual_scan_plain : forall O s prev, Forall plain_char s -> unusual_scan O prev s = [].
Proof.
  intros O. induction s as [|c r IH]; intros prev H; [reflexivity|]. inversion H as [|? ? Hc Hr]; subst.
  cbn [unusual_scan]. rewrite (IH _ Hr), app_nil_r.
  replace (unusual_at O prev c (hd_opt r)) with false; [reflexivity|]. symmetry.
  unfold plain_char in Hc. unfold unusual_at, in_rng.
  repeat match goal with |- context [N.eqb c ?k] => let E := fresh "E" in destruct (N.eqb c k) eqn:E; [apply N.eqb_eq in E; lia | apply N.eqb_neq in E] end.
  repeat match goal with |- context [N.leb ?a ?b] => let E := fresh "E" in destruct (N.leb a b) eqn:E; [apply N.leb_le in E | apply N.leb_gt in E] end;
  cbn [andb orb negb]; try reflexivity; try lia.
Qed.

Section Clean.
Variable O : oracles.
Variable known dedicated nb ob : list str.

Definition fine_address (b : str -> bool) (addr : str) : Prop :=
  good_address (o_lower O) nb ob addr /\ b addr = false.

Lemma verdict_fine : forall b addr, fine_address b addr -> addr_verdict O nb ob b addr = VFine.
Proof.
  intros b addr [(d & Hd & Hnr & Hnd) Hb]. unfold addr_verdict.
  assert (In 64 addr) as Hat by (destruct Hd as (l & -> & _); apply in_or_app; right; left; reflexivity).
  apply domain_part_unique in Hd. subst d.
  apply hmem_In in Hat. rewrite Hat. cbn [negb].
  destruct (is_special nb ob (o_lower O (domain_pure addr))) eqn:Es; [apply is_special_iff in Es; contradiction|].
  rewrite Hb. destruct (hmem 46 (domain_pure addr)) eqn:Ed; [reflexivity|]. apply hmem_false in Ed. contradiction.
Qed.

Record clean_header (inp : hinput) (e : entry) (fs : list (str * str)) : Prop := {
  c_single : header_entries true (h_entries inp) = [(true, e)];           (* one header entry, at the top *)
  c_plain_entry : e_occurrences e = [] /\ e_has_plural e = false /\ e_flags e = [];
  c_chars : Forall plain_char (entry_msgstr e);
  c_lines : forall l, In l (header_lines (entry_msgstr e)) -> has_field_name l;
  c_fields : fs = metadata_of (h_entries inp);
  c_nodup : NoDup (map fst fs);
  c_known : forall k, In k (map fst fs) -> In k known \/ x_prefixed k;
  c_mime : In (field_name FMime, lit "1.0") fs;
  c_cte : In (field_name FCte, lit "8bit") fs;
  c_ctype : exists tok, In (field_name FContentType, lit "text/plain; charset=" ++ tok) fs /\ charset_token (o_space O) tok /\
              (exists p, o_enc O tok = EKnown true true p) /\ o_unrep O tok = [];
  c_project : exists v, In (field_name FProject, v) fs /\ ~ project_boilerplate v /\
              (exists c, In c v /\ o_word O c = true /\ o_digit O c = false /\ c <> 95) /\ (exists c, In c v /\ 48 <= c <= 57);
  c_report : exists v, In (field_name FReport, v) fs /\ v <> [] /\
              (fine_address is_boiler1 (o_parseaddr O v) \/ (~ In 64 (o_parseaddr O v) /\ o_urlscheme O v = UScheme));
  c_translator : exists v, In (field_name FTranslator, v) fs /\ fine_address is_boiler1 (o_parseaddr O v) /\
     exists w, In (field_name FTeam, w) fs /\
       (~ In 64 (o_parseaddr O w) \/ (fine_address is_boiler2 (o_parseaddr O w) /\ o_parseaddr O w <> o_parseaddr O v));
  c_comments : forall w, In w boilerplate_words -> ~ contains w (h_comment inp)   (* no xgettext / msginit placeholder word *)
}.

Lemma clean_header_silent : o_word O 32 = false -> o_word O 99 = true -> o_space O 32 = true ->
  forall inp e fs, clean_header inp e fs -> hdr_check O known dedicated nb ob inp = Ok [].
Proof.
  intros H32 H99 HS32 inp e fs C. destruct C.
  unfold hdr_check.
  assert (Hfst := check_headers_fst O known dedicated (h_template inp) (h_entries inp)).
  assert (Hsnd := headers_snd O known dedicated (h_template inp) (h_entries inp)).
  destruct (check_headers O known dedicated (h_template inp) (h_entries inp)) as [fs' hd]. cbn [fst snd] in Hfst, Hsnd.
  rewrite <- c_fields0 in Hfst. subst fs'. rewrite <- c_fields0 in Hsnd.
  (* comments *)
  assert (Hcom : check_comments O (h_template inp) (h_comment inp) = []).
  { unfold check_comments. apply flat_map_nil. intros l Hl. rewrite (clean_comment_lines O (h_template inp) (h_comment inp) HS32 c_comments0 l Hl). reflexivity. }
  (* headers *)
  assert (Hhd : hd = []).
  { rewrite Hsnd, c_single0. destruct c_plain_entry0 as (Ho & Hp & Hf).
    unfold header_entry_diags. rewrite Ho, Hp, Hf. unfold unusual_chars. rewrite (unusual_scan_plain O _ None c_chars0). cbn [app flag_diags sort_u fold_right flat_map map concat].
    replace (strays_of (map parse_line (header_lines_of (h_entries inp)))) with (@nil str).
    - cbn [stray_diags app]. apply flat_map_nil. intros k Hk. apply (proj1 (In_sort_u _ _)) in Hk. unfold key_diags.
      replace (Nat.ltb 1 (length (values_of k fs))) with false
        by (symmetry; apply Nat.ltb_ge; apply values_le1; exact c_nodup0). cbn [andb app].
      rewrite app_nil_r. destruct (c_known0 k Hk) as [H|H].
      + apply smem_In in H. rewrite H. destruct (hstarts s_X k || hstarts s_x k); reflexivity.
      + apply x_prefixed_iff in H. rewrite H. reflexivity.
    - symmetry. unfold header_lines_of. rewrite c_single0.
      destruct (strays_of (map parse_line (header_lines (entry_msgstr e)))) as [|s r] eqn:Es; [reflexivity|].
      assert (In s (strays_of (map parse_line (header_lines (entry_msgstr e))))) as Hs by (rewrite Es; left; reflexivity).
      apply In_strays_of in Hs. destruct Hs as [Hs Hn]. destruct (Hn (c_lines0 s Hs)). }
  (* mime *)
  assert (Hmime : check_mime O (h_template inp) fs = []).
  { unfold check_mime. destruct c_ctype0 as (tok & Hct & Htok & (p & Henc) & Hun).
    rewrite (values_single _ _ _ c_nodup0 c_mime0), (values_single _ _ _ c_nodup0 c_cte0), (values_single _ _ _ c_nodup0 Hct).
    cbn [many length Nat.ltb Nat.leb dedup flat_map app].
    change (lit "1.0") with s_1_0. change (lit "8bit") with s_8bit. rewrite !str_eqb_refl. cbn [app].
    unfold content_type_diags.
    destruct (proj2 (content_type_match_true O _ H32 H99) (ex_intro _ tok (conj eq_refl Htok))) as (tok' & Hm).
    assert (tok' = tok).
    { unfold content_type_match in Hm. rewrite lit_text_plain_charset, <- app_assoc, hstrip_prefix_app in Hm.
      unfold m_charset in Hm. rewrite hstrip_prefix_app in Hm.
      destruct (wb O (Some 32) (hd_opt (s_charset ++ tok)) && charset_token_ok O tok); [injection Hm as <-; reflexivity|].
      destruct (charset_search O None (s_text_plain ++ s_charset ++ tok)); discriminate. }
    subst tok'. rewrite Hm, Henc. cbn [negb]. rewrite Hun. reflexivity. }
  (* project *)
  assert (Hproj : check_project O nb ob fs = Ok []).
  { destruct c_project0 as (v & Hv & Hnb & (c1 & Hc1 & Hw & Hd & H95) & (c2 & Hc2 & Hdig)).
    destruct c_report0 as (r & Hr & Hrne & Hraddr).
    unfold check_project, report_values.
    rewrite (values_single _ _ _ c_nodup0 Hv), (values_single _ _ _ c_nodup0 Hr).
    cbn [many length Nat.ltb Nat.leb dedup].
    destruct r as [|r0 r']; [contradiction|]. cbn [ocollect].
    assert (report_diags O nb ob (r0 :: r') = Ok []) as ->.
    { rewrite report_diags_eq. destruct Hraddr as [Hf|[Hn Hu]].
      - rewrite (verdict_fine _ _ Hf). reflexivity.
      - apply (verdict_noat O nb ob is_boiler1) in Hn. rewrite Hn, Hu. reflexivity. }
    cbn [obind app flat_map]. unfold project_diags.
    assert (str_eqb v (LIT "PACKAGE VERSION") || str_eqb v (LIT "PROJECT VERSION") = false) as ->.
    { apply orb_false_iff. split; apply str_eqb_neq; intro Hx; apply Hnb; [left | right]; exact Hx. }
    assert (has_name_char O v = true) as ->.
    { unfold has_name_char. apply existsb_exists. exists c1. split; [exact Hc1|]. rewrite Hw, Hd. apply N.eqb_neq in H95. rewrite H95. reflexivity. }
    assert (has_ascii_digit v = true) as ->.
    { unfold has_ascii_digit. apply existsb_exists. exists c2. split; [exact Hc2|]. unfold in_rng. apply andb_true_iff. split; apply N.leb_le; lia. }
    reflexivity. }
  (* translator *)
  assert (Htr : check_translator O nb ob (h_template inp) fs = Ok []).
  { rewrite check_translator_eq. destruct c_translator0 as (v & Hv & Hfa & w & Hw & Hteam).
    rewrite (values_single _ _ _ c_nodup0 Hv), (values_single _ _ _ c_nodup0 Hw).
    cbn [many length Nat.ltb Nat.leb dedup flat_map app]. unfold tr_pure, team_pure.
    rewrite (verdict_fine _ _ Hfa). destruct Hteam as [Hn|[Hf Hne]].
    - apply (verdict_noat O nb ob is_boiler2) in Hn. rewrite Hn. reflexivity.
    - rewrite (verdict_fine _ _ Hf). unfold translator_with_email. cbn [rev app find].
      assert (str_eqb (o_parseaddr O v) (o_parseaddr O w) = false) as -> by (apply str_eqb_neq; congruence). reflexivity. }
  rewrite Hproj, Htr, Hcom, Hhd, Hmime. reflexivity.
Qed.

End Clean.

(* ------------------------------------------------------------------ *)
(* Last-Translator: invalid / boilerplate (with the POT exemption) *)

Section TranslatorRules.
Variable O : oracles.
Variable known dedicated nb ob : list str.
Variable inp : hinput.
Variable ds : list diag.
Hypothesis Hok : hdr_check O known dedicated nb ob inp = Ok ds.
Let md := metadata_of (h_entries inp).
Let t := h_template inp.

Lemma translator_piece : forall d, cls d = 4%nat ->
  (forall f, d <> DDuplicateDedicated f) -> (forall f, d <> DNoField f) ->
  (forall a, d <> DInvalidTeam a) -> (forall a, d <> DBoilerplateTeam a) -> (forall a b, d <> DTeamEqualsTranslator a b) ->
  (In d ds <-> exists v, In v (values (field_name FTranslator) md) /\ In d (tr_pure O nb ob t v)).
Proof.
  intros d Hc H1 H2 H3 H4 H5. rewrite (hdr_check_in _ _ _ _ _ _ _ _ Hok). rewrite Hc.
  rewrite (translator_result O nb ob inp). fold md t. split.
  - intros (td & E & H). injection E as <-.
    apply in_app_or in H. destruct H as [H|H]; [exfalso; in_cases; subst; first [eapply H1; reflexivity | eapply H2; reflexivity]|].
    apply in_app_or in H. destruct H as [H|H].
    + apply in_flat_map in H. destruct H as (v & Hv & H). exists v. split; [|exact H].
      apply (proj1 (In_dedup _ _)) in Hv. rewrite <- values_of_spec. exact Hv.
    + exfalso. apply in_app_or in H. destruct H as [H|H]; [in_cases; subst; first [eapply H1; reflexivity | eapply H2; reflexivity]|].
      unfold team_pure in H. in_cases; subst; first [eapply H3; reflexivity | eapply H4; reflexivity | eapply H5; reflexivity].
  - intros (v & Hv & H). eexists. split; [reflexivity|]. apply in_or_app. right. apply in_or_app. left.
    apply in_flat_map. exists v. split; [apply In_dedup; rewrite values_of_spec; exact Hv | exact H].
Qed.

Lemma invalid_translator_iff : forall v,
  In (DInvalidTranslator v) ds <->
  In v (values (field_name FTranslator) md) /\ bad_address (o_lower O) nb ob (o_parseaddr O v).
Proof.
  intro v. rewrite translator_piece by (try reflexivity; intros; discriminate). split.
  - intros (v' & Hv' & H). unfold tr_pure in H. pose proof (verdict_invalid_iff O nb ob (o_parseaddr O v')) as HV.
    destruct (addr_verdict O nb ob is_boiler1 (o_parseaddr O v')); in_cases; try discriminate; injection H as ->; (split; [exact Hv' | apply HV; exact I]).
  - intros [Hv Hb]. exists v. split; [exact Hv|]. unfold tr_pure. apply (verdict_invalid_iff O nb ob) in Hb.
    destruct (addr_verdict O nb ob is_boiler1 (o_parseaddr O v)); try destruct Hb; left; reflexivity.
Qed.

(* POT exemption *)
Lemma boilerplate_translator_iff : forall v,
  In (DBoilerplateTranslator v) ds <->
  In v (values (field_name FTranslator) md) /\ t = false /\ addr_verdict O nb ob is_boiler1 (o_parseaddr O v) = VBoilerplate.
Proof.
  intro v. rewrite translator_piece by (try reflexivity; intros; discriminate). split.
  - intros (v' & Hv' & H). unfold tr_pure in H.
    destruct (addr_verdict O nb ob is_boiler1 (o_parseaddr O v')) eqn:E; in_cases; try discriminate. injection H as ->. auto.
  - intros (Hv & Ht & E). exists v. split; [exact Hv|]. unfold tr_pure. rewrite E, Ht. left. reflexivity.
Qed.

End TranslatorRules.

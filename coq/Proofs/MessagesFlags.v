(* _check_message_flags: what each emitted tag means in terms of the flag list. *)
From Coq Require Import List NArith ZArith Bool Lia ZifyBool ZifyN Sorted.
From I18n Require Import Lib.Outcome Model.IntExpr Model.PluralForms Model.Messages Proofs.MessagesLib.
Import ListNotations.
Local Open Scope N_scope.

Definition flag_of (it : item) : list N := fst (fst it).
Definition count_of (it : item) : nat := snd (fst it).
Definition class_of (it : item) : fclass := snd it.

(* ------------------------------------------------------------------ *)
(* the classified Counter                                               *)

Lemma obind_ok {A B E} (x : outcome A E) (f : A -> outcome B E) b :
  obind x f = Ok b -> exists a, x = Ok a /\ f a = Ok b.
Proof. destruct x; cbn; intros H; try discriminate. eauto. Qed.

Lemma classify_all_spec cfg : forall l items, classify_all cfg l = Ok items ->
  map fst items = l /\ Forall (fun it => classify cfg (flag_of it) = Ok (class_of it)) items.
Proof.
  induction l as [|[f n] l IH]; cbn; intros items H.
  - inversion H; subst. split; [reflexivity|constructor].
  - apply obind_ok in H. destruct H as [c [Hc H]]. apply obind_ok in H. destruct H as [cs [Hcs H]].
    inversion H; subst. destruct (IH _ Hcs) as [Hm Hf]. split; [cbn; congruence|constructor; auto].
Qed.

Lemma counter_sorted_In f n F : In (f, n) (counter_sorted F) <-> In f F /\ n = count_str f F.
Proof.
  unfold counter_sorted. rewrite in_map_iff. split.
  - intros [g [E Hg]]. inversion E; subst. apply (proj1 (str_sort_In _ _)) in Hg. auto.
  - intros [Hf ->]. exists f. split; auto. apply (proj2 (str_sort_In _ _)). auto.
Qed.

Section Items.
  Variables (cfg : config) (F : list (list N)) (items : list item).
  Hypothesis Hitems : classify_all cfg (counter_sorted F) = Ok items.

  Lemma items_In it : In it items -> In (flag_of it) F /\ count_of it = count_str (flag_of it) F
                                      /\ classify cfg (flag_of it) = Ok (class_of it).
  Proof.
    intros Hin. destruct (classify_all_spec _ _ _ Hitems) as [Hm Hf].
    assert (H1 : In (fst it) (counter_sorted F)) by (rewrite <- Hm; apply in_map; auto).
    destruct it as [[f n] cl]. apply counter_sorted_In in H1. cbn in *.
    rewrite Forall_forall in Hf. specialize (Hf _ Hin). cbn in Hf. tauto.
  Qed.

  Lemma items_complete f : In f F -> exists cl, In (f, count_str f F, cl) items /\ classify cfg f = Ok cl.
  Proof.
    intros Hin. destruct (classify_all_spec _ _ _ Hitems) as [Hm Hf].
    assert (H1 : In (f, count_str f F) (map fst items)) by (rewrite Hm; apply counter_sorted_In; auto).
    apply in_map_iff in H1. destruct H1 as [[[f' n'] cl] [E Hin']]. cbn in E. inversion E; subst.
    exists cl. split; auto. rewrite Forall_forall in Hf. apply (Hf _ Hin').
  Qed.

  Lemma items_flags_NoDup : NoDup (map flag_of items).
  Proof.
    destruct (classify_all_spec _ _ _ Hitems) as [Hm _].
    assert (E : map flag_of items = sort_dedup str_compare F).
    { transitivity (map fst (map fst items)); [rewrite map_map; reflexivity|].
      rewrite Hm. unfold counter_sorted. rewrite map_map. cbn. apply map_id. }
    rewrite E. apply str_sort_NoDup.
  Qed.

  Lemma items_unique it1 it2 : In it1 items -> In it2 items -> flag_of it1 = flag_of it2 -> it1 = it2.
  Proof.
    intros H1 H2 E. destruct (items_In _ H1) as [_ [C1 K1]]. destruct (items_In _ H2) as [_ [C2 K2]].
    destruct it1 as [[f1 n1] c1], it2 as [[f2 n2] c2]. unfold flag_of, count_of, class_of in *. cbn in *. subst.
    rewrite K1 in K2. inversion K2. reflexivity.
  Qed.
End Items.

(* ------------------------------------------------------------------ *)
(* the if / elif chain                                                  *)

Definition named_flag (f : list N) : Prop := f = s_fuzzy \/ f = s_wrap \/ f = s_no_wrap.

Lemma classify_cases cfg f cl : classify cfg f = Ok cl ->
  (f = s_fuzzy /\ cl = FFuzzy) \/ (f = s_wrap /\ cl = FWrap true) \/ (f = s_no_wrap /\ cl = FWrap false)
  \/ (~ named_flag f /\ starts_with s_range f = true /\ exists r, parse_range (c_maxd cfg) (skipn 6 f) = Ok r /\ cl = FRange r)
  \/ (~ named_flag f /\ starts_with s_range f = false /\ ends_with s_format f = true
      /\ cl = FFormat (lookup_format (c_formats cfg) prefixes f))
  \/ (f = s_markdown /\ cl = FMarkdown)
  \/ (~ named_flag f /\ starts_with s_range f = false /\ ends_with s_format f = false /\ f <> s_markdown /\ cl = FOther).
Proof.
  unfold classify, named_flag.
  destruct (str_eqb f s_fuzzy) eqn:E1; [apply str_eqb_eq in E1; intros H; inversion H; auto|].
  destruct (str_eqb f s_wrap) eqn:E2; [apply str_eqb_eq in E2; intros H; inversion H; auto|].
  destruct (str_eqb f s_no_wrap) eqn:E3; [apply str_eqb_eq in E3; intros H; inversion H; auto 6|].
  apply str_eqb_neq in E1, E2, E3.
  assert (Hn : ~ (f = s_fuzzy \/ f = s_wrap \/ f = s_no_wrap)) by tauto.
  destruct (starts_with s_range f) eqn:E4.
  { intros H. apply obind_ok in H. destruct H as [r [Hr H]]. inversion H; subst. right; right; right; left. eauto. }
  destruct (ends_with s_format f) eqn:E5.
  { intros H; inversion H; subst. right; right; right; right; left. auto. }
  destruct (str_eqb f s_markdown) eqn:E6.
  { apply str_eqb_eq in E6. intros H; inversion H; subst. right; right; right; right; right; left. auto. }
  apply str_eqb_neq in E6. intros H; inversion H; subst. right; right; right; right; right; right. auto.
Qed.

Lemma classify_fuzzy cfg f cl : classify cfg f = Ok cl -> (cl = FFuzzy <-> f = s_fuzzy).
Proof.
  intros H. destruct (classify_cases _ _ _ H) as [[-> ->]|[[-> ->]|[[-> ->]|[[Hn [_ [r [_ ->]]]]|[[Hn [_ [_ ->]]]|[[-> ->]|[Hn [_ [_ [_ ->]]]]]]]]]];
    unfold named_flag in *; split; try congruence; try discriminate; intros; try tauto; try (exfalso; tauto).
Qed.
Lemma classify_wrap cfg f cl w : classify cfg f = Ok cl -> (cl = FWrap w <-> f = (if w then s_wrap else s_no_wrap)).
Proof.
  intros H. destruct (classify_cases _ _ _ H) as [[-> ->]|[[-> ->]|[[-> ->]|[[Hn [_ [r [_ ->]]]]|[[Hn [_ [_ ->]]]|[[-> ->]|[Hn [_ [_ [_ ->]]]]]]]]]];
    unfold named_flag in *; destruct w; split; try congruence; try discriminate; intros; try tauto; try (exfalso; tauto).
Qed.

(* ------------------------------------------------------------------ *)
(* the loop                                                             *)

Definition item_static (hp : bool) (it : item) : list mdiag :=
  item_pre hp None (flag_of it) (class_of it) ++ item_dup (flag_of it) (count_of it) (class_of it).

Definition wraps (items : list item) : list bool :=
  flat_map (fun it => match class_of it with FWrap w => [w] | _ => [] end) items.
Definition opt_list {A} (o : option A) : list A := match o with Some a => [a] | None => [] end.
Definition clash (l : list bool) : Prop := In true l /\ In false l.

Lemma item_pre_split hp wrap f cl :
  item_pre hp wrap f cl =
  (match cl, wrap with FWrap w, Some w0 => if Bool.eqb w0 (negb w) then [MConflictFlags s_wrap s_no_wrap] else [] | _, _ => [] end)
  ++ item_pre hp None f cl.
Proof. destruct cl as [|w|r|r| |]; destruct wrap as [w0|]; cbn; try reflexivity; try (destruct r; reflexivity).
  - rewrite app_nil_r. reflexivity.
Qed.

Lemma static_not_wrapclash hp it a b : In (MConflictFlags a b) (item_static hp it) -> False.
Proof.
  unfold item_static. destruct it as [[f n] cl]. unfold flag_of, count_of, class_of. cbn [fst snd].
  rewrite in_app_iff. intros [H|H].
  - destruct cl as [|w|[r|]|[r|]| |]; destruct hp; cbn in H;
      repeat (destruct H as [H|H]; try discriminate H); try contradiction.
  - unfold item_dup in H. destruct cl as [|w|[r|]|r| |]; try contradiction;
      destruct (Nat.ltb 1 n && negb (is_nil f)); cbn in H;
      repeat (destruct H as [H|H]; try discriminate H); try contradiction.
Qed.

Lemma loop_diags_In hp : forall items wrap d, In d (loop_diags hp wrap items) <->
  (exists it, In it items /\ In d (item_static hp it))
  \/ (d = MConflictFlags s_wrap s_no_wrap /\ clash (opt_list wrap ++ wraps items)).
Proof.
  induction items as [|[[f n] cl] items IH]; intros wrap d.
  - cbn. split; [tauto|]. intros [[it [[] _]]|[_ [H1 H2]]]. rewrite app_nil_r in *.
    destruct wrap as [[]|]; cbn in *; intuition discriminate.
  - cbn [loop_diags]. rewrite !in_app_iff, IH, item_pre_split, in_app_iff.
    unfold wraps. cbn [flat_map]. fold (wraps items). change (class_of (f, n, cl)) with cl.
    split.
    + intros [[H|H]|[H|[H|H]]].
      * (* conflict emitted here *)
        destruct cl as [|w|r|r| |]; try (cbn in H; tauto). destruct wrap as [w0|]; [|cbn in H; tauto].
        destruct (Bool.eqb w0 (negb w)) eqn:E; [|cbn in H; tauto].
        destruct H as [<-|[]]. right. split; auto. apply eqb_prop in E. subst. unfold clash. cbn.
        destruct w; cbn; auto.
      * left. exists (f, n, cl). split; [left; auto|]. unfold item_static, flag_of, count_of, class_of. cbn. apply in_or_app; auto.
      * left. exists (f, n, cl). split; [left; auto|]. unfold item_static, flag_of, count_of, class_of. cbn. apply in_or_app; auto.
      * destruct H as [it [Hin Hd]]. left. exists it. split; [right; auto|auto].
      * destruct H as [-> Hc]. right. split; auto.
        unfold clash in *. destruct cl as [|w|r|r| |]; cbn [item_wrap] in Hc; try exact Hc.
        destruct wrap as [w0|]; cbn in *.
        -- destruct (Bool.eqb w0 (negb w)) eqn:E; cbn in Hc; [intuition|].
           destruct w0, w; cbn in *; try discriminate; intuition.
        -- exact Hc.
    + intros [[it [[<-|Hin] Hd]]|[-> Hc]].
      * unfold item_static, flag_of, count_of, class_of in Hd. cbn in Hd. apply in_app_or in Hd. tauto.
      * right. right. left. eauto.
      * (* a clash including this item *)
        destruct cl as [|w|r|r| |]; try (right; right; right; split; auto; exact Hc).
        destruct wrap as [w0|]; cbn [opt_list app] in Hc.
        -- destruct (Bool.eqb w0 (negb w)) eqn:E.
           ++ left. left. left. reflexivity.
           ++ right. right. right. split; auto. cbn [item_wrap]. rewrite E. cbn [opt_list app].
              unfold clash in *. destruct w0, w; cbn in *; try discriminate; intuition.
        -- right. right. right. split; auto.
  Qed.

(* ------------------------------------------------------------------ *)
(* what one iteration emits, by tag                                     *)

Ltac static_case it hp g n cl :=
  destruct it as [[g n] cl]; unfold item_static, flag_of, count_of, class_of, item_dup; cbn [fst snd];
  destruct (Nat.ltb 1 n) eqn:Eltb; [apply Nat.ltb_lt in Eltb|apply Nat.ltb_ge in Eltb];
  destruct g as [|?c ?g]; destruct cl as [|?w|[?r|]|[[?tp ?nm]|]| |]; destruct hp; cbn.

Lemma static_range_no_plural hp it : In MRangeNoPlural (item_static hp it) <-> hp = false /\ exists r, class_of it = FRange r.
Proof. static_case it hp g n cl; split; intros HH; try (intuition (try congruence; eauto); fail);
  try (destruct HH as [? [? HH]]; discriminate HH). Qed.

Lemma static_invalid_range hp it f : In (MInvalidRange f) (item_static hp it) <-> f = flag_of it /\ class_of it = FRange None.
Proof. static_case it hp g n cl; unfold flag_of; cbn; intuition congruence. Qed.

Lemma static_unknown hp it f : In (MUnknownFlag f) (item_static hp it) <->
  f = flag_of it /\ (class_of it = FFormat None \/ class_of it = FOther).
Proof. static_case it hp g n cl; unfold flag_of; cbn; intuition congruence. Qed.

Lemma static_dup hp it f : In (MDupFlag f) (item_static hp it) <->
  f = flag_of it /\ (1 < count_of it)%nat /\ f <> [] /\ (forall r, class_of it <> FRange (Some r)).
Proof.
  static_case it hp g n cl; unfold flag_of; cbn; split; intros HH;
    try (intuition (try congruence; try lia); fail);
    try (destruct HH as [? [? [? HH]]]; exfalso; eapply HH; reflexivity);
    try (repeat (destruct HH as [HH|HH]; try discriminate HH); try contradiction; inversion HH; subst;
         repeat split; auto; try lia; try discriminate; intros; discriminate).
Qed.

Lemma static_shape hp it d : In d (item_static hp it) ->
  d = MRangeNoPlural \/ (exists f, d = MInvalidRange f) \/ (exists f, d = MUnknownFlag f) \/ (exists f, d = MDupFlag f).
Proof.
  static_case it hp g n cl; intros HH; repeat (destruct HH as [HH|HH]; try contradiction); try contradiction; subst; eauto 6.
Qed.

(* ------------------------------------------------------------------ *)
(* dicts                                                                *)

Lemma ftp_eqb_eq a b : ftp_eqb a b = true <-> a = b.
Proof. destruct a, b; cbn; split; congruence. Qed.

Lemma dget_Some k d v : dget k d = Some v -> In (k, v) d.
Proof.
  unfold dget. destruct (find _ d) as [p|] eqn:E; [|discriminate]. intros H; inversion H; subst.
  apply find_some in E. destruct E as [Hin E]. apply str_eqb_eq in E. subst. destruct p; auto.
Qed.
Lemma dget_In k v d : In (k, v) d -> exists v', dget k d = Some v'.
Proof.
  intros Hin. unfold dget. destruct (find _ d) as [p|] eqn:E; [eauto|].
  exfalso. apply (find_none _ _ E) in Hin. cbn in Hin. rewrite str_eqb_refl in Hin. discriminate.
Qed.
Lemma dict_items_In k v d : In (k, v) (dict_items d) <-> dget k d = Some v.
Proof.
  unfold dict_items. rewrite in_flat_map. split.
  - intros [k0 [_ H]]. destruct (dget k0 d) eqn:E; cbn in H; [|contradiction].
    destruct H as [H|[]]. inversion H; subst. auto.
  - intros H. exists k. split.
    + apply (proj2 (str_sort_In _ _)). apply dget_Some in H. apply (in_map fst) in H. exact H.
    + rewrite H. left. reflexivity.
Qed.

Lemma fmt_dict_In tp items name flag :
  In (name, flag) (fmt_dict tp items) <-> exists n, In (flag, n, FFormat (Some (tp, name))) items.
Proof.
  unfold fmt_dict. rewrite <- in_rev, in_flat_map. split.
  - intros [[[f n] cl] [Hin H]].
    destruct cl as [|w|r|[[tp' nm]|]| |]; try contradiction.
    destruct (ftp_eqb tp tp') eqn:E; [|contradiction]. apply ftp_eqb_eq in E. subst.
    destruct H as [H|[]]. inversion H; subst. eauto.
  - intros [n Hin]. exists (flag, n, FFormat (Some (tp, name))). split; auto.
    assert (E : ftp_eqb tp tp = true) by (apply ftp_eqb_eq; auto). rewrite E. left. reflexivity.
Qed.

Lemma redundant_In pos possible d : In d (redundant pos possible) <->
  exists k p q, d = MRedundantFlag p q /\ dget k pos = Some q /\ dget k possible = Some p.
Proof.
  unfold redundant. rewrite in_flat_map. split.
  - intros [[k q] [Hin H]]. cbn [fst snd] in H. destruct (dget k possible) eqn:E; [|contradiction].
    destruct H as [<-|[]]. apply dict_items_In in Hin. eauto 6.
  - intros [k [p [q [-> [H1 H2]]]]]. exists (k, q). split; [apply dict_items_In; auto|].
    cbn [fst snd]. rewrite H2. left. reflexivity.
Qed.
Lemma pair_conflicts_In p n d : In d (pair_conflicts p n) <->
  exists k a b, d = MConflictFlags a b /\ dget k p = Some a /\ dget k n = Some b.
Proof.
  unfold pair_conflicts. rewrite in_flat_map. split.
  - intros [[k a] [Hin H]]. cbn [fst snd] in H. destruct (dget k n) eqn:E; [|contradiction].
    destruct H as [<-|[]]. apply dict_items_In in Hin. eauto 6.
  - intros [k [a [b [-> [H1 H2]]]]]. exists (k, a). split; [apply dict_items_In; auto|].
    cbn [fst snd]. rewrite H2. left. reflexivity.
Qed.
Lemma pos_conflicts_In tbl pos d : In d (pos_conflicts tbl (dict_items pos)) <->
  exists k1 k2 a b, d = MConflictFlags a b /\ dget k1 pos = Some a /\ dget k2 pos = Some b
                    /\ str_ltb k1 k2 = true /\ compatible tbl k1 k2 = false.
Proof.
  unfold pos_conflicts. rewrite in_flat_map. split.
  - intros [[k1 a] [H1 H]]. apply in_flat_map in H. destruct H as [[k2 b] [H2 H]]. cbn [fst snd] in H.
    destruct (str_ltb k1 k2) eqn:E1; [|contradiction]. destruct (compatible tbl k1 k2) eqn:E2; [contradiction|].
    destruct H as [<-|[]]. apply dict_items_In in H1, H2. exists k1, k2, a, b. auto.
  - intros [k1 [k2 [a [b [-> [H1 [H2 [E1 E2]]]]]]]]. exists (k1, a). split; [apply dict_items_In; auto|].
    apply in_flat_map. exists (k2, b). split; [apply dict_items_In; auto|]. cbn [fst snd]. rewrite E1, E2. left. reflexivity.
Qed.

(* ------------------------------------------------------------------ *)
(* range flags                                                          *)

Lemma range_rows_In items r f n : In (r, (f, n)) (range_rows items) <-> In (f, n, FRange (Some r)) items.
Proof.
  unfold range_rows. rewrite in_flat_map. split.
  - intros [[[f' n'] cl] [Hin H]]. destruct cl as [|w|[r'|]|x| |]; try contradiction.
    destruct H as [H|[]]. inversion H; subst. exact Hin.
  - intros H. exists (f, n, FRange (Some r)). split; auto. left. reflexivity.
Qed.

Lemma range_post_In rows d : In d (range_post rows) <->
  (exists k, sort_dedup zz_compare (map fst rows) = [k] /\ (1 < sum_n rows)%nat
             /\ d = MDupFlag (str_min (flags_of_key rows k)))
  \/ (exists k1 k2 rest, sort_dedup zz_compare (map fst rows) = k1 :: k2 :: rest
             /\ d = MConflictFlags (str_min (flags_of_key rows k1)) (str_min (flags_of_key rows k2))).
Proof.
  unfold range_post. destruct (sort_dedup zz_compare (map fst rows)) as [|k1 [|k2 rest]] eqn:E.
  - cbn. split; [tauto|]. intros [[k [H _]]|[k1 [k2 [rest [H _]]]]]; discriminate.
  - destruct (Nat.ltb 1 (sum_n rows)) eqn:E1; cbn.
    + apply Nat.ltb_lt in E1. split.
      * intros [<-|[]]. left. exists k1. auto.
      * intros [[k [H [_ ->]]]|[a [b [rest [H _]]]]]; [inversion H; subst; auto|discriminate].
    + apply Nat.ltb_ge in E1. split; [tauto|].
      intros [[k [H [Hl _]]]|[a [b [rest [H _]]]]]; [lia|discriminate].
  - cbn. split.
    + intros [<-|[]]. right. exists k1, k2, rest. auto.
    + intros [[k [H _]]|[a [b [rest' [H ->]]]]]; [discriminate|]. inversion H; subst. auto.
Qed.

(* the keys examined are the two smallest distinct range values *)
Lemma keys_single (rows : list ((Z * Z) * (list N * nat))) k : sort_dedup zz_compare (map fst rows) = [k] -> forall r, In r rows -> fst r = k.
Proof.
  intros E r Hr. assert (H : In (fst r) (sort_dedup zz_compare (map fst rows))).
  { apply (proj2 (zz_sort_In _ _)). apply in_map. exact Hr. }
  rewrite E in H. destruct H as [H|[]]. auto.
Qed.
Lemma keys_two_smallest (rows : list ((Z * Z) * (list N * nat))) k1 k2 rest : sort_dedup zz_compare (map fst rows) = k1 :: k2 :: rest ->
  In k1 (map fst rows) /\ In k2 (map fst rows) /\ zz_compare k1 k2 = Lt
  /\ forall k, In k (map fst rows) -> k = k1 \/ k = k2 \/ zz_compare k2 k = Lt.
Proof.
  intros E. pose proof (zz_sort_sorted (map fst rows)) as Hs. rewrite E in Hs.
  assert (Hin : forall k, In k (k1 :: k2 :: rest) <-> In k (map fst rows)) by (intros k; rewrite <- E; apply zz_sort_In).
  inversion Hs as [|? ? Hs1 Hf1]; subst. inversion Hs1 as [|? ? Hs2 Hf2]; subst.
  rewrite Forall_forall in Hf1, Hf2.
  split; [apply Hin; cbn; auto|]. split; [apply Hin; cbn; auto|]. split; [apply Hf1; cbn; auto|].
  intros k Hk. apply Hin in Hk. destruct Hk as [<-|[<-|Hk]]; auto. right; right. apply Hf2; auto.
Qed.

Lemma str_min_spec l : l <> [] -> In (str_min l) l /\ forall x, In x l -> str_compare (str_min l) x <> Gt.
Proof.
  destruct l as [|a l]; [congruence|]. intros _. unfold str_min.
  assert (G : forall l a, In (fold_left (fun a b => if str_ltb b a then b else a) l a) (a :: l)
              /\ (forall x, In x (a :: l) -> str_compare (fold_left (fun a b => if str_ltb b a then b else a) l a) x <> Gt)).
  { clear. induction l as [|b l IH]; intros a; cbn [fold_left].
    - split; [left; auto|]. intros x [<-|[]]. rewrite str_compare_refl. discriminate.
    - destruct (str_ltb b a) eqn:EL; [destruct (IH b) as [H1 H2]|destruct (IH a) as [H1 H2]].
      + unfold str_ltb in EL. destruct (str_compare b a) eqn:E; try discriminate. split.
        * destruct H1 as [H1|H1]; [right; left; exact H1|right; right; exact H1].
        * intros x [<-|[<-|Hx]].
          -- intros HG. specialize (H2 b (or_introl eq_refl)).
             destruct (str_compare (fold_left _ l b) b) eqn:E2; try congruence.
             ++ apply str_compare_eq in E2. rewrite E2 in HG. congruence.
             ++ pose proof (str_compare_trans _ _ _ E2 E). congruence.
          -- apply H2. left; auto.
          -- apply H2. right; auto.
      + split.
        * destruct H1 as [H1|H1]; [left; exact H1|right; right; exact H1].
        * intros x [<-|[<-|Hx]].
          -- apply H2. left; auto.
          -- unfold str_ltb in EL. destruct (str_compare b a) eqn:E; try discriminate.
             ++ apply str_compare_eq in E. subst. apply H2. left; auto.
             ++ intros HG. specialize (H2 a (or_introl eq_refl)). apply str_compare_gt_lt in E.
                destruct (str_compare (fold_left _ l a) a) eqn:E2; try congruence.
                ** apply str_compare_eq in E2. rewrite E2 in HG. congruence.
                ** pose proof (str_compare_trans _ _ _ E2 E). congruence.
          -- apply H2. right; auto. }
  apply G.
Qed.

(* ------------------------------------------------------------------ *)
(* _check_message_flags as a whole                                      *)

Section Whole.
  Variables (cfg : config) (hp : bool) (F : list (list N)) (ds : list mdiag) (info : finfo).
  Hypothesis Hcf : check_flags cfg hp F = Ok (ds, info).

  Lemma whole_items : exists items, classify_all cfg (counter_sorted F) = Ok items
    /\ ds = flags_diags (c_formats cfg) hp items /\ info = flags_info items.
  Proof.
    unfold check_flags in Hcf. apply obind_ok in Hcf. destruct Hcf as [items [H1 H2]].
    inversion H2; subst. eauto.
  Qed.

  Lemma ds_split items : ds = flags_diags (c_formats cfg) hp items -> forall d, In d ds <->
    In d (loop_diags hp None items) \/ In d (range_post (range_rows items))
    \/ In d (pos_conflicts (c_formats cfg) (dict_items (fmt_dict TpPos items)))
    \/ In d (pair_conflicts (fmt_dict TpPos items) (fmt_dict TpNo items))
    \/ In d (pair_conflicts (fmt_dict TpPos items) (fmt_dict TpImpossible items))
    \/ In d (pair_conflicts (fmt_dict TpPossible items) (fmt_dict TpImpossible items))
    \/ In d (redundant (fmt_dict TpPos items) (fmt_dict TpPossible items)).
  Proof. intros -> d. unfold flags_diags. rewrite !in_app_iff. tauto. Qed.

  (* a tag that only the loop body can emit, and not through the wrap clash *)
  Lemma only_static d : (forall a b, d <> MConflictFlags a b) -> (forall f, d <> MDupFlag f) -> (forall p q, d <> MRedundantFlag p q) ->
    forall items, classify_all cfg (counter_sorted F) = Ok items -> ds = flags_diags (c_formats cfg) hp items ->
    (In d ds <-> exists it, In it items /\ In d (item_static hp it)).
  Proof.
    intros N1 N2 N3 items Hit Hds. rewrite (ds_split items Hds d), loop_diags_In. split.
    - intros [[H|[H _]]|[H|[H|[H|[H|[H|H]]]]]]; auto.
      + exfalso. eapply N1; eauto.
      + apply range_post_In in H. destruct H as [[k [_ [_ H]]]|[k1 [k2 [rest [_ H]]]]]; exfalso; [eapply N2|eapply N1]; eauto.
      + apply pos_conflicts_In in H. destruct H as [? [? [? [? [H _]]]]]. exfalso. eapply N1; eauto.
      + apply pair_conflicts_In in H. destruct H as [? [? [? [H _]]]]. exfalso. eapply N1; eauto.
      + apply pair_conflicts_In in H. destruct H as [? [? [? [H _]]]]. exfalso. eapply N1; eauto.
      + apply pair_conflicts_In in H. destruct H as [? [? [? [H _]]]]. exfalso. eapply N1; eauto.
      + apply redundant_In in H. destruct H as [? [? [? [H _]]]]. exfalso. eapply N3; eauto.
    - intros H. left. left. exact H.
  Qed.

  Theorem flags_unknown_iff f : In (MUnknownFlag f) ds <->
    In f F /\ (classify cfg f = Ok (FFormat None) \/ classify cfg f = Ok FOther).
  Proof.
    destruct whole_items as [items [Hit [Hds _]]].
    rewrite (only_static (MUnknownFlag f)) by (try discriminate; eauto). split.
    - intros [it [Hin H]]. apply static_unknown in H. destruct H as [-> Hc].
      destruct (items_In _ _ _ Hit _ Hin) as [H1 [_ H3]]. split; auto. destruct Hc as [Hc|Hc]; rewrite Hc in H3; auto.
    - intros [Hin Hc]. destruct (items_complete _ _ _ Hit _ Hin) as [cl [H1 H2]].
      exists (f, count_str f F, cl). split; auto. apply static_unknown. unfold flag_of, class_of. cbn.
      split; auto. destruct Hc as [Hc|Hc]; rewrite Hc in H2; inversion H2; auto.
  Qed.

  Theorem flags_invalid_range_iff f : In (MInvalidRange f) ds <-> In f F /\ classify cfg f = Ok (FRange None).
  Proof.
    destruct whole_items as [items [Hit [Hds _]]].
    rewrite (only_static (MInvalidRange f)) by (try discriminate; eauto). split.
    - intros [it [Hin H]]. apply static_invalid_range in H. destruct H as [-> Hc].
      destruct (items_In _ _ _ Hit _ Hin) as [H1 [_ H3]]. split; auto. rewrite Hc in H3. auto.
    - intros [Hin Hc]. destruct (items_complete _ _ _ Hit _ Hin) as [cl [H1 H2]].
      exists (f, count_str f F, cl). split; auto. apply static_invalid_range. unfold flag_of, class_of. cbn.
      split; auto. rewrite Hc in H2; inversion H2; auto.
  Qed.

  Theorem flags_range_no_plural_iff : In MRangeNoPlural ds <->
    hp = false /\ exists f r, In f F /\ classify cfg f = Ok (FRange r).
  Proof.
    destruct whole_items as [items [Hit [Hds _]]].
    rewrite (only_static MRangeNoPlural) by (try discriminate; eauto). split.
    - intros [it [Hin H]]. apply static_range_no_plural in H. destruct H as [-> [r Hc]].
      destruct (items_In _ _ _ Hit _ Hin) as [H1 [_ H3]]. split; auto. exists (flag_of it), r. rewrite Hc in H3. auto.
    - intros [-> [f [r [Hin Hc]]]]. destruct (items_complete _ _ _ Hit _ Hin) as [cl [H1 H2]].
      exists (f, count_str f F, cl). split; auto. apply static_range_no_plural. unfold class_of. cbn.
      split; auto. rewrite Hc in H2; inversion H2; eauto.
  Qed.

  (* rows of the range table <-> flags of the list *)
  Lemma rows_In items : classify_all cfg (counter_sorted F) = Ok items -> forall r f n,
    In (r, (f, n)) (range_rows items) <-> In f F /\ n = count_str f F /\ classify cfg f = Ok (FRange (Some r)).
  Proof.
    intros Hit r f n. rewrite range_rows_In. split.
    - intros Hin. destruct (items_In _ _ _ Hit _ Hin) as [H1 [H2 H3]]. auto.
    - intros [H1 [-> H3]]. destruct (items_complete _ _ _ Hit _ H1) as [cl [H4 H5]]. rewrite H3 in H5. inversion H5; subst. auto.
  Qed.

  Theorem flags_duplicate_iff f : In (MDupFlag f) ds <->
    (In f F /\ (1 < count_str f F)%nat /\ f <> [] /\ (forall r, classify cfg f <> Ok (FRange (Some r))))
    \/ (exists items k, classify_all cfg (counter_sorted F) = Ok items
          /\ sort_dedup zz_compare (map fst (range_rows items)) = [k] /\ (1 < sum_n (range_rows items))%nat
          /\ f = str_min (flags_of_key (range_rows items) k)).
  Proof.
    destruct whole_items as [items [Hit [Hds _]]].
    rewrite (ds_split items Hds), loop_diags_In. split.
    - intros [[[it [Hin H]]|[H _]]|[H|[H|[H|[H|[H|H]]]]]]; try discriminate.
      + apply static_dup in H. destruct H as [-> [Hn [Hf Hc]]].
        destruct (items_In _ _ _ Hit _ Hin) as [H1 [H2 H3]]. left. rewrite <- H2. repeat split; auto.
        intros r Hr. rewrite Hr in H3. inversion H3. eapply Hc; eauto.
      + apply range_post_In in H. destruct H as [[k [E [Hs H]]]|[k1 [k2 [rest [_ H]]]]]; [|discriminate].
        inversion H; subst. right. exists items, k. auto.
      + apply pos_conflicts_In in H. destruct H as [? [? [? [? [H _]]]]]. discriminate.
      + apply pair_conflicts_In in H. destruct H as [? [? [? [H _]]]]. discriminate.
      + apply pair_conflicts_In in H. destruct H as [? [? [? [H _]]]]. discriminate.
      + apply pair_conflicts_In in H. destruct H as [? [? [? [H _]]]]. discriminate.
      + apply redundant_In in H. destruct H as [? [? [? [H _]]]]. discriminate.
    - intros [[Hin [Hn [Hf Hc]]]|[items' [k [Hit' [E [Hs ->]]]]]].
      + left. left. destruct (items_complete _ _ _ Hit _ Hin) as [cl [H1 H2]].
        exists (f, count_str f F, cl). split; auto. apply static_dup. unfold flag_of, count_of, class_of. cbn.
        repeat split; auto. intros r Hr. subst. eapply Hc; eauto.
      + rewrite Hit in Hit'. inversion Hit'; subst. right. left. apply range_post_In. left. exists k. auto.
  Qed.

  Lemma wraps_In items w : classify_all cfg (counter_sorted F) = Ok items ->
    (In w (wraps items) <-> In (if w then s_wrap else s_no_wrap) F).
  Proof.
    intros Hit. unfold wraps. rewrite in_flat_map. split.
    - intros [it [Hin H]]. destruct (items_In _ _ _ Hit _ Hin) as [H1 [_ H3]].
      destruct (class_of it) eqn:E; try contradiction. destruct H as [<-|[]].
      apply (classify_wrap _ _ _ w0) in H3. rewrite <- (proj1 H3 eq_refl). exact H1.
    - intros Hin. destruct (items_complete _ _ _ Hit _ Hin) as [cl [H1 H2]].
      exists ((if w then s_wrap else s_no_wrap), count_str (if w then s_wrap else s_no_wrap) F, cl). split; auto.
      apply (classify_wrap _ _ _ w) in H2. unfold class_of. cbn. rewrite (proj2 H2 eq_refl). left. reflexivity.
  Qed.

  (* entries of the format_flags dicts come from flags of the list with that classification *)
  Lemma dict_from_flags items tp name flag : classify_all cfg (counter_sorted F) = Ok items ->
    dget name (fmt_dict tp items) = Some flag -> In flag F /\ classify cfg flag = Ok (FFormat (Some (tp, name))).
  Proof.
    intros Hit H. apply dget_Some in H. apply fmt_dict_In in H. destruct H as [n Hin].
    destruct (items_In _ _ _ Hit _ Hin) as [H1 [_ H3]]. auto.
  Qed.
  Lemma dict_has_flag items tp name flag : classify_all cfg (counter_sorted F) = Ok items ->
    In flag F -> classify cfg flag = Ok (FFormat (Some (tp, name))) -> exists flag', dget name (fmt_dict tp items) = Some flag'.
  Proof.
    intros Hit Hin Hc. destruct (items_complete _ _ _ Hit _ Hin) as [cl [H1 H2]]. rewrite Hc in H2. inversion H2; subst.
    apply (dget_In name flag). apply fmt_dict_In. eauto.
  Qed.

  Theorem flags_conflict_iff a b : In (MConflictFlags a b) ds <->
    (a = s_wrap /\ b = s_no_wrap /\ In s_wrap F /\ In s_no_wrap F)
    \/ (exists items k1 k2 rest, classify_all cfg (counter_sorted F) = Ok items
          /\ sort_dedup zz_compare (map fst (range_rows items)) = k1 :: k2 :: rest
          /\ a = str_min (flags_of_key (range_rows items) k1) /\ b = str_min (flags_of_key (range_rows items) k2))
    \/ (exists items k1 k2, classify_all cfg (counter_sorted F) = Ok items
          /\ dget k1 (fmt_dict TpPos items) = Some a /\ dget k2 (fmt_dict TpPos items) = Some b
          /\ str_ltb k1 k2 = true /\ compatible (c_formats cfg) k1 k2 = false)
    \/ (exists items k tp1 tp2, classify_all cfg (counter_sorted F) = Ok items
          /\ ((tp1 = TpPos /\ tp2 = TpNo) \/ (tp1 = TpPos /\ tp2 = TpImpossible) \/ (tp1 = TpPossible /\ tp2 = TpImpossible))
          /\ dget k (fmt_dict tp1 items) = Some a /\ dget k (fmt_dict tp2 items) = Some b).
  Proof.
    destruct whole_items as [items [Hit [Hds _]]].
    rewrite (ds_split items Hds), loop_diags_In. split.
    - intros [[[it [Hin H]]|[H Hc]]|[H|[H|[H|[H|[H|H]]]]]].
      + exfalso. eapply static_not_wrapclash; eauto.
      + inversion H; subst. left. destruct Hc as [H1 H2]. cbn in H1, H2.
        apply (wraps_In items true Hit) in H1. apply (wraps_In items false Hit) in H2. auto.
      + apply range_post_In in H. destruct H as [[k [_ [_ H]]]|[k1 [k2 [rest [E H]]]]]; [discriminate|].
        inversion H; subst. right. left. exists items, k1, k2, rest. auto.
      + apply pos_conflicts_In in H. destruct H as [k1 [k2 [a' [b' [H [H1 [H2 [H3 H4]]]]]]]]. inversion H; subst.
        right. right. left. exists items, k1, k2. auto.
      + apply pair_conflicts_In in H. destruct H as [k [a' [b' [H [H1 H2]]]]]. inversion H; subst.
        right. right. right. exists items, k, TpPos, TpNo. auto 6.
      + apply pair_conflicts_In in H. destruct H as [k [a' [b' [H [H1 H2]]]]]. inversion H; subst.
        right. right. right. exists items, k, TpPos, TpImpossible. auto 6.
      + apply pair_conflicts_In in H. destruct H as [k [a' [b' [H [H1 H2]]]]]. inversion H; subst.
        right. right. right. exists items, k, TpPossible, TpImpossible. auto 6.
      + apply redundant_In in H. destruct H as [? [? [? [H _]]]]. discriminate.
    - intros [[-> [-> [H1 H2]]]|[[items' [k1 [k2 [rest [Hit' [E [-> ->]]]]]]]|[[items' [k1 [k2 [Hit' [H1 [H2 [H3 H4]]]]]]]|[items' [k [tp1 [tp2 [Hit' [Htp [H1 H2]]]]]]]]]].
      + left. right. split; auto. split; cbn.
        * apply (wraps_In items true Hit). exact H1.
        * apply (wraps_In items false Hit). exact H2.
      + rewrite Hit in Hit'. inversion Hit'; subst. right. left. apply range_post_In. right. exists k1, k2, rest. auto.
      + rewrite Hit in Hit'. inversion Hit'; subst. right. right. left. apply pos_conflicts_In. exists k1, k2, a, b. auto.
      + rewrite Hit in Hit'. inversion Hit'; subst.
        destruct Htp as [[-> ->]|[[-> ->]|[-> ->]]].
        * right. right. right. left. apply pair_conflicts_In. exists k, a, b. auto.
        * right. right. right. right. left. apply pair_conflicts_In. exists k, a, b. auto.
        * right. right. right. right. right. left. apply pair_conflicts_In. exists k, a, b. auto.
  Qed.

  Theorem flags_redundant_iff p q : In (MRedundantFlag p q) ds <->
    exists items k, classify_all cfg (counter_sorted F) = Ok items
      /\ dget k (fmt_dict TpPos items) = Some q /\ dget k (fmt_dict TpPossible items) = Some p.
  Proof.
    destruct whole_items as [items [Hit [Hds _]]].
    rewrite (ds_split items Hds), loop_diags_In. split.
    - intros [[[it [Hin H]]|[H _]]|[H|[H|[H|[H|[H|H]]]]]]; try discriminate.
      + apply static_shape in H. destruct H as [H|[[? H]|[[? H]|[? H]]]]; discriminate.
      + apply range_post_In in H. destruct H as [[k [_ [_ H]]]|[k1 [k2 [rest [_ H]]]]]; discriminate.
      + apply pos_conflicts_In in H. destruct H as [? [? [? [? [H _]]]]]. discriminate.
      + apply pair_conflicts_In in H. destruct H as [? [? [? [H _]]]]. discriminate.
      + apply pair_conflicts_In in H. destruct H as [? [? [? [H _]]]]. discriminate.
      + apply pair_conflicts_In in H. destruct H as [? [? [? [H _]]]]. discriminate.
      + apply redundant_In in H. destruct H as [k [p' [q' [H [H1 H2]]]]]. inversion H; subst. eauto.
    - intros [items' [k [Hit' [H1 H2]]]]. rewrite Hit in Hit'. inversion Hit'; subst.
      right. right. right. right. right. right. apply redundant_In. exists k, p, q. auto.
  Qed.

  (* what the remaining checks read: fuzzy *)
  Theorem flags_fuzzy_iff : fi_fuzzy info = true <-> In s_fuzzy F.
  Proof.
    destruct whole_items as [items [Hit [_ ->]]]. cbn. rewrite existsb_exists. split.
    - intros [it [Hin H]]. destruct (items_In _ _ _ Hit _ Hin) as [H1 [_ H3]].
      destruct it as [[f n] cl]. cbn in H. destruct cl; try discriminate.
      unfold flag_of, class_of in *. cbn in *. apply classify_fuzzy in H3. rewrite <- (proj1 H3 eq_refl). exact H1.
    - intros Hin. destruct (items_complete _ _ _ Hit _ Hin) as [cl [H1 H2]].
      exists (s_fuzzy, count_str s_fuzzy F, cl). split; auto. apply classify_fuzzy in H2. rewrite (proj2 H2 eq_refl). reflexivity.
  Qed.

  (* no other kind of event comes out of the flag analysis *)
  Lemma flags_shape d : In d ds ->
    d = MRangeNoPlural \/ (exists f, d = MInvalidRange f) \/ (exists f, d = MUnknownFlag f) \/ (exists f, d = MDupFlag f)
    \/ (exists a b, d = MConflictFlags a b) \/ (exists p q, d = MRedundantFlag p q).
  Proof.
    destruct whole_items as [items [Hit [Hds _]]].
    rewrite (ds_split items Hds), loop_diags_In.
    intros [[[it [Hin H]]|[H _]]|[H|[H|[H|[H|[H|H]]]]]].
    - apply static_shape in H. intuition.
    - subst. eauto 8.
    - apply range_post_In in H. destruct H as [[k [_ [_ H]]]|[k1 [k2 [rest [_ H]]]]]; subst; eauto 8.
    - apply pos_conflicts_In in H. destruct H as [? [? [? [? [H _]]]]]. subst; eauto 8.
    - apply pair_conflicts_In in H. destruct H as [? [? [? [H _]]]]. subst; eauto 8.
    - apply pair_conflicts_In in H. destruct H as [? [? [? [H _]]]]. subst; eauto 8.
    - apply pair_conflicts_In in H. destruct H as [? [? [? [H _]]]]. subst; eauto 8.
    - apply redundant_In in H. destruct H as [? [? [? [H _]]]]. subst; eauto 8.
  Qed.
End Whole.

(* Abstract syntax of one printf conversion specification
     % [index$] flags [width | * [index$]] [. [digits | * [index$]]] ( [length] conversion | <PRI c len> )
   as characters (code points).  Shared container between the executable model (the groups of the
   directive regex) and the specification (Spec/Printf.v); it carries no validity rule. *)
From Coq Require Import List NArith ZArith String Ascii.
Import ListNotations.

Inductive numspec :=
| NNone                                (* absent *)
| NNum (ds : list N)                   (* a digit string *)
| NStar (idx : option (list N)).       (* "*" or "*digits$" *)

Inductive cbody :=
| BStd (len : list N) (conv : N)       (* optional length modifier ([] = absent), conversion character *)
| BMacro (conv : N) (len : list N).    (* <PRI conv len> : an <inttypes.h> macro as gettext writes it *)

Record directive := mkdir {
  d_index : option (list N);           (* the digits of "digits$" *)
  d_flags : list N;
  d_width : numspec;
  d_prec : numspec;                    (* NNum [] is a lone "." *)
  d_body : cbody }.

Definition dec_value (ds : list N) : Z :=
  fold_left (fun a c => (a * 10 + Z.of_N (c - 48))%Z) ds 0%Z.

(* code points of a literal, for readable tables *)
Fixpoint chars (s : string) : list N :=
  match s with EmptyString => [] | String a r => N_of_ascii a :: chars r end.
Definition ch (s : string) : N := match chars s with c :: _ => c | [] => 0%N end.

Fixpoint list_eqb (a b : list N) : bool :=
  match a, b with
  | [], [] => true
  | x :: a', y :: b' => N.eqb x y && list_eqb a' b'
  | _, _ => false
  end.

Definition mem (c : N) (l : list N) : bool := existsb (N.eqb c) l.

Fixpoint assoc {A} (k : list N) (l : list (list N * A)) : option A :=
  match l with
  | [] => None
  | (k', v) :: r => if list_eqb k k' then Some v else assoc k r
  end.

(* Sets of code points as balanced trees of disjoint closed ranges (the generated Unicode
   predicate tables of Generated/Ucd.v); membership by binary search. *)
From Coq Require Import NArith List.
Import ListNotations.
Local Open Scope N_scope.

Inductive rtree :=
| RLeaf
| RNode (l : rtree) (lo hi : N) (r : rtree).

Fixpoint rmem (t : rtree) (c : N) : bool :=
  match t with
  | RLeaf => false
  | RNode l lo hi r =>
    if c <? lo then rmem l c else if c <=? hi then true else rmem r c
  end.

(* the lower end of the range that contains c *)
Fixpoint rfind (t : rtree) (c : N) : option N :=
  match t with
  | RLeaf => None
  | RNode l lo hi r =>
    if c <? lo then rfind l c else if c <=? hi then Some lo else rfind r c
  end.

(* decimal digit value of a character of a \d table whose ranges are runs of 0..9 starting at the
   lower end (the translator checks this against int(chr(c)) for every code point) *)
Definition rdecimal (t : rtree) (c : N) : option N :=
  match rfind t c with
  | Some lo => Some ((c - lo) mod 10)
  | None => None
  end.

(* Target vocabulary of the source translator tools/gen/gen_dates_src.py (notes/SRC7.md).
   Generated/DatesSrc.v imports only Lib.Outcome and this file: the translated functions do not mention the
   hand-written model Model/Dates.v; Proofs/DatesSrc.v proves them equal to it.  Definitions only. *)
From Coq Require Import List NArith ZArith Bool.
From I18n Require Import Lib.Outcome.
Import ListNotations.

Definition pystr := list N.                       (* a Python str: its code points *)

(* ---- exceptions ---------------------------------------------------------------------------------
   XBoilerplateDate / XDateSyntaxError : the two classes lib/gettext.py defines
       class DateSyntaxError(Exception): pass      class BoilerplateDate(DateSyntaxError): pass
   XCrash c : any other exception, named as in Lib/Outcome.v (AssertionError = CAssertion, ...) *)
Inductive dexn := XBoilerplateDate | XDateSyntaxError | XCrash (c : crash_kind).

(* the classes named in `except` clauses *)
Inductive dcls := KBoilerplateDate | KDateSyntaxError | KValueError | KIndexError | KKeyError.

(* isinstance(exception, class): BoilerplateDate is a DateSyntaxError; UnicodeError is a ValueError;
   IndexError and KeyError are siblings (LookupError itself is neither) *)
Definition exn_isa (x : dexn) (k : dcls) : bool :=
  match k, x with
  | KBoilerplateDate, XBoilerplateDate => true
  | KDateSyntaxError, XBoilerplateDate => true
  | KDateSyntaxError, XDateSyntaxError => true
  | KValueError, XCrash CValueError => true
  | KValueError, XCrash CUnicodeError => true
  | KIndexError, XCrash CIndexError => true
  | KKeyError, XCrash CKeyError => true
  | _, _ => false
  end.

(* the result of running a function body: it returned a, or an exception left it *)
Inductive pres (A : Type) := PRet (a : A) | PRaise (x : dexn).
Arguments PRet {A} a.
Arguments PRaise {A} x.

(* `v = CALL ; rest` *)
Definition pbind {A B} (r : pres A) (f : A -> pres B) : pres B :=
  match r with PRet a => f a | PRaise x => PRaise x end.

(* ---- tags: a function that only emits tags "returns" the list of the tags it emitted, in order;
   an exception leaving it loses them (as in the model: Crash) *)
Inductive targ := AStr (s : pystr) | ASafe (s : pystr).     (* a plain argument | tags.safestr(s) *)
Definition tagline := (pystr * list targ)%type.             (* self.tag(name, *args) *)

(* `self.tag(...) ; rest` *)
Definition ptag (t : tagline) (rest : pres (list tagline)) : pres (list tagline) :=
  match rest with PRet l => PRet (t :: l) | PRaise x => PRaise x end.

(* `for ...: ... ; rest` : the tags of the loop, then those of rest *)
Definition pseq (a b : pres (list tagline)) : pres (list tagline) :=
  match a with
  | PRet l => match b with PRet l' => PRet (l ++ l') | PRaise x => PRaise x end
  | PRaise x => PRaise x
  end.

(* ---- what the translated code calls but the translator does not translate (ORACLES) ------------
   DT = an aware datetime object *)
Record groups := {                                   (* _parse_date(s).groups() *)
  g_date : pystr; g_time : pystr;                    (* groups 1, 2: not optional in the pattern *)
  g_zhour : option pystr; g_zminute : option pystr; g_zabbr : option pystr   (* groups 3, 4, 5: None if unmatched *)
}.

Record pydates (DT : Type) := {
  o_strip : pystr -> pystr;                          (* s.strip() *)
  o_search_boilerplate : pystr -> bool;              (* _search_for_date_boilerplate(s) is truthy (a match object) *)
  o_parse_date : pystr -> option groups;             (* _parse_date(s): None | match object, as its .groups() *)
  o_strptime_z : pystr -> pres unit;                 (* datetime.datetime.strptime(h, '%z'), result unused *)
  o_strptime_date : pystr -> pres DT;                (* datetime.datetime.strptime(s, '%Y-%m-%d %H:%M%z') *)
  o_timezones : list (pystr * list pystr);           (* _timezones (dict, in order) *)
  o_utc_now : DT;                                    (* misc.utc_now(): the current time is an input *)
  o_datetime_utc : Z -> Z -> Z -> DT;                (* datetime.datetime(y, m, d, tzinfo=datetime.timezone.utc) *)
  o_dt_lt : DT -> DT -> bool;                        (* a < b on aware datetimes *)
  o_dt_gt : DT -> DT -> bool                         (* a > b *)
}.
Arguments o_strip {DT} p. Arguments o_search_boilerplate {DT} p. Arguments o_parse_date {DT} p.
Arguments o_strptime_z {DT} p. Arguments o_strptime_date {DT} p. Arguments o_timezones {DT} p.
Arguments o_utc_now {DT} p. Arguments o_datetime_utc {DT} p. Arguments o_dt_lt {DT} p. Arguments o_dt_gt {DT} p.

(* the attributes of `ctx` that check_dates reads; ctx.metadata is a defaultdict(list): a total function *)
Record pyctx := { ctx_is_template : bool; ctx_is_binary : bool; ctx_metadata : pystr -> list pystr }.

(* ---- Python built-ins on the types above --------------------------------------------------------- *)
Definition is_some {A} (x : option A) : bool := match x with Some _ => true | None => false end.   (* x is not None *)

(* the value of an Optional known not to be None; the translator emits these only under a dominating test
   `x is not None` (the default is never reached) *)
Definition oget_str (x : option pystr) : pystr := match x with Some s => s | None => [] end.
Definition oget_groups (x : option groups) : groups :=
  match x with Some g => g | None => {| g_date := []; g_time := []; g_zhour := None; g_zminute := None; g_zabbr := None |} end.

Fixpoint str_eqb (a b : pystr) : bool :=                                   (* a == b *)
  match a, b with
  | [], [] => true
  | x :: a', y :: b' => (N.eqb x y && str_eqb a' b')%bool
  | _, _ => false
  end.

Fixpoint str_startswith (s p : pystr) {struct p} : bool :=                            (* s.startswith(p) *)
  match p with
  | [] => true
  | c :: p' => match s with d :: s' => (N.eqb c d && str_startswith s' p')%bool | [] => false end
  end.

Definition str_has (c : N) (s : pystr) : bool := existsb (N.eqb c) s.      (* 'c' in s, one character *)

(* sorted(set(l)) on strings: distinct values in code point order *)
Fixpoint str_compare (a b : pystr) : comparison :=
  match a, b with
  | [], [] => Eq
  | [], _ :: _ => Lt
  | _ :: _, [] => Gt
  | x :: a', y :: b' => match N.compare x y with Eq => str_compare a' b' | o => o end
  end.
Fixpoint py_insert (x : pystr) (l : list pystr) : list pystr :=
  match l with
  | [] => [x]
  | y :: r => match str_compare x y with Lt => x :: l | Eq => l | Gt => y :: py_insert x r end
  end.
Definition py_sorted_set (l : list pystr) : list pystr := fold_right py_insert [] l.

(* l[0] *)
Definition py_index0 (l : list pystr) : pres pystr :=
  match l with x :: _ => PRet x | [] => PRaise (XCrash CIndexError) end.

(* d[k] on a plain dict *)
Fixpoint py_getitem (d : list (pystr * list pystr)) (k : pystr) : pres (list pystr) :=
  match d with
  | [] => PRaise (XCrash CKeyError)
  | (a, v) :: d' => if str_eqb a k then PRet v else py_getitem d' k
  end.

(* [v] = l *)
Definition py_unpack1 (l : list pystr) : pres pystr :=
  match l with [v] => PRet v | _ => PRaise (XCrash CValueError) end.

(* Exceptions as outcomes (DESIGN.md 2.4).
   Ok    : normal return
   Err   : an exception of the component's own class (its caller turns it into a tag)
   Crash : any other exception Python would raise at that point *)
From Coq Require Import List ZArith.
Import ListNotations.

Inductive crash_kind :=
| CValueError | CTypeError | CUnboundLocal | CAttributeError | CAssertion
| CIndexError | CKeyError | CUnicodeError | CRecursion | COutOfFuel | CNotImplemented | CStructError
| COSError | CLookupError.

Inductive outcome (A E : Type) :=
| Ok (a : A)
| Err (e : E)
| Crash (c : crash_kind).
Arguments Ok {A E} a.
Arguments Err {A E} e.
Arguments Crash {A E} c.

Definition obind {A B E} (x : outcome A E) (f : A -> outcome B E) : outcome B E :=
  match x with Ok a => f a | Err e => Err e | Crash c => Crash c end.

Notation "'do' x <- a ; b" := (obind a (fun x => b))
  (at level 200, x pattern, a at level 100, b at level 200, right associativity).

Definition is_crash {A E} (x : outcome A E) : bool :=
  match x with Crash _ => true | _ => false end.
Definition is_ok {A E} (x : outcome A E) : bool :=
  match x with Ok _ => true | _ => false end.
Definition is_err {A E} (x : outcome A E) : bool :=
  match x with Err _ => true | _ => false end.

(* Target vocabulary of the source translator tools/gen/gen_intexpr_src.py (notes/SRC1.md).
   Generated/IntExprSrc.v imports only this file: the translated methods do not mention the
   hand-written model; Proofs/IntExprSrc.v proves them equal to it. *)
From Coq Require Import List ZArith Bool.
From I18n Require Import Lib.Outcome.
Import ListNotations.
Local Open Scope Z_scope.

(* exceptions a translated method can raise; XCrash embeds the model's foreign exceptions *)
Inductive pyexn :=
| XOverflow | XZeroDiv | XNotImplemented | XAttribute | XValue | XCrash (c : crash_kind)
(* own exception classes of lib/gettext.py and lib/intexpr.py (gen_plurals_src.py): PluralFormsSyntaxError or its subclass
   PluralExpressionSyntaxError; intexpr.LexingError; intexpr.ParsingError *)
| XPluralForms | XLexing | XParsing.

(* the result of running a method body:
   SRet v  : `return v`
   SNone   : `return` / `return None` / falling off the end
   SAssert : an `assert` failed
   SRaise  : an exception was raised *)
Inductive sres (A : Type) :=
| SRet (a : A) | SNone | SAssert | SRaise (x : pyexn).
Arguments SRet {A} a.
Arguments SNone {A}.
Arguments SAssert {A}.
Arguments SRaise {A} x.

(* `v = call(...) ; rest` : [some] is rest with v bound to the returned value, [none] is rest with v = None;
   an assertion failure or exception inside the call ends the caller the same way *)
Definition sbind {A B} (r : sres A) (some : A -> sres B) (none : sres B) : sres B :=
  match r with SRet a => some a | SNone => none | SAssert => SAssert | SRaise x => SRaise x end.

(* bool used as int (True == 1, False == 0) *)
Definition pb2z (b : bool) : Z := if b then 1 else 0.

(* == on pairs of ints *)
Definition zpair_eqb (a b : Z * Z) : bool := (fst a =? fst b) && (snd a =? snd b).

(* the ast classes named in isinstance tests *)
Inductive pycls :=
| KAdd | KSub | KMult | KDiv | KMod | KNot | KLt | KLtE | KGt | KGtE | KEq | KNotEq | KAnd | KOr | KName | KNum.

(* `v = f(...)` for a translated f none of whose paths returns None (the translator checks that its text
   contains neither SNone nor a call of self._visit): no None continuation is needed *)
Definition sbind1 {A B} (r : sres A) (some : A -> sres B) : sres B :=
  sbind r some (SRaise (XCrash CTypeError)).

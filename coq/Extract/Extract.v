(* Extraction of the executable models: ExtrOcamlBasic only; Z, N, positive, nat stay the
   extracted inductive types; no Extract Constant. *)
From Coq Require Import ExtrOcamlBasic.
From Coq Require Extraction.
From I18n Require Import Lib.Outcome Model.IntExpr Model.PluralForms
  Model.FmtPerlBrace Model.FmtPython Model.FmtPyBrace Model.FmtInstances Spec.CPyPercent Spec.CPyFormat Generated.Ucd.
Extraction Language OCaml.
Extraction "model.ml"
  IntExpr.parse_string IntExpr.pyeval IntExpr.codomain IntExpr.period
  PluralForms.parse_plural_forms PluralForms.check_plurals_core
  FmtInstances.perl_parse_ucd FmtPerlBrace.names_of
  FmtInstances.fmtpy_parse_gen CPyPercent.cpy_events CPyPercent.cpy_syntax_error CPyPercent.plain_percents CPyPercent.cpy_format
  FmtInstances.pybrace_parse_gen CPyFormat.cpy_markup CPyFormat.cpy_format Ucd.re_d_value.

(* Extraction of the executable models: ExtrOcamlBasic only; Z, N, positive, nat stay the
   extracted inductive types; no Extract Constant. *)
From Coq Require Import ExtrOcamlBasic.
From Coq Require Extraction.
From I18n Require Import Lib.Outcome Model.IntExpr Model.PluralForms Model.Tags Generated.UcdPrintable
  Model.Messages Generated.StringFormats Generated.ControlChars.
Extraction Language OCaml.
Extraction "model.ml"
  IntExpr.parse_string IntExpr.pyeval IntExpr.codomain IntExpr.period
  PluralForms.parse_plural_forms PluralForms.check_plurals_core
  Tags.escape Tags.format_line Tags.priority Tags.in_ranges UcdPrintable.printable_ranges
  Messages.check_messages Messages.check_flags Messages.find_unusual Messages.search_marker Messages.xml_trigger
  StringFormats.string_formats ControlChars.control_character_names.

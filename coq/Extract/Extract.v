(* Extraction of the executable models: ExtrOcamlBasic only; Z, N, positive, nat stay the
   extracted inductive types; no Extract Constant. *)
From Coq Require Import ExtrOcamlBasic.
From Coq Require Extraction.
From I18n Require Import Lib.Outcome Model.IntExpr Model.PluralForms Model.Tags Generated.UcdPrintable
  Model.PoUnescape Model.PoParser Model.PoLexer.
Extraction Language OCaml.
Extraction "model.ml"
  IntExpr.parse_string IntExpr.pyeval IntExpr.codomain IntExpr.period
  PluralForms.parse_plural_forms PluralForms.check_plurals_core
  Tags.escape Tags.format_line Tags.priority Tags.in_ranges UcdPrintable.printable_ranges
  PoUnescape.unescape PoParser.lex_line PoParser.parse_lines PoParser.py_isspace
  PoLexer.detect_encoding PoLexer.codecs_open_text PoLexer.load_po PoLexer.pofile.

(* Extraction of the executable models: ExtrOcamlBasic only; Z, N, positive, nat stay the
   extracted inductive types; no Extract Constant. *)
From Coq Require Import ExtrOcamlBasic.
From Coq Require Extraction.
From I18n Require Import Lib.Outcome Model.IntExpr Model.PluralForms Model.Tags Generated.UcdPrintable
  Model.Header Generated.HeaderFields Generated.SpecialDomains Generated.UcdHeader.
Extraction Language OCaml.
Extraction "model.ml"
  IntExpr.parse_string IntExpr.pyeval IntExpr.codomain IntExpr.period
  PluralForms.parse_plural_forms PluralForms.check_plurals_core
  Tags.escape Tags.format_line Tags.priority Tags.in_ranges UcdPrintable.printable_ranges
  Header.hdr_check Header.content_type_match Header.parse_header Header.is_special Header.comment_line_boilerplate
  Header.unusual_chars Header.is_conflict_marker Header.splitlines Header.project_diags Header.sort_u
  HeaderFields.header_fields HeaderFields.dedicated_fields SpecialDomains.special_exact_or_sub SpecialDomains.special_sub_only
  UcdHeader.re_word_ranges UcdHeader.re_digit_ranges UcdHeader.re_space_ranges.

(* Extraction of the executable models: ExtrOcamlBasic only; Z, N, positive, nat stay the
   extracted inductive types; no Extract Constant. *)
From Coq Require Import ExtrOcamlBasic.
From Coq Require Extraction.
From I18n Require Import Lib.Outcome Model.IntExpr Model.PluralForms Model.Ling Model.LingData.
Extraction Language OCaml.
Extraction "model.ml"
  IntExpr.parse_string IntExpr.pyeval IntExpr.codomain IntExpr.period
  PluralForms.parse_plural_forms PluralForms.check_plurals_core
  Ling.parse_language Ling.parse_language_Z Ling.str_language Ling.fix_codes Ling.cli_language Ling.lookup_munched
  Ling.lcmessages_parent Ling.basename Ling.splitext Ling.lg_endswith Ling.s_dot_po Ling.check_language LingData.gen_cfg.

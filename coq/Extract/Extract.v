(* Extraction of the executable models: ExtrOcamlBasic only; Z, N, positive, nat stay the
   extracted inductive types; no Extract Constant. *)
From Coq Require Import ExtrOcamlBasic.
From Coq Require Extraction.
From I18n Require Import Lib.Outcome Model.IntExpr Model.PluralForms Model.Encodings Model.Iconv.
Extraction Language OCaml.
Extraction "model.ml"
  IntExpr.parse_string IntExpr.pyeval IntExpr.codomain IntExpr.period
  PluralForms.parse_plural_forms PluralForms.check_plurals_core
  Encodings.cm_decode Encodings.cm_encode Encodings.cm_build Encodings.is_portable_encoding
  Encodings.propose_portable_encoding Encodings.is_ascii_compatible_encoding Encodings.classify
  Encodings.codec_search Encodings.get_unrepresentable_characters Encodings.unrepresentable_tag_args
  Encodings.real_enc_data Encodings.real_oracle Encodings.charmap_table Encodings.list_eqb
  Encodings.ascii_lower Encodings.ascii_upper
  Iconv.iconv_decode Iconv.iconv_encode.

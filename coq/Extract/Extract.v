(* Extraction of the executable models: ExtrOcamlBasic only; Z, N, positive, nat stay the
   extracted inductive types; no Extract Constant. *)
From Coq Require Import ExtrOcamlBasic.
From Coq Require Extraction.
From I18n Require Import Lib.Outcome.
From I18n Require Import Model.IntExpr Model.PluralForms.
From I18n Require Import Model.Tags Generated.UcdPrintable.
From I18n Require Import Model.MsgFormat.
From I18n Require Import Model.Dates.
From I18n Require Import Lib.Outcome Model.IntExpr Model.PluralForms Model.Tags Generated.UcdPrintable
  Model.Header Generated.HeaderFields Generated.SpecialDomains Generated.UcdHeader.
From I18n Require Import Lib.Outcome Model.IntExpr Model.PluralForms Model.Ling Model.LingData.
From I18n Require Import Lib.Outcome Model.IntExpr Model.PluralForms Model.MoParser.
From I18n Require Import Lib.Outcome Model.IntExpr Model.PluralForms Model.Encodings Model.Iconv.
From I18n Require Import Lib.Outcome Model.IntExpr Model.PluralForms Model.Tags Generated.UcdPrintable
  Model.Messages Generated.StringFormats Generated.ControlChars.
From I18n Require Import Lib.Outcome Model.IntExpr Model.PluralForms Lib.CFmtSyntax Model.FmtC.
From I18n Require Import Lib.Outcome Model.IntExpr Model.PluralForms Model.Tags Generated.UcdPrintable
  Model.PoUnescape Model.PoParser Model.PoLexer.
From I18n Require Import Lib.Outcome Model.IntExpr Model.PluralForms
  Model.FmtPerlBrace Model.FmtPython Model.FmtPyBrace Model.FmtInstances Spec.CPyPercent Spec.CPyFormat Generated.Ucd.
From I18n Require Import Model.Terminal.
From I18n Require Model.Check.
Extraction Language OCaml.
Extraction "model.ml"
  IntExpr.parse_string IntExpr.pyeval IntExpr.codomain IntExpr.period
  PluralForms.parse_plural_forms PluralForms.check_plurals_core
  Tags.escape Tags.format_line Tags.priority Tags.in_ranges UcdPrintable.printable_ranges
  MsgFormat.c_check_args MsgFormat.py_check_args MsgFormat.map_check_args MsgFormat.perl_check_args MsgFormat.plan_message
  Dates.fix_date_real Dates.parse_date_re_real Dates.bp_search_real Dates.strip_real Dates.check_dates_real
  Dates.ord_real Dates.parse_date Dates.stamp_minutes Dates.hint_check
  Header.hdr_check Header.content_type_match Header.parse_header Header.is_special Header.comment_line_boilerplate
  Header.unusual_chars Header.is_conflict_marker Header.splitlines Header.project_diags Header.sort_u
  HeaderFields.header_fields HeaderFields.dedicated_fields SpecialDomains.special_exact_or_sub SpecialDomains.special_sub_only
  UcdHeader.re_word_ranges UcdHeader.re_digit_ranges UcdHeader.re_space_ranges
  Ling.parse_language Ling.parse_language_Z Ling.str_language Ling.fix_codes Ling.cli_language Ling.lookup_munched
  Ling.lcmessages_parent Ling.basename Ling.po_stem Ling.lg_endswith Ling.s_dot_po Ling.check_language LingData.gen_cfg
  MoParser.mo_run MoParser.mo_parse
  Encodings.cm_decode Encodings.cm_encode Encodings.cm_build Encodings.is_portable_encoding
  Encodings.propose_portable_encoding Encodings.is_ascii_compatible_encoding Encodings.classify
  Encodings.codec_search Encodings.get_unrepresentable_characters Encodings.unrepresentable_tag_args
  Encodings.real_enc_data Encodings.real_oracle Encodings.charmap_table Encodings.list_eqb
  Encodings.ascii_lower Encodings.ascii_upper
  Iconv.iconv_decode Iconv.iconv_encode
  Messages.check_messages Messages.check_flags Messages.find_unusual Messages.search_marker Messages.xml_trigger
  StringFormats.string_formats ControlChars.control_character_names
  FmtC.fmtc_tokens FmtC.fmtc_parse FmtC.fmtc_glic
  PoUnescape.unescape PoParser.lex_line PoParser.parse_lines PoParser.py_isspace
  PoLexer.detect_encoding PoLexer.codecs_open_text PoLexer.load_po PoLexer.pofile
  FmtInstances.perl_parse_ucd FmtPerlBrace.names_of
  FmtInstances.fmtpy_parse_gen CPyPercent.cpy_events CPyPercent.cpy_syntax_error CPyPercent.plain_percents CPyPercent.cpy_format
  Terminal.strip_delay
  FmtInstances.pybrace_parse_gen FmtInstances.pybrace_domain_gen CPyFormat.cpy_markup CPyFormat.cpy_format Ucd.re_d_value
  Check.check_top_ascii Check.subchecks_of
  .

(* C20 — charset names are classified consistently and the extra codecs are lossless.
   Tables (Generated/Charmaps.v, EncodingsData.v, CodecOracle.v) are regenerated from /repo and from the running
   interpreter on every run; theorems over them are re-proved against what /repo says now. *)
From Coq Require Import NArith ZArith List Bool.
From I18n Require Import Lib.Outcome Generated.CodecOracle Generated.EncodingsData Generated.Charmaps
  Model.Encodings Model.Iconv Spec.Charsets Spec.Iconv
  Proofs.Charmap Proofs.EncodingsTable Proofs.Iconv
  Model.EncodingsPy Model.EncodingsMime Generated.EncodingsSrc Proofs.IconvSrc Proofs.EncodingsSrc.
Import ListNotations.

(* ------------------------------------------------------------------ charmap codecs (KOI8-RU, VISCII, GEORGIAN-PS) *)

(* every file of data/charmaps: decodable input encodes back to itself, for byte strings of any length *)
Theorem C20_charmap_roundtrip : forall name t, In (name, t) charmaps ->
  forall bs txt, cm_decode t bs = Ok txt -> cm_encode t txt = Ok bs.
Proof. exact real_charmap_roundtrip. Qed.
Print Assumptions C20_charmap_roundtrip.

(* the table hypothesis behind it, for any table: at most 256 entries, a buildable encoding map, no two defined
   bytes with the same character *)
Theorem C20_charmap_roundtrip_of_injective : forall t, table_wf t = true ->
  forall bs txt, cm_decode t bs = Ok txt -> cm_encode t txt = Ok bs.
Proof. exact (fun t H => table_ok_roundtrip t (table_wf_ok t H)). Qed.
Print Assumptions C20_charmap_roundtrip_of_injective.

Theorem C20_charmap_tables_injective : forallb (fun p => table_wf (snd p)) charmaps = true.
Proof. exact real_charmaps_wf. Qed.
Print Assumptions C20_charmap_tables_injective.

(* decoding is total for every table: text of the same length, or a decode error at a position inside the input
   whose byte is undefined; never a crash *)
Theorem C20_charmap_decode_total : forall t bs,
  (exists txt, cm_decode t bs = Ok txt /\ length txt = length bs) \/
  (exists s, cm_decode t bs = Err (s, S s) /\ (s < length bs)%nat /\ decode_byte t (nth s bs 0%N) = None).
Proof. exact cm_decode_total. Qed.
Print Assumptions C20_charmap_decode_total.

(* encoding with a generated table is total: bytes, or an encode error with start < end <= len(text) *)
Theorem C20_charmap_encode_total : forall name t, In (name, t) charmaps -> forall txt,
  (exists bs, cm_encode t txt = Ok bs) \/
  (exists s e, cm_encode t txt = Err (s, e) /\ (s < e)%nat /\ (e <= length txt)%nat).
Proof. exact real_charmap_encode_total. Qed.
Print Assumptions C20_charmap_encode_total.

(* each generated table decodes the tool's ASCII repertoire to itself *)
Theorem C20_charmap_ascii_compatible : forall name t, In (name, t) charmaps ->
  cm_decode t interesting_ascii_bytes = Ok interesting_ascii_bytes.
Proof. exact real_charmap_ascii. Qed.
Print Assumptions C20_charmap_ascii_compatible.

(* ------------------------------------------------------------------ proposals *)

(* a proposed replacement is always portable (for every codecs.lookup, every ASCII-decoding oracle) *)
Theorem C20_proposal_portable : forall o, ascii_cased o -> forall enc p,
  propose_portable_encoding real_enc_data o enc = Ok (Some p) -> is_portable_encoding real_enc_data o true p = true.
Proof. exact real_proposal_portable. Qed.
Print Assumptions C20_proposal_portable.

(* the assert in propose_portable_encoding cannot fail *)
Theorem C20_proposal_never_asserts : forall o, ascii_cased o -> forall enc c,
  propose_portable_encoding real_enc_data o enc <> Crash c.
Proof. exact real_proposal_no_crash. Qed.
Print Assumptions C20_proposal_never_asserts.

(* with codecs.lookup as the running interpreter answers it (after install_extra_encodings), the proposal resolves
   to the very codec the original name resolves to *)
Theorem C20_proposal_same_codec : forall enc p,
  propose_portable_encoding real_enc_data real_oracle enc = Ok (Some p) ->
  co_lookup real_oracle p = co_lookup real_oracle enc.
Proof. exact real_proposal_same_codec. Qed.
Print Assumptions C20_proposal_same_codec.

(* ------------------------------------------------------------------ classification *)

(* the law, for one name of the oracle table: see Proofs/EncodingsTable.v row_consistent
     unknown-encoding        <-> no usable text codec
     ASCII-compatible        <-> decoding the ASCII repertoire is the identity
     is_portable_encoding    <-> gettext lists the name and Python ships a codec for it
     no tag at all           <-> usable, ASCII-compatible, listed and shipped *)
Definition C20_classification_statement : Prop :=
  forall r, In r codec_oracle_table -> row_consistent real_enc_data real_oracle r.

(* false today (D10): KOI8-T is listed by gettext and CPython ships koi8_t, yet data/encodings marks it not-python *)
Theorem C20_classification_refuted : ~ C20_classification_statement.
Proof. exact real_classification_refuted. Qed.
Print Assumptions C20_classification_refuted.

Theorem C20_D10_witness : exists r, In r codec_oracle_table /\ o_name r = s_KOI8_T /\
  gettext_lists (gettext_names real_enc_data) (o_name r) = true /\ python_ships r = true /\
  is_portable_encoding real_enc_data real_oracle true (o_name r) = false /\
  classify real_enc_data real_oracle (o_name r) = Ok (ClsNonPortable None).
Proof. exact real_D10_witness. Qed.
Print Assumptions C20_D10_witness.

(* it holds for every other name known to Python, gettext or the tool *)
Theorem C20_classification_consistent : forall r, In r codec_oracle_table ->
  normalises_to_koi8_t (o_name r) = false -> row_consistent real_enc_data real_oracle r.
Proof. exact real_classification_outside_D10. Qed.
Print Assumptions C20_classification_consistent.

Theorem C20_oracle_names_distinct : names_distinct (map o_name codec_oracle_table) = true.
Proof. exact real_oracle_names_distinct. Qed.
Print Assumptions C20_oracle_names_distinct.

(* ------------------------------------------------------------------ codec search function *)

(* un-mangling undoes the hyphen-to-underscore normalisation of codecs.lookup on every key of the tables ... *)
Theorem C20_unmangle_inverse :
  forallb (fun k => list_eqb (unmangle real_enc_data (mangle k)) k) (unmangle_keys real_enc_data) = true.
Proof. exact real_unmangle_inverse. Qed.
Print Assumptions C20_unmangle_inverse.

(* ... and is the dict the module built *)
Theorem C20_unmangle_table_agrees :
  forallb (fun mk => list_eqb (unmangle real_enc_data (fst mk)) (snd mk)) unmangle_table = true /\
  forallb (fun k => opt_eqb (assoc (mangle k) unmangle_table) (Some k)) (unmangle_keys real_enc_data) = python_ge_39.
Proof. exact real_unmangle_table_agrees. Qed.
Print Assumptions C20_unmangle_table_agrees.

Theorem C20_search_charmap_exists : forall enc f,
  codec_search real_enc_data enc = SCharmap f -> exists t, charmap_table f = Some t.
Proof. exact codec_search_charmap_exists. Qed.
Print Assumptions C20_search_charmap_exists.

(* ------------------------------------------------------------------ the iconv(3) binding *)

(* under the iconv(3) contract, when the output needs at most |input| * 2^k units the buffer is doubled at most
   k times, k+1 iterations suffice, and the loop raises nothing but its decode/encode error *)
Theorem C20_iconv_loop_terminates : forall ops input need k fuel,
  let n := Z.of_nat (length input) in
  iconv_contract ops n 1 4 need -> (n < size_t_max)%Z -> (2 * need <= size_t_max)%Z ->
  io_open_ok ops = true -> (need <= Z.max n 1 * 2 ^ Z.of_nat k)%Z -> (k < fuel)%nat ->
  (fst (iconv_decode ops true input fuel) <= k)%nat /\
  forall c, snd (iconv_decode ops true input fuel) <> Crash c.
Proof. exact iconv_decode_terminates. Qed.
Print Assumptions C20_iconv_loop_terminates.

Theorem C20_iconv_encode_loop_terminates : forall ops input need k fuel,
  let n := Z.of_nat (length input) in
  iconv_contract ops (n * 4) 4 1 need -> (n * 4 < size_t_max)%Z -> (2 * need <= size_t_max)%Z ->
  io_open_ok ops = true -> (need <= Z.max n 1 * 2 ^ Z.of_nat k)%Z -> (k < fuel)%nat ->
  (fst (iconv_encode ops true input fuel) <= k)%nat /\
  forall c, snd (iconv_encode ops true input fuel) <> Crash c.
Proof. exact iconv_encode_terminates. Qed.
Print Assumptions C20_iconv_encode_loop_terminates.

(* the exact bound for the code: WCHAR_T output is at most 4 bytes per input byte, EUC-TW output at most 4 bytes
   per character, so the buffer is doubled at most twice *)
Theorem C20_iconv_decode_two_doublings : forall ops input need,
  let n := Z.of_nat (length input) in
  iconv_contract ops n 1 4 need -> (need <= 4 * n)%Z -> (n * 8 < size_t_max)%Z -> io_open_ok ops = true ->
  (fst (iconv_decode ops true input 3) <= 2)%nat /\ forall c, snd (iconv_decode ops true input 3) <> Crash c.
Proof. exact iconv_decode_two_doublings. Qed.
Print Assumptions C20_iconv_decode_two_doublings.

Theorem C20_iconv_encode_two_doublings : forall ops input need,
  let n := Z.of_nat (length input) in
  iconv_contract ops (n * 4) 4 1 need -> (need <= 4 * n)%Z -> (n * 8 < size_t_max)%Z -> io_open_ok ops = true ->
  (fst (iconv_encode ops true input 3) <= 2)%nat /\ forall c, snd (iconv_encode ops true input 3) <> Crash c.
Proof. exact iconv_encode_two_doublings. Qed.
Print Assumptions C20_iconv_encode_two_doublings.

(* whatever the output size, fuel = ceil(log2 need) + 1 suffices *)
Theorem C20_iconv_fuel : forall ops input need,
  let n := Z.of_nat (length input) in
  iconv_contract ops n 1 4 need -> (n < size_t_max)%Z -> (2 * need <= size_t_max)%Z -> io_open_ok ops = true ->
  (fst (iconv_decode ops true input (loop_fuel need)) <= Z.to_nat (Z.log2_up need))%nat /\
  forall c, snd (iconv_decode ops true input (loop_fuel need)) <> Crash c.
Proof. exact iconv_decode_fuel. Qed.
Print Assumptions C20_iconv_fuel.

(* reported positions: 0 <= start < end <= len(input) *)
Theorem C20_iconv_positions_valid : forall ops input need k fuel b e,
  let n := Z.of_nat (length input) in
  iconv_contract ops n 1 4 need -> (n < size_t_max)%Z -> (2 * need <= size_t_max)%Z ->
  io_open_ok ops = true -> (need <= Z.max n 1 * 2 ^ Z.of_nat k)%Z -> (k < fuel)%nat ->
  snd (iconv_decode ops true input fuel) = Err (b, e) -> (0 <= b < e)%Z /\ (e <= n)%Z.
Proof. exact iconv_decode_positions. Qed.
Print Assumptions C20_iconv_positions_valid.

Theorem C20_iconv_encode_positions_valid : forall ops input need k fuel b e,
  let n := Z.of_nat (length input) in
  iconv_contract ops (n * 4) 4 1 need -> (n * 4 < size_t_max)%Z -> (2 * need <= size_t_max)%Z ->
  io_open_ok ops = true -> (need <= Z.max n 1 * 2 ^ Z.of_nat k)%Z -> (k < fuel)%nat ->
  snd (iconv_encode ops true input fuel) = Err (b, e) -> (0 <= b < e)%Z /\ (e <= n)%Z.
Proof. exact iconv_encode_positions. Qed.
Print Assumptions C20_iconv_encode_positions_valid.

(* ------------------------------------------------------------------ unrepresentable-characters *)

(* for a codec whose encodability is decided character by character and which raises nothing but
   UnicodeEncodeError, the tag is emitted iff some listed (non-optional) entry cannot be encoded, and the reported
   list is exactly those entries *)
Theorem C20_unrepresentable_iff : forall encode chars l,
  (forall s c, encode s <> Crash c) ->
  (is_ok (encode (concat chars)) = true <-> forall ch, In ch chars -> is_ok (encode ch) = true) ->
  get_unrepresentable_characters encode false chars = Ok l ->
  (unrepresentable_tag_args l <> None <-> exists ch, In ch chars /\ is_ok (encode ch) = false) /\
  (forall ch, In ch l <-> In ch chars /\ is_ok (encode ch) = false).
Proof. exact unrepresentable_iff. Qed.
Print Assumptions C20_unrepresentable_iff.

(* the charmap codecs are such codecs *)
Theorem C20_charmap_encodability_per_character : forall t m, cm_build t = Some m -> forall chars,
  (forall s c, cm_encode_oracle t s <> Crash c) /\
  (is_ok (cm_encode_oracle t (concat chars)) = true <->
   forall ch, In ch chars -> is_ok (cm_encode_oracle t ch) = true).
Proof. exact cm_encode_oracle_per_char. Qed.
Print Assumptions C20_charmap_encodability_per_character.

(* ------------------------------------------------------------------ source tie (notes/SRC8.md) *)
(* Generated/EncodingsSrc.v is the statement-by-statement translation of the Python code of /repo made by
   tools/gen/gen_encodings_src.py at the start of every check; each translated function equals the model the theorems
   above are about.  A behavioural edit of that code changes the generated text and these no longer compile. *)

(* lib/iconv.py _decode_dl / _encode_dl: the `while True` loops, for every libc behaviour, every capacity >= 0, all fuel:
   first the two "no overflow" asserts, the reset call, the conversion call, the flush call only if that succeeded, E2BIG
   => `output_len *= 2` and again, EILSEQ / EINVAL => the error positions, anything else OSError, the final asserts and
   the slice of the buffer *)
Theorem C20_source_tie_decode_loop : forall ops input fuel cap grows, (0 <= cap)%Z ->
  src_iconv_decode_dl_loop ops fuel input cap = of_dec (snd (dec_loop ops input fuel cap grows)).
Proof. exact src_decode_dl_loop_eq. Qed.
Print Assumptions C20_source_tie_decode_loop.

Theorem C20_source_tie_encode_loop : forall ops input fuel cap grows, (0 <= cap)%Z ->
  src_iconv_encode_dl_loop ops fuel input cap = of_enc (snd (enc_loop ops (Z.of_nat (length input)) fuel cap grows)).
Proof. exact src_encode_dl_loop_eq. Qed.
Print Assumptions C20_source_tie_encode_loop.

(* the resynchronisation scan `for end in range(begin + 1, len(input)): ... else: ...` *)
Theorem C20_source_tie_decode_scan : forall ops input b cnt e,
  src_iconv_decode_dl_for ops input b cnt e =
  of_dec (match scan_end input (Z.of_nat (length input)) cnt e with
          | Ok e' => Err (b, e') | Err x => Err x | Crash c => Crash c end).
Proof. exact src_decode_dl_for_eq. Qed.
Print Assumptions C20_source_tie_decode_scan.

(* decode() / encode() down to iconv_open, try ... finally iconv_close: the first capacity is len(input) *)
Theorem C20_source_tie_decode : forall ops input strict fuel,
  src_iconv_decode ops fuel input strict = of_dec (snd (iconv_decode ops strict input fuel)).
Proof. exact src_decode_eq. Qed.
Print Assumptions C20_source_tie_decode.

Theorem C20_source_tie_encode : forall ops input strict fuel,
  src_iconv_encode ops fuel input strict = of_enc (snd (iconv_encode ops strict input fuel)).
Proof. exact src_encode_eq. Qed.
Print Assumptions C20_source_tie_encode.

(* so the termination theorem above speaks about the translated code: under the iconv(3) contract the translated
   decode() neither runs out of fuel, nor fails an assert, nor raises anything but UnicodeDecodeError with valid positions *)
Theorem C20_source_tie_decode_terminates : forall ops input need k fuel,
  let n := Z.of_nat (length input) in
  iconv_contract ops n 1 4 need -> (n < size_t_max)%Z -> (2 * need <= size_t_max)%Z ->
  io_open_ok ops = true -> (need <= Z.max n 1 * 2 ^ Z.of_nat k)%Z -> (k < fuel)%nat ->
  (exists out, src_iconv_decode ops fuel input true = PRet out) \/
  (exists b e, src_iconv_decode ops fuel input true = PRaise (PUnicodeDecodeError b e) /\ (0 <= b < e)%Z /\ (e <= n)%Z).
Proof. exact src_decode_terminates. Qed.
Print Assumptions C20_source_tie_decode_terminates.

(* lib/encodings.py *)
Theorem C20_source_tie_is_portable : forall d o enc py,
  src_is_portable_encoding d o enc py = PRet (is_portable_encoding d o py enc).
Proof. exact src_is_portable_encoding_eq. Qed.
Print Assumptions C20_source_tie_is_portable.

Theorem C20_source_tie_propose : forall d o enc py,
  src_propose_portable_encoding d o enc py = of_propose (propose_portable_encoding d o enc).
Proof. exact src_propose_portable_encoding_eq. Qed.
Print Assumptions C20_source_tie_propose.

Theorem C20_source_tie_ascii_compatible : forall d o enc missing_ok,
  src_is_ascii_compatible_encoding d o enc missing_ok = of_ascii (is_ascii_compatible_encoding o missing_ok enc).
Proof. exact src_is_ascii_compatible_encoding_eq. Qed.
Print Assumptions C20_source_tie_ascii_compatible.

(* _codec_search_function with charmap_encoding: for any tables such that str.upper is ASCII upper-casing on the names,
   `um` is the un-mangling dict and `files` has the file names of data/charmaps ... *)
Theorem C20_source_tie_codec_search : forall d o um files enc,
  co_upper o = ascii_upper -> (forall e, sget um e e = unmangle d e) ->
  (forall f, mem f (ed_charmap_files d) = has_key f files) ->
  src_codec_search_function d o um files enc = of_search files (unmangle d enc) (codec_search d enc).
Proof. exact src_codec_search_function_eq. Qed.
Print Assumptions C20_source_tie_codec_search.

(* ... which is the case of the tables the code sees today *)
Theorem C20_source_tie_codec_search_real : forall enc,
  src_codec_search_function real_enc_data real_oracle unmangle_table charmaps enc =
  of_search charmaps (unmangle real_enc_data enc) (codec_search real_enc_data enc).
Proof. exact real_src_codec_search_function_eq. Qed.
Print Assumptions C20_source_tie_codec_search_real.

(* the charset statement of Checker.check_mime: which of boilerplate-in-content-type / unknown-encoding /
   non-ascii-compatible-encoding / non-portable-encoding / unrepresentable-characters is emitted, with which arguments *)
Theorem C20_source_tie_check_mime : forall d o is_template has_language unrep enc ct,
  src_check_mime_charset d o is_template has_language unrep enc ct =
  mime_charset d o is_template has_language unrep enc ct.
Proof. exact src_check_mime_charset_eq. Qed.
Print Assumptions C20_source_tie_check_mime.

(* Language.get_unrepresentable_characters from `result = []` on *)
Theorem C20_source_tie_unrepresentable : forall encode cli chars,
  src_unrepresentable_tail encode cli chars = of_unrep (get_unrepresentable_characters encode cli chars).
Proof. exact src_unrepresentable_tail_eq. Qed.
Print Assumptions C20_source_tie_unrepresentable.

(* ------------------------------------------------------------------ non-vacuity *)
Local Open Scope N_scope.
Definition s_VISCII : list N := [86; 73; 83; 67; 73; 73].
Definition viscii : list N := match charmap_table s_VISCII with Some t => t | None => [] end.
(* b'Ti\xAAng' <-> 'Tiếng' (tests/test_encodings.py) *)
Example C20_ex_viscii_decode : cm_decode viscii [84; 105; 170; 110; 103] = Ok [84; 105; 7871; 110; 103].
Proof. vm_compute. reflexivity. Qed.
Example C20_ex_viscii_encode_error :
  cm_encode viscii [84; 128512; 128513; 105] = Err (1%nat, 3%nat).
Proof. vm_compute. reflexivity. Qed.
(* which codec the tool supplies: koi8_ru, viscii, georgian_ps from data/charmaps; euc_tw and koi8_t through iconv
   (CPython's own koi8_t is found first when it exists); nothing for utf_8 *)
Example C20_ex_search :
  codec_search real_enc_data [107; 111; 105; 56; 95; 114; 117] = SCharmap [75; 79; 73; 56; 45; 82; 85] /\
  codec_search real_enc_data [101; 117; 99; 95; 116; 119] = SIconv [101; 117; 99; 45; 116; 119] /\
  codec_search real_enc_data [107; 111; 105; 56; 95; 116] = SIconv [107; 111; 105; 56; 45; 116] /\
  codec_search real_enc_data [117; 116; 102; 95; 56] = SNone.
Proof. vm_compute. repeat split; reflexivity. Qed.
(* "latin-1" is not portable, "ISO-8859-1" is proposed; "utf-16" is not ASCII-compatible; "rot13" is unknown *)
Example C20_ex_classify :
  classify real_enc_data real_oracle [108; 97; 116; 105; 110; 45; 49] =
    Ok (ClsNonPortable (Some [73; 83; 79; 45; 56; 56; 53; 57; 45; 49])) /\
  classify real_enc_data real_oracle [117; 116; 102; 45; 49; 54] = Ok ClsNonAscii /\
  classify real_enc_data real_oracle [114; 111; 116; 49; 51] = Ok ClsUnknown /\
  classify real_enc_data real_oracle [85; 84; 70; 45; 56] = Ok ClsPortable.
Proof. vm_compute. repeat split; reflexivity. Qed.
(* the loop: 4 input bytes, 16 bytes of wchar_t output: capacities 4, 8, 16; then an EILSEQ at byte 2 *)
Definition ex_ops (bad : bool) : iconv_ops := {|
  io_open_ok := true; io_reset_ok := fun _ => true; io_close_ok := true;
  io_conv := fun cap => if bad then {| cr_rc := RcEILSEQ; cr_inleft := 2; cr_outleft := cap - 4 |}
                        else if (cap <? 16)%Z then {| cr_rc := RcE2BIG; cr_inleft := 4 - cap / 4; cr_outleft := cap mod 4 |}
                        else {| cr_rc := RcOk; cr_inleft := 0; cr_outleft := cap - 16 |};
  io_flush := fun cap => {| fr_rc := RcOk; fr_outleft := cap - 16 |};
  io_buf := fun _ => [97; 98; 99; 100]
|}.
Example C20_ex_loop : iconv_decode (ex_ops false) true [97; 98; 99; 100] 3 = (2%nat, Ok [97; 98; 99; 100]).
Proof. vm_compute. reflexivity. Qed.
Example C20_ex_loop_error : iconv_decode (ex_ops true) true [97; 98; 200; 201] 3 = (0%nat, Err (2%Z, 4%Z)).
Proof. vm_compute. reflexivity. Qed.
(* the translated loop on the same abstract libc: two doublings, then the text; and the EILSEQ positions *)
Example C20_src_ex_loop : src_iconv_decode (ex_ops false) 3 [97; 98; 99; 100] true = PRet [97; 98; 99; 100].
Proof. vm_compute. reflexivity. Qed.
Example C20_src_ex_loop_fuel : src_iconv_decode (ex_ops false) 2 [97; 98; 99; 100] true = PFuel.
Proof. vm_compute. reflexivity. Qed.
Example C20_src_ex_loop_error : src_iconv_decode (ex_ops true) 3 [97; 98; 200; 201] true = PRaise (PUnicodeDecodeError 2 4).
Proof. vm_compute. reflexivity. Qed.
Example C20_src_ex_mime :
  src_check_mime_charset real_enc_data real_oracle false false (fun _ => PNone) [108; 97; 116; 105; 110; 45; 49] [] =
  PRet ([(t_non_portable, [[108; 97; 116; 105; 110; 45; 49]; s_arrow; [73; 83; 79; 45; 56; 56; 53; 57; 45; 49]])],
        Some [73; 83; 79; 45; 56; 56; 53; 57; 45; 49]).
Proof. vm_compute. reflexivity. Qed.

(* C06 — Periodicity analysis of plural expressions is sound. *)
From Coq Require Import ZArith List.
From I18n Require Import Lib.Outcome Model.IntExpr Proofs.Codomain Proofs.Period.
Import ListNotations.
Local Open Scope Z_scope.

(* same_outcome a b : the same value, or a failure at both. *)

(* When the analysis returns (O, P) for modulus M (= 2^width), then for every n >= O with n + P < M the
   expression has the same outcome at n and n + P.  Every expression, every M (hence every width). *)
Theorem C06_sound : forall M e O P, period M e = Some (O, P) ->
  1 <= P /\ 0 <= O /\ forall n, O <= n -> n + P < M -> same_outcome (pyeval M e n) (pyeval M e (n + P)).
Proof. exact period_sound. Qed.
Print Assumptions C06_sound.

Theorem C06_multiples : forall M e O P, period M e = Some (O, P) ->
  forall k n, 0 <= k -> O <= n -> n + k * P < M -> same_outcome (pyeval M e n) (pyeval M e (n + k * P)).
Proof. exact period_multiples. Qed.
Print Assumptions C06_multiples.

(* Consequence used by the Plural-Forms check: every outcome over [0, M) already occurs in [0, T) when O + P <= T. *)
Theorem C06_image_in_window : forall M e O P T, period M e = Some (O, P) -> O + P <= T ->
  forall n, 0 <= n < M -> exists m, 0 <= m < T /\ m <= n /\ same_outcome (pyeval M e m) (pyeval M e n).
Proof. exact period_image_in_window. Qed.
Print Assumptions C06_image_in_window.

(* the evaluator outcomes compared are never model crashes, so same_outcome is about values and own errors *)
Theorem C06_outcomes_are_values_or_errors : forall M e n c, pyeval M e n <> Crash c.
Proof. exact pyeval_nocrash. Qed.
Print Assumptions C06_outcomes_are_values_or_errors.

Definition polish : expr :=
  If (Cmp CEq Var (Num 1)) (Num 0)
     (If (And (And (Cmp CGe (Bin Mod Var (Num 10)) (Num 2)) (Cmp CLe (Bin Mod Var (Num 10)) (Num 4)))
              (Or (Cmp CLt (Bin Mod Var (Num 100)) (Num 10)) (Cmp CGe (Bin Mod Var (Num 100)) (Num 20))))
         (Num 1) (Num 2)).
Example C06_ex_polish : period (2^32) polish = Some (2, 100).
Proof. vm_compute. reflexivity. Qed.
Example C06_ex_var : period (2^32) Var = None.
Proof. reflexivity. Qed.
Example C06_ex_divzero : period 16 (Bin Div (Num 1) (Num 0)) = Some (0, 1)
  /\ pyeval 16 (Bin Div (Num 1) (Num 0)) 3 = Err EDivZero.
Proof. vm_compute. split; reflexivity. Qed.

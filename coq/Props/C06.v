(* C06 — Periodicity analysis of plural expressions is sound. *)
From Coq Require Import ZArith List.
From I18n Require Import Lib.Outcome Model.IntExpr Proofs.Codomain Proofs.Period
  Lib.PySrc Generated.IntExprSrc Proofs.IntExprSrc Proofs.IntExprSrcPe.
Import ListNotations.
Local Open Scope Z_scope.

(* same_outcome a b : the same value, or a failure at both. *)

(* When the analysis returns (O, P) for modulus M (= 2^width), then for every n >= O with n + P < M the
   expression has the same outcome at n and n + P.  Every expression, every M (hence every width). *)
Theorem C06_sound : forall M e O P, period M e = Some (O, P) ->
  1 <= P /\ 0 <= O /\ forall n, O <= n -> n + P < M -> same_outcome (pyeval M e n) (pyeval M e (n + P)).
Proof. exact period_sound. Qed.
Print Assumptions C06_sound.

Theorem C06_multiples : forall M e O P, period M e = Some (O, P) ->
  forall k n, 0 <= k -> O <= n -> n + k * P < M -> same_outcome (pyeval M e n) (pyeval M e (n + k * P)).
Proof. exact period_multiples. Qed.
Print Assumptions C06_multiples.

(* Consequence used by the Plural-Forms check: every outcome over [0, M) already occurs in [0, T) when O + P <= T. *)
Theorem C06_image_in_window : forall M e O P T, period M e = Some (O, P) -> O + P <= T ->
  forall n, 0 <= n < M -> exists m, 0 <= m < T /\ m <= n /\ same_outcome (pyeval M e m) (pyeval M e n).
Proof. exact period_image_in_window. Qed.
Print Assumptions C06_image_in_window.

(* the evaluator outcomes compared are never model crashes, so same_outcome is about values and own errors *)
Theorem C06_outcomes_are_values_or_errors : forall M e n c, pyeval M e n <> Crash c.
Proof. exact pyeval_nocrash. Qed.
Print Assumptions C06_outcomes_are_values_or_errors.

(* ---- Source tie.  Generated/IntExprSrc.v is the statement-by-statement translation (tools/gen/gen_intexpr_src.py) of the
   methods of lib/intexpr.py, regenerated from the working tree on every run.  Every translated method of class
   PeriodEvaluator, run on the nodes the parser builds with self._visit = the model and gcd = Z.gcd (gcd's while loop is
   not translated), returns what `period` returns. *)
(* lcm(x, y): `r //= gcd(r, y); r *= y`, ZeroDivisionError exactly when gcd is 0 (dead inside the analysis: periods are >= 1) *)
Theorem C06_source_tie_lcm : forall x y,
  src_lcm Z.gcd x [y] = if Z.gcd x y =? 0 then SRaise XZeroDiv else SRet (py_lcm x y).
Proof. exact src_lcm2_exact. Qed.
Print Assumptions C06_source_tie_lcm.
Theorem C06_source_tie_lcm3 : forall t x y, t <> 0 \/ x <> 0 -> y <> 0 ->
  src_lcm Z.gcd t [x; y] = SRet (py_lcm (py_lcm t x) y).
Proof. exact src_lcm3_eq. Qed.
Print Assumptions C06_source_tie_lcm3.
Theorem C06_source_tie_binop : forall M o a b,
  src_pe_binop (pe_vis M) node_isinst node_attr_n Z.gcd M (NBin o) (NE a) (NE b) = of_opt (period M (Bin o a b)).
Proof. exact src_pe_binop_eq. Qed.
Print Assumptions C06_source_tie_binop.
Theorem C06_source_tie_compare : forall M o a b,
  src_pe_compare (pe_vis M) node_isinst node_attr_n Z.gcd M [NE b] [NCmp o] (NE a) = of_opt (period M (Cmp o a b)).
Proof. exact src_pe_compare_eq. Qed.
Print Assumptions C06_source_tie_compare.
Theorem C06_source_tie_boolop : forall M a b,
  src_pe_boolop (pe_vis M) Z.gcd M [NE a; NE b] = of_opt (period M (And a b)) /\
  src_pe_boolop (pe_vis M) Z.gcd M [NE a; NE b] = of_opt (period M (Or a b)).
Proof. exact pe_tie_boolop. Qed.
Print Assumptions C06_source_tie_boolop.
Theorem C06_source_tie_ifexp : forall M c a b,
  src_pe_ifexp (pe_vis M) Z.gcd M (NE c) (NE a) (NE b) = of_opt (period M (If c a b)).
Proof. exact src_pe_ifexp_eq. Qed.
Print Assumptions C06_source_tie_ifexp.
Theorem C06_source_tie_leaves : forall M z a,
  src_pe_num M z = of_opt (period M (Num z)) /\ src_pe_name = of_opt (period M Var) /\
  src_pe_unaryop (pe_vis M) (NE a) = of_opt (period M (Not a)).
Proof. exact pe_tie_leaves. Qed.
Print Assumptions C06_source_tie_leaves.

(* the untranslated parts (constructors: max = 1 << bits; __call__, the getattr dispatch _visit, _visit_expr; gcd) still have
   the source text whose digest is recorded in the translator *)
Theorem C06_source_tie_untranslated_pinned : src_pin_base = true /\ src_pin_pe = true.
Proof. exact pe_pins. Qed.
Print Assumptions C06_source_tie_untranslated_pinned.

Definition polish : expr :=
  If (Cmp CEq Var (Num 1)) (Num 0)
     (If (And (And (Cmp CGe (Bin Mod Var (Num 10)) (Num 2)) (Cmp CLe (Bin Mod Var (Num 10)) (Num 4)))
              (Or (Cmp CLt (Bin Mod Var (Num 100)) (Num 10)) (Cmp CGe (Bin Mod Var (Num 100)) (Num 20))))
         (Num 1) (Num 2)).
Example C06_ex_polish : period (2^32) polish = Some (2, 100).
Proof. vm_compute. reflexivity. Qed.
Example C06_ex_var : period (2^32) Var = None.
Proof. reflexivity. Qed.
Example C06_ex_divzero : period 16 (Bin Div (Num 1) (Num 0)) = Some (0, 1)
  /\ pyeval 16 (Bin Div (Num 1) (Num 0)) 3 = Err EDivZero.
Proof. vm_compute. split; reflexivity. Qed.

(* C18 — date fields are normalised canonically and judged by the real calendar.
   E : env carries the two whitespace predicates (str.strip, regex \s) and the zone table;
   real_env is the instance generated from /repo/data/timezones and the running interpreter.
   Hints: good_hint h = no hint, or a hint of the form [+-]hhmm with hh <= 23, mm <= 59
   (check_dates passes only None or '-0000'). *)
From Coq Require Import ZArith NArith List Bool.
From I18n Require Import Lib.Outcome Lib.PyDates Model.Dates Spec.Calendar Generated.Timezones Generated.DatesSrc
  Proofs.DatesCalendar Proofs.Dates Proofs.DatesVerdict Proofs.DatesSrc.
Import ListNotations.
Local Open Scope Z_scope.

(* fix_date_format returns, raises BoilerplateDate, or raises DateSyntaxError: the len == 21 assert, the
   dict lookup, the unpacking and strptime never raise anything else *)
Theorem C18_fix_total : forall E hint s, table_ok (tz_table E) = true -> good_hint hint ->
  (exists r, fix_date E hint s = Ok r) \/ fix_date E hint s = Err Boilerplate \/ fix_date E hint s = Err Invalid.
Proof. exact fix_date_total. Qed.
Print Assumptions C18_fix_total.

(* without the guard on the hint the statement is false: tz_hint='Z' passes the %z check and trips the assert *)
Theorem C18_fix_total_any_hint_refuted :
  ~ (forall hint s, (exists r, fix_date real_env hint s = Ok r) \/ fix_date real_env hint s = Err Boilerplate
                    \/ fix_date real_env hint s = Err Invalid).
Proof.
  intro H. specialize (H (Some [90%N]) [50; 48; 49; 50; 45; 49; 49; 45; 48; 49; 32; 49; 52; 58; 52; 50]%N).
  rewrite fix_hint_Z_asserts in H. destruct H as [[r H] | [H | H]]; discriminate.
Qed.
Print Assumptions C18_fix_total_any_hint_refuted.

(* an accepted date is returned as YYYY-MM-DD hh:mm+ZZzz / -ZZzz, the spelling of a valid civil date and time
   (proleptic Gregorian calendar of Spec/Calendar.v, year 1..9999) with an offset of less than 24 hours *)
Theorem C18_canonical : forall E hint s r, fix_date E hint s = Ok r ->
  canonical r /\
  exists st neg zh zm,
    parse_date r = Ok st /\
    r = render (st_y st) (st_m st) (st_d st) (st_hh st) (st_mi st) neg zh zm /\
    (valid_date (st_y st) (st_m st) (st_d st) /\ st_y st <= 9999 /\ valid_time (st_hh st) (st_mi st) /\ -1440 < st_off st < 1440) /\
    0 <= zh <= 23 /\ 0 <= zm <= 59 /\
    st_off st = (if neg then -1 else 1) * (zh * 60 + zm).
Proof. exact fix_date_canonical. Qed.
Print Assumptions C18_canonical.

(* date, hour and minute of the result are those written in the (stripped) input; the offset is the numeric one
   written there, or the only offset the table has for the abbreviation written there, or the hint *)
Theorem C18_components : forall E hint s r, fix_date E hint s = Ok r ->
  exists date sep time secs ws ztext zone,
    strip (sp_strip E) s = date ++ sep ++ time ++ secs ++ ws ++ ztext /\
    conforms date_pat date /\
    (sep = [84%N] \/ (sep <> [] /\ all_ws (sp_re E) sep)) /\
    conforms time_pat time /\
    (secs = [] \/ conforms sec_pat secs) /\
    all_ws (sp_re E) ws /\
    zone_written (tz_table E) hint ztext zone /\
    r = date ++ [32%N] ++ time ++ zone.
Proof. exact fix_date_components. Qed.
Print Assumptions C18_components.

(* the result is a fixed point of normalisation *)
Theorem C18_idempotent : forall E hint s r, space_ok E -> fix_date E hint s = Ok r -> fix_date E None r = Ok r.
Proof. exact fix_date_idempotent. Qed.
Print Assumptions C18_idempotent.

(* check_dates on one field value: the tags are exactly the reference verdict ... *)
Theorem C18_verdicts : forall E now c is_po v, table_ok (tz_table E) = true ->
  check_one E now c is_po v = Ok (reference_verdict E now c is_po v).
Proof. exact check_one_verdict. Qed.
Print Assumptions C18_verdicts.

(* ... which is: boilerplate as such; invalid-date iff rejected otherwise, or accepted with a different normal form;
   date-from-future iff the instant (Spec/Calendar.instant_minutes, microsecond scale) lies after now;
   ancient-date iff it lies before 1995-07-02T00:00Z; nothing else *)
Theorem C18_verdicts_iff : forall E now c is_po v, table_ok (tz_table E) = true -> exempt c is_po v = false ->
  let tags := reference_verdict E now c is_po v in
  let f := fix_date E (hint_for c v) v in
  (forall d, In (TBoilerplate d) tags <-> d = v /\ f = Err Boilerplate) /\
  (forall d, In (TInvalid d) tags <-> d = v /\ f = Err Invalid) /\
  (forall d r, In (TInvalidFix d r) tags <-> d = v /\ f = Ok r /\ v <> r) /\
  (forall d, In (TFuture d) tags <-> d = v /\ exists r st, f = Ok r /\ parse_date r = Ok st /\ now < stamp_instant st * us_per_minute) /\
  (forall d, In (TAncient d) tags <-> d = v /\ exists r st, f = Ok r /\ parse_date r = Ok st /\ stamp_instant st < epoch_instant) /\
  ~ In TDuplicate tags /\ ~ In TNoField tags.
Proof. exact verdict_iff. Qed.
Print Assumptions C18_verdicts_iff.

Theorem C18_normal_date_silent : forall E now c is_po v st, env_ok E ->
  fix_date E (hint_for c v) v = Ok v -> parse_date v = Ok st ->
  stamp_instant st * us_per_minute <= now -> epoch_instant <= stamp_instant st ->
  reference_verdict E now c is_po v = [].
Proof. exact normal_date_silent. Qed.
Print Assumptions C18_normal_date_silent.

(* a whole field: missing (POT-Creation-Date of an MO file exempt), single, or duplicated (each distinct value once) *)
Theorem C18_field : forall E now c is_po dates, table_ok (tz_table E) = true ->
  check_field E now c is_po dates = Ok (field_verdict E now c is_po dates).
Proof. exact check_field_verdict. Qed.
Print Assumptions C18_field.

Theorem C18_check_dates_total : forall E now tmpl bin cts pots pos, table_ok (tz_table E) = true ->
  exists a b, check_dates E now tmpl bin cts pots pos = Ok (a, b).
Proof. exact check_dates_total. Qed.
Print Assumptions C18_check_dates_total.

(* the comparison the model makes (CPython's closed-form day count) is the comparison of calendar instants ... *)
Theorem C18_minutes_are_instants : forall st,
  valid_date (st_y st) (st_m st) (st_d st) /\ st_y st <= 9999 /\ valid_time (st_hh st) (st_mi st) /\ -1440 < st_off st < 1440 ->
  stamp_minutes st = instant_minutes (st_y st) (st_m st) (st_d st) (st_hh st) (st_mi st) (st_off st).
Proof. exact stamp_minutes_spec. Qed.
Print Assumptions C18_minutes_are_instants.

(* ... and instants are strictly monotone in the civil date and time *)
Theorem C18_calendar_monotone : forall y1 m1 d1 y2 m2 d2,
  valid_date y1 m1 d1 -> valid_date y2 m2 d2 ->
  (date_lt y1 m1 d1 y2 m2 d2 <-> days_from_civil y1 m1 d1 < days_from_civil y2 m2 d2).
Proof. exact days_from_civil_lt_iff. Qed.
Print Assumptions C18_calendar_monotone.

Theorem C18_instant_monotone : forall y1 m1 d1 h1 i1 y2 m2 d2 h2 i2 off,
  valid_date y1 m1 d1 -> valid_time h1 i1 -> valid_date y2 m2 d2 -> valid_time h2 i2 ->
  (datetime_lt y1 m1 d1 h1 i1 y2 m2 d2 h2 i2 <->
   instant_minutes y1 m1 d1 h1 i1 off < instant_minutes y2 m2 d2 h2 i2 off).
Proof. exact instant_minutes_lt_iff. Qed.
Print Assumptions C18_instant_monotone.

(* the generated zone table: every offset is [+-]hhmm with hh <= 23 and mm <= 59; abbreviations are distinct *)
Theorem C18_table_ok : forall a offs z, In (a, offs) timezones -> In z offs ->
  exists sg h1 h2 m1 m2, z = [sg; h1; h2; m1; m2] /\ (sg = 43%N \/ sg = 45%N) /\
    is_d h1 = true /\ is_d h2 = true /\ is_d m1 = true /\ is_d m2 = true /\ num [h1; h2] <= 23 /\ num [m1; m2] <= 59.
Proof. exact timezones_ok. Qed.
Print Assumptions C18_table_ok.

Theorem C18_table_keys_distinct : keys_distinct timezones = true.
Proof. exact timezones_keys_distinct. Qed.
Print Assumptions C18_table_keys_distinct.

(* the generated instance satisfies every hypothesis used above *)
Theorem C18_real_env_ok : env_ok real_env.
Proof. exact real_env_ok. Qed.
Print Assumptions C18_real_env_ok.

(* ------------------------------------------------------------------ *)
(* Source tie (notes/SRC7.md).  Generated/DatesSrc.v is the statement-by-statement translation (tools/gen/gen_dates_src.py,
   regenerated on every run) of gettext.boilerplate_date, gettext.epoch, gettext.parse_date, gettext.fix_date_format and
   Checker.check_dates.  With the calls the translator leaves as oracles (str.strip, the two regexes, datetime.strptime,
   _timezones, utc_now, datetime comparison) instantiated by the model's scanners (model_oracles E now), every translated
   function EQUALS the model, for all arguments: exceptions (of_outcome), tags with their names and arguments (of_dtag).
   An edit of that Python code changes the generated text and these no longer compile. *)
Theorem C18_source_tie_constants :
  src_boilerplate_date = boilerplate_date /\ forall E now, src_epoch (model_oracles E now) = stamp_us epoch_stamp.
Proof. exact (conj src_boilerplate_date_eq src_epoch_stamp_eq). Qed.
Print Assumptions C18_source_tie_constants.

Theorem C18_source_tie_parse_date : forall E now s,
  src_parse_date (model_oracles E now) s = of_outcome stamp_us (parse_date s).
Proof. exact src_parse_date_eq. Qed.
Print Assumptions C18_source_tie_parse_date.

Theorem C18_source_tie_fix_date_format : forall E now s hint,
  src_fix_date_format (model_oracles E now) s hint = of_outcome (fun r => r) (fix_date E hint s).
Proof. exact src_fix_date_format_eq. Qed.
Print Assumptions C18_source_tie_fix_date_format.

(* `for date in dates:` for a field name f on which the two startswith tests answer as for PO-Revision-Date (is_po = true)
   or as for POT-Creation-Date (is_po = false) *)
Theorem C18_source_tie_date_loop : forall E now tmpl bin md pub f is_po dates, field_ok f is_po ->
  src_check_dates_loop2 (model_oracles E now) (ctx_of tmpl bin md) pub f dates
  = of_tags f (check_each E now (dctx_of tmpl bin pub) is_po dates).
Proof. exact src_check_dates_loop2_eq. Qed.
Print Assumptions C18_source_tie_date_loop.

(* one iteration of `for field in ...`: duplicate / missing (POT-Creation-Date of an MO file exempt) / the dates *)
Theorem C18_source_tie_field_loop : forall E now tmpl bin md pub f is_po fs, field_ok f is_po ->
  src_check_dates_loop1 (model_oracles E now) (ctx_of tmpl bin md) pub (f :: fs)
  = pseq (of_tags f (check_field E now (dctx_of tmpl bin pub) is_po (md f)))
         (src_check_dates_loop1 (model_oracles E now) (ctx_of tmpl bin md) pub fs).
Proof. exact src_check_dates_loop1_step. Qed.
Print Assumptions C18_source_tie_field_loop.

(* the whole method, for every ctx.metadata (md), ctx.is_template, ctx.is_binary and current time: the tags about
   POT-Creation-Date, then those about PO-Revision-Date *)
Theorem C18_source_tie_check_dates : forall E now tmpl bin md,
  src_check_dates (model_oracles E now) (ctx_of tmpl bin md)
  = of_both (check_dates E now tmpl bin (md f_ct) (md f_pot) (md f_po)).
Proof. exact src_check_dates_eq. Qed.
Print Assumptions C18_source_tie_check_dates.

(* ------------------------------------------------------------------ *)
(* non-vacuity *)
Definition str_2012 : list N := [50; 48; 49; 50; 45; 49; 49; 45; 48; 49]%N.                 (* 2012-11-01 *)
Definition ex_in : list N :=                                                                  (* " 2012-11-01T14:42:59 GMT+01:00\n" *)
  [32%N] ++ str_2012 ++ [84; 49; 52; 58; 52; 50; 58; 53; 57; 32; 71; 77; 84; 43; 48; 49; 58; 48; 48; 10]%N.
Definition ex_out : list N := str_2012 ++ [32; 49; 52; 58; 52; 50; 43; 48; 49; 48; 48]%N.  (* 2012-11-01 14:42+0100 *)

Example ex_fix : fix_date real_env None ex_in = Ok ex_out.
Proof. vm_compute. reflexivity. Qed.
Example ex_abbr : fix_date real_env None (str_2012 ++ [32; 49; 52; 58; 52; 50; 32; 67; 69; 84]%N) = Ok ex_out.   (* CET *)
Proof. vm_compute. reflexivity. Qed.
Example ex_ambiguous : fix_date real_env None (str_2012 ++ [32; 49; 52; 58; 52; 50; 32; 69; 83; 84]%N) = Err Invalid.   (* EST *)
Proof. vm_compute. reflexivity. Qed.
Example ex_feb30 : fix_date real_env None [50; 48; 49; 50; 45; 48; 50; 45; 51; 48; 32; 49; 52; 58; 52; 50; 43; 48; 49; 48; 48]%N = Err Invalid.
Proof. vm_compute. reflexivity. Qed.
Example ex_boilerplate : fix_date real_env None boilerplate_date = Err Boilerplate.
Proof. vm_compute. reflexivity. Qed.
Example ex_epoch : epoch_instant = 1049004000.
Proof. vm_compute. reflexivity. Qed.
(* 1995-07-01 23:59+0000 is ancient; one minute later it is not *)
Example ex_ancient :
  check_one real_env 0 {| is_template := false; is_binary := false; is_publican := false |} true
    [49; 57; 57; 53; 45; 48; 55; 45; 48; 49; 32; 50; 51; 58; 53; 57; 43; 48; 48; 48; 48]%N
  = Ok [TFuture [49; 57; 57; 53; 45; 48; 55; 45; 48; 49; 32; 50; 51; 58; 53; 57; 43; 48; 48; 48; 48]%N;
        TAncient [49; 57; 57; 53; 45; 48; 55; 45; 48; 49; 32; 50; 51; 58; 53; 57; 43; 48; 48; 48; 48]%N].
Proof. vm_compute. reflexivity. Qed.
Example ex_not_ancient :
  check_one real_env (1049004000 * 60000000) {| is_template := false; is_binary := false; is_publican := false |} true
    [49; 57; 57; 53; 45; 48; 55; 45; 48; 50; 32; 48; 48; 58; 48; 48; 43; 48; 48; 48; 48]%N = Ok [].
Proof. vm_compute. reflexivity. Qed.
(* the translated check_dates, run on an MO file's header with a PO-Revision-Date one minute before the epoch, at time 0 *)
Example ex_src_check_dates :
  src_check_dates (model_oracles real_env 0)
    (ctx_of false false (fun k => if list_eqb k f_po then [[49; 57; 57; 53; 45; 48; 55; 45; 48; 49; 32; 50; 51; 58; 53; 57; 43; 48; 48; 48; 48]%N] else []))
  = PRet [(t_nofield, [AStr f_pot]);
          (t_future, [ASafe (f_po ++ s_colon); AStr [49; 57; 57; 53; 45; 48; 55; 45; 48; 49; 32; 50; 51; 58; 53; 57; 43; 48; 48; 48; 48]%N]);
          (t_ancient, [ASafe (f_po ++ s_colon); AStr [49; 57; 57; 53; 45; 48; 55; 45; 48; 49; 32; 50; 51; 58; 53; 57; 43; 48; 48; 48; 48]%N])].
Proof. vm_compute. reflexivity. Qed.
Example ex_src_fix : src_fix_date_format (model_oracles real_env 0) ex_in None = PRet ex_out.
Proof. vm_compute. reflexivity. Qed.
Example ex_src_ambiguous :
  src_fix_date_format (model_oracles real_env 0) (str_2012 ++ [32; 49; 52; 58; 52; 50; 32; 69; 83; 84]%N) None = PRaise XDateSyntaxError.   (* EST *)
Proof. vm_compute. reflexivity. Qed.

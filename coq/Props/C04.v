(* C04 — Plural expressions are parsed and evaluated exactly as C/gettext would. *)
From Coq Require Import ZArith List.
From I18n Require Import Lib.Outcome Model.IntExpr Spec.CPlural Generated.PyConsts
  Proofs.Codomain Proofs.IntExprEval Proofs.IntExprParse.
Import ListNotations.
Local Open Scope Z_scope.

(* Parsing: whatever the parser model accepts is a sentence of the plural.y grammar, and the tree it
   builds is the one the %left/%right stratification of plural.y assigns (C precedence/associativity). *)
Theorem C04_parse_sound : forall maxd ts e, parse_tokens maxd ts = Ok e -> G 0 ts e.
Proof. exact parse_tokens_sound. Qed.
Print Assumptions C04_parse_sound.

(* Evaluation returns v iff v is the value of the ideal evaluation in which every evaluated constant,
   variable and intermediate result lies in [0, M) and no executed divisor is 0 (&& || ?: lazy). *)
Theorem C04_eval_value : forall M e n v, pyeval M e n = Ok v <-> InRange M n e v.
Proof. exact pyeval_iff. Qed.
Print Assumptions C04_eval_value.

(* ... and fails (overflow or division by zero) in exactly the remaining cases. *)
Theorem C04_eval_fails : forall M e n, (exists k, pyeval M e n = Err k) <-> ~ exists v, InRange M n e v.
Proof. exact pyeval_fails_iff. Qed.
Print Assumptions C04_eval_fails.

(* That value is the one C arithmetic on W-bit unsigned long yields, for every W with M <= 2^W. *)
Theorem C04_eval_agrees_C : forall M W n e v, 2 <= M -> M <= 2 ^ W -> InRange M n e v -> ceval W e n = Some v.
Proof. exact InRange_ceval. Qed.
Print Assumptions C04_eval_agrees_C.

Theorem C04_eval_agrees_C_32_64 : forall n e v, pyeval (2^32) e n = Ok v ->
  ceval 32 e n = Some v /\ ceval 64 e n = Some v.
Proof.
  exact (fun n e v H => conj
    (InRange_ceval (2^32) 32 n e v ltac:(vm_compute; discriminate) ltac:(vm_compute; discriminate) (pyeval_sound _ _ _ _ H))
    (InRange_ceval (2^32) 64 n e v ltac:(vm_compute; discriminate) ltac:(vm_compute; discriminate) (pyeval_sound _ _ _ _ H))).
Qed.
Print Assumptions C04_eval_agrees_C_32_64.

(* The evaluator fails only with its own two errors. *)
Theorem C04_eval_no_crash : forall M e n c, pyeval M e n <> Crash c.
Proof. exact pyeval_nocrash. Qed.
Print Assumptions C04_eval_no_crash.

(* The parser fails only with a syntax error: with the interpreter's digit limit as generated from the
   running interpreter after `import lib` (0 = unlimited), int() of a constant cannot raise. *)
Theorem C04_parse_no_value_error : forall s, parse_string int_max_str_digits s <> Crash CValueError.
Proof. exact (parse_string_no_value_error int_max_str_digits eq_refl). Qed.
Print Assumptions C04_parse_no_value_error.

(* Non-vacuity *)
Example C04_ex_parse :
  parse_string 0 [110;37;49;48;61;61;49;32;63;32;48;32;58;32;49]%N   (* "n%10==1 ? 0 : 1" *)
  = Ok (If (Cmp CEq (Bin Mod Var (Num 10)) (Num 1)) (Num 0) (Num 1)).
Proof. vm_compute. reflexivity. Qed.
Example C04_ex_assoc :   (* "n-1-2" is (n-1)-2 and "1?2:3?4:5" nests to the right *)
  parse_string 0 [110;45;49;45;50]%N = Ok (Bin Sub (Bin Sub Var (Num 1)) (Num 2)) /\
  parse_string 0 [49;63;50;58;51;63;52;58;53]%N = Ok (If (Num 1) (Num 2) (If (Num 3) (Num 4) (Num 5))).
Proof. vm_compute. split; reflexivity. Qed.
Example C04_ex_eval :
  pyeval (2^32) (Bin Add (Num 4294967295) (Num 1)) 0 = Err EOverflow /\
  pyeval (2^32) (And (Num 0) (Bin Div (Num 1) (Num 0))) 0 = Ok 0 /\
  pyeval (2^32) (Bin Div Var (Num 0)) 7 = Err EDivZero.
Proof. vm_compute. repeat split; reflexivity. Qed.
(* what the digit limit of CPython >= 3.11 did before the fix (D7): *)
Example C04_refuted_with_digit_limit :
  parse_string 4300 (repeat 49%N (N.to_nat 4301)) = Crash CValueError.
Proof. vm_compute. reflexivity. Qed.

(* C04 — Plural expressions are parsed and evaluated exactly as C/gettext would. *)
From Coq Require Import ZArith List.
From I18n Require Import Lib.Outcome Model.IntExpr Spec.CPlural Generated.PyConsts
  Proofs.Codomain Proofs.IntExprEval Proofs.IntExprParse Proofs.IntExprFuel Proofs.IntExprComplete
  Proofs.IntExprLex
  Lib.PySrc Generated.IntExprSrc Proofs.IntExprSrc Proofs.IntExprSrcEv.
Import ListNotations.
Local Open Scope Z_scope.

(* Parsing: whatever the parser model accepts is a sentence of the plural.y grammar, and the tree it
   builds is the one the %left/%right stratification of plural.y assigns (C precedence/associativity). *)
Theorem C04_parse_sound : forall maxd ts e, parse_tokens maxd ts = Ok e -> G 0 ts e.
Proof. exact parse_tokens_sound. Qed.
Print Assumptions C04_parse_sound.

(* ... and conversely every sentence of the grammar is accepted, with that tree, as long as no constant
   exceeds the interpreter's digit limit maxd (0 = no limit).  G's sentences contain no error token, so
   there is no side condition on TBad. *)
Theorem C04_parse_complete : forall maxd ts e, G 0 ts e ->
  (forall z d, In (TInt z d) ts -> max_digits_ok maxd d = true) -> parse_tokens maxd ts = Ok e.
Proof. exact parse_tokens_complete. Qed.
Print Assumptions C04_parse_complete.

Theorem C04_parse_iff : forall maxd ts e,
  (forall z d, In (TInt z d) ts -> max_digits_ok maxd d = true) ->
  (parse_tokens maxd ts = Ok e <-> G 0 ts e).
Proof. exact parse_tokens_iff. Qed.
Print Assumptions C04_parse_iff.

(* rejection is exact as well: a syntax error iff the token sequence is not a sentence *)
Theorem C04_parse_rejects : forall maxd ts,
  (forall z d, In (TInt z d) ts -> max_digits_ok maxd d = true) ->
  (parse_tokens maxd ts = Err SynErr <-> ~ exists e, G 0 ts e).
Proof. exact parse_tokens_rejects. Qed.
Print Assumptions C04_parse_rejects.

(* the stratified grammar assigns one tree to a sentence (C precedence and associativity leave no choice) *)
Theorem C04_grammar_unambiguous : forall ts e1 e2, G 0 ts e1 -> G 0 ts e2 -> e1 = e2.
Proof. exact G_unambiguous. Qed.
Print Assumptions C04_grammar_unambiguous.

(* The model's fuel (4*|ts|+4; 2*|ts|+2 is what the proof needs) never runs out: the only foreign
   exception the parser can raise is int()'s ValueError on an over-long constant, and none at all
   when every constant is within the digit limit. *)
Theorem C04_parse_fuel_sufficient : forall maxd ts, parse_tokens maxd ts <> Crash COutOfFuel.
Proof. exact parse_tokens_fuel. Qed.
Print Assumptions C04_parse_fuel_sufficient.

Theorem C04_parse_crash_kind : forall maxd ts c, parse_tokens maxd ts = Crash c -> c = CValueError.
Proof. exact parse_tokens_crash_kind. Qed.
Print Assumptions C04_parse_crash_kind.

Theorem C04_parse_tokens_no_crash : forall maxd ts c,
  (forall z d, In (TInt z d) ts -> max_digits_ok maxd d = true) -> parse_tokens maxd ts <> Crash c.
Proof. exact parse_tokens_no_crash. Qed.
Print Assumptions C04_parse_tokens_no_crash.

(* Lexing: the token stream of the model is the one plural.y's yylex (Spec/CPlural.v, transcribed from the
   C text) returns up to YYEOF at the end of the string; the model's stream carries the error token TBad
   exactly when yylex returns YYERRCODE or stops before the end (at ';', newline or NUL). *)
Theorem C04_lexer_spec : forall s ts, Yylex s ts [] <-> (lex None s = ts /\ ~ In TBad ts).
Proof. exact lex_spec. Qed.
Print Assumptions C04_lexer_spec.

(* Strings.  in_plural_language s: plural.y's lexer reads all of s without error and its grammar derives
   the tokens.  With the interpreter's digit limit as generated (0 = unlimited after `import lib`): *)
Theorem C04_accept_iff : forall s,
  (exists e, parse_string int_max_str_digits s = Ok e) <-> in_plural_language s.
Proof. exact (fun s => parse_string_accept_iff int_max_str_digits s (sdigits_ok_unlimited s)). Qed.
Print Assumptions C04_accept_iff.

(* ... and the tree returned is the (unique) tree plural.y's stratification gives *)
Theorem C04_tree_iff : forall s e, parse_string int_max_str_digits s = Ok e <-> plural_tree s e.
Proof. exact (fun s e => parse_string_tree int_max_str_digits s e (sdigits_ok_unlimited s)). Qed.
Print Assumptions C04_tree_iff.

Theorem C04_tree_unique : forall s e1 e2, plural_tree s e1 -> plural_tree s e2 -> e1 = e2.
Proof. exact plural_tree_unique. Qed.
Print Assumptions C04_tree_unique.

Theorem C04_reject_iff : forall s,
  parse_string int_max_str_digits s = Err SynErr <-> ~ in_plural_language s.
Proof. exact (fun s => parse_string_rejects int_max_str_digits s (digits_ok_unlimited (lex None s))). Qed.
Print Assumptions C04_reject_iff.

(* the same for any digit limit, under the side condition (stated on the specification's lexer) that no
   constant of the expression is longer than the limit *)
Theorem C04_accept_iff_limit : forall maxd s,
  (forall ts, Yylex s ts [] -> forall z d, In (TInt z d) ts -> max_digits_ok maxd d = true) ->
  ((exists e, parse_string maxd s = Ok e) <-> in_plural_language s).
Proof. exact parse_string_accept_iff. Qed.
Print Assumptions C04_accept_iff_limit.

(* plural.y stops reading at ';', newline and NUL and ignores what follows; the tool gets the expression
   already cut out of the header field and rejects such characters.  On all other strings "plural.y
   accepts" and "plural.y accepts having read everything" are the same thing. *)
Theorem C04_terminator_rejected : forall maxd s c e,
  In c s -> (c = 59 \/ c = 10 \/ c = 0)%N -> parse_string maxd s <> Ok e.
Proof. exact terminator_rejected. Qed.
Print Assumptions C04_terminator_rejected.

Theorem C04_no_terminator : forall s, no_terminator s -> (plural_y_accepts s <-> in_plural_language s).
Proof. exact plural_y_accepts_iff. Qed.
Print Assumptions C04_no_terminator.

(* The parser raises nothing but its own syntax error (D7 fixed: no digit limit). *)
Theorem C04_parse_no_crash : forall s c, parse_string int_max_str_digits s <> Crash c.
Proof. exact (fun s c => parse_string_no_crash int_max_str_digits s c (digits_ok_unlimited (lex None s))). Qed.
Print Assumptions C04_parse_no_crash.

(* Evaluation returns v iff v is the value of the ideal evaluation in which every evaluated constant,
   variable and intermediate result lies in [0, M) and no executed divisor is 0 (&& || ?: lazy). *)
Theorem C04_eval_value : forall M e n v, pyeval M e n = Ok v <-> InRange M n e v.
Proof. exact pyeval_iff. Qed.
Print Assumptions C04_eval_value.

(* ... and fails (overflow or division by zero) in exactly the remaining cases. *)
Theorem C04_eval_fails : forall M e n, (exists k, pyeval M e n = Err k) <-> ~ exists v, InRange M n e v.
Proof. exact pyeval_fails_iff. Qed.
Print Assumptions C04_eval_fails.

(* That value is the one C arithmetic on W-bit unsigned long yields, for every W with M <= 2^W. *)
Theorem C04_eval_agrees_C : forall M W n e v, 2 <= M -> M <= 2 ^ W -> InRange M n e v -> ceval W e n = Some v.
Proof. exact InRange_ceval. Qed.
Print Assumptions C04_eval_agrees_C.

Theorem C04_eval_agrees_C_32_64 : forall n e v, pyeval (2^32) e n = Ok v ->
  ceval 32 e n = Some v /\ ceval 64 e n = Some v.
Proof.
  exact (fun n e v H => conj
    (InRange_ceval (2^32) 32 n e v ltac:(vm_compute; discriminate) ltac:(vm_compute; discriminate) (pyeval_sound _ _ _ _ H))
    (InRange_ceval (2^32) 64 n e v ltac:(vm_compute; discriminate) ltac:(vm_compute; discriminate) (pyeval_sound _ _ _ _ H))).
Qed.
Print Assumptions C04_eval_agrees_C_32_64.

(* The evaluator fails only with its own two errors. *)
Theorem C04_eval_no_crash : forall M e n c, pyeval M e n <> Crash c.
Proof. exact pyeval_nocrash. Qed.
Print Assumptions C04_eval_no_crash.

(* The parser fails only with a syntax error: with the interpreter's digit limit as generated from the
   running interpreter after `import lib` (0 = unlimited), int() of a constant cannot raise. *)
Theorem C04_parse_no_value_error : forall s, parse_string int_max_str_digits s <> Crash CValueError.
Proof. exact (parse_string_no_value_error int_max_str_digits eq_refl). Qed.
Print Assumptions C04_parse_no_value_error.

(* ---- Source tie.  Generated/IntExprSrc.v is the statement-by-statement translation (tools/gen/gen_intexpr_src.py) of the
   methods of lib/intexpr.py, regenerated from the working tree on every run.  The translated methods of class Evaluator
   (and of BaseEvaluator) equal the evaluator model the theorems above are about, for all arguments. *)
Theorem C04_source_tie_check_overflow : forall M n, src_ev_check_overflow M n = of_eres (check_overflow M n).
Proof. exact src_ev_check_overflow_eq. Qed.
Print Assumptions C04_source_tie_check_overflow.

Theorem C04_source_tie_arith : forall M x y,
  src_ev_add M x y = of_eres (eval_bin M Add x y) /\ src_ev_sub M x y = of_eres (eval_bin M Sub x y) /\
  src_ev_mult M x y = of_eres (eval_bin M Mult x y) /\ src_ev_div x y = of_eres (eval_bin M Div x y) /\
  src_ev_mod x y = of_eres (eval_bin M Mod x y).
Proof. exact ev_tie_arith. Qed.
Print Assumptions C04_source_tie_arith.

Theorem C04_source_tie_compare : forall x y,
  src_ev_gte x y = SRet (eval_cmp CGe x y) /\ src_ev_gt x y = SRet (eval_cmp CGt x y) /\
  src_ev_lte x y = SRet (eval_cmp CLe x y) /\ src_ev_lt x y = SRet (eval_cmp CLt x y) /\
  src_ev_eq x y = SRet (eval_cmp CEq x y) /\ src_ev_noteq x y = SRet (eval_cmp CNe x y) /\
  src_ev_not x = SRet (b2z (x =? 0)).
Proof. exact ev_tie_compare. Qed.
Print Assumptions C04_source_tie_compare.

(* the loops of _visit_and / _visit_or (lazy: the second operand is visited only if needed) and _visit_ifexp, with
   self._visit = the model *)
Theorem C04_source_tie_and : forall M n a b, src_ev_and (ev_vis M n) [NE a; NE b] = of_eres (pyeval M (And a b) n).
Proof. exact src_ev_and_eq. Qed.
Print Assumptions C04_source_tie_and.
Theorem C04_source_tie_or : forall M n a b, src_ev_or (ev_vis M n) [NE a; NE b] = of_eres (pyeval M (Or a b) n).
Proof. exact src_ev_or_eq. Qed.
Print Assumptions C04_source_tie_or.
Theorem C04_source_tie_ifexp : forall M n c a b,
  src_ev_ifexp (ev_vis M n) (NE c) (NE a) (NE b) = of_eres (pyeval M (If c a b) n).
Proof. exact src_ev_ifexp_eq. Qed.
Print Assumptions C04_source_tie_ifexp.
Theorem C04_source_tie_leaves : forall M n z,
  src_ev_num M z = of_eres (pyeval M (Num z) n) /\ src_ev_name M n = of_eres (pyeval M Var n).
Proof. exact ev_tie_leaves. Qed.
Print Assumptions C04_source_tie_leaves.

(* one step of the visitor assembled from the translated BaseEvaluator methods (None / exception propagation, argument
   order) and the leaf methods, through the hand-written mirror ev_visit1/2/n of the getattr dispatch, is one step of pyeval *)
Theorem C04_source_tie_visitor : forall M n,
  (forall o a b, src_base_binop (ev_vis M n) (ev_visit2 M) (NE a) (NE b) (NBin o) = of_eres (pyeval M (Bin o a b) n)) /\
  (forall o a b, src_base_compare (ev_vis M n) (ev_visit2 M) [NE b] [NCmp o] (NE a) = of_eres (pyeval M (Cmp o a b) n)) /\
  (forall a, src_base_unaryop (ev_vis M n) ev_visit1 (NE a) NNot = of_eres (pyeval M (Not a) n)) /\
  (forall a b, src_base_boolop (ev_visitn M n) NAnd [NE a; NE b] = of_eres (pyeval M (And a b) n)) /\
  (forall a b, src_base_boolop (ev_visitn M n) NOr [NE a; NE b] = of_eres (pyeval M (Or a b) n)) /\
  (forall c a b, src_ev_ifexp (ev_vis M n) (NE c) (NE a) (NE b) = of_eres (pyeval M (If c a b) n)).
Proof. exact ev_tie_visitor. Qed.
Print Assumptions C04_source_tie_visitor.

(* the untranslated parts (constructors: max = 1 << bits; __call__, the getattr dispatch _visit, _visit_expr) still have
   the source text whose digest is recorded in the translator *)
Theorem C04_source_tie_untranslated_pinned : src_pin_base = true /\ src_pin_ev = true.
Proof. exact ev_pins. Qed.
Print Assumptions C04_source_tie_untranslated_pinned.

(* Non-vacuity *)
Example C04_ex_parse :
  parse_string 0 [110;37;49;48;61;61;49;32;63;32;48;32;58;32;49]%N   (* "n%10==1 ? 0 : 1" *)
  = Ok (If (Cmp CEq (Bin Mod Var (Num 10)) (Num 1)) (Num 0) (Num 1)).
Proof. vm_compute. reflexivity. Qed.
Example C04_ex_assoc :   (* "n-1-2" is (n-1)-2 and "1?2:3?4:5" nests to the right *)
  parse_string 0 [110;45;49;45;50]%N = Ok (Bin Sub (Bin Sub Var (Num 1)) (Num 2)) /\
  parse_string 0 [49;63;50;58;51;63;52;58;53]%N = Ok (If (Num 1) (Num 2) (If (Num 3) (Num 4) (Num 5))).
Proof. vm_compute. split; reflexivity. Qed.
Example C04_ex_eval :
  pyeval (2^32) (Bin Add (Num 4294967295) (Num 1)) 0 = Err EOverflow /\
  pyeval (2^32) (And (Num 0) (Bin Div (Num 1) (Num 0))) 0 = Ok 0 /\
  pyeval (2^32) (Bin Div Var (Num 0)) 7 = Err EDivZero.
Proof. vm_compute. repeat split; reflexivity. Qed.
(* lexer corner cases through the iff: "n%10==1 ? 0 : 1" is in the language; "n ! = 1", "n & 1", "n = 1",
   "n n", "n;" and the empty string are not *)
Example C04_ex_language :
  in_plural_language [110;37;49;48;61;61;49;32;63;32;48;32;58;32;49]%N /\
  ~ in_plural_language [110;32;33;32;61;32;49]%N /\
  ~ in_plural_language [110;32;38;32;49]%N /\
  ~ in_plural_language [110;32;61;32;49]%N /\
  ~ in_plural_language [110;32;110]%N /\
  ~ in_plural_language [110;59]%N /\
  ~ in_plural_language [].
Proof.
  repeat split; try (apply C04_reject_iff; vm_compute; reflexivity).
  apply C04_accept_iff. eexists. vm_compute. reflexivity.
Qed.
(* ... while plural.y itself, stopping at ';', accepts "n;" *)
Example C04_ex_terminator : plural_y_accepts [110;59]%N.
Proof.
  exists [TVar], [59%N], Var. split.
  - eapply Y_tok; [vm_compute; reflexivity|]. eapply Y_eof. vm_compute. reflexivity.
  - apply (G_mono 7); [constructor|]. repeat constructor.
Qed.
(* what the digit limit of CPython >= 3.11 did before the fix (D7): *)
Example C04_refuted_with_digit_limit :
  parse_string 4300 (repeat 49%N (N.to_nat 4301)) = Crash CValueError.
Proof. vm_compute. reflexivity. Qed.

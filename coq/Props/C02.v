(* C02 — One well-formed line per problem; file content cannot forge or corrupt output.
   U = str.isprintable of the running interpreter, as range tables regenerated on every run. *)
From Coq Require Import NArith List Bool.
From I18n Require Import Model.Tags Proofs.Tags Model.Terminal Proofs.Terminal
  Generated.UcdPrintable Generated.CallSites Generated.TagsData Generated.ToolMessages
  Lib.Outcome Lib.PySrc Model.TagsPy Generated.TagsSrc Proofs.TagsSrc.
Import ListNotations.
Local Open Scope N_scope.

Definition U : N -> bool := in_ranges printable_ranges.

(* facts about the generated Unicode tables (finite: by computation) *)
Theorem C02_ascii_printable : ascii_ok U.
Proof. exact (in_ranges_cover printable_ranges 32 126 ltac:(vm_compute; reflexivity)). Qed.
Print Assumptions C02_ascii_printable.

(* no control (Cc: C0, DEL, C1), format (Cf: e.g. U+200B..F, U+FEFF, U+00AD), line/paragraph separator
   (Zl, Zp) or surrogate code point is printable *)
Theorem C02_hostile_not_printable : forall c, in_ranges hostile_ranges c = true -> U c = false.
Proof. exact (ranges_disjoint hostile_ranges printable_ranges ltac:(vm_compute; reflexivity)). Qed.
Print Assumptions C02_hostile_not_printable.

(* Text that is not wrapped in safestr reaches the output only in escaped form, which consists of
   printable characters only — for every string / byte string whatsoever. *)
Theorem C02_escape_clean : forall a, arg_escaped a -> clean U (escape U a).
Proof. exact (fun a => escape_clean U a C02_ascii_printable). Qed.
Print Assumptions C02_escape_clean.

(* Hence an output line built from a clean path, a registered tag name and arguments that are either
   escaped or clean verbatim text is clean: it contains no newline, ESC, C0/C1 control, DEL, or format
   character — so one tag() call is exactly one line. *)
Theorem C02_line_clean : forall prio target name on off extra,
  U prio = true -> clean U target -> clean U name -> clean U on -> clean U off ->
  Forall (arg_clean U) extra ->
  clean U (format_line U prio target name on off extra).
Proof. exact (fun prio target name on off extra => format_line_clean U prio target name on off extra C02_ascii_printable). Qed.
Print Assumptions C02_line_clean.

Theorem C02_clean_has_no_hostile_character : forall s c, clean U s -> in_ranges hostile_ranges c = true -> ~ In c s.
Proof. exact (fun s c Hs Hc => clean_excludes U s c Hs (C02_hostile_not_printable c Hc)). Qed.
Print Assumptions C02_clean_has_no_hostile_character.

(* Every verbatim argument in the checker's source (regenerated from the python ast on every run) is built
   from printable-ASCII literals and whitelisted tool-generated values only: no call site is PTainted ... *)
Theorem C02_callsites : forallb (fun x => prov_ok (snd x)) verbatim_sites = true.
Proof. vm_compute. reflexivity. Qed.
Print Assumptions C02_callsites.

(* ... so its value is clean whenever the trusted leaves are (the harness checks the leaves dynamically). *)
Theorem C02_callsite_values_clean : forall p v, prov_ok p = true -> prov_val U p v -> clean U v.
Proof. exact (prov_ok_sound U C02_ascii_printable). Qed.
Print Assumptions C02_callsite_values_clean.

(* the messages of the tool's own exception classes that reach safestr are printable ASCII *)
Theorem C02_tool_messages_clean : forallb (forallb ascii_printable) tool_messages = true.
Proof. vm_compute. reflexivity. Qed.
Print Assumptions C02_tool_messages_clean.

(* every tag name used at a call site is defined in the registry, and registry names are printable ASCII *)
Theorem C02_tags_defined :
  forallb (fun t => existsb (fun row => list_eqb t (fst (fst row))) tag_table) used_tag_names = true /\
  forallb (fun row => forallb ascii_printable (fst (fst row))) tag_table = true.
Proof. vm_compute. split; reflexivity. Qed.
Print Assumptions C02_tags_defined.

(* the letter is the one the property's table gives, monotone in severity and certainty *)
Theorem C02_priority_table :
  map (fun sc => priority (fst sc) (snd sc))
      [(Pedantic, WildGuess); (Pedantic, Possible); (Pedantic, Certain);
       (Wishlist, WildGuess); (Wishlist, Possible); (Wishlist, Certain);
       (Minor, WildGuess); (Minor, Possible); (Minor, Certain);
       (Normal, WildGuess); (Normal, Possible); (Normal, Certain);
       (Important, WildGuess); (Important, Possible); (Important, Certain);
       (Serious, WildGuess); (Serious, Possible); (Serious, Certain)]
  = [80;80;80; 73;73;73; 73;73;87; 73;87;87; 87;69;69; 69;69;69].
Proof. exact priority_table. Qed.
Print Assumptions C02_priority_table.

Theorem C02_priority_monotone : forall s1 s2 c1 c2,
  sev_rank s1 <= sev_rank s2 -> cer_rank c1 <= cer_rank c2 ->
  prio_rank (priority s1 c1) <= prio_rank (priority s2 c2).
Proof. exact priority_monotone. Qed.
Print Assumptions C02_priority_monotone.

(* with colour: the same line with the two SGR strings inserted around the tag name *)
Theorem C02_colour_strip : forall prio target name on off extra,
  exists pre suf,
    format_line U prio target name [] [] extra = pre ++ name ++ suf /\
    format_line U prio target name on off extra = pre ++ on ++ name ++ off ++ suf.
Proof. exact (colour_structure U). Qed.
Print Assumptions C02_colour_strip.

(* the two SGR strings come from the terminal description: lib/terminal.py removes terminfo(5) padding
   ("$<" number [*][/] ">") from the sgr0 / setaf capabilities.  For a capability written as plain text (without "$")
   interleaved with padding specifications, what reaches the output is exactly the plain text: no "$<..>" survives. *)
Theorem C02_padding_removed : forall gs, Forall seg_wf gs -> strip_delay (render gs) = plains gs.
Proof. exact strip_delay_render. Qed.
Print Assumptions C02_padding_removed.

Theorem C02_attr_reset_no_padding : forall gs, Forall seg_wf gs -> attr_reset (Some (render gs)) = plains gs.
Proof. exact attr_reset_render. Qed.
Print Assumptions C02_attr_reset_no_padding.

Theorem C02_attr_fg_no_padding : forall gs tparm, Forall seg_wf gs ->
  attr_fg (Some (render gs)) tparm = match plains gs with [] => [] | s => tparm s end.
Proof. exact attr_fg_render. Qed.
Print Assumptions C02_attr_fg_no_padding.

(* nothing but whole spans is ever removed: the result is a subsequence of the capability; text without "$" is untouched *)
Theorem C02_strip_delay_subsequence : forall s, subseq (strip_delay s) s.
Proof. exact strip_delay_subseq. Qed.
Print Assumptions C02_strip_delay_subsequence.

Theorem C02_strip_delay_plain : forall p, ~ In c_dollar p -> strip_delay p = p.
Proof. exact strip_delay_plain_id. Qed.
Print Assumptions C02_strip_delay_plain.

(* ---- source tie (notes/SRC5.md).  Generated/TagsSrc.v is the translation, made on every run by tools/gen/gen_tags_src.py, of
   lib/tags.py (OrderedEnum, severities, certainties, _is_safe, _escape, safe_format, Tag.get_priority, Tag.get_colors, Tag.format)
   and lib/terminal.py (attr_fg, attr_reset).  Each translated definition equals the model the theorems above are about, for all
   arguments and all oracles (repr() as modelled by repr_str U / repr_bytes_tail; str.format, the curses calls, bytes.decode and
   terminal.colors arbitrary).  A behavioural edit of that Python code changes the generated text and these no longer compile. *)
Theorem C02_source_tie_enums :
  src_severities = map sev_name all_severities /\ src_certainties = map cer_name all_certainties /\
  map sev_rank all_severities = [1; 2; 3; 4; 5; 6] /\ map cer_rank all_certainties = [1; 2; 3].
Proof. exact src_enums_eq. Qed.
Print Assumptions C02_source_tie_enums.

Theorem C02_source_tie_enum_order : forall a b, src_enum_lt a b = (a <? b) /\ src_enum_eq a b = (a =? b).
Proof. exact src_enum_order_eq. Qed.
Print Assumptions C02_source_tie_enum_order.

Theorem C02_source_tie_is_safe : forall s, src_is_safe s = is_safe s.
Proof. exact src_is_safe_eq. Qed.
Print Assumptions C02_source_tie_is_safe.

Theorem C02_source_tie_escape : forall a, src_escape (repr_str U) repr_bytes_full a = SRet (escape U a).
Proof. exact (src_escape_eq U). Qed.
Print Assumptions C02_source_tie_escape.

Theorem C02_source_tie_safe_format : forall fmt t args kw,
  src_safe_format (repr_str U) repr_bytes_full fmt t args kw = sbind1 (safe_format U fmt t args kw) (fun r => SRet (ASafe r)).
Proof. exact (src_safe_format_eq U). Qed.
Print Assumptions C02_source_tie_safe_format.

Theorem C02_source_tie_priority : forall s c, src_get_priority (sev_rank s) (cer_rank c) = SRet [priority s c].
Proof. exact src_get_priority_eq. Qed.
Print Assumptions C02_source_tie_priority.

Theorem C02_source_tie_attr_reset : forall tigetstr decode,
  src_attr_reset tigetstr strip_delay decode = sbind1 (decode (attr_reset (tigetstr sgr0_name))) (fun t => SRet t).
Proof. exact src_attr_reset_eq. Qed.
Print Assumptions C02_source_tie_attr_reset.

Theorem C02_source_tie_attr_fg : forall (C : Type) tigetstr (tparm : list N -> C -> list N) decode i,
  src_attr_fg tigetstr strip_delay tparm decode i = sbind1 (decode (attr_fg (tigetstr setaf_name) (fun s => tparm s i))) (fun t => SRet t).
Proof. exact (@src_attr_fg_eq). Qed.
Print Assumptions C02_source_tie_attr_fg.

Theorem C02_source_tie_colors : forall (C : Type) tigetstr (tparm : list N -> C -> list N) decode colors s c,
  src_get_colors tigetstr strip_delay tparm decode colors (sev_rank s) (cer_rank c) = model_colors tigetstr tparm decode colors (priority s c).
Proof. exact (@src_get_colors_eq). Qed.
Print Assumptions C02_source_tie_colors.

(* Tag.format: the model's line, with the two colour strings of get_colors when colour is on and empty ones otherwise *)
Theorem C02_source_tie_format : forall (C : Type) tigetstr (tparm : list N -> C -> list N) decode colors s c name target extra color,
  src_format (repr_str U) repr_bytes_full tigetstr strip_delay tparm decode colors (sev_rank s) (cer_rank c) name target extra color
  = sbind1 (if color then model_colors tigetstr tparm decode colors (priority s c) else SRet ([], []))
           (fun p => SRet (format_line U (priority s c) target name (fst p) (snd p) extra)).
Proof. exact (fun C => @src_format_eq C U). Qed.
Print Assumptions C02_source_tie_format.

(* what the CLI does when stdout is no terminal: color=True with the dummy curses (tigetstr = b'', and b''.decode() = '') *)
Theorem C02_source_tie_format_no_tty : forall (C : Type) (tparm : list N -> C -> list N) decode colors s c name target extra,
  decode [] = SRet [] ->
  src_format (repr_str U) repr_bytes_full (fun _ => Some []) strip_delay tparm decode colors (sev_rank s) (cer_rank c) name target extra true
  = SRet (format_line U (priority s c) target name [] [] extra).
Proof. exact (fun C => @src_format_no_tty C U). Qed.
Print Assumptions C02_source_tie_format_no_tty.

(* so the translated code itself yields clean text: the line of Tag.format (colour off), and whatever safe_format gives str.format *)
Theorem C02_source_format_clean : forall (C : Type) tigetstr (tparm : list N -> C -> list N) decode colors s c name target extra,
  clean U target -> clean U name -> Forall (arg_clean U) extra ->
  exists line,
    src_format (repr_str U) repr_bytes_full tigetstr strip_delay tparm decode colors (sev_rank s) (cer_rank c) name target extra false = SRet line
    /\ clean U line.
Proof. exact (fun C tig tparm dec colors s c name target extra => @src_format_clean C U tig tparm dec colors s c name target extra C02_ascii_printable). Qed.
Print Assumptions C02_source_format_clean.

Theorem C02_source_safe_format_clean : forall t args kw,
  Forall (arg_clean U) args -> Forall (fun kv => arg_clean U (snd kv)) kw ->
  forall fmt, exists a' kw',
    src_safe_format (repr_str U) repr_bytes_full fmt t args kw = sbind1 (fmt t a' kw') (fun r => SRet (ASafe r))
    /\ Forall (clean U) a' /\ Forall (fun kv => clean U (snd kv)) kw'.
Proof. exact (fun t args kw => src_safe_format_clean U t args kw C02_ascii_printable). Qed.
Print Assumptions C02_source_safe_format_clean.

(* non-vacuity: the translated _escape and Tag.format computed on hostile input (isprintable = the generated table) *)
Example C02_src_ex :
  src_escape (repr_str U) repr_bytes_full (AStr [97;10;27;91;51;49;109]) = SRet [39;97;92;110;92;120;49;98;91;51;49;109;39] /\
  src_escape (repr_str U) repr_bytes_full (ABytes [255;39]) = SRet [34;92;120;102;102;39;34] /\
  src_format (C := N) (repr_str U) repr_bytes_full (fun _ => None) strip_delay (fun s _ => s) (fun s => SRet s) (fun _ => 0)
    (sev_rank Important) (cer_rank Possible) [116] [97;46;112;111] [AStr [120;32;121]; ASafe [40;122;41]; AStr []] false
  = SRet [69;58;32;97;46;112;111;58;32;116;32;39;120;32;121;39;32;40;122;41;32;40;101;109;112;116;121;32;115;116;114;105;110;103;41] /\
  src_get_priority 7 1 = SRaise (XCrash CKeyError).
Proof. vm_compute. repeat split; reflexivity. Qed.

(* sgr0 = \E[0m$<20>  and  setaf = \E[3%p1%dm$<10*/>  (multi-digit delays, both suffixes) *)
Example C02_ex_padding :
  strip_delay [27;91;48;109;36;60;50;48;62] = [27;91;48;109] /\
  strip_delay [27;91;51;37;112;49;37;100;109;36;60;49;48;42;47;62] = [27;91;51;37;112;49;37;100;109] /\
  strip_delay [36;60;46;53;62;120;36;60;49;50;46;51;47;62] = [120] /\
  strip_delay [36;60;62;36;60;120;62;36;60;53;47;42;62] = [36;60;62;36;60;120;62;36;60;53;47;42;62].
Proof. vm_compute. repeat split; reflexivity. Qed.
Example C02_ex_padding_wf :
  Forall seg_wf [Plain [27;91;48;109]; Pad [50;48] None []; Pad [] (Some [53]) [c_star; c_slash]] /\
  render [Plain [27;91;48;109]; Pad [50;48] None []] = [27;91;48;109;36;60;50;48;62].
Proof.
  split; [|reflexivity]. repeat constructor; cbn; try (intros [H|H]; [discriminate H|]; revert H);
    try (unfold suffix_spec; auto); try discriminate; intuition discriminate.
Qed.

(* non-vacuity *)
Example C02_ex_hostile :   (* AStr "a\n\x1b[31mE: x" is escaped to 'a\n\x1b[31mE: x' *)
  escape U (AStr [97;10;27;91;51;49;109;69;58;32;120])
  = [39;97;92;110;92;120;49;98;91;51;49;109;69;58;32;120;39].
Proof. vm_compute. reflexivity. Qed.
Example C02_ex_tables : U 10 = false /\ U 27 = false /\ U 127 = false /\ U 133 = false /\ U 8203 = false /\ U 65279 = false
  /\ U 8232 = false /\ U 233 = true /\ in_ranges hostile_ranges 27 = true /\ in_ranges hostile_ranges 8206 = true.
Proof. vm_compute. repeat split; reflexivity. Qed.

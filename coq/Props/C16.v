(* C16 — message-level diagnostics match the documented conditions.
   Model: Model/Messages.v; documented predicates: Spec/Messages.v.
   Every theorem is about ALL catalogs (lists of entries), all configurations and all oracles. *)
From Coq Require Import List NArith ZArith Bool.
From Coq Require Import Sorted.
From I18n Require Import Lib.Outcome Model.Messages Spec.Messages Proofs.MessagesLib Proofs.MessagesFlags Proofs.Messages
  Proofs.MessagesScan Proofs.MessagesUnusual Proofs.MessagesMore Proofs.MessagesFormats Proofs.MessagesClean
  Model.MessagesPy Proofs.MessagesSrcFlags Proofs.MessagesSrc
  Generated.StringFormats Generated.ControlChars Generated.PyConsts Generated.MessagesSrc.
Import ListNotations.
Local Open Scope N_scope.

(* duplicate-message-definition: at position j iff the msg_entry there is a message whose (msgid, msgctxt) was defined
   by exactly one earlier message: the report is made at the SECOND definition ... *)
Theorem C16_duplicate_iff : forall cfg cat ds j, check_messages cfg cat = Ok ds ->
  (In (AtMsg j MDuplicateDef) ds <->
   exists e, nth_error cat j = Some e /\ live e = true /\ earlier_definitions cat j e = 1%nat).
Proof. exact duplicate_iff. Qed.
Print Assumptions C16_duplicate_iff.

(* ... and therefore once per message, however many definitions follow *)
Theorem C16_duplicate_once : forall cfg cat ds i j e1 e2, check_messages cfg cat = Ok ds ->
  In (AtMsg i MDuplicateDef) ds -> In (AtMsg j MDuplicateDef) ds ->
  nth_error cat i = Some e1 -> nth_error cat j = Some e2 -> key_of e1 = key_of e2 -> i = j.
Proof. exact duplicate_once. Qed.
Print Assumptions C16_duplicate_once.

(* empty-file iff there is no non-header, non-obsolete message, and the file is not an MO file with possibly hidden strings *)
Theorem C16_empty_file_iff : forall cfg cat ds, check_messages cfg cat = Ok ds ->
  (In EmptyFile ds <-> (forall e, In e cat -> live e = false) /\ ~ (c_binary cfg = true /\ c_hidden cfg = true)).
Proof. exact empty_file_iff. Qed.
Print Assumptions C16_empty_file_iff.

(* translation-in-template, stray-previous-msgid, inconsistent-leading/trailing-newlines, conflict-marker-in-translation,
   partially-translated-message, duplicate-message-definition: one statement, the rule per tag is [simple_rule]
   (written with the predicates of Spec/Messages.v) *)
Theorem C16_simple_tags_iff : forall cfg cat ds j d, check_messages cfg cat = Ok ds -> is_simple d = true ->
  (In (AtMsg j d) ds <-> exists e, nth_error cat j = Some e /\ live e = true /\ simple_rule cfg (seen_at [] cat j) e d).
Proof. exact simple_tag_iff. Qed.
Print Assumptions C16_simple_tags_iff.

(* the instances, spelled out *)
Theorem C16_translation_in_template_iff : forall cfg cat ds j, check_messages cfg cat = Ok ds ->
  (In (AtMsg j MTranslationInTemplate) ds <->
   exists e, nth_error cat j = Some e /\ live e = true /\ c_template cfg = true /\ translated e).
Proof. exact (fun cfg cat ds j H => simple_tag_iff cfg cat ds j MTranslationInTemplate H eq_refl). Qed.
Print Assumptions C16_translation_in_template_iff.

Theorem C16_stray_previous_msgid_iff : forall cfg cat ds j, check_messages cfg cat = Ok ds ->
  (In (AtMsg j MStrayPrevious) ds <->
   exists e, nth_error cat j = Some e /\ live e = true /\ me_previous e = true /\ ~ fuzzy e).
Proof. exact (fun cfg cat ds j H => simple_tag_iff cfg cat ds j MStrayPrevious H eq_refl). Qed.
Print Assumptions C16_stray_previous_msgid_iff.

Theorem C16_leading_newlines_iff : forall cfg cat ds j, check_messages cfg cat = Ok ds ->
  (In (AtMsg j MLeadingNL) ds <->
   exists e, nth_error cat j = Some e /\ live e = true /\
     exists s, considered e s /\ ~ (leading_nl s <-> leading_nl (me_msgid e))).
Proof. exact (fun cfg cat ds j H => simple_tag_iff cfg cat ds j MLeadingNL H eq_refl). Qed.
Print Assumptions C16_leading_newlines_iff.

Theorem C16_trailing_newlines_iff : forall cfg cat ds j, check_messages cfg cat = Ok ds ->
  (In (AtMsg j MTrailingNL) ds <->
   exists e, nth_error cat j = Some e /\ live e = true /\
     exists s, considered e s /\ ~ (trailing_nl s <-> trailing_nl (me_msgid e))).
Proof. exact (fun cfg cat ds j H => simple_tag_iff cfg cat ds j MTrailingNL H eq_refl). Qed.
Print Assumptions C16_trailing_newlines_iff.

Theorem C16_partially_translated_iff : forall cfg cat ds j, check_messages cfg cat = Ok ds ->
  (In (AtMsg j MPartial) ds <->
   exists e, nth_error cat j = Some e /\ live e = true /\ ~ fuzzy e /\ partially_translated e).
Proof. exact (fun cfg cat ds j H => simple_tag_iff cfg cat ds j MPartial H eq_refl). Qed.
Print Assumptions C16_partially_translated_iff.

Theorem C16_conflict_marker_iff : forall cfg cat ds j m, check_messages cfg cat = Ok ds ->
  (In (AtMsg j (MConflictMarker m)) ds <->
   exists e, nth_error cat j = Some e /\ live e = true /\ ~ fuzzy e /\ first_marker (tr_strings e) = Some m).
Proof. exact (fun cfg cat ds j m H => simple_tag_iff cfg cat ds j (MConflictMarker m) H eq_refl). Qed.
Print Assumptions C16_conflict_marker_iff.

(* the strings searched are exactly the documented translations *)
Theorem C16_translations : forall e s, In s (tr_strings e) <-> translation e s.
Proof. exact tr_strings_In. Qed.
Print Assumptions C16_translations.

(* flag rules: a flag tag at position j is exactly a tag of the flag analysis of that msg_entry's flag list ... *)
Theorem C16_flag_tags_local : forall cfg cat ds j d, check_messages cfg cat = Ok ds -> is_flag_tag d = true ->
  (In (AtMsg j d) ds <-> exists e fd info, nth_error cat j = Some e /\ live e = true
       /\ check_flags cfg (hp_of e) (me_flags e) = Ok (fd, info) /\ In d fd).
Proof. exact flag_tag_iff. Qed.
Print Assumptions C16_flag_tags_local.

(* ... and each one has its rule *)
Theorem C16_unknown_flag_iff : forall cfg cat ds j f, check_messages cfg cat = Ok ds ->
  (In (AtMsg j (MUnknownFlag f)) ds <-> exists e, nth_error cat j = Some e /\ live e = true
     /\ In f (me_flags e) /\ (classify cfg f = Ok (FFormat None) \/ classify cfg f = Ok FOther)).
Proof. exact unknown_flag_iff. Qed.
Print Assumptions C16_unknown_flag_iff.

Theorem C16_invalid_range_flag_iff : forall cfg cat ds j f, check_messages cfg cat = Ok ds ->
  (In (AtMsg j (MInvalidRange f)) ds <-> exists e, nth_error cat j = Some e /\ live e = true
     /\ In f (me_flags e) /\ classify cfg f = Ok (FRange None)).
Proof. exact invalid_range_iff. Qed.
Print Assumptions C16_invalid_range_flag_iff.

Theorem C16_range_flag_without_plural_iff : forall cfg cat ds j, check_messages cfg cat = Ok ds ->
  (In (AtMsg j MRangeNoPlural) ds <-> exists e, nth_error cat j = Some e /\ live e = true
     /\ hp_of e = false /\ exists f r, In f (me_flags e) /\ classify cfg f = Ok (FRange r)).
Proof. exact range_no_plural_iff. Qed.
Print Assumptions C16_range_flag_without_plural_iff.

Theorem C16_duplicate_flag_iff : forall cfg cat ds j f, check_messages cfg cat = Ok ds ->
  (In (AtMsg j (MDupFlag f)) ds <-> exists e, nth_error cat j = Some e /\ live e = true /\
     ((In f (me_flags e) /\ (1 < count_str f (me_flags e))%nat /\ f <> [] /\ (forall r, classify cfg f <> Ok (FRange (Some r))))
      \/ (exists items k, classify_all cfg (counter_sorted (me_flags e)) = Ok items
            /\ sort_dedup zz_compare (map fst (range_rows items)) = [k] /\ (1 < sum_n (range_rows items))%nat
            /\ f = str_min (flags_of_key (range_rows items) k)))).
Proof. exact duplicate_flag_iff. Qed.
Print Assumptions C16_duplicate_flag_iff.

Theorem C16_conflicting_flags_iff : forall cfg cat ds j a b, check_messages cfg cat = Ok ds ->
  (In (AtMsg j (MConflictFlags a b)) ds <-> exists e, nth_error cat j = Some e /\ live e = true /\
    ((a = s_wrap /\ b = s_no_wrap /\ In s_wrap (me_flags e) /\ In s_no_wrap (me_flags e))
    \/ (exists items k1 k2 rest, classify_all cfg (counter_sorted (me_flags e)) = Ok items
          /\ sort_dedup zz_compare (map fst (range_rows items)) = k1 :: k2 :: rest
          /\ a = str_min (flags_of_key (range_rows items) k1) /\ b = str_min (flags_of_key (range_rows items) k2))
    \/ (exists items k1 k2, classify_all cfg (counter_sorted (me_flags e)) = Ok items
          /\ dget k1 (fmt_dict TpPos items) = Some a /\ dget k2 (fmt_dict TpPos items) = Some b
          /\ str_ltb k1 k2 = true /\ compatible (c_formats cfg) k1 k2 = false)
    \/ (exists items k tp1 tp2, classify_all cfg (counter_sorted (me_flags e)) = Ok items
          /\ ((tp1 = TpPos /\ tp2 = TpNo) \/ (tp1 = TpPos /\ tp2 = TpImpossible) \/ (tp1 = TpPossible /\ tp2 = TpImpossible))
          /\ dget k (fmt_dict tp1 items) = Some a /\ dget k (fmt_dict tp2 items) = Some b))).
Proof. exact conflicting_flags_iff. Qed.
Print Assumptions C16_conflicting_flags_iff.

Theorem C16_redundant_flag_iff : forall cfg cat ds j p q, check_messages cfg cat = Ok ds ->
  (In (AtMsg j (MRedundantFlag p q)) ds <-> exists e, nth_error cat j = Some e /\ live e = true /\
     exists items k, classify_all cfg (counter_sorted (me_flags e)) = Ok items
       /\ dget k (fmt_dict TpPos items) = Some q /\ dget k (fmt_dict TpPossible items) = Some p).
Proof. exact redundant_flag_iff. Qed.
Print Assumptions C16_redundant_flag_iff.

(* reading aids for the statements above: the range rows and the format dictionaries in terms of the flag list,
   "the two smallest keys", "the least spelling" *)
Theorem C16_range_rows : forall cfg F items r f n, classify_all cfg (counter_sorted F) = Ok items ->
  (In (r, (f, n)) (range_rows items) <-> In f F /\ n = count_str f F /\ classify cfg f = Ok (FRange (Some r))).
Proof. exact range_row_iff. Qed.
Print Assumptions C16_range_rows.
Theorem C16_format_dict_sound : forall cfg F items tp name flag, classify_all cfg (counter_sorted F) = Ok items ->
  dget name (fmt_dict tp items) = Some flag -> In flag F /\ classify cfg flag = Ok (FFormat (Some (tp, name))).
Proof. exact format_dict_sound. Qed.
Print Assumptions C16_format_dict_sound.
Theorem C16_format_dict_complete : forall cfg F items tp name flag, classify_all cfg (counter_sorted F) = Ok items ->
  In flag F -> classify cfg flag = Ok (FFormat (Some (tp, name))) -> exists flag', dget name (fmt_dict tp items) = Some flag'.
Proof. exact format_dict_complete. Qed.
Print Assumptions C16_format_dict_complete.
Theorem C16_two_smallest_ranges : forall (rows : list ((Z * Z) * (list N * nat))) k1 k2 rest,
  sort_dedup zz_compare (map fst rows) = k1 :: k2 :: rest ->
  In k1 (map fst rows) /\ In k2 (map fst rows) /\ zz_compare k1 k2 = Lt
  /\ forall k, In k (map fst rows) -> k = k1 \/ k = k2 \/ zz_compare k2 k = Lt.
Proof. exact keys_two_smallest. Qed.
Print Assumptions C16_two_smallest_ranges.
Theorem C16_single_range : forall (rows : list ((Z * Z) * (list N * nat))) k,
  sort_dedup zz_compare (map fst rows) = [k] -> forall r, In r rows -> fst r = k.
Proof. exact keys_single. Qed.
Print Assumptions C16_single_range.
Theorem C16_least_spelling : forall l, l <> [] -> In (str_min l) l /\ forall x, In x l -> str_compare (str_min l) x <> Gt.
Proof. exact str_min_spec. Qed.
Print Assumptions C16_least_spelling.

(* fuzzy is what the documentation calls fuzzy: the flag "fuzzy" occurs in the list *)
Theorem C16_fuzzy_flag : forall cfg hp F ds info, check_flags cfg hp F = Ok (ds, info) -> (fi_fuzzy info = true <-> In s_fuzzy F).
Proof. exact flags_fuzzy_iff. Qed.
Print Assumptions C16_fuzzy_flag.

(* malformed-xml only for strings that expat rejects, only on entries carrying the po4a comment, never for the
   translation of a fuzzy message; a malformed msgid is reported for templates only *)
Theorem C16_malformed_xml_sound : forall cfg cat ds j m, check_messages cfg cat = Ok ds -> In (AtMsg j (MMalformedXml m)) ds ->
  exists e, nth_error cat j = Some e /\ live e = true /\ xml_trigger (me_comment e) = true /\ c_encoding cfg = true
    /\ ((c_xml cfg (me_msgid e) = Some m /\ c_template cfg = true)
        \/ (c_xml cfg (me_msgid e) = None /\ ~ fuzzy e /\ me_msgstr e <> [] /\ c_xml cfg (me_msgstr e) = Some m)).
Proof. exact malformed_xml_sound. Qed.
Print Assumptions C16_malformed_xml_sound.

(* unusual-character-in-translation: every character named is unusual in a translation of that msg_entry and is not
   explained by msgid / msgid_plural *)
Theorem C16_unusual_character_sound : forall cfg cat ds j cs, check_messages cfg cat = Ok ds -> In (AtMsg j (MUnusual cs)) ds ->
  exists e, nth_error cat j = Some e /\ live e = true /\ c_encoding cfg = true /\ cs <> []
    /\ forall c, In c cs ->
         (exists s, translation e s /\ In c (find_unusual (c_isword cfg) s))
         /\ ~ In c (find_unusual (c_isword cfg) (me_msgid e))
         /\ ~ In c (find_unusual (c_isword cfg) (match me_plural e with Some p => p | None => [] end)).
Proof. exact unusual_sound. Qed.
Print Assumptions C16_unusual_character_sound.

(* obsolete entries and the header msg_entry are exempt from everything; fuzzy messages are exempt from stray-previous-msgid,
   partially-translated-message, conflict markers, the translation half of the newline and XML checks - and from nothing else
   (the iff theorems above for the other tags do not mention fuzzy) *)
Theorem C16_obsolete_and_header_exempt : forall cfg cat ds j d e, check_messages cfg cat = Ok ds -> nth_error cat j = Some e ->
  live e = false -> ~ In (AtMsg j d) ds.
Proof. exact dead_entries_silent. Qed.
Print Assumptions C16_obsolete_and_header_exempt.

Theorem C16_fuzzy_obsolete_exemptions : forall cfg cat ds j e d, check_messages cfg cat = Ok ds -> nth_error cat j = Some e -> fuzzy e ->
  In (AtMsg j d) ds ->
  d <> MStrayPrevious /\ d <> MPartial /\ (forall m, d <> MConflictMarker m)
  /\ (d = MLeadingNL -> exists p, me_plural e = Some p /\ ~ (leading_nl p <-> leading_nl (me_msgid e)))
  /\ (d = MTrailingNL -> exists p, me_plural e = Some p /\ ~ (trailing_nl p <-> trailing_nl (me_msgid e)))
  /\ (forall m, d = MMalformedXml m -> c_template cfg = true /\ c_xml cfg (me_msgid e) = Some m).
Proof. exact fuzzy_exemptions. Qed.
Print Assumptions C16_fuzzy_obsolete_exemptions.

(* a catalog violating none of the rules yields no message-level tag (only calls of the format checkers remain) *)
Theorem C16_clean_catalog_silent : forall cfg cat ds, clean_catalog cfg cat -> check_messages cfg cat = Ok ds ->
  forall d, In d ds -> is_tag d = false.
Proof. exact clean_catalog_silent. Qed.
Print Assumptions C16_clean_catalog_silent.

(* no crash: with int() unlimited (maxd = 0, what `import lib` sets up since the D7 fix) and every Cc character named in
   data/control-characters; since the D26 fix a lone surrogate no longer makes the XML check raise *)
Theorem C16_no_crash : forall cfg cat, c_maxd cfg = 0 -> ctl_complete (c_ctlnames cfg) ->
  exists ds, check_messages cfg cat = Ok ds.
Proof. exact check_messages_total. Qed.
Print Assumptions C16_no_crash.

(* the regenerated tables *)
Theorem C16_control_names_complete : ctl_complete control_character_names.
Proof. apply ctl_table_ok_sound. vm_compute. reflexivity. Qed.
Print Assumptions C16_control_names_complete.

(* no format name is empty or makes "<name>-format" start with no- / possible- / impossible- / range:, and every format
   has an example: the four-prefix lookup is unambiguous on the shipped table ([formats_sane] is in Proofs/MessagesFormats.v) *)
Theorem C16_string_formats_sane : formats_sane string_formats = true.
Proof. vm_compute. reflexivity. Qed.
Print Assumptions C16_string_formats_sane.

(* with a limit on int() (CPython >= 3.11 default, before the D7 fix) a long range: bound crashes: D7 *)
Definition cfg0 (maxd : N) (template : bool) : config :=
  {| c_template := template; c_binary := false; c_hidden := false; c_encoding := true; c_maxd := maxd;
     c_formats := string_formats; c_ctlnames := control_character_names;
     c_isword := fun _ => false; c_xml := fun _ => None |}.
Definition long_range : list N := s_range ++ [48;46;46] ++ repeat 57 4301.     (* "range:0.." 9 x 4301 *)
Definition e_plain (msgid msgstr : list N) (flags : list (list N)) : msg_entry :=
  {| me_ctxt := None; me_msgid := msgid; me_plural := None; me_msgstr := msgstr; me_msgstr_plural := [];
     me_flags := flags; me_obsolete := false; me_previous := false; me_comment := [] |}.
Example C16_no_crash_needs_unlimited_int :
  check_messages (cfg0 4300 false) [e_plain [97] [98] [long_range]] = Crash CValueError.
Proof. vm_compute. reflexivity. Qed.
Example C16_long_range_fine_when_unlimited :
  check_messages (cfg0 0 false) [e_plain [97] [98] [long_range]] = Ok [AtMsg 0 MRangeNoPlural].
Proof. vm_compute. reflexivity. Qed.

(* non-vacuity *)
Definition base_catalog : list msg_entry := [
  {| me_ctxt := None; me_msgid := []; me_plural := None; me_msgstr := [80;114;111;106;101;99;116;45;73;100;45;86;101;114;115;105;111;110;58;32;71;105;122;109;111;32;69;110;104;97;110;99;101;114;32;49;46;48;10;82;101;112;111;114;116;45;77;115;103;105;100;45;66;117;103;115;45;84;111;58;32;103;105;122;109;111;101;110;104;97;110;99;101;114;64;106;119;105;108;107;46;110;101;116;10;80;79;84;45;67;114;101;97;116;105;111;110;45;68;97;116;101;58;32;50;48;49;50;45;49;49;45;48;49;32;49;52;58;52;50;43;48;49;48;48;10;80;79;45;82;101;118;105;115;105;111;110;45;68;97;116;101;58;32;50;48;49;50;45;49;49;45;48;49;32;49;52;58;52;50;43;48;49;48;48;10;76;97;115;116;45;84;114;97;110;115;108;97;116;111;114;58;32;74;97;107;117;98;32;87;105;108;107;32;60;106;119;105;108;107;64;106;119;105;108;107;46;110;101;116;62;10;76;97;110;103;117;97;103;101;45;84;101;97;109;58;32;80;111;108;105;115;104;32;60;100;101;98;105;97;110;45;108;49;48;110;45;112;111;108;105;115;104;64;108;105;115;116;115;46;100;101;98;105;97;110;46;111;114;103;62;10;76;97;110;103;117;97;103;101;58;32;112;108;10;77;73;77;69;45;86;101;114;115;105;111;110;58;32;49;46;48;10;67;111;110;116;101;110;116;45;84;121;112;101;58;32;116;101;120;116;47;112;108;97;105;110;59;32;99;104;97;114;115;101;116;61;85;84;70;45;56;10;67;111;110;116;101;110;116;45;84;114;97;110;115;102;101;114;45;69;110;99;111;100;105;110;103;58;32;56;98;105;116;10;80;108;117;114;97;108;45;70;111;114;109;115;58;32;110;112;108;117;114;97;108;115;61;51;59;32;112;108;117;114;97;108;61;110;61;61;49;32;63;32;48;32;58;32;110;37;49;48;62;61;50;32;38;38;32;110;37;49;48;60;61;52;32;38;38;32;40;110;37;49;48;48;60;49;48;32;124;124;32;110;37;49;48;48;62;61;50;48;41;32;63;32;49;32;58;32;50;59;10];
     me_msgstr_plural := []; me_flags := []; me_obsolete := false; me_previous := false; me_comment := [] |};
  {| me_ctxt := None; me_msgid := [65;32;113;117;105;99;107;32;98;114;111;119;110;32;102;111;120;32;106;117;109;112;115;32;111;118;101;114;32;116;104;101;32;108;97;122;121;32;100;111;103;46]; me_plural := None; me_msgstr := [77;281;380;110;121;32;98;261;100;378;44;32;99;104;114;111;324;32;112;117;322;107;32;116;119;243;106;32;105;32;115;122;101;347;263;32;102;108;97;103;46];
     me_msgstr_plural := []; me_flags := []; me_obsolete := false; me_previous := false; me_comment := [] |};
  {| me_ctxt := None; me_msgid := [37;100;32;113;117;105;99;107;32;98;114;111;119;110;32;102;111;120;32;106;117;109;112;115;32;111;118;101;114;32;116;104;101;32;108;97;122;121;32;100;111;103;46]; me_plural := Some [37;100;32;113;117;105;99;107;32;98;114;111;119;110;32;102;111;120;101;115;32;106;117;109;112;32;111;118;101;114;32;116;104;101;32;108;97;122;121;32;100;111;103;46]; me_msgstr := [];
     me_msgstr_plural := [[37;100;32;115;122;121;98;107;105;32;108;105;115;46]; [37;100;32;115;122;121;98;107;105;101;32;108;105;115;121;46]; [37;100;32;115;122;121;98;107;105;99;104;32;108;105;115;243;119;46]]; me_flags := [[99;45;102;111;114;109;97;116]]; me_obsolete := false; me_previous := false; me_comment := [] |}
]%N.
Example C16_base_catalog_silent : check_messages (cfg0 int_max_str_digits false) base_catalog = Ok [AtMsg 2 (MDispatch s_c)].
Proof. vm_compute. reflexivity. Qed.
Example C16_base_catalog_as_template :
  check_messages (cfg0 0 true) base_catalog = Ok [AtMsg 1 MTranslationInTemplate; AtMsg 2 (MDispatch s_c); AtMsg 2 MTranslationInTemplate].
Proof. vm_compute. reflexivity. Qed.
(* three definitions of one message: reported at the second only; the obsolete one does not count *)
Example C16_triple_duplicate :
  check_messages (cfg0 0 false)
    [e_plain [100] [49] []; {| me_ctxt := None; me_msgid := [100]; me_plural := None; me_msgstr := [50]; me_msgstr_plural := [];
                               me_flags := []; me_obsolete := true; me_previous := false; me_comment := [] |};
     e_plain [100] [50] []; e_plain [100] [51] []]
  = Ok [AtMsg 2 MDuplicateDef].
Proof. vm_compute. reflexivity. Qed.
(* the deviation from the documentation of duplicate-message-flag (finding C16-F1): "range:1..2" twice next to "range:3..4" *)
Definition r12 : list N := s_range ++ [49;46;46;50].
Definition r34 : list N := s_range ++ [51;46;46;52].
Example C16_masked_duplicate_range :
  check_flags (cfg0 0 false) true [r12; r12; r34] =
  Ok ([MConflictFlags r12 r34], {| fi_fuzzy := false; fi_range := Some (3, 4)%Z; fi_formats := [] |}).
Proof. vm_compute. reflexivity. Qed.
Example C16_empty_flag_items :     (* "#, ,fuzzy," *)
  check_flags (cfg0 0 false) false [[]; s_fuzzy; []] =
  Ok ([MUnknownFlag []], {| fi_fuzzy := true; fi_range := None; fi_formats := [] |}).
Proof. vm_compute. reflexivity. Qed.

(* ================================================================== *)
(* second round: the scanners against the declarative predicates, first-seen unusual characters, XML completeness,
   dispatch, format-flag decomposition, a fully declarative clean catalog *)

(* --- the three scanners = the declarative predicates of Spec/Messages.v --- *)
Theorem C16_find_unusual_spec : forall isword s c, In c (find_unusual isword s) <-> exists k, unusual_at isword s k c.
Proof. exact find_unusual_spec. Qed.
Print Assumptions C16_find_unusual_spec.
Theorem C16_marker_line_spec : forall l, is_marker_line l = true <-> marker_line l.
Proof. exact is_marker_line_spec. Qed.
Print Assumptions C16_marker_line_spec.
Theorem C16_lines_spec : forall s, lines_of s (lines s).
Proof. exact lines_spec. Qed.
Print Assumptions C16_lines_spec.
Theorem C16_lines_unique : forall ls s, lines_of s ls -> ls = lines s.
Proof. exact lines_unique. Qed.
Print Assumptions C16_lines_unique.
Theorem C16_search_marker_spec : forall s m, search_marker s = Some m <-> first_marker_line s m.
Proof. exact search_marker_spec. Qed.
Print Assumptions C16_search_marker_spec.
Theorem C16_xml_trigger_spec : forall s, xml_trigger s = true <-> xml_trigger_comment s.
Proof. exact xml_trigger_spec. Qed.
Print Assumptions C16_xml_trigger_spec.
Theorem C16_translation_list : forall e, tr_strings e = translation_list e.
Proof. exact tr_strings_list. Qed.
Print Assumptions C16_translation_list.

(* --- unusual-character-in-translation: completeness, exactness, uniqueness --- *)
(* an event at entry j names exactly the characters that are, in one translation t of that entry, unusual, not explained by
   msgid / msgid_plural, and not unexplained in any earlier (message, translation) of the file; in increasing order *)
Theorem C16_unusual_event_iff : forall cfg, c_encoding cfg = true -> forall cat ds j cs, check_messages cfg cat = Ok ds ->
  (In (AtMsg j (MUnusual cs)) ds <->
   exists t, cs <> [] /\ StronglySorted N.lt cs /\ forall c, In c cs <-> first_unexplained_at (c_isword cfg) cat j t c).
Proof. exact unusual_event_iff. Qed.
Print Assumptions C16_unusual_event_iff.
(* a character is reported at entry j iff j is the first message (not obsolete, not the header; fuzzy or not) one of whose
   translations contains it unexplained *)
Theorem C16_unusual_char_iff : forall cfg, c_encoding cfg = true -> forall cat ds j c, check_messages cfg cat = Ok ds ->
  ((exists cs, In (AtMsg j (MUnusual cs)) ds /\ In c cs) <->
   exists e, nth_error cat j = Some e /\ message e /\ unexplained_in (c_isword cfg) e c
     /\ forall j' e', (j' < j)%nat -> nth_error cat j' = Some e' -> message e' -> ~ unexplained_in (c_isword cfg) e' c).
Proof. exact unusual_char_iff. Qed.
Print Assumptions C16_unusual_char_iff.
(* and never twice *)
Theorem C16_unusual_once : forall cfg, c_encoding cfg = true -> forall cat ds c, check_messages cfg cat = Ok ds ->
  (length (filter (cmentions c) ds) <= 1)%nat.
Proof. exact unusual_once. Qed.
Print Assumptions C16_unusual_once.
(* an EXPLAINED occurrence does not mark the character as seen: U+0001 is in msgid and msgstr of the first message, the second
   message is still reported.  (A variant that adds every unusual character of a translation to the seen set reports nothing
   here, so C16_unusual_char_iff is false of it.) *)
Example C16_explained_occurrence_does_not_mark_seen :
  check_messages (cfg0 0 false) [e_plain [120; 1] [117; 1] []; e_plain [101; 50] [118; 1] []] = Ok [AtMsg 1 (MUnusual [1])].
Proof. vm_compute. reflexivity. Qed.
Example C16_first_seen_across_strings_and_entries :
  check_messages (cfg0 0 false)
    [e_plain [97] [117; 2; 1] [];
     {| me_ctxt := None; me_msgid := [98]; me_plural := Some [98; 115]; me_msgstr := []; me_msgstr_plural := [[1; 3]; [3; 4]];
        me_flags := [s_fuzzy]; me_obsolete := false; me_previous := false; me_comment := [] |}]
  = Ok [AtMsg 0 (MUnusual [1; 2]); AtMsg 1 (MUnusual [3]); AtMsg 1 (MUnusual [4])].
Proof. vm_compute. reflexivity. Qed.

(* --- malformed-xml: sound AND complete w.r.t. the expat oracle --- *)
Theorem C16_malformed_xml_iff : forall cfg cat ds j m, check_messages cfg cat = Ok ds ->
  (In (AtMsg j (MMalformedXml m)) ds <->
   exists e, nth_error cat j = Some e /\ live e = true /\ xml_trigger (me_comment e) = true /\ c_encoding cfg = true
     /\ ((c_xml cfg (me_msgid e) = Some m /\ c_template cfg = true)
         \/ (c_xml cfg (me_msgid e) = None /\ ~ fuzzy e /\ me_msgstr e <> [] /\ c_xml cfg (me_msgstr e) = Some m))).
Proof. exact malformed_xml_iff. Qed.
Print Assumptions C16_malformed_xml_iff.

(* --- the format checkers: which run, and in which order --- *)
Theorem C16_dispatch_iff : forall cfg cat ds j f, check_messages cfg cat = Ok ds ->
  (In (AtMsg j (MDispatch f)) ds <->
   exists e, nth_error cat j = Some e /\ live e = true /\ has_checker f = true
     /\ exists flag, In flag (me_flags e) /\ classify cfg flag = Ok (FFormat (Some (TpPos, f)))).
Proof. exact dispatch_iff. Qed.
Print Assumptions C16_dispatch_iff.
(* the checkers of one message run in increasing order of their names (sorted(flags.formats)), each at most once *)
Theorem C16_dispatch_sorted : forall cfg cat ds j, check_messages cfg cat = Ok ds -> StronglySorted str_lt (dispatched j ds).
Proof. exact dispatch_sorted. Qed.
Print Assumptions C16_dispatch_sorted.
Example C16_dispatch_order :     (* "#, python-format, c-format, python-brace-format, perl-brace-format, java-format" *)
  check_messages (cfg0 0 false)
    [e_plain [97] [98] [s_python ++ s_format; s_c ++ s_format; s_python_brace ++ s_format; s_perl_brace ++ s_format; [106;97;118;97] ++ s_format]]
  = Ok [AtMsg 0 (MConflictFlags ([99] ++ s_format) ([106;97;118;97] ++ s_format));
        AtMsg 0 (MConflictFlags ([99] ++ s_format) (s_perl_brace ++ s_format));
        AtMsg 0 (MConflictFlags ([99] ++ s_format) (s_python_brace ++ s_format));
        AtMsg 0 (MConflictFlags ([106;97;118;97] ++ s_format) (s_perl_brace ++ s_format));
        AtMsg 0 (MConflictFlags ([106;97;118;97] ++ s_format) (s_python ++ s_format));
        AtMsg 0 (MConflictFlags (s_perl_brace ++ s_format) (s_python ++ s_format));
        AtMsg 0 (MConflictFlags (s_python ++ s_format) (s_python_brace ++ s_format));
        AtMsg 0 (MDispatch s_c); AtMsg 0 (MDispatch s_perl_brace); AtMsg 0 (MDispatch s_python); AtMsg 0 (MDispatch s_python_brace)].
Proof. vm_compute. reflexivity. Qed.

(* --- format flags: <family><name>-format, and (family, name) determines the flag --- *)
Theorem C16_format_flag_decomposition : forall cfg, formats_sane (c_formats cfg) = true -> forall f tp name,
  classify cfg f = Ok (FFormat (Some (tp, name))) <-> In name (names_of (c_formats cfg)) /\ f = format_flag tp name.
Proof. exact classify_format_iff. Qed.
Print Assumptions C16_format_flag_decomposition.
Theorem C16_format_flag_injective : forall cfg, formats_sane (c_formats cfg) = true -> forall f g tp name,
  classify cfg f = Ok (FFormat (Some (tp, name))) -> classify cfg g = Ok (FFormat (Some (tp, name))) -> f = g.
Proof. exact format_flag_injective. Qed.
Print Assumptions C16_format_flag_injective.
Theorem C16_unknown_is_not_known : forall cfg, formats_sane (c_formats cfg) = true -> forall f,
  (classify cfg f = Ok (FFormat None) \/ classify cfg f = Ok FOther) <-> ~ known_flag (names_of (c_formats cfg)) f.
Proof. exact unknown_decl. Qed.
Print Assumptions C16_unknown_is_not_known.
Theorem C16_range_flag_valid_iff : forall cfg f r, classify cfg f = Ok (FRange r) -> forall i j, r = Some (i, j) <-> valid_range f i j.
Proof. exact range_flag_valid_iff. Qed.
Print Assumptions C16_range_flag_valid_iff.

(* the flag tags of a file in declarative form *)
Theorem C16_unknown_flag_decl : forall cfg cat ds, formats_sane (c_formats cfg) = true -> check_messages cfg cat = Ok ds -> forall j f,
  In (AtMsg j (MUnknownFlag f)) ds <->
  exists e, nth_error cat j = Some e /\ live e = true /\ In f (me_flags e) /\ ~ known_flag (names_of (c_formats cfg)) f.
Proof. exact unknown_flag_file. Qed.
Print Assumptions C16_unknown_flag_decl.
Theorem C16_invalid_range_flag_decl : forall cfg cat ds, check_messages cfg cat = Ok ds -> forall j f,
  In (AtMsg j (MInvalidRange f)) ds <->
  exists e, nth_error cat j = Some e /\ live e = true /\ In f (me_flags e) /\ is_range_flag f /\ forall a b, ~ valid_range f a b.
Proof. exact invalid_range_file. Qed.
Print Assumptions C16_invalid_range_flag_decl.
Theorem C16_range_flag_without_plural_decl : forall cfg cat ds, check_messages cfg cat = Ok ds -> forall j,
  In (AtMsg j MRangeNoPlural) ds <->
  exists e, nth_error cat j = Some e /\ live e = true /\ hp_of e = false /\ exists f, In f (me_flags e) /\ is_range_flag f.
Proof. exact range_no_plural_file. Qed.
Print Assumptions C16_range_flag_without_plural_decl.
Theorem C16_redundant_flag_decl : forall cfg cat ds, formats_sane (c_formats cfg) = true -> check_messages cfg cat = Ok ds -> forall j p q,
  In (AtMsg j (MRedundantFlag p q)) ds <->
  exists e, nth_error cat j = Some e /\ live e = true /\
    exists name, In name (names_of (c_formats cfg)) /\ p = format_flag TpPossible name /\ q = format_flag TpPos name
                 /\ In p (me_flags e) /\ In q (me_flags e).
Proof. exact redundant_flag_file. Qed.
Print Assumptions C16_redundant_flag_decl.
(* the format disjuncts of C16_conflicting_flags_iff, and the range rows, declaratively *)
Theorem C16_format_conflict_decl : forall cfg hp F ds info, formats_sane (c_formats cfg) = true -> check_flags cfg hp F = Ok (ds, info) -> forall a b,
  (exists items k1 k2, classify_all cfg (counter_sorted F) = Ok items
        /\ dget k1 (fmt_dict TpPos items) = Some a /\ dget k2 (fmt_dict TpPos items) = Some b
        /\ str_ltb k1 k2 = true /\ compatible (c_formats cfg) k1 k2 = false)
  <-> exists n1 n2, In n1 (names_of (c_formats cfg)) /\ In n2 (names_of (c_formats cfg)) /\ str_compare n1 n2 = Lt
        /\ compatible (c_formats cfg) n1 n2 = false
        /\ a = format_flag TpPos n1 /\ b = format_flag TpPos n2 /\ In a F /\ In b F.
Proof. exact format_conflict_decl. Qed.
Print Assumptions C16_format_conflict_decl.
Theorem C16_family_conflict_decl : forall cfg hp F ds info, formats_sane (c_formats cfg) = true -> check_flags cfg hp F = Ok (ds, info) -> forall a b,
  (exists items k tp1 tp2, classify_all cfg (counter_sorted F) = Ok items
        /\ ((tp1 = TpPos /\ tp2 = TpNo) \/ (tp1 = TpPos /\ tp2 = TpImpossible) \/ (tp1 = TpPossible /\ tp2 = TpImpossible))
        /\ dget k (fmt_dict tp1 items) = Some a /\ dget k (fmt_dict tp2 items) = Some b)
  <-> exists name tp1 tp2, In name (names_of (c_formats cfg))
        /\ ((tp1 = TpPos /\ tp2 = TpNo) \/ (tp1 = TpPos /\ tp2 = TpImpossible) \/ (tp1 = TpPossible /\ tp2 = TpImpossible))
        /\ a = format_flag tp1 name /\ b = format_flag tp2 name /\ In a F /\ In b F.
Proof. exact family_conflict_decl. Qed.
Print Assumptions C16_family_conflict_decl.
Theorem C16_range_row_decl : forall cfg hp F ds info, check_flags cfg hp F = Ok (ds, info) -> forall items r f n,
  classify_all cfg (counter_sorted F) = Ok items ->
  (In (r, (f, n)) (range_rows items) <-> In f F /\ n = count_str f F /\ is_range_flag f /\ valid_range f (fst r) (snd r)).
Proof. exact range_row_decl. Qed.
Print Assumptions C16_range_row_decl.

(* --- clean, declaratively --- *)
Theorem C16_flags_clean_silent : forall cfg hp F ds info, formats_sane (c_formats cfg) = true ->
  flags_clean (c_formats cfg) hp F -> check_flags cfg hp F = Ok (ds, info) -> ds = [].
Proof. exact flags_clean_silent. Qed.
Print Assumptions C16_flags_clean_silent.
Theorem C16_clean_catalog_decl_silent : forall cfg cat ds, formats_sane (c_formats cfg) = true ->
  clean_catalog_decl cfg cat -> check_messages cfg cat = Ok ds -> forall d, In d ds -> is_tag d = false.
Proof. exact clean_catalog_decl_silent. Qed.
Print Assumptions C16_clean_catalog_decl_silent.

(* --- source tie (notes/SRC10.md) ---
   Generated/MessagesSrc.v is the statement-by-statement translation of is_header_entry, Checker._check_message_flags,
   _check_message_xml_format, _check_message_formats and check_messages of the working tree's lib/check/__init__.py
   (tools/gen/gen_messages_src.py, regenerated on every run).  The theorems say that, for every configuration, oracle
   and catalog, the translated code computes what the model computes.  A behavioural edit of that code changes the
   generated text and these no longer compile. *)
Theorem C16_source_tie_header : forall e, src_is_header_entry e = is_header e.
Proof. exact src_is_header_entry_eq. Qed.
Print Assumptions C16_source_tie_header.

(* the one loop of _check_message_flags = classification followed by the model's independent data flows; same tags in
   the same order, same exception; the returned info carries fuzzy, the last valid range and the positive formats *)
Theorem C16_source_tie_flags : forall cfg e,
  flags_result_matches (src_check_message_flags cfg e) (check_flags cfg (is_some (me_plural e)) (me_flags e)).
Proof. exact src_check_message_flags_check_flags. Qed.
Print Assumptions C16_source_tie_flags.

Theorem C16_source_tie_xml_format : forall cfg e flags,
  src_check_message_xml_format cfg e flags = xml_diags cfg (pi_fuzzy flags) e.
Proof. exact src_check_message_xml_format_eq. Qed.
Print Assumptions C16_source_tie_xml_format.

(* the checkers registered in Checker.__init__ run in sorted order of the positive formats, then the XML trigger *)
Theorem C16_source_tie_formats : forall cfg e flags,
  src_check_message_formats cfg e flags =
  do xd <- (if xml_trigger (me_comment e) then xml_diags cfg (pi_fuzzy flags) e else Ok []);
  Ok (dispatch (sort_dedup str_compare (pi_formats flags)) ++ xd).
Proof. exact src_check_message_formats_eq. Qed.
Print Assumptions C16_source_tie_formats.

(* the loop over ctx.file with msgid_counter and found_unusual_characters, and the empty-file test.  view_ok: the
   values of msgstr_plural in insertion order are a permutation of the values in key order, and me_previous is
   "any of the three previous_* fields is not None" (what msg_entry abstracts of a polib entry) *)
Theorem C16_source_tie_messages : forall cfg cat, Forall view_ok cat ->
  src_check_messages cfg cat = check_messages cfg (map fst cat).
Proof. exact src_check_messages_eq. Qed.
Print Assumptions C16_source_tie_messages.

(* non-vacuity: the translated code run on a catalog (second definition of "a" with a range flag on a non-plural
   entry, msgstr[1] listed before msgstr[0] and empty, a stray "#| msgid") *)
Definition src_ex_view (vals : list (list N)) (prev : option (list N)) : msg_view :=
  {| mv_values := vals; mv_prev_ctxt := None; mv_prev_id := prev; mv_prev_plural := None |}.
Definition src_ex_cat : list (msg_entry * msg_view) :=
  [ (e_plain [97] [98] [], src_ex_view [] None);
    (e_plain [97] [98;10] [[114;97;110;103;101;58;50;46;46;49]; s_fuzzy; s_fuzzy], src_ex_view [] None);
    ({| me_ctxt := None; me_msgid := [99]; me_plural := Some [100]; me_msgstr := []; me_msgstr_plural := [[120]; []];
        me_flags := [[99;45;102;111;114;109;97;116]]; me_obsolete := false; me_previous := true; me_comment := [] |},
     src_ex_view [[]; [120]] (Some [122])) ].
Example C16_src_ex_view_ok : Forall view_ok src_ex_cat.
Proof. repeat constructor. Qed.
Example C16_src_ex : src_check_messages (cfg0 0 false) src_ex_cat =
  Ok [AtMsg 1 (MDupFlag s_fuzzy); AtMsg 1 MRangeNoPlural; AtMsg 1 (MInvalidRange [114;97;110;103;101;58;50;46;46;49]);
      AtMsg 1 MDuplicateDef; AtMsg 2 (MDispatch s_c); AtMsg 2 MStrayPrevious; AtMsg 2 MPartial].
Proof. vm_compute. reflexivity. Qed.

(* C09 — malformed MO files are rejected cleanly and never mis-read.
   mo_parse: Model/MoParser.v (lib/moparser.py, byte level); mo_load adds the codec as an oracle; checker_load is the
   try/except structure of Checker.check around polib.mofile.  Crash = any exception other than moparser.SyntaxError /
   UnicodeDecodeError.  as_returned: the msgctxt/msgid exchange of defect D15 (identity without context). *)
From Coq Require Import List NArith Bool.
From I18n Require Import Lib.Outcome Model.MoParser Spec.MoFormat Proofs.MoStrings Proofs.MoParser Proofs.MoCorollaries Proofs.MoRejects.
From I18n Require Import Model.MoParserPy Generated.MoParserSrc Proofs.MoParserSrc.
From Coq Require String.
From I18n Require Model.Tags Model.Check Proofs.Check Proofs.CheckMo.
Import ListNotations.
Import String.StringSyntax.
Local Open Scope N_scope.

(* no byte string makes the loader fail in any other way *)
Theorem C09_total : forall asc enc0 f c, mo_parse asc enc0 f <> Crash c.
Proof. exact mo_parse_total. Qed.
Print Assumptions C09_total.

Theorem C09_total_with_codec : forall asc dec enc0 f c, mo_load asc dec enc0 f <> Crash c.
Proof. exact mo_load_total. Qed.
Print Assumptions C09_total_with_codec.

Theorem C09_total_checker : forall asc dec f c, checker_load asc dec f <> Crash c.
Proof. exact checker_load_total. Qed.
Print Assumptions C09_total_checker.

(* whatever is accepted is a well-formed file of the format: header, tables and strings where the file says they are,
   NUL structure and key order as gmo.h/msgfmt produce them *)
Theorem C09_sound : forall asc enc0 f o, bytes_ok f -> mo_parse asc enc0 f = Ok o ->
  exists L, Encodes_at f L (map as_returned (o_entries o)) (o_hidden o) /\
            wf_catalog (map as_returned (o_entries o)) /\
            o_charset o = catalog_charset asc enc0 (map as_returned (o_entries o)).
Proof. exact mo_parse_sound. Qed.
Print Assumptions C09_sound.

(* every returned string is present byte-for-byte inside the region declared by the j-th descriptors read from the two tables,
   followed by NUL (or by the EOT between context and id) *)
Theorem C09_strings_present : forall asc enc0 f o, bytes_ok f -> mo_parse asc enc0 f = Ok o ->
  exists L, Encodes_at f L (map as_returned (o_entries o)) (o_hidden o) /\
  forall j e', nth_error (o_entries o) j = Some e' ->
  exists d, nth_error (l_desc L) j = Some d /\
    has_word (l_be L) f (l_otab L + 8 * N.of_nat j) (d_klen d) /\ has_word (l_be L) f (l_otab L + 8 * N.of_nat j + 4) (d_koff d) /\
    has_word (l_be L) f (l_ttab L + 8 * N.of_nat j) (d_vlen d) /\ has_word (l_be L) f (l_ttab L + 8 * N.of_nat j + 4) (d_voff d) /\
    in_region f (d_koff d) (d_klen d) (e_id e') /\
    (forall c, e_ctxt e' = Some c -> in_region f (d_koff d) (d_klen d) c) /\
    (forall p, e_plural e' = Some p -> in_region f (d_koff d) (d_klen d) p) /\
    (forall s, In s (e_strs e') -> in_region f (d_voff d) (d_vlen d) s).
Proof. exact returned_strings_present. Qed.
Print Assumptions C09_strings_present.

(* nothing outside the file is used: the header words, both tables and every declared string with its terminator lie inside *)
Theorem C09_reads_inside : forall asc enc0 f o, bytes_ok f -> mo_parse asc enc0 f = Ok o ->
  exists L, Encodes_at f L (map as_returned (o_entries o)) (o_hidden o) /\
    20 <= blen f /\
    (o_entries o <> [] -> l_otab L + 8 * N.of_nat (length (o_entries o)) <= blen f /\
                          l_ttab L + 8 * N.of_nat (length (o_entries o)) <= blen f) /\
    Forall (desc_in_bounds f) (l_desc L).
Proof. exact accepted_layout_in_bounds. Qed.
Print Assumptions C09_reads_inside.

(* each malformation named by the property (Proofs/MoRejects.v: stated on the words and strings of the file) is rejected with the
   parser's own error *)
Theorem C09_rejects : forall asc enc0 f, bytes_ok f ->
  bad_magic f \/ bad_major f \/ header_truncated f \/ table_past_eof f \/ string_past_eof f \/
  not_nul_terminated f \/ nul_structure_bad f \/ keys_decreasing f ->
  exists m, mo_parse asc enc0 f = Err (MoSyntax m).
Proof. exact malformed_rejected. Qed.
Print Assumptions C09_rejects.

Theorem C09_rejects_unless_encodes : forall asc enc0 f, bytes_ok f ->
  (forall L c h, ~ (Encodes_at f L c h /\ wf_catalog c)) ->
  exists m, mo_parse asc enc0 f = Err (MoSyntax m).
Proof. exact rejected_unless_encodes. Qed.
Print Assumptions C09_rejects_unless_encodes.

Theorem C09_bad_magic_message : forall asc enc0 f, bad_magic f -> mo_parse asc enc0 f = Err (MoSyntax MMagic).
Proof. exact bad_magic_message. Qed.
Print Assumptions C09_bad_magic_message.

Theorem C09_bad_major_message : forall asc enc0 f be rev,
  has_word be f 0 magic -> has_word be f 4 rev -> 1 < rev / 65536 ->
  mo_parse asc enc0 f = Err (MoSyntax (MMajor (rev / 65536))).
Proof. exact bad_major_message. Qed.
Print Assumptions C09_bad_major_message.

(* the glue: a rejected file gets invalid-mo-file and nothing is derived from it (o = None); the only other tag that can accompany
   it is broken-encoding, from a first attempt that failed to decode; an undecodable file that is otherwise fine gets broken-encoding *)
Theorem C09_checker_tags : forall asc dec f tags o, checker_load asc dec f = Ok (tags, o) ->
  (tags = [] /\ o <> None) \/
  (exists m, tags = [TInvalidMoFile m] /\ o = None) \/
  (exists s, tags = [TBrokenEncoding s] /\ o <> None) \/
  (exists m s, tags = [TInvalidMoFile m; TBrokenEncoding s] /\ o = None).
Proof. exact checker_load_tags. Qed.
Print Assumptions C09_checker_tags.

(* ---- the same glue in the general model of Checker.check (Model/Check.v), where the loader is an oracle: WHATEVER polib.mofile does,
   moparser.SyntaxError on the last attempt gives exactly invalid-mo-file <message> (then broken-encoding iff the first attempt failed
   to decode), check() returns before the sub-checks, and invalid-mo-file is emitted in no other case *)
Module MC := I18n.Model.Check.
Module PC := I18n.Proofs.Check.
Module PM := I18n.Proofs.CheckMo.

Theorem C09_glue_mo_rejection : forall upper ft path load c t b m,
  MC.dispatch (MC.extension ft path) = Some (c, t, b) ->
  PC.last_attempt load c = MC.LMoSyntax m ->
  let r := MC.check_top upper MC.StatOk ft path load in
  MC.r_end r = MC.Returned /\
  match load c None with
  | MC.LDecodeError o s e => MC.r_events r = [MC.Ev (MC.lit "invalid-mo-file") [Tags.ASafe m]; MC.broken_event upper o s e]
  | _ => MC.r_events r = [MC.Ev (MC.lit "invalid-mo-file") [Tags.ASafe m]]
  end.
Proof. exact PC.mo_rejection. Qed.
Print Assumptions C09_glue_mo_rejection.

Theorem C09_glue_invalid_mo_file_iff : forall upper st ft path load,
  PC.has_tag (MC.lit "invalid-mo-file") (MC.r_events (MC.check_top upper st ft path load)) = true <->
  st = MC.StatOk /\ exists c t b m, MC.dispatch (MC.extension ft path) = Some (c, t, b) /\ PC.last_attempt load c = MC.LMoSyntax m.
Proof. exact PC.invalid_mo_file_iff. Qed.
Print Assumptions C09_glue_invalid_mo_file_iff.

Theorem C09_glue_broken_encoding_iff : forall upper st ft path load,
  PC.has_tag (MC.lit "broken-encoding") (MC.r_events (MC.check_top upper st ft path load)) = true <->
  st = MC.StatOk /\ exists c t b, MC.dispatch (MC.extension ft path) = Some (c, t, b) /\ PC.is_decode_error (load c None) = true.
Proof. exact PC.broken_encoding_iff. Qed.
Print Assumptions C09_glue_broken_encoding_iff.

(* checker_load above is that model with the MO loader model as the oracle: same tags in the same order with the same arguments,
   nothing derived from a rejected file, sub-checks (with the encoding reset after a broken encoding) for an accepted one *)
Theorem C09_glue_checker_load_is_instance : forall msg_text start_of enc_of crash_name asc dec f upper ft path c t b tags o,
  MC.dispatch (MC.extension ft path) = Some (c, t, b) ->
  checker_load asc dec f = Ok (tags, o) ->
  let r := MC.check_top upper MC.StatOk ft path (PM.mo_oracle msg_text start_of enc_of crash_name asc dec f) in
  MC.r_events r = map (PM.event_of msg_text start_of enc_of upper) tags /\
  (o = None -> MC.r_end r = MC.Returned) /\
  (o <> None -> MC.r_end r = MC.RunSubchecks t b (existsb (fun x => match x with TBrokenEncoding _ => true | _ => false end) tags)).
Proof. exact PM.checker_load_is_instance. Qed.
Print Assumptions C09_glue_checker_load_is_instance.

(* ... and with that oracle the only exception that can leave check() is the UnicodeDecodeError of a retry that failed again
   (which the ISO-8859-1 codec never raises; the codec is an oracle of the MO model) *)
Theorem C09_glue_mo_no_foreign_exception : forall msg_text start_of enc_of crash_name asc dec f upper ft path n,
  MC.r_end (MC.check_top upper MC.StatOk ft path (PM.mo_oracle msg_text start_of enc_of crash_name asc dec f)) <> MC.Raised (MC.RExc n) /\
  forall m, MC.r_end (MC.check_top upper MC.StatOk ft path (PM.mo_oracle msg_text start_of enc_of crash_name asc dec f)) <> MC.Raised (MC.ROSError m).
Proof. exact PM.mo_oracle_never_other. Qed.
Print Assumptions C09_glue_mo_no_foreign_exception.

Example C09_glue_ex_rejected :
  let load := fun (_ : MC.loader) (enc : option MC.text) =>
                match enc with None => MC.LDecodeError [1; 2; 255; 4] (BinInt.Z.of_N 2) (MC.lit "utf-8") | Some _ => MC.LMoSyntax (MC.lit "truncated file") end in
  MC.check_top MC.upper_ascii MC.StatOk None (MC.lit "x/a.gmo") load =
  MC.Res [MC.Ev (MC.lit "invalid-mo-file") [Tags.ASafe (MC.lit "truncated file")];
          MC.Ev (MC.lit "broken-encoding") [Tags.ABytes [1; 2; 255; 4]; Tags.ASafe (MC.lit "cannot be decoded as"); Tags.AStr (MC.lit "UTF-8")]]
         [(MC.Mofile, None); (MC.Mofile, Some (MC.lit "ISO-8859-1"))] MC.Returned.
Proof. vm_compute. reflexivity. Qed.
Example C09_glue_ex_rejected_first :
  MC.check_top MC.upper_ascii MC.StatOk (Some (MC.lit "mo")) (MC.lit "whatever") (fun _ _ => MC.LMoSyntax (MC.lit "unexpected magic")) =
  MC.Res [MC.Ev (MC.lit "invalid-mo-file") [Tags.ASafe (MC.lit "unexpected magic")]] [(MC.Mofile, None)] MC.Returned.
Proof. vm_compute. reflexivity. Qed.

(* non-vacuity on the example file of C08: truncations, a flipped terminator, a length one too large, swapped keys *)
Example C09_ex_truncated : forall k, In k [0; 3; 4; 19; 20; 39; 40; 48; 75; 76; 100; 127]%nat ->
  is_err (mo_parse (fun _ => true) None (firstn k ex_file)) = true.
Proof. intros k H. cbn [In] in H. repeat (destruct H as [<-|H]; [vm_compute; reflexivity|]). destruct H. Qed.
Example C09_ex_messages :
  mo_parse (fun _ => true) None (firstn 3 ex_file) = Err (MoSyntax MMagic) /\
  mo_parse (fun _ => true) None (firstn 39 ex_file) = Err (MoSyntax MTruncated) /\
  mo_parse (fun _ => true) None (firstn 127 ex_file) = Err (MoSyntax MTruncated) /\
  (* terminator of the header value (offset 63) set to 1 *)
  mo_parse (fun _ => true) None (firstn 63 ex_file ++ 1 :: skipn 64 ex_file) = Err (MoSyntax MStrNotTerminated) /\
  (* length of the second key 4 -> 5: the terminator test reads the 'y' *)
  mo_parse (fun _ => true) None (firstn 115 ex_file ++ 5 :: skipn 116 ex_file) = Err (MoSyntax MIdNotTerminated) /\
  (* major revision 2 *)
  mo_parse (fun _ => true) None (firstn 5 ex_file ++ 2 :: skipn 6 ex_file) = Err (MoSyntax (MMajor 2)).
Proof. vm_compute. repeat split. Qed.

(* ------------------------------------------------------------------ *)
(* Source tie (notes/SRC4.md; see Props/C08.v): the translation of the working tree's Parser._read_ints / _parse_entry /
   _parse equals the model, for all arguments *)
Theorem C09_source_tie_read_ints : forall be f at_,
  src_read_ints f (endian_str be) at_ 1 = of_out (fun x => [x]) (read_int be f at_) /\
  src_read_ints f (endian_str be) at_ 2 = of_out (fun p => [fst p; snd p]) (read_int2 be f at_).
Proof. exact src_read_ints_eq. Qed.
Print Assumptions C09_source_tie_read_ints.

Theorem C09_source_tie_parse_entry : forall asc dec be f i enc last mo so,
  src_parse_entry asc dec re_search_m re_group_m f (endian_str be) enc last i mo so =
  entry_result dec (parse_entry asc be f (i =? 0) enc last mo so).
Proof. exact src_parse_entry_eq. Qed.
Print Assumptions C09_source_tie_parse_entry.

Theorem C09_source_tie_parse : forall asc dec enc0 f,
  parse_view (src_parse asc dec re_search_m re_group_m f enc0 []) = load_embed (mo_load asc dec enc0 f).
Proof. exact src_parse_eq. Qed.
Print Assumptions C09_source_tie_parse.

(* hence, about the translated code itself: for every byte string it ends normally, with moparser.SyntaxError or with
   UnicodeDecodeError; the IndexError / TypeError / ValueError / struct.error / AssertionError branches of the translation are dead *)
Theorem C09_source_tie_total : forall asc dec enc0 f, clean (src_parse asc dec re_search_m re_group_m f enc0 []).
Proof. exact src_parse_clean. Qed.
Print Assumptions C09_source_tie_total.

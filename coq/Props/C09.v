(* C09 — malformed MO files are rejected cleanly and never mis-read.
   mo_parse: Model/MoParser.v (lib/moparser.py, byte level); mo_load adds the codec as an oracle; checker_load is the
   try/except structure of Checker.check around polib.mofile.  Crash = any exception other than moparser.SyntaxError /
   UnicodeDecodeError.  as_returned: the msgctxt/msgid exchange of defect D15 (identity without context). *)
From Coq Require Import List NArith Bool.
From I18n Require Import Lib.Outcome Model.MoParser Spec.MoFormat Proofs.MoStrings Proofs.MoParser Proofs.MoCorollaries Proofs.MoRejects.
Import ListNotations.
Local Open Scope N_scope.

(* no byte string makes the loader fail in any other way *)
Theorem C09_total : forall asc enc0 f c, mo_parse asc enc0 f <> Crash c.
Proof. exact mo_parse_total. Qed.
Print Assumptions C09_total.

Theorem C09_total_with_codec : forall asc dec enc0 f c, mo_load asc dec enc0 f <> Crash c.
Proof. exact mo_load_total. Qed.
Print Assumptions C09_total_with_codec.

Theorem C09_total_checker : forall asc dec f c, checker_load asc dec f <> Crash c.
Proof. exact checker_load_total. Qed.
Print Assumptions C09_total_checker.

(* whatever is accepted is a well-formed file of the format: header, tables and strings where the file says they are,
   NUL structure and key order as gmo.h/msgfmt produce them *)
Theorem C09_sound : forall asc enc0 f o, bytes_ok f -> mo_parse asc enc0 f = Ok o ->
  exists L, Encodes_at f L (map as_returned (o_entries o)) (o_hidden o) /\
            wf_catalog (map as_returned (o_entries o)) /\
            o_charset o = catalog_charset asc enc0 (map as_returned (o_entries o)).
Proof. exact mo_parse_sound. Qed.
Print Assumptions C09_sound.

(* every returned string is present byte-for-byte inside the region declared by the j-th descriptors read from the two tables,
   followed by NUL (or by the EOT between context and id) *)
Theorem C09_strings_present : forall asc enc0 f o, bytes_ok f -> mo_parse asc enc0 f = Ok o ->
  exists L, Encodes_at f L (map as_returned (o_entries o)) (o_hidden o) /\
  forall j e', nth_error (o_entries o) j = Some e' ->
  exists d, nth_error (l_desc L) j = Some d /\
    has_word (l_be L) f (l_otab L + 8 * N.of_nat j) (d_klen d) /\ has_word (l_be L) f (l_otab L + 8 * N.of_nat j + 4) (d_koff d) /\
    has_word (l_be L) f (l_ttab L + 8 * N.of_nat j) (d_vlen d) /\ has_word (l_be L) f (l_ttab L + 8 * N.of_nat j + 4) (d_voff d) /\
    in_region f (d_koff d) (d_klen d) (e_id e') /\
    (forall c, e_ctxt e' = Some c -> in_region f (d_koff d) (d_klen d) c) /\
    (forall p, e_plural e' = Some p -> in_region f (d_koff d) (d_klen d) p) /\
    (forall s, In s (e_strs e') -> in_region f (d_voff d) (d_vlen d) s).
Proof. exact returned_strings_present. Qed.
Print Assumptions C09_strings_present.

(* nothing outside the file is used: the header words, both tables and every declared string with its terminator lie inside *)
Theorem C09_reads_inside : forall asc enc0 f o, bytes_ok f -> mo_parse asc enc0 f = Ok o ->
  exists L, Encodes_at f L (map as_returned (o_entries o)) (o_hidden o) /\
    20 <= blen f /\
    (o_entries o <> [] -> l_otab L + 8 * N.of_nat (length (o_entries o)) <= blen f /\
                          l_ttab L + 8 * N.of_nat (length (o_entries o)) <= blen f) /\
    Forall (desc_in_bounds f) (l_desc L).
Proof. exact accepted_layout_in_bounds. Qed.
Print Assumptions C09_reads_inside.

(* each malformation named by the property (Proofs/MoRejects.v: stated on the words and strings of the file) is rejected with the
   parser's own error *)
Theorem C09_rejects : forall asc enc0 f, bytes_ok f ->
  bad_magic f \/ bad_major f \/ header_truncated f \/ table_past_eof f \/ string_past_eof f \/
  not_nul_terminated f \/ nul_structure_bad f \/ keys_decreasing f ->
  exists m, mo_parse asc enc0 f = Err (MoSyntax m).
Proof. exact malformed_rejected. Qed.
Print Assumptions C09_rejects.

Theorem C09_rejects_unless_encodes : forall asc enc0 f, bytes_ok f ->
  (forall L c h, ~ (Encodes_at f L c h /\ wf_catalog c)) ->
  exists m, mo_parse asc enc0 f = Err (MoSyntax m).
Proof. exact rejected_unless_encodes. Qed.
Print Assumptions C09_rejects_unless_encodes.

Theorem C09_bad_magic_message : forall asc enc0 f, bad_magic f -> mo_parse asc enc0 f = Err (MoSyntax MMagic).
Proof. exact bad_magic_message. Qed.
Print Assumptions C09_bad_magic_message.

Theorem C09_bad_major_message : forall asc enc0 f be rev,
  has_word be f 0 magic -> has_word be f 4 rev -> 1 < rev / 65536 ->
  mo_parse asc enc0 f = Err (MoSyntax (MMajor (rev / 65536))).
Proof. exact bad_major_message. Qed.
Print Assumptions C09_bad_major_message.

(* the glue: a rejected file gets invalid-mo-file and nothing is derived from it (o = None); the only other tag that can accompany
   it is broken-encoding, from a first attempt that failed to decode; an undecodable file that is otherwise fine gets broken-encoding *)
Theorem C09_checker_tags : forall asc dec f tags o, checker_load asc dec f = Ok (tags, o) ->
  (tags = [] /\ o <> None) \/
  (exists m, tags = [TInvalidMoFile m] /\ o = None) \/
  (exists s, tags = [TBrokenEncoding s] /\ o <> None) \/
  (exists m s, tags = [TInvalidMoFile m; TBrokenEncoding s] /\ o = None).
Proof. exact checker_load_tags. Qed.
Print Assumptions C09_checker_tags.

(* non-vacuity on the example file of C08: truncations, a flipped terminator, a length one too large, swapped keys *)
Example C09_ex_truncated : forall k, In k [0; 3; 4; 19; 20; 39; 40; 48; 75; 76; 100; 127]%nat ->
  is_err (mo_parse (fun _ => true) None (firstn k ex_file)) = true.
Proof. intros k H. cbn [In] in H. repeat (destruct H as [<-|H]; [vm_compute; reflexivity|]). destruct H. Qed.
Example C09_ex_messages :
  mo_parse (fun _ => true) None (firstn 3 ex_file) = Err (MoSyntax MMagic) /\
  mo_parse (fun _ => true) None (firstn 39 ex_file) = Err (MoSyntax MTruncated) /\
  mo_parse (fun _ => true) None (firstn 127 ex_file) = Err (MoSyntax MTruncated) /\
  (* terminator of the header value (offset 63) set to 1 *)
  mo_parse (fun _ => true) None (firstn 63 ex_file ++ 1 :: skipn 64 ex_file) = Err (MoSyntax MStrNotTerminated) /\
  (* length of the second key 4 -> 5: the terminator test reads the 'y' *)
  mo_parse (fun _ => true) None (firstn 115 ex_file ++ 5 :: skipn 116 ex_file) = Err (MoSyntax MIdNotTerminated) /\
  (* major revision 2 *)
  mo_parse (fun _ => true) None (firstn 5 ex_file ++ 2 :: skipn 6 ex_file) = Err (MoSyntax (MMajor 2)).
Proof. vm_compute. repeat split. Qed.

(* C12 — the Python %-format parser is consistent with CPython's % operator.
   fmtpy_parse std_info : model of lib/strformat/python.py (FormatString.__init__, add_argument, Conversion.__init__)
   cpy_format / cpy_syntax_error / plain_percents : Spec/CPyPercent.v, a reading of CPython 3.12 unicodeobject.c
   args_match : a tuple for unnamed specifications, a mapping for named ones, values of the reported types
                (Proofs/FmtPython.v: val_ok, star_ok)
   The domain of the property ("no % conversion carries a key, flag, width, precision or length") is plain_percents. *)
From Coq Require Import List NArith ZArith Bool.
From I18n Require Import Lib.Outcome Model.FmtPython Model.FmtInstances Spec.CPyPercent Proofs.FmtPythonDir Proofs.FmtPython Proofs.FmtPythonArgs Proofs.FmtPythonGen.
Import ListNotations.
Local Open Scope N_scope.

(* the tables of /repo (regenerated on every run) are the ones the proofs are about *)
Theorem C12_info_sync : gen_info = std_info.
Proof. reflexivity. Qed.
Print Assumptions C12_info_sync.

Theorem C12_extracted_is_std : forall s, fmtpy_parse_gen s = fmtpy_parse std_info s.
Proof. exact extracted_is_std. Qed.
Print Assumptions C12_extracted_is_std.

(* accepted => CPython formats the string with any arguments of the reported shape and types *)
Theorem C12_accept_formats : forall s sg a,
  fmtpy_parse std_info s = Ok sg -> plain_percents s = true ->
  args_match (seq_arguments sg) (map_arguments sg) a -> formats_ok s a.
Proof. exact accept_formats. Qed.
Print Assumptions C12_accept_formats.

(* non-vacuity of the hypothesis: the canonical arguments built from the signature (a tuple / a dict of sample
   values: 7, a float, "c", "", None; 3 for a star) match it; so  s % args_from(signature(s))  succeeds *)
Theorem C12_args_from_match : forall s sg,
  fmtpy_parse std_info s = Ok sg -> args_match (seq_arguments sg) (map_arguments sg) (args_from sg).
Proof. exact args_from_match. Qed.
Print Assumptions C12_args_from_match.

Theorem C12_accept_formats_args_from : forall s sg,
  fmtpy_parse std_info s = Ok sg -> plain_percents s = true -> formats_ok s (args_from sg).
Proof. exact accept_formats_args_from. Qed.
Print Assumptions C12_accept_formats_args_from.

(* CPython rejects the string as malformed whatever the arguments => the parser rejects it *)
Theorem C12_reject_if_cpython_rejects : forall s,
  cpy_syntax_error s = true -> plain_percents s = true -> exists e, fmtpy_parse std_info s = Err e.
Proof. exact reject_if_cpython_rejects. Qed.
Print Assumptions C12_reject_if_cpython_rejects.

(* ... and such a string is formatted by no argument at all (the two readings of "rejects" agree) *)
Theorem C12_syntax_error_never_formats : forall s a, cpy_syntax_error s = true -> ~ formats_ok s a.
Proof. exact syntax_error_never_formats. Qed.
Print Assumptions C12_syntax_error_never_formats.

(* a string CPython can format is rejected only for a documented reason: mixing named and unnamed
   specifications, one key with two types, width or precision above 2^31-1 *)
Theorem C12_only_documented_rejections : forall s a e,
  formats_ok s a -> fmtpy_parse std_info s = Err e ->
  e = EMixture \/ e = ETypeMismatch \/ e = EWidthRange \/ e = EPrecRange.
Proof. exact only_documented_rejections. Qed.
Print Assumptions C12_only_documented_rejections.

(* rejection raises only the parser's own error type *)
Theorem C12_own_errors : forall s c, fmtpy_parse std_info s <> Crash c.
Proof. exact own_errors. Qed.
Print Assumptions C12_own_errors.

(* outside the domain the first two statements are false: "%5%" is accepted (no arguments) and CPython
   raises "unsupported format character '%'" *)
Theorem C12_domain_needed :
  (exists sg, fmtpy_parse std_info [37; 53; 37] = Ok sg /\ args_match (seq_arguments sg) (map_arguments sg) (VTuple [])) /\
  cpy_syntax_error [37; 53; 37] = true /\ plain_percents [37; 53; 37] = false.
Proof. exact domain_needed. Qed.
Print Assumptions C12_domain_needed.

(* non-vacuity *)
(* "%(a(b))s %(a(b))d": one key, two types *)
Example C12_ex_mismatch : fmtpy_parse std_info [37;40;97;40;98;41;41;115;32;37;40;97;40;98;41;41;100] = Err ETypeMismatch.
Proof. vm_compute. reflexivity. Qed.
(* "%*.*f%%%u" *)
Example C12_ex_seq : fmtpy_parse std_info [37;42;46;42;102;37;37;37;117]
  = Ok {| seq_arguments := [SVarWidth; SVarPrec; SConv TyFloat; SConv TyInt]; map_arguments := []; warnings := [WObsolete] |}.
Proof. vm_compute. reflexivity. Qed.
Example C12_ex_seq_formats : formats_ok [37;42;46;42;102;37;37;37;117] (VTuple [VInt 8; VInt 2; VFloat; VInt 5]).
Proof. vm_compute. reflexivity. Qed.
(* "%(k)s %(k)s" with {'k': 'x'} *)
Example C12_ex_map : formats_ok [37;40;107;41;115;32;37;40;107;41;115] (VDict [([107], VStr [120])]).
Proof. vm_compute. reflexivity. Qed.
(* "%s%(a)s": CPython formats it with a mapping, the parser rejects the mixture *)
Example C12_ex_mixture : formats_ok [37;115;37;40;97;41;115] (VDict [([97], VInt 1)]) /\
  fmtpy_parse std_info [37;115;37;40;97;41;115] = Err EMixture.
Proof. split; vm_compute; reflexivity. Qed.
(* "%(a" and "%y" *)
Example C12_ex_syntax : cpy_syntax_error [37;40;97] = true /\ cpy_syntax_error [37;121] = true /\
  fmtpy_parse std_info [37;121] = Err (EError [37;121]).
Proof. repeat split; vm_compute; reflexivity. Qed.

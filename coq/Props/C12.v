(* C12 — the Python %-format parser is consistent with CPython's % operator.
   fmtpy_parse std_info : model of lib/strformat/python.py (FormatString.__init__, add_argument, Conversion.__init__)
   cpy_format / cpy_syntax_error / plain_percents : Spec/CPyPercent.v, a reading of CPython 3.12 unicodeobject.c
   args_match : a tuple for unnamed specifications, a mapping for named ones, values of the reported types
                (Proofs/FmtPython.v: val_ok, star_ok)
   The domain of the property ("no % conversion carries a key, flag, width, precision or length") is plain_percents. *)
From Coq Require Import List NArith ZArith Bool.
From I18n Require Import Lib.Outcome Model.FmtPython Model.FmtInstances Spec.CPyPercent Proofs.FmtPythonDir Proofs.FmtPython Proofs.FmtPythonArgs Proofs.FmtPythonGen.
From I18n Require Import Model.FmtPythonPy Generated.FmtPythonSrc Proofs.FmtPythonSrc Proofs.FmtPythonSrcScan.
Import ListNotations.
Local Open Scope N_scope.

(* the tables of /repo (regenerated on every run) are the ones the proofs are about *)
Theorem C12_info_sync : gen_info = std_info.
Proof. reflexivity. Qed.
Print Assumptions C12_info_sync.

Theorem C12_extracted_is_std : forall s, fmtpy_parse_gen s = fmtpy_parse std_info s.
Proof. exact extracted_is_std. Qed.
Print Assumptions C12_extracted_is_std.

(* accepted => CPython formats the string with any arguments of the reported shape and types *)
Theorem C12_accept_formats : forall s sg a,
  fmtpy_parse std_info s = Ok sg -> plain_percents s = true ->
  args_match (seq_arguments sg) (map_arguments sg) a -> formats_ok s a.
Proof. exact accept_formats. Qed.
Print Assumptions C12_accept_formats.

(* non-vacuity of the hypothesis: the canonical arguments built from the signature (a tuple / a dict of sample
   values: 7, a float, "c", "", None; 3 for a star) match it; so  s % args_from(signature(s))  succeeds *)
Theorem C12_args_from_match : forall s sg,
  fmtpy_parse std_info s = Ok sg -> args_match (seq_arguments sg) (map_arguments sg) (args_from sg).
Proof. exact args_from_match. Qed.
Print Assumptions C12_args_from_match.

Theorem C12_accept_formats_args_from : forall s sg,
  fmtpy_parse std_info s = Ok sg -> plain_percents s = true -> formats_ok s (args_from sg).
Proof. exact accept_formats_args_from. Qed.
Print Assumptions C12_accept_formats_args_from.

(* CPython rejects the string as malformed whatever the arguments => the parser rejects it *)
Theorem C12_reject_if_cpython_rejects : forall s,
  cpy_syntax_error s = true -> plain_percents s = true -> exists e, fmtpy_parse std_info s = Err e.
Proof. exact reject_if_cpython_rejects. Qed.
Print Assumptions C12_reject_if_cpython_rejects.

(* ... and such a string is formatted by no argument at all (the two readings of "rejects" agree) *)
Theorem C12_syntax_error_never_formats : forall s a, cpy_syntax_error s = true -> ~ formats_ok s a.
Proof. exact syntax_error_never_formats. Qed.
Print Assumptions C12_syntax_error_never_formats.

(* a string CPython can format is rejected only for a documented reason: mixing named and unnamed
   specifications, one key with two types, width or precision above 2^31-1 *)
Theorem C12_only_documented_rejections : forall s a e,
  formats_ok s a -> fmtpy_parse std_info s = Err e ->
  e = EMixture \/ e = ETypeMismatch \/ e = EWidthRange \/ e = EPrecRange.
Proof. exact only_documented_rejections. Qed.
Print Assumptions C12_only_documented_rejections.

(* rejection raises only the parser's own error type *)
Theorem C12_own_errors : forall s c, fmtpy_parse std_info s <> Crash c.
Proof. exact own_errors. Qed.
Print Assumptions C12_own_errors.

(* outside the domain the first two statements are false: "%5%" is accepted (no arguments) and CPython
   raises "unsupported format character '%'" *)
Theorem C12_domain_needed :
  (exists sg, fmtpy_parse std_info [37; 53; 37] = Ok sg /\ args_match (seq_arguments sg) (map_arguments sg) (VTuple [])) /\
  cpy_syntax_error [37; 53; 37] = true /\ plain_percents [37; 53; 37] = false.
Proof. exact domain_needed. Qed.
Print Assumptions C12_domain_needed.

(* ---------------------------------------------------------------- source tie (notes/SRC11.md)
   Generated/FmtPythonSrc.v is the statement-by-statement translation of FormatString.__init__, FormatString.add_argument and
   Conversion.__init__ of the working tree's lib/strformat/python.py (tools/gen/gen_fmtpython_src.py, regenerated on every
   run).  Each translated definition equals the hand-written model for all arguments; of_out / of_state / of_sig / of_seq /
   of_map / of_warns (Proofs/FmtPythonSrc.v) embed the model's values into the vocabulary of the translation. *)
Theorem C12_source_tie_add_argument_seq : forall inf st a,
  src_FormatString_add_argument inf (of_seq (st_seq st)) (of_map (st_map st)) None (of_seqarg a)
  = match add_seq st a with Some st' => FOk (st_pair st') | None => FRaise KIndexError None end.
Proof. exact src_add_argument_seq. Qed.
Print Assumptions C12_source_tie_add_argument_seq.

Theorem C12_source_tie_add_argument_map : forall inf st k t,
  src_FormatString_add_argument inf (of_seq (st_seq st)) (of_map (st_map st)) (Some k) (AConv (tyname t))
  = match add_map st k t with Some st' => FOk (st_pair st') | None => FRaise KIndexError None end.
Proof. exact src_add_argument_map. Qed.
Print Assumptions C12_source_tie_add_argument_map.

(* the loop over flags.items() of Conversion.__init__ *)
Theorem C12_source_tie_conversion_flags : forall inf s conv fl w,
  src_Conversion_init_for1 inf fl w s conv
  = match flag_warns inf conv fl with Some ws => FOk (w ++ of_warns ws) | None => FAssert end.
Proof. exact src_conversion_for1_eq. Qed.
Print Assumptions C12_source_tie_conversion_flags.

(* Conversion.__init__ on what the scanner passes (width / prec are None for the `*` forms); the only assumption is that the
   text of the conversion is not empty (s[-1] would raise IndexError; the scanner always passes at least "%" + conv) *)
Theorem C12_source_tie_conversion_init : forall inf st d, d_text d <> [] ->
  src_Conversion_init inf (of_seq (st_seq st)) (of_map (st_map st)) (of_warns (st_warn st))
    (d_text d) (d_key d) (d_flags d) (of_width d) (d_var_width d) (of_prec d) (d_var_prec d) (d_length d) (d_conv d)
  = of_out of_state (conv_init inf st d).
Proof. exact src_conversion_init_eq. Qed.
Print Assumptions C12_source_tie_conversion_init.

(* the inner loops of the scanner: key (pcount), flags, width digits, precision digits.  it_at s t = the enumerate iterator
   whose remaining text is the suffix t of s, pos s t = the index of the first character of t *)
Theorem C12_source_tie_scan_key : forall inf F s i fuel t n acc ch j,
  (1 <= n)%nat -> (length t <= length s)%nat -> (length t < fuel)%nat ->
  src_FormatString_init_while2 inf F fuel s (it_at s t) i ch j (Z.of_nat n) =
  match key_scan t n acc with
  | None => FRaise KError (Some (pyslice_from s i))
  | Some (_, t') =>
    match t' with
    | [] => FRaise KError (Some (pyslice_from s i))
    | c' :: r' => FOk (pos s t', c', it_at s r', 0%Z)
    end
  end.
Proof. exact src_while2_eq. Qed.
Print Assumptions C12_source_tie_scan_key.

Theorem C12_source_tie_scan_flags : forall inf F s i fuel c r fl,
  (length (c :: r) <= length s)%nat -> (length (c :: r) < fuel)%nat ->
  src_FormatString_init_while3 inf F fuel s (it_at s r) i c (pos s (c :: r)) fl =
  match flags_scan (i_flags inf) (c :: r) fl with
  | None => FRaise KError (Some (pyslice_from s i))
  | Some (fl', t') => FOk (fl', pos s t', hd 0 t', it_at s (tl t'))
  end.
Proof. exact src_while3_eq. Qed.
Print Assumptions C12_source_tie_scan_flags.

Theorem C12_source_tie_scan_width : forall inf F s i fuel c r acc,
  (length (c :: r) <= length s)%nat -> (length (c :: r) < fuel)%nat ->
  src_FormatString_init_while4 inf F fuel s (it_at s r) i c (pos s (c :: r)) acc =
  match digits_scan (c :: r) acc with
  | None => FRaise KError (Some (pyslice_from s i))
  | Some (z, t') => FOk (z, pos s t', hd 0 t', it_at s (tl t'))
  end.
Proof. exact src_while4_eq. Qed.
Print Assumptions C12_source_tie_scan_width.

Theorem C12_source_tie_scan_prec : forall inf F s i fuel c r acc,
  (length (c :: r) <= length s)%nat -> (length (c :: r) < fuel)%nat ->
  src_FormatString_init_while5 inf F fuel s (it_at s r) i c (pos s (c :: r)) acc =
  match digits_scan (c :: r) acc with
  | None => FRaise KError (Some (pyslice_from s i))
  | Some (z, t') => FOk (z, pos s t', hd 0 t', it_at s (tl t'))
  end.
Proof. exact src_while5_eq. Qed.
Print Assumptions C12_source_tie_scan_prec.

(* the outer `while True:` = the model's ploop, fuel for fuel (also when the fuel runs out), from every suffix t of s and every
   state; F, the fuel handed to the inner loops, only has to exceed len(s) *)
Theorem C12_source_tie_scan_loop : forall inf F s, (length s < F)%nat -> forall fuel t st i0, suffix s t ->
  drop_cursor (src_FormatString_init_while1 inf F fuel s (of_seq (st_seq st)) (of_map (st_map st)) (of_warns (st_warn st)) (it_at s t) i0)
  = of_out of_state (ploop inf fuel t st).
Proof. exact src_while1_eq. Qed.
Print Assumptions C12_source_tie_scan_loop.

(* the final loop: len(frozenset(a.type for a in args)) > 1 *)
Theorem C12_source_tie_type_mismatch : forall inf s m,
  src_FormatString_init_for6 inf (of_map m) s
  = if existsb (fun kv => mixed_types (snd kv)) m then FRaise KArgumentTypeMismatch None else FOk tt.
Proof. exact src_for6_eq. Qed.
Print Assumptions C12_source_tie_type_mismatch.

(* FormatString.__init__ as a whole = fmtpy_parse, for every table record and every string; the result is the tuple of public
   attributes (warnings, seq_arguments, seq_conversions, map_arguments); the fuel is the model's own, len(s) + 1 *)
Theorem C12_source_tie_formatstring_init : forall inf s,
  src_FormatString_init inf (S (length s)) s = of_out of_sig (fmtpy_parse inf s).
Proof. exact src_formatstring_init_eq. Qed.
Print Assumptions C12_source_tie_formatstring_init.

(* the model's C12_own_errors read on the translated code (today's tables): normal end or one of the module's own error classes;
   no AssertionError, IndexError, TypeError, no FFuel *)
Theorem C12_source_tie_own_errors : forall s,
  match src_FormatString_init std_info (S (length s)) s with
  | FOk _ => True | FRaise k _ => own_class k | FAssert | FFuel => False
  end.
Proof. exact src_formatstring_init_own_errors. Qed.
Print Assumptions C12_source_tie_own_errors.

(* the translated code runs: "%*.*f%%%u" and "%(a(b))s %(a(b))d" on the tables of the working tree *)
Example C12_src_ex_seq : src_FormatString_init gen_info 10 [37;42;46;42;102;37;37;37;117]
  = FOk ([PWarn KObsoleteConversion [AStr [37; 117]; AStr [37; 100]]],
         [AVarWidth; AVarPrec; AConv [102; 108; 111; 97; 116]; AConv [105; 110; 116]],
         [AConv [102; 108; 111; 97; 116]; AConv [105; 110; 116]], []).
Proof. vm_compute. reflexivity. Qed.
Example C12_src_ex_mismatch : src_FormatString_init gen_info 18 [37;40;97;40;98;41;41;115;32;37;40;97;40;98;41;41;100]
  = FRaise KArgumentTypeMismatch None.
Proof. vm_compute. reflexivity. Qed.
Example C12_src_ex_error : src_FormatString_init gen_info 8 [120;37;40;97] = FRaise KError (Some [37;40;97]).
Proof. vm_compute. reflexivity. Qed.

(* non-vacuity *)
(* "%(a(b))s %(a(b))d": one key, two types *)
Example C12_ex_mismatch : fmtpy_parse std_info [37;40;97;40;98;41;41;115;32;37;40;97;40;98;41;41;100] = Err ETypeMismatch.
Proof. vm_compute. reflexivity. Qed.
(* "%*.*f%%%u" *)
Example C12_ex_seq : fmtpy_parse std_info [37;42;46;42;102;37;37;37;117]
  = Ok {| seq_arguments := [SVarWidth; SVarPrec; SConv TyFloat; SConv TyInt]; map_arguments := []; warnings := [WObsolete] |}.
Proof. vm_compute. reflexivity. Qed.
Example C12_ex_seq_formats : formats_ok [37;42;46;42;102;37;37;37;117] (VTuple [VInt 8; VInt 2; VFloat; VInt 5]).
Proof. vm_compute. reflexivity. Qed.
(* "%(k)s %(k)s" with {'k': 'x'} *)
Example C12_ex_map : formats_ok [37;40;107;41;115;32;37;40;107;41;115] (VDict [([107], VStr [120])]).
Proof. vm_compute. reflexivity. Qed.
(* "%s%(a)s": CPython formats it with a mapping, the parser rejects the mixture *)
Example C12_ex_mixture : formats_ok [37;115;37;40;97;41;115] (VDict [([97], VInt 1)]) /\
  fmtpy_parse std_info [37;115;37;40;97;41;115] = Err EMixture.
Proof. split; vm_compute; reflexivity. Qed.
(* "%(a" and "%y" *)
Example C12_ex_syntax : cpy_syntax_error [37;40;97] = true /\ cpy_syntax_error [37;121] = true /\
  fmtpy_parse std_info [37;121] = Err (EError [37;121]).
Proof. repeat split; vm_compute; reflexivity. Qed.

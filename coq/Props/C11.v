(* C11 — the C format-string parser (lib/strformat/c.py, FormatString) implements printf(3).
   Model: Model/FmtC.v (fmtc_parse).  Specification: Spec/Printf.v (printf_valid, signature), written from C99
   7.19.6.1, POSIX numbered arguments, glibc extensions and the <inttypes.h> macros as gettext writes them.
   The digit limit of int() is the generated constant Generated.PyConsts.int_max_str_digits (0 = lifted, as
   lib/__init__.py sets it): with any other value C11_accept_iff / C11_own_errors stop type-checking. *)
From Coq Require Import ZArith NArith List Bool String.
From I18n Require Import Lib.Outcome Lib.CFmtSyntax Generated.PyConsts Generated.CInfo Model.FmtC Spec.Printf
  Proofs.FmtCScan Proofs.FmtCDir Proofs.FmtCArgs Proofs.FmtC Proofs.FmtCWarn.
Import ListNotations.

(* The property: a string is accepted iff it decomposes into ordinary characters and well-formed conversion
   specifications (decomp), each of them a valid_directive, whose argument references are consistent (args_ok: all
   unnumbered and at most NL_ARGMAX of them, or all numbered without gaps and with one type per number; %% and %m
   exempt). *)
Definition C11_accept_iff_statement : Prop :=
  forall s, (exists fs, fmtc_parse int_max_str_digits s = Ok fs) <-> printf_valid s.

(* It is FALSE for the code as it is (finding D15): "%#m" -- the alternate form of glibc's %m, defined since glibc 2.35
   (printf(3): strerrorname_np(errno)) -- is rejected with FlagError. *)
Theorem C11_accept_iff_refuted : ~ C11_accept_iff_statement.
Proof. exact accept_iff_refuted. Qed.
Print Assumptions C11_accept_iff_refuted.

Theorem C11_D15_witness :
  printf_valid (chars "%#m") /\ fmtc_parse int_max_str_digits (chars "%#m") = Err (EFlagError (chars "%#m") (ch "#")).
Proof. exact (conj alt_m_witness_valid alt_m_witness_rejected). Qed.
Print Assumptions C11_D15_witness.

(* It holds for every string without that directive (no m conversion carrying the # flag) ... *)
Theorem C11_accept_iff_outside_D15 : forall s,
  (forall ds, decomp s ds -> Forall (fun d => no_alt_m d = true) ds) ->
  ((exists fs, fmtc_parse int_max_str_digits s = Ok fs) <-> printf_valid s).
Proof. exact accept_iff_outside_alt_m. Qed.
Print Assumptions C11_accept_iff_outside_D15.

(* ... the direction "accepted => valid" holds for all strings: undefined behaviour is never accepted ... *)
Theorem C11_accept_sound : forall s fs, fmtc_parse int_max_str_digits s = Ok fs -> printf_valid s.
Proof. exact accept_sound. Qed.
Print Assumptions C11_accept_sound.

(* ... and the accepted language is exactly: valid, and no directive is "%#m"-like *)
Theorem C11_accept_iff_exact : forall s,
  (exists fs, fmtc_parse int_max_str_digits s = Ok fs) <-> printf_valid_impl s.
Proof. exact accept_iff_impl. Qed.
Print Assumptions C11_accept_iff_exact.

(* the decomposition is unique: "the directives of s" is well defined *)
Theorem C11_directives_unique : forall s ds1 ds2, decomp s ds1 -> decomp s ds2 -> ds1 = ds2.
Proof. exact decomp_unique. Qed.
Print Assumptions C11_directives_unique.

(* For an accepted string, the type reported for argument i (fs.arguments[i-1][0].type) is the printf(3) name of the
   i-th type of the signature of its directives: number, order and types, * widths and precisions included. *)
Theorem C11_signature : forall s fs ds,
  fmtc_parse int_max_str_digits s = Ok fs -> decomp s ds -> reported fs = map ctype_name (signature ds).
Proof. exact signature_correct. Qed.
Print Assumptions C11_signature.

Theorem C11_signature_count : forall s fs ds,
  fmtc_parse int_max_str_digits s = Ok fs -> decomp s ds -> List.length (fs_arguments fs) = List.length (signature ds).
Proof. exact signature_length. Qed.
Print Assumptions C11_signature_count.

(* distinct argument types have distinct reported names, so equality of names is equality of types *)
Theorem C11_type_names_distinct : forall t1 t2, ctype_name t1 = ctype_name t2 -> t1 = t2.
Proof. exact ctype_name_inj. Qed.
Print Assumptions C11_type_names_distinct.

(* rejection raises only the parser's own error classes: no ValueError, AssertionError, AttributeError, ... *)
Theorem C11_own_errors : forall s c, fmtc_parse int_max_str_digits s <> Crash c.
Proof. exact no_crash. Qed.
Print Assumptions C11_own_errors.

(* warnings never change the outcome, the items or the arguments: the parser with warn() replaced by a no-op
   (parse_g; fmtc_parse is its instance with the real warn, parse_instance) gives the same result; any digit limit *)
Theorem C11_warnings_inert : forall maxd s,
  osim same_result (fmtc_parse maxd s) (parse_g (fun st _ => st) maxd s).
Proof. exact warnings_inert. Qed.
Print Assumptions C11_warnings_inert.

Theorem C11_warn_function_irrelevant : forall w1 w2 maxd s, quiet w1 -> quiet w2 ->
  osim same_result (parse_g w1 maxd s) (parse_g w2 maxd s).
Proof. exact warn_irrelevant. Qed.
Print Assumptions C11_warn_function_irrelevant.

(* wherever FormatString.__init__ raises Error(_printable_prefix(s[last_pos:])), the regex [ -~]+ matches a non-empty
   prefix (the text starts with '%'), so r.match(...).group() cannot be None.group() *)
Theorem C11_error_prefix_nonempty : forall s rest, In (CTBad rest) (fmtc_tokens (List.length s) s) ->
  exists p, @raise_error (list item * pstate) rest = Err (EError p) /\ p <> [].
Proof. exact error_prefix_nonempty. Qed.
Print Assumptions C11_error_prefix_nonempty.

(* the scanner that replaces _directive_re is exact for the concrete syntax of the specification *)
Theorem C11_scanner_sound : forall r d rest, scan_directive r = Some (d, rest) -> r = render d ++ rest /\ syntax_ok d = true.
Proof. exact scan_directive_sound. Qed.
Print Assumptions C11_scanner_sound.
Theorem C11_scanner_complete : forall d rest, syntax_ok d = true -> scan_directive (render d ++ rest) = Some (d, rest).
Proof. exact scan_directive_complete. Qed.
Print Assumptions C11_scanner_complete.

(* ---------------------------------------------------------------- non-vacuity *)
Definition types_of (s : string) : option (list (list N)) :=
  match fmtc_parse int_max_str_digits (chars s) with Ok fs => Some (reported fs) | _ => None end.

Example ex_simple : types_of "%d items in %s" = Some [chars "int"; chars "const char *"].
Proof. vm_compute. reflexivity. Qed.
Example ex_numbered_star : types_of "%2$s: %1$*3$.*4$lf %% %m" = Some [chars "double"; chars "const char *"; chars "int"; chars "int"].
Proof. vm_compute. reflexivity. Qed.
Example ex_macro : types_of "%<PRIuLEAST32> %-08<PRIdMAX> %jd" = Some [chars "uint_least32_t"; chars "intmax_t"; chars "intmax_t"].
Proof. vm_compute. reflexivity. Qed.
Example ex_signature :
  map ctype_name (signature (dirs (toks_of (chars "%2$s: %1$*3$.*4$lf %%")))) = [chars "double"; chars "const char *"; chars "int"; chars "int"].
Proof. vm_compute. reflexivity. Qed.
Lemma no_m_ok : forall s, good (toks_of s) = true -> forallb no_alt_m (dirs (toks_of s)) = true ->
  forall ds, decomp s ds -> Forall (fun d => no_alt_m d = true) ds.
Proof.
  intros s G H ds Hd. rewrite (C11_directives_unique s ds (dirs (toks_of s)) Hd (tokens_sound _ s (le_n _) G)).
  apply Forall_forall. apply forallb_forall. exact H.
Qed.
Example ex_valid : printf_valid (chars "%1$*2$d and %1$i").
Proof. apply C11_accept_iff_outside_D15; [apply no_m_ok; vm_compute; reflexivity|]. eexists. vm_compute. reflexivity. Qed.
Example ex_mixture : ~ printf_valid (chars "%1$d %d").
Proof.
  intros H. apply C11_accept_iff_outside_D15 in H; [|apply no_m_ok; vm_compute; reflexivity].
  destruct H as [fs H]. vm_compute in H. discriminate.
Qed.
Example ex_gap : fmtc_parse int_max_str_digits (chars "%1$d%3$d") = Err (EMissingArgument (chars "%1$d%3$d") 2).
Proof. vm_compute. reflexivity. Qed.
Example ex_type_mismatch : ~ printf_valid (chars "%1$d %1$c").
Proof.
  intros H. apply C11_accept_iff_outside_D15 in H; [|apply no_m_ok; vm_compute; reflexivity].
  destruct H as [fs H]. vm_compute in H. discriminate.
Qed.
Example ex_undefined_flag : fmtc_parse int_max_str_digits (chars "%#d") = Err (EFlagError (chars "%#d") 35).
Proof. vm_compute. reflexivity. Qed.
Example ex_lone_percent : fmtc_parse int_max_str_digits (chars "100%! " ++ [1%N] ++ chars "x") = Err (EError (chars "%! ")).
Proof. vm_compute. reflexivity. Qed.
Example ex_width_limit : fmtc_parse int_max_str_digits (chars "%2147483648d") = Err (EWidthRangeError (chars "%2147483648d") 2147483648).
Proof. vm_compute. reflexivity. Qed.
Example ex_width_at_limit : types_of "%2147483647d" = Some [chars "int"].
Proof. vm_compute. reflexivity. Qed.
(* what the limit of int() would do if it were in force (D7, fixed in /repo by lifting it) *)
Example ex_digit_limit : exists s, fmtc_parse 2 s = Crash CValueError.
Proof. exact crash_with_limit. Qed.
(* a warning is emitted and nothing else changes *)
Example ex_warning : match fmtc_parse int_max_str_digits (chars "%-05Ld") with
                     | Ok fs => (reported fs, List.length (fs_warnings fs)) = ([chars "long long int"], 2%nat)
                     | _ => False end.
Proof. vm_compute. reflexivity. Qed.

(* ---- source tie (notes/SRC14.md): the text of lib/strformat/c.py, translated on every run by tools/gen/gen_fmtc_src.py
   into Generated/FmtCSrc.v, equals the model for all arguments ---- *)
From I18n Require Import Model.FmtCPy Generated.FmtCSrc Proofs.FmtCSrc Proofs.FmtCSrcConv Proofs.FmtCSrcInit.

(* FormatString.add_argument, with the two handlers every caller puts around it *)
Theorem C11_source_tie_add_argument : forall maxd s st n v,
  ccatch (src_add_argument maxd (st_entries st) (st_next st) n v) (add_handlers s)
  = emb (do st' <- add_argument s st n v; Ok (st_entries st', st_next st')).
Proof. exact src_add_argument_eq. Qed.
Print Assumptions C11_source_tie_add_argument.

(* Conversion.__init__ on the match object of a directive whose '$' indices are digit strings *)
Theorem C11_source_tie_conversion : forall maxd cid st d text a b,
  dir_wf d ->
  cbind (src_conversion_init maxd cid (st_entries st) (st_next st) (st_warn st) (match_of_dir d text a b))
        (fun '(m, nx, w, s, tp, integer) => CRet (mkst m nx w, mkconv cid s tp integer))
  = emb (conversion_init maxd cid st d text).
Proof. exact src_conversion_init_eq. Qed.
Print Assumptions C11_source_tie_conversion.

(* every directive of the scanner satisfies that assumption *)
Theorem C11_source_tie_conversion_wf : forall d, syntax_ok d = true -> dir_wf d.
Proof. exact syntax_ok_wf. Qed.
Print Assumptions C11_source_tie_conversion_wf.

(* FormatString.__init__, for every finditer result that agrees with the model's token stream *)
Theorem C11_source_tie_formatstring : forall maxd (o_finditer : list N -> list cmatch) s,
  finditer_of (fmtc_tokens (List.length s) s) 0 (o_finditer s) ->
  cbind (src_formatstring_init maxd o_finditer model_prefix s) (fun '(items, args, w) => CRet (mkfs items args w))
  = emb (fmtc_parse maxd s).
Proof. exact src_formatstring_init_eq. Qed.
Print Assumptions C11_source_tie_formatstring.

(* emb loses nothing: the model's outcome is recovered from the translated code's result *)
Theorem C11_source_tie_outcome : forall A (o : outcome A cerr), to_outcome (emb o) = o.
Proof. exact to_outcome_emb. Qed.
Print Assumptions C11_source_tie_outcome.

(* the pattern text of _directive_re is the one the scanner was written from *)
Theorem C11_source_tie_pattern : src_directive_re = directive_re_text.
Proof. exact src_directive_re_eq. Qed.
Print Assumptions C11_source_tie_pattern.

(* non-vacuity: the translated constructor run on concrete match lists *)
Example ex_src_accept :
  let ms := matches_of (toks_of (chars "%2$s: %1$*3$d")) 0 in
  finditer_of (toks_of (chars "%2$s: %1$*3$d")) 0 ms /\
    match src_formatstring_init int_max_str_digits (fun _ => ms) model_prefix (chars "%2$s: %1$*3$d") with
    | CRet (items, args, w) => (List.length items, map (map a_type) args) = (3%nat, [[chars "int"]; [chars "const char *"]; [chars "int"]])
    | _ => False
    end.
Proof. split; [apply finditer_of_matches_of; vm_compute; reflexivity | vm_compute; reflexivity]. Qed.
Example ex_src_reject :
  let ms := matches_of (toks_of (chars "%d %!")) 0 in
  finditer_of (toks_of (chars "%d %!")) 0 ms /\
    src_formatstring_init int_max_str_digits (fun _ => ms) model_prefix (chars "%d %!") = CRaise (XErr (EError (chars "%!"))).
Proof. split; [apply finditer_of_matches_of; vm_compute; reflexivity | vm_compute; reflexivity]. Qed.

(* get_last_integer_conversion(n=..): IndexError, None, or the conversion object (its index in _items; .integer is True) *)
From I18n Require Import Proofs.FmtCSrcGlic.
Theorem C11_source_tie_get_last_integer_conversion : forall maxd items args w n,
  src_get_last_integer_conversion maxd args n
  = match fmtc_glic (mkfs items args w) n with
    | Ok (Some i) => CRet (Some (i, true))
    | Ok None => CRet None
    | Err _ => CRaise XIndex
    | Crash c => CRaise (XCrash c)
    end.
Proof. exact src_glic_eq. Qed.
Print Assumptions C11_source_tie_get_last_integer_conversion.

(* C05 — Range analysis of plural expressions is sound.
   Property theorems only; every proof is `exact <lemma>`; Print Assumptions below each. *)
From Coq Require Import ZArith List.
From I18n Require Import Lib.Outcome Model.IntExpr Proofs.Codomain
  Lib.PySrc Generated.IntExprSrc Proofs.IntExprSrc Proofs.IntExprSrcCd.
Import ListNotations.
Local Open Scope Z_scope.

(* When the analysis returns bounds (L, R) for modulus M (= 2^width), every n below M at which the
   expression evaluates successfully satisfies L <= f(n) <= R.  For every expression, every M >= 1. *)
Theorem C05_sound : forall M e L R, 1 <= M -> codomain M e = CSome L R ->
  forall n v, 0 <= n < M -> pyeval M e n = Ok v -> L <= v <= R.
Proof. exact codomain_bounds. Qed.
Print Assumptions C05_sound.

(* When it returns no bounds, the expression fails for every n. *)
Theorem C05_none_fails : forall M e, 1 <= M -> codomain M e = CNone ->
  forall n, 0 <= n < M -> exists k, pyeval M e n = Err k.
Proof. exact codomain_none_fails. Qed.
Print Assumptions C05_none_fails.

(* The returned interval is a well-formed sub-interval of [0, M). *)
Theorem C05_wf : forall M e L R, 1 <= M -> codomain M e = CSome L R -> 0 <= L <= R /\ (2 <= M -> R < M).
Proof. exact codomain_wf. Qed.
Print Assumptions C05_wf.

(* None of the analysis' assert statements can fire. *)
Theorem C05_no_assertion_fires : forall M e, 1 <= M -> codomain M e <> CAssert.
Proof. exact codomain_no_assert. Qed.
Print Assumptions C05_no_assertion_fires.

(* every width: M = 2^b *)
Theorem C05_every_width : forall (b : nat) e L R, codomain (2 ^ Z.of_nat b) e = CSome L R ->
  forall n v, 0 <= n < 2 ^ Z.of_nat b -> pyeval (2 ^ Z.of_nat b) e n = Ok v -> L <= v <= R.
Proof. exact (fun b e L R => codomain_bounds (2 ^ Z.of_nat b) e L R (pow2_ge1 b)). Qed.
Print Assumptions C05_every_width.

(* ---- Source tie.  Generated/IntExprSrc.v is the statement-by-statement translation (tools/gen/gen_intexpr_src.py) of the
   methods of lib/intexpr.py, regenerated from the working tree on every run.  Every translated method of class
   CodomainEvaluator equals the piece of `codomain` it corresponds to, for all arguments. *)
Theorem C05_source_tie_arith : forall M x0 x1 y0 y1,
  src_cd_add M (x0, x1) (y0, y1) = of_cres (cd_bin M Add x0 x1 y0 y1) /\
  src_cd_sub (x0, x1) (y0, y1) = of_cres (cd_bin M Sub x0 x1 y0 y1) /\
  src_cd_mult M (x0, x1) (y0, y1) = of_cres (cd_bin M Mult x0 x1 y0 y1) /\
  src_cd_div (x0, x1) (y0, y1) = of_cres (cd_bin M Div x0 x1 y0 y1) /\
  src_cd_mod (x0, x1) (y0, y1) = of_cres (cd_bin M Mod x0 x1 y0 y1).
Proof. exact cd_tie_arith. Qed.
Print Assumptions C05_source_tie_arith.

Theorem C05_source_tie_compare : forall x0 x1 y0 y1,
  src_cd_gte (x0, x1) (y0, y1) = of_cres (cd_cmp CGe x0 x1 y0 y1) /\
  src_cd_gt (x0, x1) (y0, y1) = of_cres (cd_cmp CGt x0 x1 y0 y1) /\
  src_cd_lte (x0, x1) (y0, y1) = of_cres (cd_cmp CLe x0 x1 y0 y1) /\
  src_cd_lt (x0, x1) (y0, y1) = of_cres (cd_cmp CLt x0 x1 y0 y1) /\
  src_cd_eq (x0, x1) (y0, y1) = of_cres (cd_cmp CEq x0 x1 y0 y1) /\
  src_cd_noteq (x0, x1) (y0, y1) = of_cres (cd_cmp CNe x0 x1 y0 y1) /\
  src_cd_not (x0, x1) = of_cres (cd_not x0 x1).
Proof. exact cd_tie_compare. Qed.
Print Assumptions C05_source_tie_compare.

(* the loops, for every visit function f and every argument list (the source visits lazily, the model maps f first) *)
Theorem C05_source_tie_and : forall (A : Type) (f : A -> cres) l,
  src_cd_and (fun a => of_cres (f a)) l = of_cres (cd_and_loop 1 1 (map f l)).
Proof. exact @src_cd_and_eq. Qed.
Print Assumptions C05_source_tie_and.
Theorem C05_source_tie_or : forall (A : Type) (f : A -> cres) l,
  src_cd_or (fun a => of_cres (f a)) l = of_cres (cd_or_loop 0 0 (map f l)).
Proof. exact @src_cd_or_eq. Qed.
Print Assumptions C05_source_tie_or.
Theorem C05_source_tie_ifexp : forall (A : Type) (f : A -> cres) c a b,
  src_cd_ifexp (fun a => of_cres (f a)) c a b = of_cres (cd_if (f c) (f a) (f b)).
Proof. exact @src_cd_ifexp_eq. Qed.
Print Assumptions C05_source_tie_ifexp.
Theorem C05_source_tie_leaves : forall M z,
  src_cd_num M z = of_cres (codomain M (Num z)) /\ src_cd_name M = of_cres (codomain M Var).
Proof. exact cd_tie_leaves. Qed.
Print Assumptions C05_source_tie_leaves.

(* one step of the visitor assembled from the translated BaseEvaluator methods and the leaf methods, through the
   hand-written mirror cd_visit1/2/n of the getattr dispatch, is one step of `codomain` *)
Theorem C05_source_tie_visitor : forall M,
  (forall o a b, src_base_binop (cd_vis M) (cd_visit2 M) (NE a) (NE b) (NBin o) = of_cres (codomain M (Bin o a b))) /\
  (forall o a b, src_base_compare (cd_vis M) (cd_visit2 M) [NE b] [NCmp o] (NE a) = of_cres (codomain M (Cmp o a b))) /\
  (forall a, src_base_unaryop (cd_vis M) cd_visit1 (NE a) NNot = of_cres (codomain M (Not a))) /\
  (forall a b, src_base_boolop (cd_visitn M) NAnd [NE a; NE b] = of_cres (codomain M (And a b))) /\
  (forall a b, src_base_boolop (cd_visitn M) NOr [NE a; NE b] = of_cres (codomain M (Or a b))) /\
  (forall c a b, src_cd_ifexp (cd_vis M) (NE c) (NE a) (NE b) = of_cres (codomain M (If c a b))).
Proof. exact cd_tie_visitor. Qed.
Print Assumptions C05_source_tie_visitor.

(* the untranslated parts (constructors: max = 1 << bits; __call__, the getattr dispatch _visit, _visit_expr) still have
   the source text whose digest is recorded in the translator *)
Theorem C05_source_tie_untranslated_pinned : src_pin_base = true /\ src_pin_cd = true.
Proof. exact cd_pins. Qed.
Print Assumptions C05_source_tie_untranslated_pinned.

(* Non-vacuity: the hypotheses are met by concrete, non-trivial expressions. *)
Definition polish : expr :=   (* n==1 ? 0 : n%10>=2 && n%10<=4 && (n%100<10 || n%100>=20) ? 1 : 2 *)
  If (Cmp CEq Var (Num 1)) (Num 0)
     (If (And (And (Cmp CGe (Bin Mod Var (Num 10)) (Num 2)) (Cmp CLe (Bin Mod Var (Num 10)) (Num 4)))
              (Or (Cmp CLt (Bin Mod Var (Num 100)) (Num 10)) (Cmp CGe (Bin Mod Var (Num 100)) (Num 20))))
         (Num 1) (Num 2)).
Example C05_ex_polish : codomain (2^32) polish = CSome 0 2 /\ pyeval (2^32) polish 22 = Ok 1.
Proof. vm_compute. split; reflexivity. Qed.
Example C05_ex_none : codomain (2^32) (Bin Div Var (Num 0)) = CNone /\ pyeval (2^32) (Bin Div Var (Num 0)) 5 = Err EDivZero.
Proof. vm_compute. split; reflexivity. Qed.
Example C05_ex_sub : codomain 16 (Bin Sub (Num 3) Var) = CSome 0 3.
Proof. vm_compute. reflexivity. Qed.

(* C05 — Range analysis of plural expressions is sound.
   Property theorems only; every proof is `exact <lemma>`; Print Assumptions below each. *)
From Coq Require Import ZArith List.
From I18n Require Import Lib.Outcome Model.IntExpr Proofs.Codomain.
Import ListNotations.
Local Open Scope Z_scope.

(* When the analysis returns bounds (L, R) for modulus M (= 2^width), every n below M at which the
   expression evaluates successfully satisfies L <= f(n) <= R.  For every expression, every M >= 1. *)
Theorem C05_sound : forall M e L R, 1 <= M -> codomain M e = CSome L R ->
  forall n v, 0 <= n < M -> pyeval M e n = Ok v -> L <= v <= R.
Proof. exact codomain_bounds. Qed.
Print Assumptions C05_sound.

(* When it returns no bounds, the expression fails for every n. *)
Theorem C05_none_fails : forall M e, 1 <= M -> codomain M e = CNone ->
  forall n, 0 <= n < M -> exists k, pyeval M e n = Err k.
Proof. exact codomain_none_fails. Qed.
Print Assumptions C05_none_fails.

(* The returned interval is a well-formed sub-interval of [0, M). *)
Theorem C05_wf : forall M e L R, 1 <= M -> codomain M e = CSome L R -> 0 <= L <= R /\ (2 <= M -> R < M).
Proof. exact codomain_wf. Qed.
Print Assumptions C05_wf.

(* None of the analysis' assert statements can fire. *)
Theorem C05_no_assertion_fires : forall M e, 1 <= M -> codomain M e <> CAssert.
Proof. exact codomain_no_assert. Qed.
Print Assumptions C05_no_assertion_fires.

(* every width: M = 2^b *)
Theorem C05_every_width : forall (b : nat) e L R, codomain (2 ^ Z.of_nat b) e = CSome L R ->
  forall n v, 0 <= n < 2 ^ Z.of_nat b -> pyeval (2 ^ Z.of_nat b) e n = Ok v -> L <= v <= R.
Proof. exact (fun b e L R => codomain_bounds (2 ^ Z.of_nat b) e L R (pow2_ge1 b)). Qed.
Print Assumptions C05_every_width.

(* Non-vacuity: the hypotheses are met by concrete, non-trivial expressions. *)
Definition polish : expr :=   (* n==1 ? 0 : n%10>=2 && n%10<=4 && (n%100<10 || n%100>=20) ? 1 : 2 *)
  If (Cmp CEq Var (Num 1)) (Num 0)
     (If (And (And (Cmp CGe (Bin Mod Var (Num 10)) (Num 2)) (Cmp CLe (Bin Mod Var (Num 10)) (Num 4)))
              (Or (Cmp CLt (Bin Mod Var (Num 100)) (Num 10)) (Cmp CGe (Bin Mod Var (Num 100)) (Num 20))))
         (Num 1) (Num 2)).
Example C05_ex_polish : codomain (2^32) polish = CSome 0 2 /\ pyeval (2^32) polish 22 = Ok 1.
Proof. vm_compute. split; reflexivity. Qed.
Example C05_ex_none : codomain (2^32) (Bin Div Var (Num 0)) = CNone /\ pyeval (2^32) (Bin Div Var (Num 0)) 5 = Err EDivZero.
Proof. vm_compute. split; reflexivity. Qed.
Example C05_ex_sub : codomain 16 (Bin Sub (Num 3) Var) = CSome 0 3.
Proof. vm_compute. reflexivity. Qed.

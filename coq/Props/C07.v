(* C07 — Plural-Forms diagnostics are truthful, and complete on the examined window.
   M32 = 2^32; window = 200, as in the code. *)
From Coq Require Import ZArith List Bool.
From I18n Require Import Lib.Outcome Model.IntExpr Model.PluralForms Generated.Languages Generated.PyConsts
  Proofs.Codomain Proofs.Period Proofs.PluralForms Proofs.PluralFormsNoCrash.
From I18n Require Import Lib.PySrc Model.PluralFormsPy Model.PluralFormsHead Generated.PluralsSrc Proofs.PluralsSrc.
Import ListNotations.
Local Open Scope Z_scope.

(* A syntax error is reported iff parse_plural_forms rejects the value ... *)
Theorem C07_syntax_iff : forall maxd inp,
  (exists c, parse_plural_forms maxd (pf_value inp) = Crash c) \/
  (check_plurals_core maxd inp = Ok ([DSyntax], None) <-> parse_plural_forms maxd (pf_value inp) = Err PFSyntax).
Proof. exact syntax_error_iff. Qed.
Print Assumptions C07_syntax_iff.

(* With the interpreter's digit limit as generated (0 = unlimited after `import lib`) no foreign exception can
   occur anywhere in check_plurals: the expression parser's fuel suffices and int() cannot refuse a constant
   (C04_parse_no_crash), the registry strings go through the same parser, and the range analysis' assertions are
   dead (C05_no_assertion_fires).  So the alternative above disappears. *)
Theorem C07_no_crash : forall inp c, check_plurals_core int_max_str_digits inp <> Crash c.
Proof. exact check_plurals_core_no_crash. Qed.
Print Assumptions C07_no_crash.

Theorem C07_syntax_iff_exact : forall inp,
  check_plurals_core int_max_str_digits inp = Ok ([DSyntax], None) <->
  parse_plural_forms int_max_str_digits (pf_value inp) = Err PFSyntax.
Proof. exact syntax_error_iff_exact. Qed.
Print Assumptions C07_syntax_iff_exact.

(* ... and it accepts only values that contain  nplurals=<positive integer>;[blanks]plural=<expr>[;]  with an
   expression text the plural-expression parser accepts (C04); l and r are the text around that declaration. *)
Theorem C07_accept_shape : forall maxd s n e l r, parse_plural_forms maxd s = Ok (n, e, l, r) ->
  exists ds body, pf_shape s l ds body r /\ n = digits_value ds /\ parse_string maxd body = Ok e.
Proof. exact parse_plural_forms_ok. Qed.
Print Assumptions C07_accept_shape.

(* the declaration used is the leftmost one ("contains" is read as Python's leftmost match) *)
Theorem C07_leftmost : forall s l ds body r, pf_search s = Some (l, ds, body, r) ->
  forall l1 l2, l = l1 ++ l2 -> l2 <> [] -> exists rest, s = l1 ++ rest /\ pf_match_here rest = None.
Proof. exact pf_search_leftmost. Qed.
Print Assumptions C07_leftmost.

(* completeness of the search: the value is rejected as a whole iff it contains no declaration of the shape at all, or the
   expression text of the leftmost one is not a plural expression (with the digit limit lifted, as generated) *)
Theorem C07_no_match_iff_no_declaration : forall s, pf_search s = None <-> forall l ds body r, ~ pf_shape s l ds body r.
Proof. exact pf_search_none_iff. Qed.
Print Assumptions C07_no_match_iff_no_declaration.

Theorem C07_syntax_error_characterised : forall maxd s, maxd = 0%N ->
  (parse_plural_forms maxd s = Err PFSyntax <->
   (forall l ds body r, ~ pf_shape s l ds body r) \/
   (exists l ds body r, pf_search s = Some (l, ds, body, r) /\ parse_string maxd body = Err SynErr)).
Proof. exact syntax_error_characterised. Qed.
Print Assumptions C07_syntax_error_characterised.

(* leading/trailing junk tags carry exactly the text around the declaration *)
Theorem C07_junk : forall maxd inp ds pre n e l r,
  check_plurals_core maxd inp = Ok (ds, pre) ->
  parse_plural_forms maxd (pf_value inp) = Ok (n, e, l, r) ->
  (forall j, In (DLeadingJunk j) ds <-> j = l /\ l <> []) /\
  (forall j, In (DTrailingJunk j) ds <-> j = r /\ r <> []).
Proof. exact junk_exact. Qed.
Print Assumptions C07_junk.

(* the arithmetic / out-of-range diagnostics are exactly: the least n < 200 that fails or yields a value >= nplurals,
   with its true outcome (first_bad), provided the registry declarations compared against do not fail on the window *)
Theorem C07_window_exact : forall maxd inp ds pre n e l r reg,
  check_plurals_core maxd inp = Ok (ds, pre) ->
  parse_plural_forms maxd (pf_value inp) = Ok (n, e, l, r) ->
  (match pf_correct inp with None => Ok None | Some l0 => do r0 <- parse_registry maxd l0; Ok (Some r0) end) = Ok reg ->
  reg_total reg ->
  filter is_window_diag ds = opt_list (first_bad e n (zrange 0 window)).
Proof. exact window_diags_exact. Qed.
Print Assumptions C07_window_exact.

Theorem C07_first_bad_is_least_and_true : forall e n d, first_bad e n (zrange 0 window) = Some d ->
  exists i, 0 <= i < window /\
    (forall j, 0 <= j < i -> exists v, pyeval M32 e j = Ok v /\ v < n) /\
    ((exists k, d = DArith i k /\ pyeval M32 e i = Err k) \/
     (exists fi, d = DCodomainAt i fi n /\ pyeval M32 e i = Ok fi /\ n <= fi)).
Proof. exact (fun e n => first_bad_spec e n 0 window). Qed.
Print Assumptions C07_first_bad_is_least_and_true.

Theorem C07_no_first_bad_means_window_fine : forall e n, first_bad e n (zrange 0 window) = None ->
  forall i, 0 <= i < window -> exists v, pyeval M32 e i = Ok v /\ v < n.
Proof. exact (fun e n H i Hi => first_bad_none e n _ H i (proj2 (zrange_in 0 window i) Hi)). Qed.
Print Assumptions C07_no_first_bad_means_window_fine.

(* A claim "f(x) != lo, ..., hi-1" is made only if no n in [0, 2^32) produces any of these values. *)
Theorem C07_never_claims_truthful : forall maxd inp ds pre n e l r,
  check_plurals_core maxd inp = Ok (ds, pre) ->
  parse_plural_forms maxd (pf_value inp) = Ok (n, e, l, r) ->
  forall lo hi, In (DNever lo hi) ds ->
    (forall k, lo <= k < hi -> forall m, 0 <= m < M32 -> pyeval M32 e m <> Ok k) /\ 0 <= lo < hi /\ (lo = 0 \/ hi <= n).
Proof. exact never_claims_truthful_strong. Qed.
Print Assumptions C07_never_claims_truthful.

(* nplurals is reported as incorrect iff it differs from the consistent msgstr count *)
Theorem C07_nplurals_iff : forall maxd inp ds pre n e l r a b,
  check_plurals_core maxd inp = Ok (ds, pre) ->
  parse_plural_forms maxd (pf_value inp) = Ok (n, e, l, r) ->
  (In (DIncorrectN a b) ds <-> pf_expected inp = [b] /\ a = n /\ n <> b).
Proof. exact incorrect_n_iff. Qed.
Print Assumptions C07_nplurals_iff.

(* total on the window, within range, onto {0..nplurals-1}  =>  no arithmetic, out-of-range or never-produced diagnostic *)
Theorem C07_clean_is_silent : forall maxd inp ds pre n e l r reg,
  check_plurals_core maxd inp = Ok (ds, pre) ->
  parse_plural_forms maxd (pf_value inp) = Ok (n, e, l, r) ->
  (match pf_correct inp with None => Ok None | Some l0 => do r0 <- parse_registry maxd l0; Ok (Some r0) end) = Ok reg ->
  reg_total reg ->
  1 <= n ->
  (forall i, 0 <= i < window -> exists v, pyeval M32 e i = Ok v /\ v < n) ->
  (forall k, 0 <= k < n -> exists m, 0 <= m < M32 /\ pyeval M32 e m = Ok k) ->
  forall d, In d ds -> match d with DArith _ _ | DCodomainAt _ _ _ | DNever _ _ => False | _ => True end.
Proof. exact clean_is_silent. Qed.
Print Assumptions C07_clean_is_silent.

(* The registry (regenerated from data/languages on every run): each language's own declaration, checked against
   that language, with a matching msgstr count, yields no diagnostic at all (in particular it is never "unusual"),
   and every registry expression is total on the window (the side condition of the theorems above). *)
Definition registry_decl_silent (decls : list (list N)) (d : list N) : bool :=
  match parse_plural_forms_strict int_max_str_digits d with
  | Ok (n, _) =>
    match check_plurals_core int_max_str_digits
            {| pf_value := d; pf_has_plurals := true; pf_expected := [n]; pf_correct := Some decls |} with
    | Ok ([], Some _) => true
    | _ => false
    end
  | _ => false
  end.
Definition registry_decl_total (d : list N) : bool :=
  match parse_plural_forms_strict int_max_str_digits d with
  | Ok (_, e) => forallb (fun i => is_ok (pyeval M32 e i)) (zrange 0 window)
  | _ => false
  end.

Theorem C07_registry : forallb (fun x => forallb (registry_decl_silent (snd x)) (snd x)) plural_registry = true.
Proof. vm_compute. reflexivity. Qed.
Print Assumptions C07_registry.

Theorem C07_registry_total : forallb (fun x => forallb registry_decl_total (snd x)) plural_registry = true.
Proof. vm_compute. reflexivity. Qed.
Print Assumptions C07_registry_total.

(* non-vacuity *)
Definition s_pl : list N :=   (* "x nplurals=3; plural=n%10==1 ? 0 : 1; y" *)
  [120;32;110;112;108;117;114;97;108;115;61;51;59;32;112;108;117;114;97;108;61;110;37;49;48;61;61;49;32;63;32;48;32;58;32;49;59;32;121]%N.
Example C07_ex : check_plurals_core 0 {| pf_value := s_pl; pf_has_plurals := true; pf_expected := [2]; pf_correct := None |}
  = Ok ([DLeadingJunk [120;32]%N; DTrailingJunk [32;121]%N; DIncorrectN 3 2; DNever 2 3], None).
Proof. vm_compute. reflexivity. Qed.

(* ------------------------------------------------------------------------------------------------------------------
   Source tie.  Generated/PluralsSrc.v is the statement-by-statement translation (tools/gen/gen_plurals_src.py, fail-closed,
   re-run on every check) of gettext.parse_plural_expression, gettext.parse_plural_forms and the WHOLE method
   Checker.check_plurals of the working tree.  The theorems say that this translation, run with the model's search
   function / int() / expression parser / evaluators as the external operations (MW) and ANY check context (header values,
   language, template flag, messages), equals the hand-written model that all the theorems above are about.  A behavioural
   edit of that Python code changes the generated definitions and these no longer compile.
   embed: Ok v = the value returned, Err = PluralFormsSyntaxError raised, Crash = the foreign exception raised. *)
Theorem C07_source_tie_regex : src_plural_forms_regex = pf_regex_text.
Proof. exact src_regex_eq. Qed.
Print Assumptions C07_source_tie_regex.

(* parse_plural_expression, for EVERY world: LexingError / ParsingError of the parser become the module's syntax error *)
Theorem C07_source_tie_parse_expression : forall (L G E M : Type) (W : pl_world E M L G) s,
  src_parse_plural_expression W s =
  match w_parse W s with
  | SRet e => SRet e
  | SNone => SRaise (XCrash CTypeError)
  | SAssert => SAssert
  | SRaise XLexing | SRaise XParsing => SRaise XPluralForms
  | SRaise x => SRaise x
  end.
Proof. exact src_parse_plural_expression_spec. Qed.
Print Assumptions C07_source_tie_parse_expression.

Theorem C07_source_tie_parse_plural_forms : forall L G maxd values language get_pf is_template file obsolete msgid_plural translated msgstr_plural s,
  src_parse_plural_forms_nonstrict (MW L G maxd values language get_pf is_template file obsolete msgid_plural translated msgstr_plural) s
  = embed (parse_plural_forms maxd s).
Proof. exact src_parse_plural_forms_nonstrict_eq. Qed.
Print Assumptions C07_source_tie_parse_plural_forms.

Theorem C07_source_tie_parse_plural_forms_strict : forall L G maxd values language get_pf is_template file obsolete msgid_plural translated msgstr_plural s,
  src_parse_plural_forms_strict (MW L G maxd values language get_pf is_template file obsolete msgid_plural translated msgstr_plural) s
  = embed (parse_plural_forms_strict maxd s).
Proof. exact src_parse_plural_forms_strict_eq. Qed.
Print Assumptions C07_source_tie_parse_plural_forms_strict.

(* the whole method: Model/PluralFormsHead.check_plurals = the field lookup, the scan of the messages and the tags about a
   missing field around check_plurals_core; tags as (name variant, arguments), ctx.plural_preimage as the second component *)
Theorem C07_source_tie_check_plurals : forall L G maxd values language get_pf is_template file obsolete msgid_plural translated msgstr_plural,
  src_check_plurals (MW L G maxd values language get_pf is_template file obsolete msgid_plural translated msgstr_plural)
  = embed (check_plurals maxd (ctx_of L G values language get_pf is_template file obsolete msgid_plural translated msgstr_plural)).
Proof. exact src_check_plurals_eq. Qed.
Print Assumptions C07_source_tie_check_plurals.

(* in the scope of the property (a non-template catalog with one Plural-Forms value v): what the method emits is, after the
   tag about inconsistent msgstr[] counts, the image of check_plurals_core's diagnostics under tag_of_diag - the -unused-
   variant of a tag name iff no message has a plural, v as the argument of the syntax / unusual tags - and what it
   leaves in ctx.plural_preimage is check_plurals_core's preimage table *)
Theorem C07_source_tie_core : forall L G maxd values language get_pf is_template file obsolete msgid_plural translated msgstr_plural v,
  values = [v] -> is_template = false ->
  src_check_plurals (MW L G maxd values language get_pf is_template file obsolete msgid_plural translated msgstr_plural) =
  let c := ctx_of L G values language get_pf is_template file obsolete msgid_plural translated msgstr_plural in
  let '(hp, counts) := scan_msgs (pc_msgs c) false [] in
  embed_core (if zlen counts >? 1 then [TInconsistent (inconsistent_args counts)] else []) hp v
    (check_plurals_core maxd {| pf_value := v; pf_has_plurals := hp; pf_expected := counts; pf_correct := pc_correct c |}).
Proof. exact src_check_plurals_core_eq. Qed.
Print Assumptions C07_source_tie_core.

(* non-vacuity: the translated method run on the header value of C07_ex, one translated plural message with two msgstr[] *)
Example C07_src_ex :
  src_check_plurals (MW unit bool 0 [s_pl] None (fun _ => None) false [true] (fun _ => false) (fun _ => Some []) (fun g => g) (fun _ => [(0, []); (1, [])]))
  = SRet ([TLeadingJunk [120;32]%N; TTrailingJunk [32;121]%N; TIncorrectN 3 2; TCodomain true (MNever (2, 3, 5))], None).
Proof. vm_compute. reflexivity. Qed.

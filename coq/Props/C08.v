(* C08 — every well-formed MO file decodes to exactly the catalog it encodes.
   Encodes_at / wf_catalog: Spec/MoFormat.v (from gmo.h).  mo_parse: Model/MoParser.v (lib/moparser.py, byte level; the codec is an
   oracle applied afterwards, asc = encodings.is_ascii_compatible_encoding).
   (as_returned is the identity since the fix of D15.) *)
From Coq Require Import List NArith Bool.
From I18n Require Import Lib.Outcome Model.MoParser Spec.MoFormat Proofs.MoStrings Proofs.MoParser Proofs.MoCorollaries Proofs.MoCharset.
From I18n Require Import Model.MoParserPy Generated.MoParserSrc Proofs.MoParserSrc.
Import ListNotations.
Local Open Scope N_scope.

(* for every catalog and every layout of it (byte order, placement, overlap, padding, hash table, revision):
   exactly those entries, in file order, with the hidden-strings flag of the header *)
Theorem C08_decode_exact : forall asc f c h, wf_catalog c -> Encodes f c h ->
  exists cs, mo_parse asc None f = Ok {| o_entries := c; o_charset := cs; o_hidden := h |}.
Proof. exact C08_statement_holds. Qed.
Print Assumptions C08_decode_exact.

Theorem C08_decode_exact_charset : forall asc enc0 f c h, wf_catalog c -> Encodes f c h ->
  mo_parse asc enc0 f = Ok {| o_entries := map as_returned c; o_charset := catalog_charset asc enc0 c; o_hidden := h |}.
Proof. exact complete_returned. Qed.      (* as_returned = identity: map_as_returned *)
Print Assumptions C08_decode_exact_charset.

(* a file whose format revision may hide strings is flagged, not reported as an ordinary empty catalog *)
Theorem C08_hidden_not_empty : forall asc enc0 f, Encodes f [] true ->
  mo_parse asc enc0 f = Ok {| o_entries := []; o_charset := enc0; o_hidden := true |}.
Proof. exact hidden_flag_kept. Qed.
Print Assumptions C08_hidden_not_empty.

(* the charset is taken from the first mo_entry when its key is empty (choose_encoding), otherwise ASCII *)
Theorem C08_charset : forall asc enc0 c,
  catalog_charset asc enc0 c =
  match c with
  | [] => enc0
  | e :: _ => Some (choose_encoding asc enc0 (sort_key e) (val_of e))
  end.
Proof. exact catalog_charset_spec. Qed.
Print Assumptions C08_charset.

(* ... and that is the charset the header mo_entry names in gettext's reading (first "charset=", name up to the next blank; Spec
   declares_charset), when the name is not empty and ASCII: used if the oracle accepts it, ASCII otherwise *)
Theorem C08_charset_declared : forall asc e c name,
  sort_key e = [] -> declares_charset (val_of e) name -> name <> [] -> forallb is_ascii name = true ->
  catalog_charset asc None (e :: c) = Some (if asc name then name else ascii_name).
Proof. exact catalog_charset_declared. Qed.
Print Assumptions C08_charset_declared.

Theorem C08_charset_no_header : forall asc e c, sort_key e <> [] -> catalog_charset asc None (e :: c) = Some ascii_name.
Proof. exact catalog_charset_no_header. Qed.
Print Assumptions C08_charset_no_header.

(* non-vacuity: a 3-mo_entry big-endian file, minor revision 1, hash table present, tables after the strings, the value of the
   third mo_entry stored inside the key of the second one; it encodes ex_catalog (context and plural included) *)
Example C08_ex_encodes : Encodes ex_file ex_catalog false /\ wf_catalog ex_catalog.
Proof. exact ex_encodes. Qed.
Example C08_ex_parse : mo_parse (fun _ => true) None ex_file =
  Ok {| o_entries :=
          [ {| e_ctxt := None; e_id := []; e_plural := None; e_strs := [ex_header_value] |};
            {| e_ctxt := None; e_id := [98]; e_plural := Some [98; 115]; e_strs := [[121]; []] |};
            {| e_ctxt := Some [99]; e_id := [97]; e_plural := None; e_strs := [[115]] |} ];
        o_charset := Some utf8_name; o_hidden := false |}.
Proof. vm_compute. reflexivity. Qed.

(* ------------------------------------------------------------------ *)
(* Source tie (notes/SRC4.md).  Generated/MoParserSrc.v is the translation of Parser._read_ints / _parse_entry / _parse of the
   working tree's lib/moparser.py, made by tools/gen/gen_moparser_src.py at the start of every check.  The theorems say that
   the translation equals the model the theorems above are about, for all arguments (no hypotheses); an edit of that code
   changes the generated text and they no longer compile.  Vocabulary: Model/MoParserPy.v; of_out / entry_result / load_embed
   / parse_view (Proofs/MoParserSrc.v) write the model's results in that vocabulary; re_search_m / re_group_m instantiate
   the re.search oracle with the model's find_charset at the pattern of the code. *)
Theorem C08_source_tie_constants : src_little_endian_magic = le_magic /\ src_big_endian_magic = be_magic.
Proof. exact src_magic_eq. Qed.
Print Assumptions C08_source_tie_constants.

Theorem C08_source_tie_read_ints : forall be f at_,
  src_read_ints f (endian_str be) at_ 1 = of_out (fun x => [x]) (read_int be f at_) /\
  src_read_ints f (endian_str be) at_ 2 = of_out (fun p => [fst p; snd p]) (read_int2 be f at_).
Proof. exact src_read_ints_eq. Qed.
Print Assumptions C08_source_tie_read_ints.

(* _parse_entry = parse_entry followed by decoding the strings of the entry in the order of the code *)
Theorem C08_source_tie_parse_entry : forall asc dec be f i enc last mo so,
  src_parse_entry asc dec re_search_m re_group_m f (endian_str be) enc last i mo so =
  entry_result dec (parse_entry asc be f (i =? 0) enc last mo so).
Proof. exact src_parse_entry_eq. Qed.
Print Assumptions C08_source_tie_parse_entry.

(* _parse (header, loop over range(n_strings) without fuel) = mo_load: charset, hidden flag, entries, or the exception *)
Theorem C08_source_tie_parse : forall asc dec enc0 f,
  parse_view (src_parse asc dec re_search_m re_group_m f enc0 []) = load_embed (mo_load asc dec enc0 f).
Proof. exact src_parse_eq. Qed.
Print Assumptions C08_source_tie_parse.

Example C08_source_tie_ex :
  parse_view (src_parse (fun _ => true) (fun _ _ => true) re_search_m re_group_m ex_file None []) =
  MRet (Some utf8_name, false, map entry_embed ex_catalog).
Proof. exact src_parse_ex. Qed.

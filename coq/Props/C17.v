(* C17 — Diagnostics depend on catalog content, not on surface encoding or packaging.
   The part that is logic in the tool itself: the path printed for a member of an unpacked package. *)
From Coq Require Import List Arith Bool.
From I18n Require Import Model.Cli Proofs.Cli.
Import ListNotations.

(* with fake_root = (real_root, fake_root): a path under real_root is printed as fake_root ++ the rest,
   any other path is printed unchanged *)
Theorem C17_fake_path : forall (A : Type) (eqb : A -> A -> bool),
  (forall x y, eqb x y = true <-> x = y) ->
  forall real fake path,
    (forall r, path = real ++ r -> fake_path eqb real fake path = fake ++ r) /\
    ((forall r, path <> real ++ r) -> fake_path eqb real fake path = path).
Proof. exact fake_path_spec. Qed.
Print Assumptions C17_fake_path.

Example C17_ex : fake_path Nat.eqb [1;2;47] [9;47] [1;2;47;5;6] = [9;47;5;6].
Proof. reflexivity. Qed.

(* C17 — Diagnostics depend on catalog content, not on surface encoding or packaging.
   The part that is logic in the tool itself: the path printed for a member of an unpacked package. *)
From Coq Require Import List Arith Bool.
From I18n Require Import Model.Cli Proofs.Cli.
From Coq Require Import NArith.
From I18n Require Import Lib.Outcome Model.MoParser Spec.MoFormat Proofs.Packaging.
From I18n Require Import Model.PoUnescape Model.PoParser Spec.PoSyntax Proofs.PoParser.
From I18n Require Import Model.PoLexer Proofs.PackagingFiles.
From Coq Require Import ZArith.
From I18n Require Import Model.CliPy Generated.CliSrc Proofs.CliSrc.
Import ListNotations.

(* with fake_root = (real_root, fake_root): a path under real_root is printed as fake_root ++ the rest,
   any other path is printed unchanged *)
Theorem C17_fake_path : forall (A : Type) (eqb : A -> A -> bool),
  (forall x y, eqb x y = true <-> x = y) ->
  forall real fake path,
    (forall r, path = real ++ r -> fake_path eqb real fake path = fake ++ r) /\
    ((forall r, path <> real ++ r) -> fake_path eqb real fake path = path).
Proof. exact fake_path_spec. Qed.
Print Assumptions C17_fake_path.

(* two MO files encoding the same catalog — either byte order, any placement/overlap/padding of tables and strings, with or
   without hash table, same hidden-strings flag — load to the same entries, charset and flag; every diagnostic is computed from
   that result (and the path, options and date), so it is the same *)
Theorem C17_mo_layout : forall asc enc0 f1 f2 c h,
  wf_catalog c -> Encodes f1 c h -> Encodes f2 c h -> mo_parse asc enc0 f1 = mo_parse asc enc0 f2.
Proof. exact mo_layout_independent. Qed.
Print Assumptions C17_mo_layout.

(* two PO spellings of the same catalog — different escape forms per character, different chunking into continuation lines,
   blank lines, #~| lines — drive the PO state machine to the same catalog (token level; the line lexer part is C10's) *)
Theorem C17_po_spelling : forall O ws1 ws2 c1 c2 l1 l2,
  ascii_compatible (o_dec O) -> ~ In 34%N ws1 -> ~ In 34%N ws2 ->
  scatalog_ok (o_dec O) c1 -> scatalog_ok (o_dec O) c2 -> nplurals_le_10 c1 -> nplurals_le_10 c2 ->
  catalog_value c1 = catalog_value c2 ->
  ext (toks_catalog ws1 c1) l1 -> ext (toks_catalog ws2 c2) l2 ->
  run_machine O l1 = run_machine O l2.
Proof. exact po_spelling_independent. Qed.
Print Assumptions C17_po_spelling.

(* the same at file level (corollary of the C10 load/render theorems): two spellings of one catalog in one charset —
   escape form per character, continuation chunks, per-line padding, blank lines, separators — give the same loaded file *)
Theorem C17_po_spelling_files : forall O sp1 sp2 c1 c2 pls1 pls2,
  ascii_compatible (o_dec O) ->
  seps_ok sp1 -> scatalog_ok (o_dec O) c1 -> nplurals_le_10 c1 -> sc_entries c1 <> [] ->
  file_of (render_bodies sp1 c1) pls1 -> Forall (fun l => ~ In 10%N l) pls1 ->
  seps_ok sp2 -> scatalog_ok (o_dec O) c2 -> nplurals_le_10 c2 -> sc_entries c2 <> [] ->
  file_of (render_bodies sp2 c2) pls2 -> Forall (fun l => ~ In 10%N l) pls2 ->
  catalog_value c1 = catalog_value c2 ->
  parse_lines O (codecs_open_text (text_of_lines pls1)) = parse_lines O (codecs_open_text (text_of_lines pls2)).
Proof. exact po_files_same_catalog. Qed.
Print Assumptions C17_po_spelling_files.

(* transcoding to another supported charset with the charset field adjusted: each file is decoded with its own declared
   charset and the loaded entries are the same except the header entry (whose value names the charset) *)
Theorem C17_po_transcoding : forall C raw1 raw2 enc1 enc2 sp1 sp2 c1 c2 pls1 pls2 h1 h2 rest,
  detect_encoding (c_lookup C) raw1 = enc1 -> detect_encoding (c_lookup C) raw2 = enc2 ->
  c_decode C (if c_ascii_compatible C enc1 then enc1 else s_ascii) raw1 = Some (text_of_lines pls1) ->
  c_decode C (if c_ascii_compatible C enc2 then enc2 else s_ascii) raw2 = Some (text_of_lines pls2) ->
  ascii_compatible (c_decode C enc1) -> ascii_compatible (c_decode C enc2) ->
  seps_ok sp1 -> scatalog_ok (c_decode C enc1) c1 -> nplurals_le_10 c1 -> sc_entries c1 <> [] ->
  file_of (render_bodies sp1 c1) pls1 -> Forall (fun l => ~ In 10%N l) pls1 ->
  seps_ok sp2 -> scatalog_ok (c_decode C enc2) c2 -> nplurals_le_10 c2 -> sc_entries c2 <> [] ->
  file_of (render_bodies sp2 c2) pls2 -> Forall (fun l => ~ In 10%N l) pls2 ->
  fst (catalog_value c1) = fst (catalog_value c2) ->
  snd (catalog_value c1) = h1 :: rest -> snd (catalog_value c2) = h2 :: rest ->
  exists hdr es,
    load_po C raw1 = Ok (mkLoaded enc1 (mkPo hdr (to_entry (tool_view h1) :: es) false), false) /\
    load_po C raw2 = Ok (mkLoaded enc2 (mkPo hdr (to_entry (tool_view h2) :: es) false), false).
Proof. exact po_files_transcoded. Qed.
Print Assumptions C17_po_transcoding.

(* --unpack-deb: a member unpacked from a binary package (under tmpdir/) or from a source package (under tmpdir/s/) is
   printed as <package>/<member> *)
Theorem C17_member_path : forall binary tmpdir filename member,
  printed_member binary tmpdir filename member = filename ++ [47%N] ++ member.
Proof. exact printed_member_spec. Qed.
Print Assumptions C17_member_path.

Example C17_ex : fake_path Nat.eqb [1;2;47] [9;47] [1;2;47;5;6] = [9;47;5;6].
Proof. reflexivity. Qed.
Example C17_ex_member :   (* "/t" "p.dsc" "po/a.po": unpacked at /t/s/po/a.po, printed as p.dsc/po/a.po *)
  (unpacked_member false [47;116] [112;111;47;97;46;112;111] = [47;116;47;115;47;112;111;47;97;46;112;111] /\
   printed_member false [47;116] [112;46;100;115;99] [112;111;47;97;46;112;111] = [112;46;100;115;99;47;112;111;47;97;46;112;111])%N.
Proof. split; reflexivity. Qed.

(* ---- source tie (notes/SRC15.md): check_deb, check_file, copy_options and cli.Checker.tag as translated from lib/cli.py on every
   run (Generated/CliSrc.v) equal Model/Cli.v; dpkg-deb / dpkg-source, the temporary directory, os.walk, islink / isfile and the real
   checker are arguments on both sides *)
Theorem C17_source_tie_check_deb : forall (L X O : Type) (check_call : list str -> bool -> io L X unit) (mkdtemp : str -> res X str)
    (cleanup : str -> io L X unit) (os_walk : str -> list (str * list str * list str)) (islink isfile : str -> bool)
    (rec_check_file : str -> options O -> io L X unit),
  (forall p d, mkdtemp p = Ret d -> path_ok d) ->
  forall filename o,
    src_check_deb check_call mkdtemp cleanup os_walk islink isfile rec_check_file filename o
    = check_deb check_call mkdtemp cleanup os_walk islink isfile rec_check_file filename o.
Proof. exact @src_check_deb_eq. Qed.
Print Assumptions C17_source_tie_check_deb.

Theorem C17_source_tie_check_file : forall (L X O : Type) (check_call : list str -> bool -> io L X unit) (mkdtemp : str -> res X str)
    (cleanup : str -> io L X unit) (os_walk : str -> list (str * list str * list str)) (islink isfile : str -> bool)
    (checker_check rec_check_file : str -> options O -> io L X unit),
  (forall p d, mkdtemp p = Ret d -> path_ok d) ->
  forall path o,
    src_check_file checker_check check_call mkdtemp cleanup os_walk islink isfile rec_check_file path o
    = check_file checker_check (check_deb check_call mkdtemp cleanup os_walk islink isfile rec_check_file) path o.
Proof. exact @src_check_file_eq. Qed.
Print Assumptions C17_source_tie_check_file.

Theorem C17_source_tie_check_regular_file : forall (L X O : Type) (checker_check : str -> options O -> io L X unit) filename o,
  src_check_regular_file checker_check filename o = checker_check filename o.
Proof. exact @src_check_regular_file_eq. Qed.
Print Assumptions C17_source_tie_check_regular_file.

Theorem C17_source_tie_copy_options : forall (O : Type) (o : options O) us, src_copy_options o us = copy_options o us.
Proof. exact @src_copy_options_eq. Qed.
Print Assumptions C17_source_tie_copy_options.

Theorem C17_source_tie_tag : forall (L X T E O : Type) (get_tag : str -> option T) (tag_format : T -> str -> E -> bool -> res X L)
    (opts : options O) fake_path tagname extra,
  src_tag get_tag tag_format opts fake_path tagname extra = cli_tag get_tag tag_format opts fake_path tagname extra.
Proof. exact @src_tag_eq. Qed.
Print Assumptions C17_source_tie_tag.

(* what the model of check_deb gives: "nothing for other members" - unknown-file-type is not printed for a member, every other
   tag is treated as for the package's own options *)
Theorem C17_deb_unknown_file_type_silent : forall (L X T E O : Type) (get_tag : str -> option T) (tag_format : T -> str -> E -> bool -> res X L)
    (o : options O) binary tmpdir filename fake_path extra,
  cli_tag get_tag tag_format (deb_options o binary tmpdir filename) fake_path s_unknown_file_type extra = io_ret tt.
Proof. exact @deb_unknown_file_type_silent. Qed.
Print Assumptions C17_deb_unknown_file_type_silent.

Theorem C17_deb_other_tags : forall (L X T E O : Type) (get_tag : str -> option T) (tag_format : T -> str -> E -> bool -> res X L)
    (o : options O) binary tmpdir filename fake_path tagname extra,
  str_eqb tagname s_unknown_file_type = false ->
  cli_tag get_tag tag_format (deb_options o binary tmpdir filename) fake_path tagname extra
  = cli_tag get_tag tag_format o fake_path tagname extra.
Proof. exact @deb_other_tags. Qed.
Print Assumptions C17_deb_other_tags.

(* the fake root handed to the members is the pair C17_member_path is about *)
Theorem C17_deb_fake_root : forall (O : Type) (o : options O) binary tmpdir filename member,
  o_fake_root (deb_options o binary tmpdir filename) = Some (real_root binary tmpdir, filename ++ [47%N]) /\
  fake_path N.eqb (real_root binary tmpdir) (filename ++ [47%N]) (unpacked_member binary tmpdir member) = filename ++ [47%N] ++ member.
Proof. exact @deb_fake_root. Qed.
Print Assumptions C17_deb_fake_root.

(* a package whose unpacking and members end normally prints what the unpacker printed, then the members' outputs (regular
   files that are not symbolic links, in os.walk order, each checked with the package's options), then what removing the directory
   printed *)
Theorem C17_check_deb_output : forall (L X O : Type) (check_call : list str -> bool -> io L X unit) mkdtemp (cleanup : str -> io L X unit)
    os_walk islink isfile (cf : str -> options O -> io L X unit) filename (o : options O) binary d w1 w2,
  deb_kind filename = Some binary -> mkdtemp s_tmp_prefix = Ret d ->
  check_call (unpack_argv binary filename d) (negb binary) = (w1, Ret tt) -> cleanup d = (w2, Ret tt) ->
  (forall p, snd (cf p (deb_options o binary d filename)) = Ret tt) ->
  check_deb check_call mkdtemp cleanup os_walk islink isfile cf filename o
  = (w1 ++ flat_map (fun p => fst (cf p (deb_options o binary d filename))) (deb_members islink isfile (os_walk d)) ++ w2, Ret tt).
Proof. exact @check_deb_output. Qed.
Print Assumptions C17_check_deb_output.

(* non-vacuity: the translated check_deb on "a.deb" unpacked in "/t": one directory with a link, a regular file and a non-file *)
Example C17_src_ex :
  src_check_deb (L := str) (X := unit) (O := unit) (fun _ _ => io_ret tt) (fun _ => Ret [47; 116]%N) (fun _ => io_ret tt)
    (fun d => [(d, [], [[108%N]; [102%N]; [100%N]])]) (fun p => N.eqb (last p 0%N) 108) (fun p => negb (N.eqb (last p 0%N) 100))
    (fun p o => io_write [p; fst (match o_fake_root o with Some r => r | None => ([], []) end); snd (match o_fake_root o with Some r => r | None => ([], []) end)])
    [97; 46; 100; 101; 98]%N (mkOptions true 1%Z [] None tt)
  = ([[47; 116; 47; 102]%N; [47; 116; 47]%N; [97; 46; 100; 101; 98; 47]%N], Ret tt).
Proof. vm_compute. reflexivity. Qed.

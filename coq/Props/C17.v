(* C17 — Diagnostics depend on catalog content, not on surface encoding or packaging.
   The part that is logic in the tool itself: the path printed for a member of an unpacked package. *)
From Coq Require Import List Arith Bool.
From I18n Require Import Model.Cli Proofs.Cli.
From Coq Require Import NArith.
From I18n Require Import Lib.Outcome Model.MoParser Spec.MoFormat Proofs.Packaging.
From I18n Require Import Model.PoUnescape Model.PoParser Spec.PoSyntax Proofs.PoParser.
Import ListNotations.

(* with fake_root = (real_root, fake_root): a path under real_root is printed as fake_root ++ the rest,
   any other path is printed unchanged *)
Theorem C17_fake_path : forall (A : Type) (eqb : A -> A -> bool),
  (forall x y, eqb x y = true <-> x = y) ->
  forall real fake path,
    (forall r, path = real ++ r -> fake_path eqb real fake path = fake ++ r) /\
    ((forall r, path <> real ++ r) -> fake_path eqb real fake path = path).
Proof. exact fake_path_spec. Qed.
Print Assumptions C17_fake_path.

(* two MO files encoding the same catalog — either byte order, any placement/overlap/padding of tables and strings, with or
   without hash table, same hidden-strings flag — load to the same entries, charset and flag; every diagnostic is computed from
   that result (and the path, options and date), so it is the same *)
Theorem C17_mo_layout : forall asc enc0 f1 f2 c h,
  wf_catalog c -> Encodes f1 c h -> Encodes f2 c h -> mo_parse asc enc0 f1 = mo_parse asc enc0 f2.
Proof. exact mo_layout_independent. Qed.
Print Assumptions C17_mo_layout.

(* two PO spellings of the same catalog — different escape forms per character, different chunking into continuation lines,
   blank lines, #~| lines — drive the PO state machine to the same catalog (token level; the line lexer part is C10's) *)
Theorem C17_po_spelling : forall O ws1 ws2 c1 c2 l1 l2,
  ascii_compatible (o_dec O) -> ~ In 34%N ws1 -> ~ In 34%N ws2 ->
  scatalog_ok (o_dec O) c1 -> scatalog_ok (o_dec O) c2 -> nplurals_le_10 c1 -> nplurals_le_10 c2 ->
  catalog_value c1 = catalog_value c2 ->
  ext (toks_catalog ws1 c1) l1 -> ext (toks_catalog ws2 c2) l2 ->
  run_machine O l1 = run_machine O l2.
Proof. exact po_spelling_independent. Qed.
Print Assumptions C17_po_spelling.

Example C17_ex : fake_path Nat.eqb [1;2;47] [9;47] [1;2;47;5;6] = [9;47;5;6].
Proof. reflexivity. Qed.

(* C19 — locale names are parsed, normalised and compared consistently.
   parse_language is the scanner for _language_regexp as it is (it ends with `\Z`).
   gen_cfg munch = the tables regenerated from /repo (Generated/IsoCodes.v) with an arbitrary Unicode folding. *)
From Coq Require Import NArith List Bool.
From I18n Require Import Lib.Outcome Model.Ling Model.LingData Generated.IsoCodes Spec.Locale
  Proofs.LingParse Proofs.LingFix Proofs.LingCheck Proofs.LingRefute
  Model.LingPy Generated.LingSrc Proofs.LingSrc Proofs.LingSrcCheck.
Import ListNotations.
Local Open Scope N_scope.

(* ---------- parse / print ---------- *)
Theorem C19_roundtrip : forall s l, parse_language s = Ok l -> same_up_to_encoding_case s (str_language l).
Proof. exact roundtrip. Qed.
Print Assumptions C19_roundtrip.

(* the other direction: a well-formed Language object prints to a name that parses back to it *)
Theorem C19_print_parse : forall l, language_wf l -> parse_language (str_language l) = Ok l.
Proof. exact print_parse. Qed.
Print Assumptions C19_print_parse.

(* everything else is rejected *)
Theorem C19_reject_iff : forall s, parse_language s = Err LSyntax <-> ~ locale_grammar s.
Proof. exact reject_iff. Qed.
Print Assumptions C19_reject_iff.

Theorem C19_parse_total : forall s c, parse_language s <> Crash c.
Proof. exact parse_no_crash. Qed.
Print Assumptions C19_parse_total.

(* ---------- code normalisation ---------- *)
(* data/iso-codes and ling._iso_639 as regenerated now: canonical codes are fixed points, a code changes only from three
   to two letters, the table is exactly what the [language-codes] lines give *)
Theorem C19_fix_table : tables_ok iso_639 iso_639_raw = true.
Proof. exact fix_table. Qed.
Print Assumptions C19_fix_table.

Theorem C19_fix_idempotent : forall munch l l' b,
  fix_codes (gen_cfg munch) l = Ok (l', b) -> fix_codes (gen_cfg munch) l' = Ok (l', false).
Proof. exact fix_idempotent_gen. Qed.
Print Assumptions C19_fix_idempotent.

(* nothing but the language code changes, and that only from a three-letter code to a two-letter one *)
Theorem C19_fix_changes : forall munch l l' b, fix_codes (gen_cfg munch) l = Ok (l', b) ->
    l_terr l' = l_terr l /\ l_enc l' = l_enc l /\ l_mod l' = l_mod l /\
    (b = false -> l' = l) /\
    (b = true -> l_lang l' <> l_lang l /\ length (l_lang l) = 3%nat /\ length (l_lang l') = 2%nat).
Proof. exact fix_changes_gen. Qed.
Print Assumptions C19_fix_changes.

(* a three-letter code of data/iso-codes with a two-letter equivalent is mapped to it (and the result is stable);
   one without is kept *)
Theorem C19_fix_three_to_two : forall munch lll ll, In (lll, ll) iso_639_raw ->
  forall l, l_lang l = lll -> terr_known (gen_cfg munch) (l_terr l) ->
  (ll <> [] -> fix_codes (gen_cfg munch) l = Ok (mkLang ll (l_terr l) (l_enc l) (l_mod l), true) /\
               fix_codes (gen_cfg munch) (mkLang ll (l_terr l) (l_enc l) (l_mod l)) = Ok (mkLang ll (l_terr l) (l_enc l) (l_mod l), false)) /\
  (ll = [] -> fix_codes (gen_cfg munch) l = Ok (l, false)).
Proof. exact fix_raw_gen. Qed.
Print Assumptions C19_fix_three_to_two.

(* unknown language or territory codes are rejected, and nothing else is *)
Theorem C19_fix_rejects_unknown : forall cfg l e, fix_codes cfg l = Err e <->
  e = LFixCodes /\ (lg_lookup (cfg_iso639 cfg) (l_lang l) = None \/ exists cc, l_terr l = Some cc /\ ~ In cc (cfg_iso3166 cfg)).
Proof. exact fix_codes_err_iff. Qed.
Print Assumptions C19_fix_rejects_unknown.

Theorem C19_fix_known_from_file : forall munch k v, lg_lookup (cfg_iso639 (gen_cfg munch)) k = Some v ->
  exists lll ll, In (lll, ll) iso_639_raw /\ (k = lll \/ (ll <> [] /\ k = ll)).
Proof. exact known_from_raw. Qed.
Print Assumptions C19_fix_known_from_file.

Theorem C19_fix_no_crash : forall cfg l c, fix_codes cfg l <> Crash c.
Proof. exact fix_codes_no_crash. Qed.
Print Assumptions C19_fix_no_crash.

(* the four places that normalise a locale (cli -l, LC_MESSAGES directory, base name, Language field) do the steps in
   different orders; the result is the same: code normalisation and stripping commute *)
Theorem C19_normalisation_commutes : forall cfg l, fix_codes cfg (strip l) =
  match fix_codes cfg l with Ok (l', b) => Ok (strip l', b) | Err e => Err e | Crash c => Crash c end.
Proof. exact fix_codes_strip. Qed.
Print Assumptions C19_normalisation_commutes.

(* cli.main(): -l LANG is accepted iff LANG names a locale with known codes, and is handed on normalised in the same way *)
Theorem C19_cli_language : forall cfg s l, cli_language cfg s = Ok l <-> locale_of cfg s = Some l.
Proof. exact cli_language_spec. Qed.
Print Assumptions C19_cli_language.

Theorem C19_cli_rejects : forall cfg s, (exists e, cli_language cfg s = Err e) <-> locale_of cfg s = None.
Proof. exact cli_language_rejects. Qed.
Print Assumptions C19_cli_rejects.

(* ---------- the decision logic of check_language ---------- *)
(* which source outside the header names the language: -l, else the directory above LC_MESSAGES, else the base name
   of a .po file (lower quality) *)
Theorem C19_external_source : forall cfg opt path,
  external_language cfg opt path = Ok (external_source cfg opt path).
Proof. exact external_language_spec. Qed.
Print Assumptions C19_external_source.

Theorem C19_single_value_iff : forall metas o,
  single_value metas = Some o <-> metas <> [] /\ forall x, In x metas -> x = o.
Proof. exact single_value_iff. Qed.
Print Assumptions C19_single_value_iff.

(* language-disparity (against the Language field) iff both name a locale and the normalised locales differ -- except that
   a base name is not held against the field when the field's language is a component of the path (LibreOffice layout) *)
Theorem C19_disparity_iff : forall cfg opt path metas pls pcs ds lang,
  check_language cfg opt path metas pls pcs false = Ok (ds, lang) ->
  forall l src m,
  In (DDisparity l src m SrcLanguageField) ds <->
    exists q, external_source cfg opt path = Some (l, src, q) /\
      field_loc cfg metas = Some m /\ l <> m /\
      (q = false -> path_names path m = false).
Proof. exact disparity_iff. Qed.
Print Assumptions C19_disparity_iff.

(* invalid-language iff the (single, non-empty) value is not a locale name with known, canonical codes *)
Theorem C19_invalid_language_iff : forall cfg opt path metas pls pcs ds lang,
  check_language cfg opt path metas pls pcs false = Ok (ds, lang) ->
  forall o, (exists k, In (DInvalidLanguage o k) ds) <-> single_value metas = Some o /\ o <> [] /\ ~ canonical cfg o.
Proof. exact invalid_language_iff. Qed.
Print Assumptions C19_invalid_language_iff.

(* the correction offered: the language found by name, or the locale with its three-letter code replaced *)
Theorem C19_invalid_language_correction : forall cfg opt path metas pls pcs ds lang,
  check_language cfg opt path metas pls pcs false = Ok (ds, lang) ->
  forall o k, In (DInvalidLanguage o (Some k)) ds <->
    single_value metas = Some o /\ o <> [] /\
    ((parse_language o = Err LSyntax /\ get_language_for_name cfg o = Ok k) \/
     (exists l l', (parse_language o = Ok l \/ (parse_language o = Err LSyntax /\ get_language_for_name cfg o = Ok l)) /\
                   fix_codes cfg l = Ok (l', true) /\ k = strip l')).
Proof. exact invalid_language_correction. Qed.
Print Assumptions C19_invalid_language_correction.

(* ctx.language: the retained outside source, else the field, else X-Poedit-Language; unable-to-determine-language iff none *)
Theorem C19_language_sources : forall cfg opt path metas pls pcs ds lang,
  check_language cfg opt path metas pls pcs false = Ok (ds, lang) ->
  exists fr, field_language cfg (single_value metas) = Ok fr /\
    lang = match effective_external cfg opt path fr with
           | Some l => Some l
           | None => match field_loc cfg metas with
                     | Some m => Some m
                     | None => poedit_language cfg pls pcs
                     end
           end /\
    (In DUnable ds <-> lang = None).
Proof. exact language_sources. Qed.
Print Assumptions C19_language_sources.

(* when no source names a language the tool says so, and only then *)
Theorem C19_unable_iff : forall cfg opt path metas pls pcs ds lang,
  check_language cfg opt path metas pls pcs false = Ok (ds, lang) ->
  (In DUnable ds <->
     external_source cfg opt path = None /\ field_loc cfg metas = None /\ poedit_language cfg pls pcs = None).
Proof. exact unable_iff. Qed.
Print Assumptions C19_unable_iff.

(* nothing is guessed *)
Theorem C19_language_is_named : forall cfg opt path metas pls pcs ds lang l,
  check_language cfg opt path metas pls pcs false = Ok (ds, lang) -> lang = Some l ->
  (exists src q, external_source cfg opt path = Some (l, src, q)) \/ field_loc cfg metas = Some l \/ poedit_language cfg pls pcs = Some l.
Proof. exact language_is_named. Qed.
Print Assumptions C19_language_is_named.

Theorem C19_template_silent : forall cfg opt path metas pls pcs,
  exists ds, check_language cfg opt path metas pls pcs true = Ok (ds, None) /\
    forall d, In d ds -> d = DDupLanguage \/ d = DNoLanguageField None.
Proof. exact template_silent. Qed.
Print Assumptions C19_template_silent.

(* data/languages as regenerated now: every section is a locale name with known, canonical codes, hence a language found
   by name needs no further correction and get_language_for_name raises nothing but LookupError ... *)
Theorem C19_names_table : forallb code_ok name_to_code = true.
Proof. exact names_table. Qed.
Print Assumptions C19_names_table.

Theorem C19_lookup_no_crash : forall munch nm c, lookup_munched (gen_cfg munch) nm <> Crash c.
Proof. exact lookup_no_crash. Qed.
Print Assumptions C19_lookup_no_crash.

(* ... and check_language raises nothing at all *)
Theorem C19_check_language_no_crash : forall munch opt path metas pls pcs tmpl c,
  check_language (gen_cfg munch) opt path metas pls pcs tmpl <> Crash c.
Proof. exact check_language_no_crash. Qed.
Print Assumptions C19_check_language_no_crash.

Theorem C19_no_own_error : forall cfg opt path metas pls pcs tmpl e,
  check_language cfg opt path metas pls pcs tmpl <> Err e.
Proof. exact check_language_failures. Qed.
Print Assumptions C19_no_own_error.

(* ---------- source tie ----------
   Generated/LingSrc.v is the statement-by-statement translation of lib/ling.py (class Language, the lookups, parse_language,
   get_language_for_name) and of Checker.check_language, written by tools/gen/gen_ling_src.py from the working tree at the
   start of every check.  Each translated function equals the model, for all arguments.  env_of cfg = the model's tables
   and oracles (cfg_munch; the scanner for _language_regexp; ASCII upper-casing); `seen` = the result, or the exception as
   the model classifies it (own error / foreign exception). *)
Theorem C19_source_tie_lookups : forall cfg k,
  src_lookup_language_code (env_of cfg) k = lg_lookup (cfg_iso639 cfg) k /\
  src_lookup_territory_code (env_of cfg) k = lookup_territory_code cfg k.
Proof. exact src_tie_lookups. Qed.
Print Assumptions C19_source_tie_lookups.

(* Language._get_tuple, __eq__, __ne__ *)
Theorem C19_source_tie_compare : forall E a b,
  src_get_tuple E a = (l_lang a, l_terr a, l_enc a, l_mod a) /\ src_eq E a b = lang_eqb a b /\ src_ne E a b = negb (lang_eqb a b).
Proof. exact src_tie_compare. Qed.
Print Assumptions C19_source_tie_compare.

Theorem C19_source_tie_str : forall E l, src_str E l = str_language l.
Proof. exact src_str_eq. Qed.
Print Assumptions C19_source_tie_str.

(* Language.__init__ and parse_language: the object built from the groups the scanner yields *)
Theorem C19_source_tie_parse : forall cfg s,
  (forall ll cc en md, src_init (env_of cfg) ll cc en md = LRet (mkLang ll cc (option_map (map ascii_upper) en) md)) /\
  seen own_syntax (src_parse_language (env_of cfg) s) = parse_language s.
Proof. exact src_tie_parse. Qed.
Print Assumptions C19_source_tie_parse.

(* fix_codes: the object afterwards and the returned True / None, FixingLanguageCodesFailed, the ValueError branch *)
Theorem C19_source_tie_fix_codes : forall cfg l, src_fix_codes (env_of cfg) l = of_fix (fix_codes cfg l).
Proof. exact src_fix_codes_eq. Qed.
Print Assumptions C19_source_tie_fix_codes.

Theorem C19_source_tie_remove : forall E l,
  src_remove_encoding E l = LRet (fst (remove_encoding l), flag (snd (remove_encoding l))) /\
  src_remove_nonlinguistic_modifier E l = LRet (fst (remove_nonlinguistic_modifier l), flag (snd (remove_nonlinguistic_modifier l))).
Proof. exact src_tie_remove. Qed.
Print Assumptions C19_source_tie_remove.

(* the lookup ladder after _munch_language_name *)
Theorem C19_source_tie_get_language_for_name : forall cfg name,
  seen own_lookup (src_get_language_for_name (env_of cfg) name) = get_language_for_name cfg name.
Proof. exact src_get_language_for_name_seen. Qed.
Print Assumptions C19_source_tie_get_language_for_name.

(* Checker.check_language: the tags in order and ctx.language, or the exception that escapes *)
Theorem C19_source_tie_check_language : forall cfg opt path metas pls pcs tmpl,
  seen own_none (src_check_language (env_of cfg) opt path metas pls pcs tmpl) = check_language cfg opt path metas pls pcs tmpl.
Proof. exact src_check_language_seen. Qed.
Print Assumptions C19_source_tie_check_language.

(* ---------- non-vacuity ---------- *)
(* the translated check_language run on po/de.po with "Language: pol" (compare C19_ex_check) *)
Example C19_src_ex_check :
  src_check_language (env_of id_cfg) None [112;111;47;100;101;46;112;111] [[112;111;108]] [] [] false
  = LRet ([DInvalidLanguage [112;111;108] (Some l_pl);
           DDisparity (mkLang [100;101] None None None) SrcPathname l_pl SrcLanguageField],
          Some (mkLang [100;101] None None None)).
Proof. vm_compute. reflexivity. Qed.

(* the translated fix_codes on pol_PL *)
Example C19_src_ex_fix : src_fix_codes (env_of id_cfg) (mkLang [112;111;108] (Some [80;76]) None None)
  = LRet (mkLang [112;108] (Some [80;76]) None None, Some true).
Proof. vm_compute. reflexivity. Qed.

Definition s_full : list N :=    (* "pl_PL.utf-8@euro" *)
  [112;108;95;80;76;46;117;116;102;45;56;64;101;117;114;111].
Example C19_ex_parse : option_map str_language (match parse_language s_full with Ok l => Some l | _ => None end)
  = Some [112;108;95;80;76;46;85;84;70;45;56;64;101;117;114;111].   (* "pl_PL.UTF-8@euro" *)
Proof. vm_compute. reflexivity. Qed.

Example C19_ex_fix : fix_codes id_cfg (mkLang [112;111;108] (Some [80;76]) None None)    (* pol_PL *)
  = Ok (mkLang [112;108] (Some [80;76]) None None, true).
Proof. vm_compute. reflexivity. Qed.

(* po/de.po with "Language: pol": invalid-language pol => pl, language-disparity de (pathname) != pl (Language header field) *)
Example C19_ex_check :
  check_language id_cfg None [112;111;47;100;101;46;112;111] [[112;111;108]] [] [] false
  = Ok ([DInvalidLanguage [112;111;108] (Some l_pl);
         DDisparity (mkLang [100;101] None None None) SrcPathname l_pl SrcLanguageField],
        Some (mkLang [100;101] None None None)).
Proof. vm_compute. reflexivity. Qed.

(* translations/source/da/dictionaries/pl_PL.po with "Language: da": the base name is not held against the field *)
Example C19_ex_libreoffice :
  check_language id_cfg None
    [116;47;100;97;47;100;47;112;108;95;80;76;46;112;111] (* "t/da/d/pl_PL.po" *) [[100;97]] [] [] false
  = Ok ([], Some (mkLang [100;97] None None None)).
Proof. vm_compute. reflexivity. Qed.

(* formerly D17: a/None/b/pl.po with "Language: xx": the base name still names the language *)
Example C19_ex_none_component :
  check_language id_cfg None [97;47;78;111;110;101;47;98;47;112;108;46;112;111] [[120;120]] [] [] false
  = Ok ([DInvalidLanguage [120;120] None], Some l_pl).
Proof. vm_compute. reflexivity. Qed.

(* formerly D8 *)
Example C19_ex_newline : parse_language [112;108;10] = Err LSyntax.
Proof. vm_compute. reflexivity. Qed.

(* formerly D16: base name "..po" *)
Example C19_ex_dots_po : check_language id_cfg None [46;46;112;111] [] [] [] false = Ok ([DNoLanguageField None; DUnable], None).
Proof. vm_compute. reflexivity. Qed.

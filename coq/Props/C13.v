(* C13 — brace-format parsers agree with the languages they model. *)
From Coq Require Import List NArith ZArith Bool.
From I18n Require Import Lib.Outcome Lib.Ranges Generated.Ucd Model.FmtPerlBrace Model.FmtInstances
  Spec.PerlBrace Proofs.PerlBrace.
Import ListNotations.
Local Open Scope N_scope.

(* ---------------- perl-brace ---------------- *)
(* facts about the generated Unicode tables used as side conditions: neither brace is a word character *)
Theorem C13_ucd_braces_not_word : re_w 123 = false /\ re_w 125 = false.
Proof. vm_compute. split; reflexivity. Qed.
Print Assumptions C13_ucd_braces_not_word.

(* accepted <=> every "{" opens a "{identifier}" placeholder (for every pair of classes \w, \d in which "}"
   is not a word character) *)
Theorem C13_perl_accept_iff : forall is_w is_d, is_w 125 = false -> forall s,
  (exists its, perl_parse is_w is_d s = Ok its) <-> (exists ns, perl_wf is_w is_d s ns).
Proof. exact perl_accept_iff. Qed.
Print Assumptions C13_perl_accept_iff.

(* the reported names are exactly the identifiers of the decomposition (as a list in order of occurrence,
   hence as a set) *)
Theorem C13_perl_names : forall is_w is_d, is_w 125 = false -> forall s its ns,
  perl_parse is_w is_d s = Ok its -> perl_wf is_w is_d s ns -> names_of its = ns.
Proof. exact perl_names. Qed.
Print Assumptions C13_perl_names.

Theorem C13_perl_own_errors : forall is_w is_d s c, perl_parse is_w is_d s <> Crash c.
Proof. exact perl_own_errors. Qed.
Print Assumptions C13_perl_own_errors.

(* character inspections, including the search finditer continues after a failed attempt *)
Theorem C13_perl_linear : forall is_w is_d, is_w 123 = false -> forall s,
  (snd (perl_parse_steps is_w is_d s) <= 2 * length s + 1)%nat.
Proof. exact perl_linear. Qed.
Print Assumptions C13_perl_linear.

(* the extracted instance *)
Theorem C13_perl_ucd : forall s,
  ((exists its, fst (perl_parse_ucd s) = Ok its) <-> (exists ns, perl_wf re_w re_d s ns)) /\
  (forall c, fst (perl_parse_ucd s) <> Crash c) /\
  (snd (perl_parse_ucd s) <= 2 * length s + 1)%nat.
Proof.
  intros s. destruct C13_ucd_braces_not_word as [H1 H2]. split; [|split].
  - exact (perl_accept_iff re_w re_d H2 s).
  - exact (perl_own_errors re_w re_d s).
  - exact (perl_linear re_w re_d H1 s).
Qed.
Print Assumptions C13_perl_ucd.

(* non-vacuity: "a{x1} {é}" and "{1}" *)
Example C13_perl_ex1 : fst (perl_parse_ucd [97;123;120;49;125;32;123;233;125])
  = Ok [PLit [97]; PField [120;49]; PLit [32]; PField [233]].
Proof. vm_compute. reflexivity. Qed.
Example C13_perl_ex2 : fst (perl_parse_ucd [97;123;49;125]) = Err (PerlError [123;49;125]).
Proof. vm_compute. reflexivity. Qed.

(* C13 — brace-format parsers agree with the languages they model. *)
From Coq Require Import List NArith ZArith Bool.
From I18n Require Import Lib.Outcome Lib.Ranges Generated.Ucd Model.FmtPerlBrace Model.FmtInstances
  Spec.PerlBrace Proofs.PerlBrace Proofs.FmtPyBraceGen.
Import ListNotations.
Local Open Scope N_scope.

(* ---------------- perl-brace ---------------- *)
(* facts about the generated Unicode tables used as side conditions: neither brace is a word character *)
Theorem C13_ucd_braces_not_word : re_w 123 = false /\ re_w 125 = false.
Proof. exact ucd_braces_not_word. Qed.
Print Assumptions C13_ucd_braces_not_word.

(* accepted <=> every "{" opens a "{identifier}" placeholder (for every pair of classes \w, \d in which "}"
   is not a word character) *)
Theorem C13_perl_accept_iff : forall is_w is_d, is_w 125 = false -> forall s,
  (exists its, perl_parse is_w is_d s = Ok its) <-> (exists ns, perl_wf is_w is_d s ns).
Proof. exact perl_accept_iff. Qed.
Print Assumptions C13_perl_accept_iff.

(* the reported names are exactly the identifiers of the decomposition (as a list in order of occurrence,
   hence as a set) *)
Theorem C13_perl_names : forall is_w is_d, is_w 125 = false -> forall s its ns,
  perl_parse is_w is_d s = Ok its -> perl_wf is_w is_d s ns -> names_of its = ns.
Proof. exact perl_names. Qed.
Print Assumptions C13_perl_names.

Theorem C13_perl_own_errors : forall is_w is_d s c, perl_parse is_w is_d s <> Crash c.
Proof. exact perl_own_errors. Qed.
Print Assumptions C13_perl_own_errors.

(* character inspections, including the search finditer continues after a failed attempt *)
Theorem C13_perl_linear : forall is_w is_d, is_w 123 = false -> forall s,
  (snd (perl_parse_steps is_w is_d s) <= 2 * length s + 1)%nat.
Proof. exact perl_linear. Qed.
Print Assumptions C13_perl_linear.

(* the extracted instance *)
Theorem C13_perl_ucd : forall s,
  ((exists its, fst (perl_parse_ucd s) = Ok its) <-> (exists ns, perl_wf re_w re_d s ns)) /\
  (forall c, fst (perl_parse_ucd s) <> Crash c) /\
  (snd (perl_parse_ucd s) <= 2 * length s + 1)%nat.
Proof. exact perl_ucd_instance. Qed.
Print Assumptions C13_perl_ucd.

(* non-vacuity: "a{x1} {é}" and "{1}" *)
Example C13_perl_ex1 : fst (perl_parse_ucd [97;123;120;49;125;32;123;233;125])
  = Ok [PLit [97]; PField [120;49]; PLit [32]; PField [233]].
Proof. vm_compute. reflexivity. Qed.
Example C13_perl_ex2 : fst (perl_parse_ucd [97;123;49;125]) = Err (PerlError [123;49;125]).
Proof. vm_compute. reflexivity. Qed.

(* ---------------------------------------------------------------- python-brace ---------------- *)
From I18n Require Import Generated.PyConsts Generated.PyFmtInfo Model.FmtPyBrace Model.FmtPyBraceDomain Spec.CPyFormat Proofs.FmtPyBrace Proofs.FmtPyBraceMarkup Proofs.FmtPyBraceSpec Proofs.FmtPyBraceFlat Proofs.FmtPyBraceGen.

(* pybrace_parse_gen      : model of lib/strformat/pybrace.py with the generated tables (what is extracted and compared)
   cpy_markup_ok          : Spec/CPyFormat.v part A, the iterator behind string.Formatter().parse
   cpy_format re_d_value  : Spec/CPyFormat.v part B, str.format on flat fields *)

(* facts about the generated tables: \d of re is str.isdecimal; ASCII digits are decimal; the characters that delimit
   names, conversions and format specs are not \w; the digit limit is lifted; SSIZE_MAX is 2^31-1 *)
Theorem C13_ucd_facts :
  re_d_tree = py_isdecimal_tree /\
  forallb py_isdecimal [48; 49; 50; 51; 52; 53; 54; 55; 56; 57] = true /\
  forallb (fun c => negb (re_w c)) [33; 58; 46; 91; 93; 123; 125; 44; 37; 60; 62; 61; 94; 43; 45; 32; 35] = true /\
  int_max_str_digits = 0 /\ gen_pybrace_ssize_max = pb_ssize_max_std.
Proof. exact ucd_facts. Qed.
Print Assumptions C13_ucd_facts.

(* the parser raises only its own errors (D3 fixed: the index test is name.isdecimal()), for every table set that
   satisfies the side conditions ... *)
Theorem C13_py_own_errors : forall U M, ucd_ok U -> forall s c, pybrace_parse U M s <> Crash c.
Proof. exact pybrace_own_errors. Qed.
Print Assumptions C13_py_own_errors.

(* ... in particular for the tables of the running interpreter (the extracted instance) *)
Theorem C13_py_own_errors_generated_tables : forall s c, pybrace_parse_gen s <> Crash c.
Proof. exact own_errors_generated_tables. Qed.
Print Assumptions C13_py_own_errors_generated_tables.

(* D25: accepted, but Python's own parser rejects the string: "{:{a[}]}}" (a nested field whose index holds a brace) *)
Theorem C13_py_accept_implies_cpython_parses_refuted :
  exists sg, pybrace_parse_gen [123;58;123;97;91;125;93;125;125] = Ok sg /\ cpy_markup_ok [123;58;123;97;91;125;93;125;125] = false.
Proof. eexists. split; vm_compute; reflexivity. Qed.
Print Assumptions C13_py_accept_implies_cpython_parses_refuted.

(* ... and outside that defect it holds: for every table set in which digits and word characters are not one of { } : ! [ ,
   a string the parser accepts, none of whose nested fields has a brace in its name (nested_guard), is accepted by
   Python's own parser (the iterator behind string.Formatter().parse) *)
Theorem C13_py_accept_implies_cpython_parses_guarded : forall U M, ucd_chars U -> forall s sg,
  pybrace_parse U M s = Ok sg -> nested_guard U (S (length s)) s = true -> cpy_markup_ok s = true.
Proof. exact accept_implies_markup. Qed.
Print Assumptions C13_py_accept_implies_cpython_parses_guarded.

Theorem C13_py_accept_implies_cpython_parses_generated_tables : forall s sg,
  pybrace_parse_gen s = Ok sg -> nested_guard gen_ucd (S (length s)) s = true -> cpy_markup_ok s = true.
Proof. exact gen_accept_implies_markup. Qed.
Print Assumptions C13_py_accept_implies_cpython_parses_generated_tables.

(* a string rejected by Python's parser is rejected with the parser's own error (guard: D25 only) *)
Theorem C13_py_reject_if_cpython_rejects : forall U M, ucd_chars U -> ucd_ok U -> forall s,
  cpy_markup_ok s = false -> nested_guard U (S (length s)) s = true -> exists e, pybrace_parse U M s = Err e.
Proof. exact reject_if_markup_rejects. Qed.
Print Assumptions C13_py_reject_if_cpython_rejects.

Theorem C13_py_reject_if_cpython_rejects_generated_tables : forall s,
  cpy_markup_ok s = false -> nested_guard gen_ucd (S (length s)) s = true -> exists e, pybrace_parse_gen s = Err e.
Proof. exact gen_reject_if_markup_rejects. Qed.
Print Assumptions C13_py_reject_if_cpython_rejects_generated_tables.

(* D24: accepted with type int, but str.format rejects every int: "{:,x}" and "{:+c}" *)
Theorem C13_py_flat_formats_refuted :
  pybrace_parse_gen [123;58;44;120;125]
    = Ok {| argument_map := [(KNum 0, ({| t_str := false; t_int := true; t_float := false |}, 1%nat))] |} /\
  (forall z, cpy_format re_d_value [123;58;44;120;125] [BInt z] [] = FValueError) /\
  (exists sg, pybrace_parse_gen [123;58;43;99;125] = Ok sg) /\
  (forall z, cpy_format re_d_value [123;58;43;99;125] [BInt z] [] = FValueError).
Proof. split; [vm_compute; reflexivity|]. split; [intros z; reflexivity|]. split; [eexists; vm_compute; reflexivity|intros z; reflexivity]. Qed.
Print Assumptions C13_py_flat_formats_refuted.

(* ... and outside that defect the typing rules of Field.__init__ are sound for CPython's format(): if the parser gives a
   brace-free format spec the type set tp, then a value of a type in tp (an int in range(0x110000), a float, a str) is
   formatted by that spec (Spec/CPyFormat.v: parse_internal_render_format_spec + the per-type checks), unless the spec has
   "," with b c o x X or a sign / "#" with c (spec_guard).  Proofs/FmtPyBraceSpec.v: CPython's spec parser is simulated by
   the model's _format_spec_re scanner (parse_spec_sim), then every combination of type character, flags, alignment,
   precision and value kind is checked. *)
Theorem C13_py_spec_types_sound : forall U M, ucd_spec U M -> forall ftext tl tp v,
  spec_types U M ftext tl = Ok tp -> forallb not_brace tl = true -> spec_guard U tl = true ->
  val_in v tp = true -> format_value (u_decval U) v tl = FSuccess.
Proof. exact spec_sound. Qed.
Print Assumptions C13_py_spec_types_sound.

Theorem C13_py_spec_types_sound_generated_tables : forall ftext tl tp v,
  spec_types gen_ucd gen_pybrace_ssize_max ftext tl = Ok tp -> forallb not_brace tl = true -> spec_guard gen_ucd tl = true ->
  val_in v tp = true -> format_value re_d_value v tl = FSuccess.
Proof. exact gen_spec_sound. Qed.
Print Assumptions C13_py_spec_types_sound_generated_tables.

(* The second clause of the property.  flat_guard: every field the scanner finds has no nested field, a name without "." and
   "[" (so: empty, an index or a keyword), and a format spec outside D24.  args_match: for every key of the reported
   argument_map, str.format's lookup (args[i] / kwargs[name]) finds a value whose type is in the reported (common) type set:
   a str, a float, or an int in range(0x110000).  Then str.format succeeds (Spec/CPyFormat.v: the markup iterator, automatic /
   manual numbering, lookup, conversion, format spec).  Proofs/FmtPyBraceFlat.v: the fields the iterator yields are the
   model's fields with the same name, spec and conversion; _next_arg_index tracks CPython's AutoNumber state; each field's
   own type set contains the common one; C13_py_spec_types_sound per field. *)
Theorem C13_py_flat_formats : forall U M, ucd_chars U -> ucd_spec U M -> forall s sg args kw,
  pybrace_parse U M s = Ok sg -> flat_guard U (S (length s)) s = true -> args_match sg args kw ->
  cpy_format (u_decval U) s args kw = FSuccess.
Proof. exact flat_formats. Qed.
Print Assumptions C13_py_flat_formats.

Theorem C13_py_flat_formats_generated_tables : forall s sg args kw,
  pybrace_parse_gen s = Ok sg -> flat_guard gen_ucd (S (length s)) s = true -> args_match sg args kw ->
  cpy_format re_d_value s args kw = FSuccess.
Proof. exact gen_flat_formats. Qed.
Print Assumptions C13_py_flat_formats_generated_tables.

(* an accepted string never reports an argument with an empty type set: every reported position / name has a value of a
   reported type, so the hypothesis args_match of C13_py_flat_formats can be met for every accepted string *)
Theorem C13_py_types_inhabited : forall U M s sg key tp n,
  pybrace_parse U M s = Ok sg -> In (key, (tp, n)) (argument_map sg) -> exists v, val_in v tp = true.
Proof. exact types_inhabited. Qed.
Print Assumptions C13_py_types_inhabited.

Theorem C13_py_types_inhabited_generated_tables : forall s sg key tp n,
  pybrace_parse_gen s = Ok sg -> In (key, (tp, n)) (argument_map sg) -> exists v, val_in v tp = true.
Proof. exact gen_types_inhabited. Qed.
Print Assumptions C13_py_types_inhabited_generated_tables.

(* non-vacuity: "{²}" is a keyword field named "²" and "{٣}" is index 3, as for str.format; "{}{0}" is rejected (mixture);
   "{a} {:d} {!r:>5}" is accepted and formats *)
Example C13_py_ex0 : pybrace_parse_gen [123; 178; 125] = Ok {| argument_map := [(KName [178], (t_all, 1%nat))] |} /\
  pybrace_parse_gen [123; 1635; 125] = Ok {| argument_map := [(KNum 3, (t_all, 1%nat))] |}.
Proof. split; vm_compute; reflexivity. Qed.
Example C13_py_ex1 : pybrace_parse_gen [123;125;32;123;48;125] = Err BNumberingMixture.
Proof. vm_compute. reflexivity. Qed.
Example C13_py_ex2 :
  pybrace_parse_gen [123;97;125;32;123;58;100;125;32;123;33;114;58;62;53;125]
    = Ok {| argument_map := [(KName [97], (t_all, 1%nat)); (KNum 0, ({| t_str := false; t_int := true; t_float := false |}, 1%nat));
                             (KNum 1, (t_all, 1%nat))] |} /\
  cpy_format re_d_value [123;97;125;32;123;58;100;125;32;123;33;114;58;62;53;125] [BInt 7; BFloat] [([97], BStr [120])] = FSuccess /\
  flat_guard gen_ucd 17 [123;97;125;32;123;58;100;125;32;123;33;114;58;62;53;125] = true.
Proof. repeat split; vm_compute; reflexivity. Qed.

(* ---------------------------------------------------------------- source ties (notes/SRC12.md) ----------------
   Generated/BraceSrc.v is the translation of lib/strformat/perlbrace.py and pybrace.py of the working tree, made by
   tools/gen/gen_brace_src.py at the start of every check.  The theorems below say that it equals the models used above, for all
   arguments; an edit of the Python code changes the generated definitions and these proofs stop compiling.
   The regular expressions stay the models' scanners; their pattern TEXT is tied as data. *)
From I18n Require Import Model.FmtBracePy Generated.BraceSrc Proofs.BraceSrcPerl Proofs.BraceSrcPy Proofs.BraceSrcGen.

Theorem C13_source_tie_perl_patterns :
  src_perlbrace_field_re_pattern = perlbrace_field_re_pattern /\ src_perlbrace_printable_pattern = printable_pattern /\
  src_perlbrace_error_classes = [(str_Error, str_Exception)].
Proof. exact src_perlbrace_patterns. Qed.
Print Assumptions C13_source_tie_perl_patterns.

(* perlbrace.FormatString.__init__: (_items, arguments) or the exception, for every string and every \w, \d *)
Theorem C13_source_tie_perl_init : forall is_w is_d s,
  src_perlbrace_init (perl_finditer is_w is_d) s = of_perl (perl_parse is_w is_d s).
Proof. exact src_perlbrace_init_eq. Qed.
Print Assumptions C13_source_tie_perl_init.

Theorem C13_source_tie_perl_init_generated_tables : forall s,
  src_perlbrace_init (perl_finditer re_w re_d) s = of_perl (fst (perl_parse_ucd s)).
Proof. exact src_perlbrace_init_gen. Qed.
Print Assumptions C13_source_tie_perl_init_generated_tables.

Theorem C13_source_tie_py_patterns :
  src_pybrace_simple_field_re_pattern = pybrace_simple_field_pattern /\ src_pybrace_field_re_pattern = pybrace_field_re_pattern /\
  src_pybrace_format_spec_re_pattern = pybrace_format_spec_re_pattern /\ src_pybrace_printable_pattern = printable_pattern /\
  src_pybrace_error_classes = pybrace_error_classes.
Proof. exact src_pybrace_patterns. Qed.
Print Assumptions C13_source_tie_py_patterns.

Theorem C13_source_tie_py_constants :
  src_ssize_max = pb_ssize_max_std /\ src_nested_types = t_all /\ src_ssize_max = gen_pybrace_ssize_max.
Proof. exact (conj (proj1 src_pybrace_constants) (conj (proj2 src_pybrace_constants) src_ssize_max_gen)). Qed.
Print Assumptions C13_source_tie_py_constants.

(* FormatString.add_argument: the new _next_arg_index, the key the field is filed under, IndexError / OverflowError *)
Theorem C13_source_tie_py_add_argument : forall U st m name c,
  src_pybrace_add_argument (model_oracles U) {| s_amap := Some m; s_next := b_next st |} name c =
  of_add m c (add_argument U src_ssize_max st name).
Proof. exact src_add_argument_eq. Qed.
Print Assumptions C13_source_tie_py_add_argument.

(* Field.__init__: numbering errors, nested fields, the type set of a format spec, the conversion check *)
Theorem C13_source_tie_py_field_init : forall U st f a b, nested_ok (f_nested f) ->
  src_pybrace_field_init (model_oracles U) (st_of st) {| pm_start := a; pm_end := b; pm_groups := BField f |} =
  of_st (field_init U src_ssize_max st f).
Proof. exact src_field_init_eq. Qed.
Print Assumptions C13_source_tie_py_field_init.

(* the assumption of the previous theorem holds for every match the scanner produces *)
Theorem C13_source_tie_py_scanner_wf : forall U s it r, m_field_re U s = Some (it, r) ->
  suffix r s /\ match it with BLit _ => True | BField f => nested_ok (f_nested f) end.
Proof. exact m_field_re_facts. Qed.
Print Assumptions C13_source_tie_py_scanner_wf.

(* pybrace.FormatString.__init__: argument_map (per key, the `types` of every filed object) or the exception *)
Theorem C13_source_tie_py_init : forall U s,
  src_pybrace_init (model_oracles U) (pb_finditer U) s = of_sig (pybrace_parse U src_ssize_max s).
Proof. exact src_pybrace_init_eq. Qed.
Print Assumptions C13_source_tie_py_init.

Theorem C13_source_tie_py_init_generated_tables : forall s,
  src_pybrace_init (model_oracles gen_ucd) (pb_finditer gen_ucd) s = of_sig (pybrace_parse_gen s).
Proof. exact src_pybrace_init_gen. Qed.
Print Assumptions C13_source_tie_py_init_generated_tables.

(* non-vacuity: the translated code run on "{0:d}{0:s}" (type mismatch), "{a:{}}{:>3}" (nested + automatic numbering), "{x}y{" *)
Example C13_src_ex :
  src_pybrace_init (model_oracles gen_ucd) (pb_finditer gen_ucd) [123;48;58;100;125;123;48;58;115;125] = BRaise (XOwn BTypeMismatch) /\
  src_pybrace_init (model_oracles gen_ucd) (pb_finditer gen_ucd) [123;97;58;123;125;125;123;58;62;51;125] =
    BRet [(KName [97], [Some t_all]); (KNum 0%Z, [Some t_all]); (KNum 1%Z, [Some t_all])] /\
  src_perlbrace_init (perl_finditer re_w re_d) [123;120;125;121;123] = BRaise (XOwn (PerlError [123])) /\
  src_perlbrace_init (perl_finditer re_w re_d) [123;120;125;121;123;120;125] = BRet ([[123;120;125]; [121]; [123;120;125]], [[120]]).
Proof. repeat split; vm_compute; reflexivity. Qed.

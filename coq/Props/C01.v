(* C01 — Every input is handled without crash, hang or abnormal exit.
   The theorem half: the component models never take a foreign-exception (Crash) branch.  Each statement below is the
   no-crash / totality theorem of a component, proved for ALL inputs in that component's development and re-exported here,
   so that C01 stops checking as soon as any of them does.  What no model exhibits — exit status, stderr, the interpreter's
   recursion limit (known finding D12), regex cost, time — is explored on the real CLI by tools/harness/c01.py. *)
From Coq Require Import ZArith NArith List.
From I18n Require Import Lib.Outcome Model.IntExpr Model.PluralForms Generated.PyConsts
  Proofs.Codomain Proofs.IntExprParse.
From I18n Require Model.MoParser Model.FmtC Model.Header Model.Messages Model.Dates Model.Ling Model.LingData Model.Encodings
  Proofs.EncodingsTable.
From I18n Require Props.C09 Props.C11 Props.C15 Props.C16 Props.C18 Props.C19 Props.C20.
Import ListNotations.
Local Open Scope Z_scope.

(* plural expressions (C04-C07) *)
Theorem C01_plural_evaluator_total : forall M e n c, pyeval M e n <> Crash c.
Proof. exact pyeval_nocrash. Qed.
Print Assumptions C01_plural_evaluator_total.

Theorem C01_range_analysis_total : forall M e, 1 <= M -> codomain M e <> CAssert.
Proof. exact codomain_no_assert. Qed.
Print Assumptions C01_range_analysis_total.

Theorem C01_plural_parser_no_value_error : forall s, parse_string int_max_str_digits s <> Crash CValueError.
Proof. exact (parse_string_no_value_error int_max_str_digits eq_refl). Qed.
Print Assumptions C01_plural_parser_no_value_error.

(* MO loader, through the except structure of Checker.check (C09) *)
Theorem C01_mo_loader_total : forall asc dec f c, MoParser.checker_load asc dec f <> Crash c.
Proof. exact C09.C09_total_checker. Qed.
Print Assumptions C01_mo_loader_total.

(* C format strings (C11) *)
Theorem C01_c_format_parser_own_errors : forall s c, FmtC.fmtc_parse int_max_str_digits s <> Crash c.
Proof. exact C11.C11_own_errors. Qed.
Print Assumptions C01_c_format_parser_own_errors.

(* header checks (C15) *)
Theorem C01_header_checks_total : forall O known dedicated nb ob inp,
  exists ds, Header.hdr_check O known dedicated nb ob inp = Ok ds.
Proof. exact C15.C15_no_crash. Qed.
Print Assumptions C01_header_checks_total.

(* message checks (C16) *)
Theorem C01_message_checks_total : forall cfg cat,
  Messages.c_maxd cfg = 0%N -> Messages.ctl_complete (Messages.c_ctlnames cfg) ->
  exists ds, Messages.check_messages cfg cat = Ok ds.
Proof. exact C16.C16_no_crash. Qed.
Print Assumptions C01_message_checks_total.

(* dates (C18) *)
Theorem C01_date_checks_total : forall E now tmpl bin cts pots pos,
  Dates.table_ok (Dates.tz_table E) = true ->
  exists a b, Dates.check_dates E now tmpl bin cts pots pos = Ok (a, b).
Proof. exact C18.C18_check_dates_total. Qed.
Print Assumptions C01_date_checks_total.

(* language (C19) *)
Theorem C01_language_check_total : forall munch opt path metas pls pcs tmpl c,
  Ling.check_language (LingData.gen_cfg munch) opt path metas pls pcs tmpl <> Crash c.
Proof. exact C19.C19_check_language_no_crash. Qed.
Print Assumptions C01_language_check_total.

(* charset proposal (C20) *)
Theorem C01_charset_proposal_total : forall o, EncodingsTable.ascii_cased o -> forall enc c,
  Encodings.propose_portable_encoding Encodings.real_enc_data o enc <> Crash c.
Proof. exact C20.C20_proposal_never_asserts. Qed.
Print Assumptions C01_charset_proposal_total.

(* C01 — Every input is handled without crash, hang or abnormal exit.
   The theorem half: the component models never take a foreign-exception (Crash) branch.  Each statement below is the
   no-crash / totality theorem of a component, proved for ALL inputs in that component's development and re-exported here,
   so that C01 stops checking as soon as any of them does.  What no model exhibits — exit status, stderr, the interpreter's
   recursion limit (known finding D12), regex cost, time — is explored on the real CLI by tools/harness/c01.py. *)
From Coq Require Import ZArith NArith List.
From I18n Require Import Lib.Outcome Model.IntExpr Model.PluralForms Generated.PyConsts
  Proofs.Codomain Proofs.IntExprParse Proofs.IntExprComplete Proofs.IntExprLex Proofs.PluralFormsNoCrash.
From I18n Require Model.MoParser Model.FmtC Model.Header Model.Messages Model.Dates Model.Ling Model.LingData Model.Encodings
  Proofs.EncodingsTable.
From I18n Require Props.C09 Props.C11 Props.C15 Props.C16 Props.C18 Props.C19 Props.C20.
From Coq Require Import Bool String.
From I18n Require Model.Handlers Generated.RaiseSites Proofs.Handlers.
Import ListNotations.
Local Open Scope Z_scope.

(* plural expressions (C04-C07) *)
Theorem C01_plural_evaluator_total : forall M e n c, pyeval M e n <> Crash c.
Proof. exact pyeval_nocrash. Qed.
Print Assumptions C01_plural_evaluator_total.

Theorem C01_range_analysis_total : forall M e, 1 <= M -> codomain M e <> CAssert.
Proof. exact codomain_no_assert. Qed.
Print Assumptions C01_range_analysis_total.

Theorem C01_plural_parser_no_value_error : forall s, parse_string int_max_str_digits s <> Crash CValueError.
Proof. exact (parse_string_no_value_error int_max_str_digits eq_refl). Qed.
Print Assumptions C01_plural_parser_no_value_error.

(* ... in fact no foreign exception at all: the parser model's fuel is sufficient for every token sequence
   (C04_parse_fuel_sufficient), so its only failure is the syntax error; and nothing in check_plurals can crash *)
Theorem C01_plural_parser_total : forall s c, parse_string int_max_str_digits s <> Crash c.
Proof. exact (fun s c => parse_string_no_crash int_max_str_digits s c (digits_ok_unlimited (lex None s))). Qed.
Print Assumptions C01_plural_parser_total.

Theorem C01_check_plurals_total : forall inp c, check_plurals_core int_max_str_digits inp <> Crash c.
Proof. exact check_plurals_core_no_crash. Qed.
Print Assumptions C01_check_plurals_total.

(* MO loader, through the except structure of Checker.check (C09) *)
Theorem C01_mo_loader_total : forall asc dec f c, MoParser.checker_load asc dec f <> Crash c.
Proof. exact C09.C09_total_checker. Qed.
Print Assumptions C01_mo_loader_total.

(* C format strings (C11) *)
Theorem C01_c_format_parser_own_errors : forall s c, FmtC.fmtc_parse int_max_str_digits s <> Crash c.
Proof. exact C11.C11_own_errors. Qed.
Print Assumptions C01_c_format_parser_own_errors.

(* header checks (C15) *)
Theorem C01_header_checks_total : forall O known dedicated nb ob inp,
  exists ds, Header.hdr_check O known dedicated nb ob inp = Ok ds.
Proof. exact C15.C15_no_crash. Qed.
Print Assumptions C01_header_checks_total.

(* message checks (C16) *)
Theorem C01_message_checks_total : forall cfg cat,
  Messages.c_maxd cfg = 0%N -> Messages.ctl_complete (Messages.c_ctlnames cfg) ->
  exists ds, Messages.check_messages cfg cat = Ok ds.
Proof. exact C16.C16_no_crash. Qed.
Print Assumptions C01_message_checks_total.

(* dates (C18) *)
Theorem C01_date_checks_total : forall E now tmpl bin cts pots pos,
  Dates.table_ok (Dates.tz_table E) = true ->
  exists a b, Dates.check_dates E now tmpl bin cts pots pos = Ok (a, b).
Proof. exact C18.C18_check_dates_total. Qed.
Print Assumptions C01_date_checks_total.

(* language (C19) *)
Theorem C01_language_check_total : forall munch opt path metas pls pcs tmpl c,
  Ling.check_language (LingData.gen_cfg munch) opt path metas pls pcs tmpl <> Crash c.
Proof. exact C19.C19_check_language_no_crash. Qed.
Print Assumptions C01_language_check_total.

(* charset proposal (C20) *)
Theorem C01_charset_proposal_total : forall o, EncodingsTable.ascii_cased o -> forall enc c,
  Encodings.propose_portable_encoding Encodings.real_enc_data o enc <> Crash c.
Proof. exact C20.C20_proposal_never_asserts. Qed.
Print Assumptions C01_charset_proposal_total.

(* ---- the handlers: exception flow from the tool's own raise statements to the except clauses of the checker.
   Generated/RaiseSites.v is rewritten from the python ast of /repo/lib on every run (tools/gen/gen_raisesites.py):
   one row per (call, function mention or raise statement in lib/cli.py, lib/check/__init__.py, lib/check/msgformat/*.py,
   exception class that the may-raise summary of the callee contains).  Every row is caught by an except clause of the
   same function that names the class or a base of it (and tags, ignores or converts it), or by such a clause around every
   call of that function in the checker, or is raised at import time, or is on the reviewed whitelist of the generator,
   or is a recorded defect of /repo (listed exactly by C01_known_uncaught_errors below).  A removed or narrowed except
   clause, or a new raise in a function the checker calls, makes this false.  What the table does not see: notes/C01.md. *)
Theorem C01_every_own_error_is_caught : forallb Handlers.site_ok RaiseSites.checker_sites = true.
Proof. vm_compute. reflexivity. Qed.
Print Assumptions C01_every_own_error_is_caught.

Theorem C01_no_site_left_uncaught : forall s, In s RaiseSites.checker_sites -> Handlers.handled s.
Proof. exact (Proofs.Handlers.all_sites_handled _ C01_every_own_error_is_caught). Qed.
Print Assumptions C01_no_site_left_uncaught.

(* rows that are NOT caught and are recorded defects of /repo: none today (a KnownDefect entry of the generator must be mirrored here) *)
Theorem C01_known_uncaught_errors : filter Handlers.is_known_defect RaiseSites.checker_sites = [].
Proof. vm_compute. reflexivity. Qed.
Print Assumptions C01_known_uncaught_errors.

(* every raise statement of the summarised modules has a known class (an unknown one would be caught by nothing) *)
Theorem C01_every_lib_raise_is_classified : forall r, In r RaiseSites.lib_raise_sites -> Handlers.r_status r <> Handlers.Unclassified.
Proof. exact (Proofs.Handlers.all_raises_classified _ (eq_refl : forallb Handlers.raise_ok RaiseSites.lib_raise_sites = true)). Qed.
Print Assumptions C01_every_lib_raise_is_classified.

(* operator / attribute-access methods of lib classes, which the translator does not follow, raise nothing *)
Theorem C01_implicit_methods_do_not_raise : forallb Handlers.m_summary_empty RaiseSites.implicit_methods = true.
Proof. vm_compute. reflexivity. Qed.
Print Assumptions C01_implicit_methods_do_not_raise.

(* non-vacuity: the rows that the property is about are in the table, with the handler that turns them into a tag *)
Example C01_ex_zero_division_tagged :
  existsb (fun s => Handlers.site_is "lib/check/__init__.py" "Checker.check_plurals" "Expression.__call__" "ZeroDivisionError" s
                    && Handlers.caught_with Handlers.HTag s) RaiseSites.checker_sites = true.
Proof. vm_compute. reflexivity. Qed.
Example C01_ex_overflow_tagged :
  existsb (fun s => Handlers.site_is "lib/check/__init__.py" "Checker.check_plurals" "Expression.__call__" "OverflowError" s
                    && Handlers.caught_with Handlers.HTag s) RaiseSites.checker_sites = true.
Proof. vm_compute. reflexivity. Qed.
Example C01_ex_plural_syntax_tagged :
  existsb (fun s => Handlers.site_is "lib/check/__init__.py" "Checker.check_plurals" "gettext.parse_plural_forms" "gettext.PluralExpressionSyntaxError" s
                    && Handlers.caught_with Handlers.HTag s) RaiseSites.checker_sites = true.
Proof. vm_compute. reflexivity. Qed.
Example C01_ex_date_syntax_tagged :
  existsb (fun s => Handlers.site_is "lib/check/__init__.py" "Checker.check_dates" "gettext.fix_date_format" "gettext.DateSyntaxError" s
                    && Handlers.caught_with Handlers.HTag s) RaiseSites.checker_sites = true.
Proof. vm_compute. reflexivity. Qed.
Example C01_ex_fix_codes_tagged :
  existsb (fun s => Handlers.site_is "lib/check/__init__.py" "Checker.check_language" "Language.fix_codes" "ling.FixingLanguageCodesFailed" s
                    && Handlers.caught_with Handlers.HTag s) RaiseSites.checker_sites = true.
Proof. vm_compute. reflexivity. Qed.
Example C01_ex_mo_syntax_tagged :
  existsb (fun s => Handlers.site_is "lib/check/__init__.py" "Checker.check" "polib.mofile" "moparser.SyntaxError" s
                    && Handlers.caught_with Handlers.HTag s) RaiseSites.checker_sites = true.
Proof. vm_compute. reflexivity. Qed.
Example C01_ex_c_format_error_tagged :
  existsb (fun s => Handlers.site_is "lib/check/msgformat/c.py" "Checker.check_string" "FormatString.__init__" "strformat.c.Error" s
                    && Handlers.caught_with Handlers.HTag s) RaiseSites.checker_sites = true.
Proof. vm_compute. reflexivity. Qed.
Example C01_ex_xml_error_tagged :
  existsb (fun s => Handlers.site_is "lib/check/__init__.py" "Checker._check_message_xml_format" "xml.check_fragment" "xml.parsers.expat.ExpatError" s
                    && Handlers.caught_with Handlers.HTag s) RaiseSites.checker_sites = true.
Proof. vm_compute. reflexivity. Qed.
Example C01_ex_table_size : (100 <=? N.of_nat (List.length RaiseSites.checker_sites))%N = true /\ (100 <=? N.of_nat (List.length RaiseSites.lib_raise_sites))%N = true.
Proof. vm_compute. split; reflexivity. Qed.

(* C01 — Every input is handled without crash, hang or abnormal exit.
   The theorem half: the component models never take a foreign-exception (Crash) branch.  Each statement below is the
   no-crash / totality theorem of a component, proved for ALL inputs in that component's development and re-exported here,
   so that C01 stops checking as soon as any of them does.  What no model exhibits — exit status, stderr, the interpreter's
   recursion limit (known finding D12), regex cost, time — is explored on the real CLI by tools/harness/c01.py. *)
From Coq Require Import ZArith NArith List.
From I18n Require Import Lib.Outcome Model.IntExpr Model.PluralForms Generated.PyConsts
  Proofs.Codomain Proofs.IntExprParse Proofs.IntExprComplete Proofs.IntExprLex Proofs.PluralFormsNoCrash.
From I18n Require Model.MoParser Model.FmtC Model.Header Model.Messages Model.Dates Model.Ling Model.LingData Model.Encodings
  Proofs.EncodingsTable.
From I18n Require Props.C09 Props.C11 Props.C15 Props.C16 Props.C18 Props.C19 Props.C20.
From Coq Require Import Bool String.
From I18n Require Model.Handlers Generated.RaiseSites Proofs.Handlers.
From I18n Require Model.Check Proofs.Check.
From I18n Require Import Model.Tags.
From I18n Require Lib.PySrc Generated.PluralsSrc Proofs.PluralsSrc.
Import ListNotations.
Local Open Scope Z_scope.

(* plural expressions (C04-C07) *)
Theorem C01_plural_evaluator_total : forall M e n c, pyeval M e n <> Crash c.
Proof. exact pyeval_nocrash. Qed.
Print Assumptions C01_plural_evaluator_total.

Theorem C01_range_analysis_total : forall M e, 1 <= M -> codomain M e <> CAssert.
Proof. exact codomain_no_assert. Qed.
Print Assumptions C01_range_analysis_total.

Theorem C01_plural_parser_no_value_error : forall s, parse_string int_max_str_digits s <> Crash CValueError.
Proof. exact (parse_string_no_value_error int_max_str_digits eq_refl). Qed.
Print Assumptions C01_plural_parser_no_value_error.

(* ... in fact no foreign exception at all: the parser model's fuel is sufficient for every token sequence
   (C04_parse_fuel_sufficient), so its only failure is the syntax error; and nothing in check_plurals can crash *)
Theorem C01_plural_parser_total : forall s c, parse_string int_max_str_digits s <> Crash c.
Proof. exact (fun s c => parse_string_no_crash int_max_str_digits s c (digits_ok_unlimited (lex None s))). Qed.
Print Assumptions C01_plural_parser_total.

Theorem C01_check_plurals_total : forall inp c, check_plurals_core int_max_str_digits inp <> Crash c.
Proof. exact check_plurals_core_no_crash. Qed.
Print Assumptions C01_check_plurals_total.

(* ... and this is a statement about the code of the working tree: Generated/PluralsSrc.v is the statement-by-statement
   translation of the whole of Checker.check_plurals (and of gettext.parse_plural_forms / parse_plural_expression), regenerated on
   every run (tools/gen/gen_plurals_src.py; tie lemmas in Proofs/PluralsSrc.v, the C07_source_tie theorems).  Run with the model's parser and
   evaluators and the generated digit limit, on ANY check context, the translated method returns normally, or lets the
   PluralFormsSyntaxError of a declaration of data/languages escape (excluded by C07_registry / the generator of RaiseSites.v);
   no assertion fails, no unpacking, call of None, format_range or other operation raises. *)
Theorem C01_source_tie_check_plurals_total :
  forall (L G : Type) values language get_pf is_template file obsolete msgid_plural translated msgstr_plural,
  let r := PluralsSrc.src_check_plurals
             (Proofs.PluralsSrc.MW L G int_max_str_digits values language get_pf is_template file obsolete msgid_plural translated msgstr_plural) in
  (exists tags pre, r = PySrc.SRet (tags, pre)) \/ r = PySrc.SRaise PySrc.XPluralForms.
Proof. exact Proofs.PluralsSrc.src_check_plurals_total. Qed.
Print Assumptions C01_source_tie_check_plurals_total.

(* MO loader, through the except structure of Checker.check (C09) *)
Theorem C01_mo_loader_total : forall asc dec f c, MoParser.checker_load asc dec f <> Crash c.
Proof. exact C09.C09_total_checker. Qed.
Print Assumptions C01_mo_loader_total.

(* C format strings (C11) *)
Theorem C01_c_format_parser_own_errors : forall s c, FmtC.fmtc_parse int_max_str_digits s <> Crash c.
Proof. exact C11.C11_own_errors. Qed.
Print Assumptions C01_c_format_parser_own_errors.

(* header checks (C15) *)
Theorem C01_header_checks_total : forall O known dedicated nb ob inp,
  exists ds, Header.hdr_check O known dedicated nb ob inp = Ok ds.
Proof. exact C15.C15_no_crash. Qed.
Print Assumptions C01_header_checks_total.

(* message checks (C16) *)
Theorem C01_message_checks_total : forall cfg cat,
  Messages.c_maxd cfg = 0%N -> Messages.ctl_complete (Messages.c_ctlnames cfg) ->
  exists ds, Messages.check_messages cfg cat = Ok ds.
Proof. exact C16.C16_no_crash. Qed.
Print Assumptions C01_message_checks_total.

(* dates (C18) *)
Theorem C01_date_checks_total : forall E now tmpl bin cts pots pos,
  Dates.table_ok (Dates.tz_table E) = true ->
  exists a b, Dates.check_dates E now tmpl bin cts pots pos = Ok (a, b).
Proof. exact C18.C18_check_dates_total. Qed.
Print Assumptions C01_date_checks_total.

(* language (C19) *)
Theorem C01_language_check_total : forall munch opt path metas pls pcs tmpl c,
  Ling.check_language (LingData.gen_cfg munch) opt path metas pls pcs tmpl <> Crash c.
Proof. exact C19.C19_check_language_no_crash. Qed.
Print Assumptions C01_language_check_total.

(* charset proposal (C20) *)
Theorem C01_charset_proposal_total : forall o, EncodingsTable.ascii_cased o -> forall enc c,
  Encodings.propose_portable_encoding Encodings.real_enc_data o enc <> Crash c.
Proof. exact C20.C20_proposal_never_asserts. Qed.
Print Assumptions C01_charset_proposal_total.

(* ---- the orchestration Checker.check() itself (Model/Check.v): the os.stat guard, the choice of the loader, the two attempts,
   the except / finally clauses, ctx and the order of the sub-checks.  os.stat and the loaders are oracles: [st] is what os.stat
   did, [load c enc] what `constructor(path[, encoding=enc])` does (one of the six classes of MC.load_result), for ALL of them. *)
Module MC := I18n.Model.Check.
Module PC := I18n.Proofs.Check.

(* exception flow: an exception propagates out of check() exactly when os.stat raised something that is not an OSError, or the
   LAST attempt of the loader raised (a) an exception that is neither moparser.SyntaxError nor OSError, (b) an OSError without
   errno whose message does not start with 'Syntax error in po file ', (c) UnicodeDecodeError again on the ISO-8859-1 retry *)
Theorem C01_glue_raises_iff : forall upper st ft path load e,
  MC.r_end (MC.check_top upper st ft path load) = MC.Raised e <->
  (exists n, st = MC.StatOther n /\ e = MC.RExc n) \/
  (st = MC.StatOk /\ exists c t b, MC.dispatch (MC.extension ft path) = Some (c, t, b) /\ PC.escapes (PC.last_attempt load c) e).
Proof. exact PC.check_top_raises_iff. Qed.
Print Assumptions C01_glue_raises_iff.

(* ... and in every other case it returns normally *)
Theorem C01_glue_returns_unless : forall upper st ft path load,
  (forall n, st <> MC.StatOther n) ->
  (forall c e, ~ PC.escapes (PC.last_attempt load c) e) ->
  MC.r_end (MC.check_top upper st ft path load) = MC.Returned \/
  exists t b reset, MC.r_end (MC.check_top upper st ft path load) = MC.RunSubchecks t b reset.
Proof. exact PC.check_top_returns_unless. Qed.
Print Assumptions C01_glue_returns_unless.

(* a decode error can only be the outcome of the last attempt when the retry raised it *)
Theorem C01_glue_last_attempt_decode : forall load c o s e,
  PC.last_attempt load c = MC.LDecodeError o s e ->
  PC.is_decode_error (load c None) = true /\ load c (Some MC.latin1) = MC.LDecodeError o s e.
Proof. exact PC.last_attempt_decode. Qed.
Print Assumptions C01_glue_last_attempt_decode.

(* the sub-checks run exactly when the last attempt returned a file; is_template, is_binary, the encoding reset *)
Theorem C01_glue_subchecks_run_iff : forall upper st ft path load t b reset,
  MC.r_end (MC.check_top upper st ft path load) = MC.RunSubchecks t b reset <->
  st = MC.StatOk /\ exists c, MC.dispatch (MC.extension ft path) = Some (c, t, b) /\ PC.last_attempt load c = MC.LFile /\
                            reset = PC.is_decode_error (load c None).
Proof. exact PC.check_top_runs_iff. Qed.
Print Assumptions C01_glue_subchecks_run_iff.

Theorem C01_glue_ctx_flags : forall upper st ft path load t b reset,
  MC.r_end (MC.check_top upper st ft path load) = MC.RunSubchecks t b reset ->
  (t = true <-> MC.extension ft path = MC.lit ".pot") /\
  (b = true <-> (MC.extension ft path = MC.lit ".mo" \/ MC.extension ft path = MC.lit ".gmo")) /\
  (reset = true <-> exists c o s e, load c None = MC.LDecodeError o s e /\ In (c, None) (MC.r_calls (MC.check_top upper st ft path load))).
Proof. exact PC.check_top_flags. Qed.
Print Assumptions C01_glue_ctx_flags.

(* dispatch: the loader is called iff os.stat succeeded and the extension is one of .po .pot .mo .gmo; which constructor; the
   encoding= keyword of each call; --file-type replaces the extension of the path; os.path.splitext *)
Theorem C01_glue_loader_called_iff : forall upper st ft path load,
  MC.r_calls (MC.check_top upper st ft path load) <> [] <-> st = MC.StatOk /\ PC.known_ext (MC.extension ft path).
Proof. exact PC.loader_called_iff. Qed.
Print Assumptions C01_glue_loader_called_iff.

Theorem C01_glue_loader_calls : forall upper st ft path load c enc,
  In (c, enc) (MC.r_calls (MC.check_top upper st ft path load)) ->
  (enc = None \/ (enc = Some MC.latin1 /\ PC.is_decode_error (load c None) = true)) /\
  (c = MC.Pofile <-> (MC.extension ft path = MC.lit ".po" \/ MC.extension ft path = MC.lit ".pot")) /\
  (c = MC.Mofile <-> (MC.extension ft path = MC.lit ".mo" \/ MC.extension ft path = MC.lit ".gmo")).
Proof. exact PC.loader_calls_shape. Qed.
Print Assumptions C01_glue_loader_calls.

Theorem C01_glue_loader_calls_list : forall upper st ft path load,
  MC.r_calls (MC.check_top upper st ft path load) =
  match st, MC.dispatch (MC.extension ft path) with
  | MC.StatOk, Some (c, _, _) => (c, None) :: (if PC.is_decode_error (load c None) then [(c, Some MC.latin1)] else [])
  | _, _ => []
  end.
Proof. exact PC.check_top_calls. Qed.
Print Assumptions C01_glue_loader_calls_list.

Theorem C01_glue_dispatch : forall ext c t b,
  MC.dispatch ext = Some (c, t, b) <->
  (ext = MC.lit ".po" /\ c = MC.Pofile /\ t = false /\ b = false) \/
  (ext = MC.lit ".pot" /\ c = MC.Pofile /\ t = true /\ b = false) \/
  ((ext = MC.lit ".mo" \/ ext = MC.lit ".gmo") /\ c = MC.Mofile /\ t = false /\ b = true).
Proof. exact PC.dispatch_spec. Qed.
Print Assumptions C01_glue_dispatch.

Theorem C01_glue_file_type_overrides_path : forall t path, MC.extension (Some t) path = MC.dot :: t.
Proof. exact PC.extension_file_type. Qed.
Print Assumptions C01_glue_file_type_overrides_path.

Theorem C01_glue_splitext : forall p r,
  MC.extension None p = MC.dot :: r <->
  exists root, p = root ++ MC.dot :: r /\ ~ In MC.dot r /\ ~ In MC.slash r /\ exists c, In c (MC.base_name root) /\ c <> MC.dot.
Proof. exact PC.splitext_ext_spec. Qed.
Print Assumptions C01_glue_splitext.

(* unknown-file-type iff os.stat succeeded and the extension is none of the four; then nothing else happens (C17) *)
Theorem C01_glue_unknown_file_type_iff : forall upper st ft path load,
  PC.has_tag (MC.lit "unknown-file-type") (MC.r_events (MC.check_top upper st ft path load)) = true <->
  st = MC.StatOk /\ ~ PC.known_ext (MC.extension ft path).
Proof. exact PC.unknown_file_type_iff. Qed.
Print Assumptions C01_glue_unknown_file_type_iff.

Theorem C01_glue_unknown_file_type_alone : forall upper ft path load,
  ~ PC.known_ext (MC.extension ft path) ->
  MC.check_top upper MC.StatOk ft path load = MC.Res [MC.Ev (MC.lit "unknown-file-type") []] [] MC.Returned.
Proof. exact PC.unknown_file_type_alone. Qed.
Print Assumptions C01_glue_unknown_file_type_alone.

(* broken-encoding iff the first attempt raised UnicodeDecodeError; exactly once, after the (at most one) tag of an except clause;
   its arguments; the 80-byte window *)
Theorem C01_glue_broken_encoding_iff : forall upper st ft path load,
  PC.has_tag (MC.lit "broken-encoding") (MC.r_events (MC.check_top upper st ft path load)) = true <->
  st = MC.StatOk /\ exists c t b, MC.dispatch (MC.extension ft path) = Some (c, t, b) /\ PC.is_decode_error (load c None) = true.
Proof. exact PC.broken_encoding_iff. Qed.
Print Assumptions C01_glue_broken_encoding_iff.

Theorem C01_glue_broken_encoding_once_last : forall upper ft path load c t b o s e,
  MC.dispatch (MC.extension ft path) = Some (c, t, b) ->
  load c None = MC.LDecodeError o s e ->
  let r := MC.check_top upper MC.StatOk ft path load in
  exists hev, MC.r_events r = hev ++ [MC.Ev (MC.lit "broken-encoding")
                                        [ABytes (MC.window o s); ASafe (MC.lit "cannot be decoded as"); AStr (upper e)]] /\
              (List.length hev <= 1)%nat /\ PC.has_tag (MC.lit "broken-encoding") hev = false /\
              PC.count_tag (MC.lit "broken-encoding") (MC.r_events r) = 1%nat /\
              hev = fst (MC.handlers path (load c (Some MC.latin1))).
Proof. exact PC.broken_encoding_once_last. Qed.
Print Assumptions C01_glue_broken_encoding_once_last.

Theorem C01_glue_window : forall obj start, (0 <= start)%Z ->
  MC.window obj start = skipn (Z.to_nat (start - 40)) (firstn (Z.to_nat start) obj) ++ firstn 40 (skipn (Z.to_nat start) obj).
Proof. exact PC.window_spec. Qed.
Print Assumptions C01_glue_window.

Theorem C01_glue_window_length : forall obj start, (-40 <= start)%Z -> (List.length (MC.window obj start) <= 80)%nat.
Proof. exact PC.window_length. Qed.
Print Assumptions C01_glue_window_length.

Theorem C01_glue_window_contains_start : forall obj start, (0 <= start)%Z -> (Z.to_nat start < List.length obj)%nat ->
  nth_error (MC.window obj start) (Z.to_nat (Z.min start 40)) = nth_error obj (Z.to_nat start).
Proof. exact PC.window_contains_start. Qed.
Print Assumptions C01_glue_window_contains_start.

(* syntax-error-in-po-file: the argument list as a function of polib's message.  The two regular expressions as equations: *)
Theorem C01_glue_lineno_regex : forall m ds o, MC.parse_lineno m = Some (ds, o) <->
  ds <> [] /\ forallb MC.is_digit ds = true /\
  match o with
  | None => m = MC.lit "(line " ++ ds ++ [41%N]
  | Some t => m = MC.lit "(line " ++ ds ++ [41; 58; 32]%N ++ t /\ t <> [] /\ forallb (fun c => negb (N.eqb c 10)) t = true
  end.
Proof. exact PC.parse_lineno_spec. Qed.
Print Assumptions C01_glue_lineno_regex.

Theorem C01_glue_words_regex : forall s, MC.is_words s = true <->
  exists w ws, PC.lower_word w /\ Forall PC.lower_word ws /\ s = w ++ flat_map (cons 32%N) ws.
Proof. exact PC.is_words_spec. Qed.
Print Assumptions C01_glue_words_regex.

(* the prefix strip: "<path> " is dropped only when the text after the fixed prefix starts with it *)
Theorem C01_glue_po_strip_path : forall path rest, MC.po_strip path (MC.po_prefix ++ path ++ 32%N :: rest) = rest.
Proof. exact PC.po_strip_path. Qed.
Print Assumptions C01_glue_po_strip_path.

Theorem C01_glue_po_strip_other : forall path rest, (forall r, rest <> path ++ 32%N :: r) -> MC.po_strip path (MC.po_prefix ++ rest) = rest.
Proof. exact PC.po_strip_other. Qed.
Print Assumptions C01_glue_po_strip_other.

Theorem C01_glue_po_error_args : forall path msg,
  let m := MC.po_strip path msg in
  (forall ds, PC.lineno_match m ds None -> MC.po_error_args path msg = [ASafe (MC.lit "line " ++ ds)]) /\
  (forall ds t, PC.lineno_match m ds (Some t) ->
     MC.po_error_args path msg = [ASafe (MC.lit "line " ++ ds ++ [58%N]); if MC.is_words t then ASafe t else AStr t]) /\
  ((forall ds o, ~ PC.lineno_match m ds o) -> MC.po_error_args path msg = [AStr m]).
Proof. exact PC.po_error_args_spec. Qed.
Print Assumptions C01_glue_po_error_args.

(* ---- relevant to C02 (what reaches the output verbatim): every tags.safestr argument of syntax-error-in-po-file consists of
   characters of [a-z0-9 :] only, whatever polib's message is: nothing else from the file (or its name) goes through this path
   unescaped.  (Lower-case ASCII words of the file DO: 'unknown keyword msgfoo' is passed as a safestr.) *)
Theorem C01_glue_po_error_safestr_chars : forall path msg s,
  In (ASafe s) (MC.po_error_args path msg) -> forallb PC.out_char s = true.
Proof. exact PC.po_error_args_safe. Qed.
Print Assumptions C01_glue_po_error_safestr_chars.

(* ... and every safestr argument of every tag that check() itself emits is: the strerror of an OSError (os-error), the message of
   moparser.SyntaxError (invalid-mo-file), the literal 'cannot be decoded as' (broken-encoding), or such a restricted string *)
Theorem C01_glue_safestr_provenance : forall upper st ft path load ev s,
  In ev (MC.r_events (MC.check_top upper st ft path load)) -> In (ASafe s) (MC.ev_args ev) ->
  (MC.ev_tag ev = MC.lit "os-error" /\ (st = MC.StatOSError s \/ exists c enc, load c enc = MC.LOSErrno s)) \/
  (MC.ev_tag ev = MC.lit "invalid-mo-file" /\ exists c enc, load c enc = MC.LMoSyntax s) \/
  (MC.ev_tag ev = MC.lit "broken-encoding" /\ s = MC.lit "cannot be decoded as") \/
  (MC.ev_tag ev = MC.lit "syntax-error-in-po-file" /\ forallb PC.out_char s = true).
Proof. exact PC.check_top_safestr_provenance. Qed.
Print Assumptions C01_glue_safestr_provenance.

(* the sub-checks: fixed order, and ctx.encoding reset between check_mime and check_dates *)
Theorem C01_glue_subcheck_order : forall reset,
  map fst (MC.run_plan reset false MC.subcheck_plan) =
  [MC.lit "check_comments"; MC.lit "check_headers"; MC.lit "check_language"; MC.lit "check_plurals"; MC.lit "check_mime";
   MC.lit "check_dates"; MC.lit "check_project"; MC.lit "check_translator"; MC.lit "check_messages"].
Proof. exact PC.subcheck_order. Qed.
Print Assumptions C01_glue_subcheck_order.

Theorem C01_glue_subcheck_reset_seen : forall reset,
  map snd (MC.run_plan reset false MC.subcheck_plan) = [false; false; false; false; false; reset; reset; reset; reset].
Proof. exact PC.subcheck_reset_seen. Qed.
Print Assumptions C01_glue_subcheck_reset_seen.

(* non-vacuity *)
Definition glue_ex_load (first retry : MC.load_result) : MC.loader -> option MC.text -> MC.load_result :=
  fun _ enc => match enc with None => first | Some _ => retry end.
Definition glue_ex_msg : MC.text := MC.lit "Syntax error in po file d/a.po (line 12): unknown keyword msgfoo".
Example C01_glue_ex_po_syntax_error :
  MC.check_top MC.upper_ascii MC.StatOk None (MC.lit "d/a.po") (glue_ex_load (MC.LOSNoErrno glue_ex_msg) MC.LFile) =
  MC.Res [MC.Ev (MC.lit "syntax-error-in-po-file") [ASafe (MC.lit "line 12:"); ASafe (MC.lit "unknown keyword msgfoo")]]
         [(MC.Pofile, None)] MC.Returned.
Proof. vm_compute. reflexivity. Qed.
Example C01_glue_ex_po_syntax_error_escaped :     (* upper case, a quote, another path: plain str *)
  map MC.ev_args (MC.r_events (MC.check_top MC.upper_ascii MC.StatOk None (MC.lit "a.po")
     (glue_ex_load (MC.LOSNoErrno (MC.lit "Syntax error in po file b.po (line 3): unknown keyword ""X""")) MC.LFile))) =
  [[AStr (MC.lit "b.po (line 3): unknown keyword ""X""")]] /\
  map MC.ev_args (MC.r_events (MC.check_top MC.upper_ascii MC.StatOk None (MC.lit "a.po")
     (glue_ex_load (MC.LOSNoErrno (MC.lit "Syntax error in po file a.po (line 3): unknown keyword ""X""")) MC.LFile))) =
  [[ASafe (MC.lit "line 3:"); AStr (MC.lit "unknown keyword ""X""")]].
Proof. vm_compute. split; reflexivity. Qed.
Example C01_glue_ex_escapes :
  MC.r_end (MC.check_top MC.upper_ascii MC.StatOk None (MC.lit "a.po") (glue_ex_load (MC.LOSNoErrno (MC.lit "foo")) MC.LFile))
    = MC.Raised (MC.ROSError (MC.lit "foo")) /\
  MC.r_end (MC.check_top MC.upper_ascii MC.StatOk (Some (MC.lit "mo")) (MC.lit "a.po") (glue_ex_load (MC.LOther (MC.lit "UnicodeError")) MC.LFile))
    = MC.Raised (MC.RExc (MC.lit "UnicodeError")) /\
  MC.check_top MC.upper_ascii MC.StatOk None (MC.lit "a.po") (glue_ex_load (MC.LDecodeError [1; 2; 3]%N 1 (MC.lit "utf-8")) (MC.LDecodeError [] 0 [])) =
    MC.Res [MC.Ev (MC.lit "broken-encoding") [ABytes [1; 2; 3]%N; ASafe (MC.lit "cannot be decoded as"); AStr (MC.lit "UTF-8")]]
           [(MC.Pofile, None); (MC.Pofile, Some (MC.lit "ISO-8859-1"))] (MC.Raised MC.RUnicodeDecodeError).
Proof. vm_compute. repeat split. Qed.
Example C01_glue_ex_dispatch :
  map (fun p => MC.extension None (MC.lit p))
      ["a.po"; "a.pot"; "a.mo"; "a.gmo"; "a.txt"; "a"; ".po"; "a.po.bak"; "dir.po/a"; "a.PO"; "a.po "; "..po"; "a..po"; "x/.b.mo"]%string =
  map MC.lit [".po"; ".pot"; ".mo"; ".gmo"; ".txt"; ""; ""; ".bak"; ""; ".PO"; ".po "; ""; ".po"; ".mo"]%string.
Proof. vm_compute. reflexivity. Qed.
Example C01_glue_ex_runs :
  MC.check_top MC.upper_ascii MC.StatOk None (MC.lit "x.pot") (glue_ex_load (MC.LDecodeError [7]%N 0 (MC.lit "ascii")) MC.LFile) =
  MC.Res [MC.Ev (MC.lit "broken-encoding") [ABytes [7%N]; ASafe (MC.lit "cannot be decoded as"); AStr (MC.lit "ASCII")]]
         [(MC.Pofile, None); (MC.Pofile, Some MC.latin1)] (MC.RunSubchecks true false true).
Proof. vm_compute. reflexivity. Qed.

(* ---- the handlers: exception flow from the tool's own raise statements to the except clauses of the checker.
   Generated/RaiseSites.v is rewritten from the python ast of /repo/lib on every run (tools/gen/gen_raisesites.py):
   one row per (call, function mention or raise statement in lib/cli.py, lib/check/__init__.py, lib/check/msgformat/*.py,
   exception class that the may-raise summary of the callee contains).  Every row is caught by an except clause of the
   same function that names the class or a base of it (and tags, ignores or converts it), or by such a clause around every
   call of that function in the checker, or is raised at import time, or is on the reviewed whitelist of the generator,
   or is a recorded defect of /repo (listed exactly by C01_known_uncaught_errors below).  A removed or narrowed except
   clause, or a new raise in a function the checker calls, makes this false.  What the table does not see: notes/C01.md. *)
Theorem C01_every_own_error_is_caught : forallb Handlers.site_ok RaiseSites.checker_sites = true.
Proof. vm_compute. reflexivity. Qed.
Print Assumptions C01_every_own_error_is_caught.

Theorem C01_no_site_left_uncaught : forall s, In s RaiseSites.checker_sites -> Handlers.handled s.
Proof. exact (Proofs.Handlers.all_sites_handled _ C01_every_own_error_is_caught). Qed.
Print Assumptions C01_no_site_left_uncaught.

(* rows that are NOT caught and are recorded defects of /repo: none today (a KnownDefect entry of the generator must be mirrored here) *)
Theorem C01_known_uncaught_errors : filter Handlers.is_known_defect RaiseSites.checker_sites = [].
Proof. vm_compute. reflexivity. Qed.
Print Assumptions C01_known_uncaught_errors.

(* every raise statement of the summarised modules has a known class (an unknown one would be caught by nothing) *)
Theorem C01_every_lib_raise_is_classified : forall r, In r RaiseSites.lib_raise_sites -> Handlers.r_status r <> Handlers.Unclassified.
Proof. exact (Proofs.Handlers.all_raises_classified _ (eq_refl : forallb Handlers.raise_ok RaiseSites.lib_raise_sites = true)). Qed.
Print Assumptions C01_every_lib_raise_is_classified.

(* operator / attribute-access methods of lib classes, which the translator does not follow, raise nothing *)
Theorem C01_implicit_methods_do_not_raise : forallb Handlers.m_summary_empty RaiseSites.implicit_methods = true.
Proof. vm_compute. reflexivity. Qed.
Print Assumptions C01_implicit_methods_do_not_raise.

(* non-vacuity: the rows that the property is about are in the table, with the handler that turns them into a tag *)
Example C01_ex_zero_division_tagged :
  existsb (fun s => Handlers.site_is "lib/check/__init__.py" "Checker.check_plurals" "Expression.__call__" "ZeroDivisionError" s
                    && Handlers.caught_with Handlers.HTag s) RaiseSites.checker_sites = true.
Proof. vm_compute. reflexivity. Qed.
Example C01_ex_overflow_tagged :
  existsb (fun s => Handlers.site_is "lib/check/__init__.py" "Checker.check_plurals" "Expression.__call__" "OverflowError" s
                    && Handlers.caught_with Handlers.HTag s) RaiseSites.checker_sites = true.
Proof. vm_compute. reflexivity. Qed.
Example C01_ex_plural_syntax_tagged :
  existsb (fun s => Handlers.site_is "lib/check/__init__.py" "Checker.check_plurals" "gettext.parse_plural_forms" "gettext.PluralExpressionSyntaxError" s
                    && Handlers.caught_with Handlers.HTag s) RaiseSites.checker_sites = true.
Proof. vm_compute. reflexivity. Qed.
Example C01_ex_date_syntax_tagged :
  existsb (fun s => Handlers.site_is "lib/check/__init__.py" "Checker.check_dates" "gettext.fix_date_format" "gettext.DateSyntaxError" s
                    && Handlers.caught_with Handlers.HTag s) RaiseSites.checker_sites = true.
Proof. vm_compute. reflexivity. Qed.
Example C01_ex_fix_codes_tagged :
  existsb (fun s => Handlers.site_is "lib/check/__init__.py" "Checker.check_language" "Language.fix_codes" "ling.FixingLanguageCodesFailed" s
                    && Handlers.caught_with Handlers.HTag s) RaiseSites.checker_sites = true.
Proof. vm_compute. reflexivity. Qed.
Example C01_ex_mo_syntax_tagged :
  existsb (fun s => Handlers.site_is "lib/check/__init__.py" "Checker.check" "polib.mofile" "moparser.SyntaxError" s
                    && Handlers.caught_with Handlers.HTag s) RaiseSites.checker_sites = true.
Proof. vm_compute. reflexivity. Qed.
Example C01_ex_c_format_error_tagged :
  existsb (fun s => Handlers.site_is "lib/check/msgformat/c.py" "Checker.check_string" "FormatString.__init__" "strformat.c.Error" s
                    && Handlers.caught_with Handlers.HTag s) RaiseSites.checker_sites = true.
Proof. vm_compute. reflexivity. Qed.
Example C01_ex_xml_error_tagged :
  existsb (fun s => Handlers.site_is "lib/check/__init__.py" "Checker._check_message_xml_format" "xml.check_fragment" "xml.parsers.expat.ExpatError" s
                    && Handlers.caught_with Handlers.HTag s) RaiseSites.checker_sites = true.
Proof. vm_compute. reflexivity. Qed.
Example C01_ex_table_size : (100 <=? N.of_nat (List.length RaiseSites.checker_sites))%N = true /\ (100 <=? N.of_nat (List.length RaiseSites.lib_raise_sites))%N = true.
Proof. vm_compute. split; reflexivity. Qed.

(* C01 — Every input is handled without crash, hang or abnormal exit.
   The theorem half: the component models never take a Crash branch (each is re-exported from the property
   file of its component, where it is proved for all inputs).  Exit status, stderr, recursion and time are
   explored on the real CLI by the harness (DESIGN.md C01). *)
From Coq Require Import ZArith List.
From I18n Require Import Lib.Outcome Model.IntExpr Model.PluralForms Generated.PyConsts
  Proofs.Codomain Proofs.IntExprParse.
Import ListNotations.
Local Open Scope Z_scope.

Theorem C01_plural_evaluator_total : forall M e n c, pyeval M e n <> Crash c.
Proof. exact pyeval_nocrash. Qed.
Print Assumptions C01_plural_evaluator_total.

Theorem C01_range_analysis_total : forall M e, 1 <= M -> codomain M e <> CAssert.
Proof. exact codomain_no_assert. Qed.
Print Assumptions C01_range_analysis_total.

Theorem C01_plural_parser_no_value_error : forall s, parse_string int_max_str_digits s <> Crash CValueError.
Proof. exact (parse_string_no_value_error int_max_str_digits eq_refl). Qed.
Print Assumptions C01_plural_parser_no_value_error.

(* C10 — PO text decodes to exactly the strings gettext would see.
   The charset of the file is an oracle: [dec] decodes a byte string, [enc] encodes one character. *)
From Coq Require Import NArith List Bool.
From I18n Require Import Lib.Outcome Model.PoUnescape Model.PoParser Spec.PoSyntax Proofs.PoUnescape Proofs.PoStrings
  Proofs.PoParser Proofs.PoWitness Proofs.PoLex Model.PoLexer Proofs.PoOpen Proofs.PoDetect Proofs.PoLoad Proofs.PoUnescapeTotal
  Model.PoPy Generated.PolibSrc Proofs.PolibSrc.
Import ListNotations.
Local Open Scope N_scope.

(* (1) escape sequences.  For every chunk (the text between the quotes of one physical line) spelled
   in the printer family of Spec/PoSyntax.v — literal characters and runs of escaped bytes, each byte
   as a named escape, 1-3 octal digits or \x + ANY number >= 1 of hex digits in either case, the byte being
   the value mod 256 as in gettext and C — polib_unescape returns the text the chunk denotes, and CPython
   emits no warning.  (Model of the code after the repair of D29.) *)
Theorem C10_unescape_roundtrip : forall dec, ascii_compatible dec -> forall ps, chunk_ok dec ps ->
  unescape dec (chunk_text ps) = Ok (chunk_value ps, false).
Proof. exact unescape_roundtrip. Qed.
Print Assumptions C10_unescape_roundtrip.

(* the per-character reading: each character written literally or as the escaped bytes of its
   encoding in the file's charset (stateless codec) *)
Theorem C10_unescape_roundtrip_chars : forall enc dec, ascii_compatible dec -> codec_ok enc dec ->
  forall sp, cspell_ok enc sp -> unescape dec (cspell_text sp) = Ok (map fst sp, false).
Proof. exact unescape_roundtrip_chars. Qed.
Print Assumptions C10_unescape_roundtrip_chars.

(* D29 (repaired): a hexadecimal escape extends over EVERY hex digit that follows and contributes the single byte
   (value of the digits) mod 256 — gettext's reading (po-lex.c control_sequence, case 'x'; C99 6.4.4.4).  In a chunk:
   literal text before, literal text after that does not begin with a hex digit (it would be one more digit). *)
Theorem C10_hex_escape_all_digits : forall dec, ascii_compatible dec -> forall pre d post t,
  Forall lit_ok pre -> d <> [] -> Forall c_hex d ->
  Forall lit_ok post -> match post with c :: _ => ~ c_hex c | [] => True end ->
  dec [digits_value 16 c_hexval d mod 256] = Some t ->
  unescape dec (pre ++ 92 :: 120 :: d ++ post) = Ok (pre ++ t ++ post, false).
Proof. exact hex_escape_all_digits. Qed.
Print Assumptions C10_hex_escape_all_digits.

(* the same for the run alone, whatever the codec: the callback evaluates backslash x d1..dn to that one byte *)
Theorem C10_hex_escape_run : forall dec d, d <> [] -> Forall c_hex d ->
  unescape_run dec (92 :: 120 :: d) =
  (do t <- decode_run dec [digits_value 16 c_hexval d mod 256]; Ok (t, false)).
Proof. exact hex_run_byte. Qed.
Print Assumptions C10_hex_escape_run.

(* D14: outside the family (\8, \9, octal above \377) the value is kept or truncated and CPython
   writes a SyntaxWarning to stderr: that loading never writes to stderr is false. *)
Definition C10_unescape_silent_statement : Prop :=
  forall dec s t w, unescape dec s = Ok (t, w) -> w = false.
Theorem C10_unescape_silent_refuted : ~ C10_unescape_silent_statement.
Proof.
  intros H. specialize (H (fun _ => None) [92; 57] [92; 57] true). (* \9 *)
  assert (E : unescape (fun _ => None) [92; 57] = Ok ([92; 57], true)) by (vm_compute; reflexivity).
  specialize (H E). discriminate.
Qed.
Print Assumptions C10_unescape_silent_refuted.

(* (2) the state machine.  [toks_catalog ws c] is the token list of the rendered catalog c (header comments,
   then for each po_entry its comment block in any order — translator / extracted / reference / flag lines and
   previous-msgid strings — msgctxt, msgid, msgid_plural, msgstr or msgstr[i], each string as a keyword line
   plus continuation lines, every chunk spelled in the escape family); [ext] inserts blank lines and dropped
   #~| lines anywhere.  The machine rebuilds the catalog: strings, flags (comma-separated, trimmed, order and
   duplicates kept), obsolete marker, previous msgid/msgctxt/msgid_plural, references and extracted comments on
   the right po_entry, no warning.  [tool_view] = the catalog, except that the previous-msgid annotations of an
   obsolete po_entry are None.  Carries nplurals <= 10 (D9). *)
Theorem C10_machine_roundtrip : forall O ws c l',
  ascii_compatible (o_dec O) -> ~ In 34 ws -> scatalog_ok (o_dec O) c -> nplurals_le_10 c ->
  ext (toks_catalog ws c) l' ->
  run_machine O l' = Ok (mkPo (fst (catalog_value c)) (map (fun e => to_entry (tool_view e)) (snd (catalog_value c))) false).
Proof. exact machine_roundtrip. Qed.
Print Assumptions C10_machine_roundtrip.

(* load(render(c)) = c exactly, outside the two defects *)
Theorem C10_machine_roundtrip_exact : forall O ws c l',
  ascii_compatible (o_dec O) -> ~ In 34 ws -> scatalog_ok (o_dec O) c -> nplurals_le_10 c -> no_obsolete_prev c ->
  ext (toks_catalog ws c) l' ->
  run_machine O l' = Ok (mkPo (fst (catalog_value c)) (map to_entry (snd (catalog_value c))) false).
Proof. exact machine_roundtrip_full. Qed.
Print Assumptions C10_machine_roundtrip_exact.

(* D9: without the nplurals guard the statement is false: msgstr[10] lands on index 1 *)
Theorem C10_machine_D9_refuted : ~ machine_statement_without_nplurals_guard.
Proof. exact D9_refutes. Qed.
Print Assumptions C10_machine_D9_refuted.

(* D15: without the guard on obsolete entries the statement is false: #~| msgid is dropped *)
Theorem C10_machine_obsolete_prev_refuted : ~ machine_statement_without_obsolete_guard.
Proof. exact obsolete_prev_refutes. Qed.
Print Assumptions C10_machine_obsolete_prev_refuted.

(* the flag splitter on one rendered flag line, and the references of one #: line *)
Theorem C10_flags_line : forall items, Forall flag_item_ok items -> items <> [] ->
  map strip (split_on 44 (flags_body items)) = map flag_of items.
Proof. exact flags_line. Qed.
Print Assumptions C10_flags_line.
Theorem C10_refs_line : forall O refs, refs <> [] -> refs_ok true refs ->
  map (occurrence O) (split_ws (refs_body refs)) = map snd refs.
Proof. exact refs_line. Qed.
Print Assumptions C10_refs_line.

(* (2b) the line lexer, as far as it closes: padding around a line, blank lines, keyword lines and
   continuation lines are classified back to their tokens (quote test included). *)
Theorem C10_lex_roundtrip_padding : forall first lead body trail,
  all_space lead -> all_space trail -> trimmed body -> body <> [] -> hd 0 body <> bom ->
  lex_line first (lead ++ body ++ trail) = lex_line false body.
Proof. exact lex_padded. Qed.
Print Assumptions C10_lex_roundtrip_padding.
Theorem C10_lex_roundtrip_keyword : forall dec y kw sep c,
  kw_of y = Some kw -> all_space sep -> sep <> [] -> chunk_ok dec c ->
  lex_line false (kw ++ sep ++ quoted c) = kw_tok false false y c.
Proof. exact lex_kw. Qed.
Print Assumptions C10_lex_roundtrip_keyword.
Theorem C10_lex_roundtrip_continuation : forall dec c, chunk_ok dec c -> lex_line false (quoted c) = cont_tok false false c.
Proof. exact lex_cont. Qed.
Print Assumptions C10_lex_roundtrip_continuation.

Theorem C10_lex_roundtrip_blank : forall first ws, all_space ws -> lex_line first ws = LBlank.
Proof. exact (fun first ws H => lex_blank first ws H (or_intror I)). Qed.
Print Assumptions C10_lex_roundtrip_blank.
Theorem C10_lex_roundtrip_plural : forall dec i ws c, i < 10 -> all_space ws -> ws <> [] -> chunk_ok dec c ->
  lex_line false (mx_cur i ws c) = LLine false false (AProc Ymx (mx_cur i ws c)).
Proof. exact lex_mx. Qed.
Print Assumptions C10_lex_roundtrip_plural.
(* # text, #. text (any text without leading / trailing white space), #: refs and #, flags (any body ending in a
   non-space): the token is the line *)
Theorem C10_lex_roundtrip_comment : forall t0 y sep s,
  In (t0, y) [([35], Ytc); ([35; 46], Ygc); ([35; 58], Yoc); ([35; 44], Yfl)] ->
  is_space sep -> trimmed (t0 ++ sep :: s) ->
  lex_line false (t0 ++ sep :: s) = LLine false true (AProc y (t0 ++ sep :: s)).
Proof. exact lex_hash_line. Qed.
Print Assumptions C10_lex_roundtrip_comment.
Theorem C10_lex_roundtrip_prev_obsolete : forall s, ends_word s -> trimmed ([35; 126; 124] ++ s) ->
  lex_line false ([35; 126; 124] ++ s) = LPrevObsolete.
Proof. exact lex_prev_obsolete. Qed.
Print Assumptions C10_lex_roundtrip_prev_obsolete.

(* prefixed lines: #~ msgid ..., #~ ..., #~ msgstr[i] ..., #| msgid ..., #| ... *)
Theorem C10_lex_roundtrip_obsolete_keyword : forall dec y kw osep sep c,
  kw_of y = Some kw -> sep_str_ok osep -> all_space sep -> sep <> [] -> chunk_ok dec c ->
  lex_line false ([35; 126] ++ osep ++ kw ++ sep ++ quoted c) = kw_tok true false y c.
Proof. exact lex_obs_kw. Qed.
Print Assumptions C10_lex_roundtrip_obsolete_keyword.
Theorem C10_lex_roundtrip_obsolete_continuation : forall dec osep c, sep_str_ok osep -> chunk_ok dec c ->
  lex_line false ([35; 126] ++ osep ++ quoted c) = cont_tok true false c.
Proof. exact lex_obs_cont. Qed.
Print Assumptions C10_lex_roundtrip_obsolete_continuation.
Theorem C10_lex_roundtrip_obsolete_plural : forall osep i ws c, sep_str_ok osep -> i < 10 -> all_space ws -> ws <> [] ->
  lex_line false ([35; 126] ++ osep ++ mx_cur i ws c) = LLine true false (AProc Ymx (mx_cur i ws c)).
Proof. exact lex_obs_mx. Qed.
Print Assumptions C10_lex_roundtrip_obsolete_plural.
Theorem C10_lex_roundtrip_previous_keyword : forall y kw psep sep c,
  prev_kw_of y = Some kw -> sep_str_ok psep -> all_space sep -> sep <> [] ->
  lex_line false ([35; 124] ++ psep ++ kw ++ sep ++ quoted c) = kw_tok false true y c.
Proof. exact lex_prev_kw. Qed.
Print Assumptions C10_lex_roundtrip_previous_keyword.
Theorem C10_lex_roundtrip_previous_continuation : forall psep c, sep_str_ok psep ->
  lex_line false ([35; 124] ++ psep ++ quoted c) = cont_tok false true c.
Proof. exact lex_prev_cont. Qed.
Print Assumptions C10_lex_roundtrip_previous_continuation.

(* every line of the rendered catalog lexes to its token (the lexer round trip, assembled) *)
Theorem C10_lex_roundtrip : forall dec sp, seps_ok sp -> forall c, scatalog_ok dec c -> nplurals_le_10 c ->
  Forall2 lexes (render_bodies sp c) (toks_catalog_x sp c).
Proof. exact lexes_catalog. Qed.
Print Assumptions C10_lex_roundtrip.

(* (2c) THE COMPOSITION.  [render_bodies sp c] are the lines of catalog c (Spec/PoSyntax.v part 3: separators sp, every
   string chunked and spelled in the escape family, comment lines of each kind, #~ and #~| prefixes for obsolete
   entries); a file of the family pads each line with white space (the line end included) and inserts
   white-space-only lines anywhere.  _POFileParser.parse on these lines yields the catalog: header comments, and for
   every entry msgctxt, msgid, msgid_plural, msgstr / msgstr[i], flags, obsolete marker, previous msgid (None for an
   obsolete entry: D22), references and extracted comments; no warning.  Guard: nplurals <= 10 (D9). *)
Theorem C10_load_render : forall O sp c raws,
  ascii_compatible (o_dec O) -> seps_ok sp -> scatalog_ok (o_dec O) c -> nplurals_le_10 c ->
  file_of (render_bodies sp c) raws ->
  parse_lines O raws = Ok (mkPo (fst (catalog_value c)) (map (fun e => to_entry (tool_view e)) (snd (catalog_value c))) false).
Proof. exact load_render. Qed.
Print Assumptions C10_load_render.

Theorem C10_load_render_exact : forall O sp c raws,
  ascii_compatible (o_dec O) -> seps_ok sp -> scatalog_ok (o_dec O) c -> nplurals_le_10 c -> no_obsolete_prev c ->
  file_of (render_bodies sp c) raws ->
  parse_lines O raws = Ok (mkPo (fst (catalog_value c)) (map to_entry (snd (catalog_value c))) false).
Proof. exact load_render_exact. Qed.
Print Assumptions C10_load_render_exact.

(* (3) Codecs.open and detect_encoding.  The text of the file: every physical line (LF-free) followed by LF.
   Codecs.open's LF-only splitting, comment normalisation and pending-comment buffering hand the parser a file of
   the same line bodies (only white-space lines at the end are dropped), so the catalog is rebuilt from the TEXT. *)
Theorem C10_codecs_open_file : forall bodies pls, file_of bodies pls -> Forall (fun l => ~ In 10 l) pls ->
  Forall body_ok bodies -> bodies <> [] -> ~ tc_shaped (last bodies []) ->
  file_of bodies (codecs_open_text (flat_map (fun l => l ++ [10]) pls)).
Proof. exact codecs_open_file. Qed.
Print Assumptions C10_codecs_open_file.

Theorem C10_open_load_render : forall O sp c pls,
  ascii_compatible (o_dec O) -> seps_ok sp -> scatalog_ok (o_dec O) c -> nplurals_le_10 c -> sc_entries c <> [] ->
  file_of (render_bodies sp c) pls -> Forall (fun l => ~ In 10 l) pls ->
  parse_lines O (codecs_open_text (flat_map (fun l => l ++ [10]) pls)) =
  Ok (mkPo (fst (catalog_value c)) (map (fun e => to_entry (tool_view e)) (snd (catalog_value c))) false).
Proof. exact open_load_render. Qed.
Print Assumptions C10_open_load_render.

(* detect_encoding: lines before the declaration do not contain Content-Type:, the declaration
   a Content-Type: b _charset=NAME tail  sits on one physical line (no C in a, no = in b), NAME is known *)
Theorem C10_detect_encoding : forall lookup pre a b name tail rest,
  Forall (fun l => ~ In 10 l /\ ~ contains s_content_type (l ++ [10])) pre ->
  ~ In 67 a -> ~ In 10 a -> b <> [] -> ~ In 61 b -> ~ In 10 (b ++ s_charset ++ name ++ tail) ->
  name <> [] -> Forall (fun c => charset_char c = true) name ->
  (match tail with [] => True | c :: _ => charset_char c = false end) ->
  lookup name = true ->
  detect_encoding lookup (flat_map (fun l => l ++ [10]) (pre ++ [a ++ s_content_type ++ b ++ s_charset ++ name ++ tail]) ++ rest) = name.
Proof. exact detect_encoding_decl. Qed.
Print Assumptions C10_detect_encoding.

(* the whole loader of Checker.check (no retry needed): bytes -> declared charset -> text -> lines -> catalog;
   the codec machinery is the oracle C *)
Theorem C10_load_po_render : forall C raw enc sp c pls,
  detect_encoding (c_lookup C) raw = enc ->
  c_decode C (if c_ascii_compatible C enc then enc else s_ascii) raw = Some (flat_map (fun l => l ++ [10]) pls) ->
  ascii_compatible (c_decode C enc) -> seps_ok sp -> scatalog_ok (c_decode C enc) c -> nplurals_le_10 c -> sc_entries c <> [] ->
  file_of (render_bodies sp c) pls -> Forall (fun l => ~ In 10 l) pls ->
  load_po C raw =
  Ok (mkLoaded enc (mkPo (fst (catalog_value c)) (map (fun e => to_entry (tool_view e)) (snd (catalog_value c))) false), false).
Proof. exact load_po_render. Qed.
Print Assumptions C10_load_po_render.

(* (4) arbitrary input.  polib_unescape never fails in any other way than UnicodeDecodeError (the bytes literal handed
   to ast.literal_eval is always well formed: no SyntaxError / ValueError), for every string and every codec ... *)
Theorem C10_unescape_total : forall dec s c, unescape dec s <> Crash c.
Proof. exact unescape_total. Qed.
Print Assumptions C10_unescape_total.

(* ... and CPython warns on stderr exactly when the string contains \8, \9 or an octal escape above \377
   ([bad_escape]: the structural predicate of D14): outside D14 loading is silent. *)
Theorem C10_unescape_warned_iff_D14 : forall dec s t w, unescape dec s = Ok (t, w) -> w = bad_escape s.
Proof. exact unescape_warned. Qed.
Print Assumptions C10_unescape_warned_iff_D14.

(* the loader of Checker.check fails only with its own two errors, whatever the bytes and whatever the codecs answer *)
Theorem C10_load_po_no_crash : forall C raw c, load_po C raw <> Crash c.
Proof. exact load_po_no_crash. Qed.
Print Assumptions C10_load_po_no_crash.

(* (6) SOURCE TIE (notes/SRC13.md).  Generated/PolibSrc.v is the translation, made on every run by tools/gen/gen_polib_src.py, of
   the text of lib/polib4us.py: the five regex pattern texts, polib_unescape and its callback, Codecs.open, the detect_encoding and
   POFile.find patches, the default encoding.  Each translated definition equals the hand-written model, for all arguments.
   (polib's own parser is third party: Model/PoParser.v stays tied by correspondence.) *)
(* the patterns are the texts the model's scanners (escape_len, long_x_at, short_x_at, iterlines, atypical_comment) were written for *)
Theorem C10_source_tie_regex_texts :
  src__escapes_re = re_escapes_text /\ src__long_x_escape_re = re_long_x_text /\ src__short_x_escape_re = re_short_x_text
  /\ src__iterlines = re_iterlines_text /\ src__atypical_comment = re_atypical_text.
Proof. exact src_regex_texts. Qed.
Print Assumptions C10_source_tie_regex_texts.

(* the callback `unescape(match)`: both normalisations, literal_eval of the bytes literal, ASCII first, then the file's codec *)
Theorem C10_source_tie_unescape_callback : forall dec run, src_unescape dec run = unescape_run dec run.
Proof. exact src_unescape_eq. Qed.
Print Assumptions C10_source_tie_unescape_callback.

(* polib_unescape(s) = _escapes_re.sub(unescape, s) *)
Theorem C10_source_tie_polib_unescape : forall dec s, src_polib_unescape dec s = unescape dec s.
Proof. exact src_polib_unescape_eq. Qed.
Print Assumptions C10_source_tie_polib_unescape.

(* the loop of the generator Codecs.open, for every list of lines and every state *)
Theorem C10_source_tie_codecs_open_loop : forall C ls pending empty,
  src_codecs_open_loop1 C ls pending empty = open_lines ls pending empty.
Proof. exact src_codecs_open_loop_eq. Qed.
Print Assumptions C10_source_tie_codecs_open_loop.

(* Codecs.open(path, 'rt', enc) on a file with the bytes raw *)
Theorem C10_source_tie_codecs_open : forall C enc raw,
  src_codecs_open C s_rt enc raw =
  match c_decode C (if c_ascii_compatible C enc then enc else s_ascii) raw with
  | None => Err LDecode
  | Some text => Ok (codecs_open_text text)
  end.
Proof. exact src_codecs_open_eq. Qed.
Print Assumptions C10_source_tie_codecs_open.

Theorem C10_source_tie_codecs_open_mode : forall C mode enc raw,
  list_eqb mode s_rt = false -> list_eqb mode s_rU = false -> src_codecs_open C mode enc raw = Crash CNotImplemented.
Proof. exact src_codecs_open_mode. Qed.
Print Assumptions C10_source_tie_codecs_open_mode.

(* the model's pofile_with = the translated Codecs.open followed by polib's parser *)
Theorem C10_source_tie_pofile : forall C enc raw,
  pofile_with C enc raw =
  match src_codecs_open C s_rt enc raw with
  | Ok lines =>
    match parse_lines (mkOracles (c_decode C enc) (c_udigit C) (c_uisdigit C)) lines with
    | Ok f => Ok (mkLoaded enc f)
    | Err e => Err (LSyntax e)
    | Crash c => Crash c
    end
  | Err e => Err e
  | Crash c => Crash c
  end.
Proof. exact pofile_with_src. Qed.
Print Assumptions C10_source_tie_pofile.

(* detect_encoding_patch: a PO file gets polib's detect_encoding, an MO file None;  pofile_find_patch: find() is None;
   default_encoding_patch: 'ASCII' *)
Theorem C10_source_tie_detect_encoding : forall lookup raw,
  src_detect_encoding (detect_encoding lookup) raw false = Some (detect_encoding lookup raw).
Proof. exact src_detect_encoding_po. Qed.
Print Assumptions C10_source_tie_detect_encoding.

Theorem C10_source_tie_pofile_find : forall (T A B K : Type) (self : A) (args : B) (kwargs : K),
  @src_pofile_find T A B K self args kwargs = None.
Proof. exact src_pofile_find_none. Qed.
Print Assumptions C10_source_tie_pofile_find.

Theorem C10_source_tie_default_encoding : src_default_encoding = s_ascii.
Proof. exact src_default_encoding_eq. Qed.
Print Assumptions C10_source_tie_default_encoding.


(* non-vacuity *)
Definition latin1 : decoder := fun b => Some b.
Definition utf8_2 : decoder := fun b =>      (* enough of UTF-8 for the examples *)
  match b with [a; c] => Some [(a - 192) * 64 + (c - 128)] | _ => None end.
Example C10_ex_named :   (* a, \n, escaped quote, \\, b *)
  unescape latin1 [97; 92; 110; 92; 34; 92; 92; 98] = Ok ([97; 10; 34; 92; 98], false).
Proof. vm_compute. reflexivity. Qed.
Example C10_ex_utf8 :    (* \303\251 and \xc3\xA9 and \xC3\251x are e-acute *)
  unescape utf8_2 [92;51;48;51;92;50;53;49] = Ok ([233], false) /\
  unescape utf8_2 [92;120;99;51;92;120;65;57] = Ok ([233], false) /\
  unescape utf8_2 [92;120;67;51;92;50;53;49;120] = Ok ([233; 120], false).
Proof. vm_compute. repeat split; reflexivity. Qed.
Example C10_ex_short :   (* \x5\1\18  ->  05 01 01 '8' *)
  unescape latin1 [92;120;53;92;49;92;49;56] = Ok ([5; 1; 1; 56], false).
Proof. vm_compute. reflexivity. Qed.
Example C10_ex_hex_all_digits :   (* a\x0cb = 61 CB;  \x41BC = BC;  \x0041 = 41;  \x5 = 05;  \x41\x42C\101 = 41 2C 41 *)
  unescape latin1 [97; 92;120;48;99;98] = Ok ([97; 203], false) /\
  unescape latin1 [92;120;52;49;66;67] = Ok ([188], false) /\
  unescape latin1 [92;120;48;48;52;49] = Ok ([65], false) /\
  unescape latin1 [92;120;53] = Ok ([5], false) /\
  unescape latin1 [92;120;52;49; 92;120;52;50;67; 92;49;48;49] = Ok ([65; 44; 65], false).
Proof. vm_compute. repeat split; reflexivity. Qed.
Example C10_ex_hex_escaped_backslash :   (* \\x41BC is a backslash and the text x41BC; \\\x41BC is a backslash and BC; \x5\\ = 05 5C; \x41g = 41 'g' *)
  unescape latin1 [92;92;120;52;49;66;67] = Ok ([92;120;52;49;66;67], false) /\
  unescape latin1 [92;92;92;120;52;49;66;67] = Ok ([92; 188], false) /\
  unescape latin1 [92;120;53;92;92] = Ok ([5; 92], false) /\
  unescape latin1 [92;120;52;49;103] = Ok ([65; 103], false).
Proof. vm_compute. repeat split; reflexivity. Qed.
Example C10_ex_hex_theorem :    (* the theorem applies: x\x1F41y in ISO-8859-1 *)
  unescape latin1 ([120] ++ 92 :: 120 :: [49;70;52;49] ++ [121]) = Ok ([120] ++ [65] ++ [121], false).
Proof.
  apply (C10_hex_escape_all_digits latin1).
  - intros b _. reflexivity.
  - repeat constructor; discriminate.
  - discriminate.
  - unfold c_hex. repeat constructor; cbv; intuition discriminate.
  - repeat constructor; discriminate.
  - unfold c_hex. cbv. intuition discriminate.
  - reflexivity.
Qed.
Example C10_ex_D14 :     (* \777 -> 0xff with a warning;  \8a kept with a warning *)
  unescape latin1 [92;55;55;55] = Ok ([255], true) /\ unescape latin1 [92;56;97] = Ok ([92;56;97], true).
Proof. vm_compute. repeat split; reflexivity. Qed.
Example C10_ex_split_multibyte :   (* a run is decoded on its own: half a character is an error *)
  unescape utf8_2 [92;51;48;51] = Err EDecode.
Proof. vm_compute. reflexivity. Qed.

Example C10_ex_D9 :   (* tokens of msgid a / msgid_plural b / msgstr[0..10] x : index 10 overwrites index 1 *)
  match run_machine O1 (toks_catalog [32] cat_D9) with
  | Ok f => map (fun e => map fst (pe_plural e)) (po_entries f) = [[0;1;2;3;4;5;6;7;8;9]]
  | _ => False end.
Proof. vm_compute. reflexivity. Qed.

Example C10_ex_bad_escape :  (* \\8 is an escaped backslash and an 8: silent; \8 and \400 warn; \377 and \18 do not *)
  bad_escape [92;92;56] = false /\ bad_escape [92;56] = true /\ bad_escape [92;52;48;48] = true /\
  bad_escape [92;51;55;55] = false /\ bad_escape [92;49;56] = false.
Proof. vm_compute. repeat split; reflexivity. Qed.

Example C10_src_ex :    (* the TRANSLATED functions compute: a\x0cb = 61 CB;  `#~x` is normalised, a trailing comment is held back *)
  src_polib_unescape latin1 [97; 92;120;48;99;98] = Ok ([97; 203], false) /\
  src_codecs_open (mkCodecs (fun _ => true) (fun _ => true) (fun _ b => Some b) (fun _ => None) (fun _ => false)) s_rt [85]
    [35;120;10; 109;10; 35;32;122;10] = Ok [[35;32;120;10]; [109;10]].
Proof. vm_compute. split; reflexivity. Qed.

(* C10 — PO text decodes to exactly the strings gettext would see.
   The charset of the file is an oracle: [dec] decodes a byte string, [enc] encodes one character. *)
From Coq Require Import NArith List Bool.
From I18n Require Import Lib.Outcome Model.PoUnescape Spec.PoSyntax Proofs.PoUnescape.
Import ListNotations.
Local Open Scope N_scope.

(* (1) escape sequences.  For every chunk (the text between the quotes of one physical line) spelled
   in the printer family of Spec/PoSyntax.v — literal characters and runs of escaped bytes, each byte
   as a named escape, 1-3 octal digits or \x + 1-2 hex digits in either case — polib_unescape returns
   the text the chunk denotes, and CPython emits no warning. *)
Theorem C10_unescape_roundtrip : forall dec, ascii_compatible dec -> forall ps, chunk_ok dec ps ->
  unescape dec (chunk_text ps) = Ok (chunk_value ps, false).
Proof. exact unescape_roundtrip. Qed.
Print Assumptions C10_unescape_roundtrip.

(* the per-character reading: each character written literally or as the escaped bytes of its
   encoding in the file's charset (stateless codec) *)
Theorem C10_unescape_roundtrip_chars : forall enc dec, ascii_compatible dec -> codec_ok enc dec ->
  forall sp, cspell_ok enc sp -> unescape dec (cspell_text sp) = Ok (map fst sp, false).
Proof. exact unescape_roundtrip_chars. Qed.
Print Assumptions C10_unescape_roundtrip_chars.

(* D14: outside the family (\8, \9, octal above \377) the value is kept or truncated and CPython
   writes a SyntaxWarning to stderr: that loading never writes to stderr is false. *)
Definition C10_unescape_silent_statement : Prop :=
  forall dec s t w, unescape dec s = Ok (t, w) -> w = false.
Theorem C10_unescape_silent_refuted : ~ C10_unescape_silent_statement.
Proof.
  intros H. specialize (H (fun _ => None) [92; 57] [92; 57] true). (* \9 *)
  assert (E : unescape (fun _ => None) [92; 57] = Ok ([92; 57], true)) by (vm_compute; reflexivity).
  specialize (H E). discriminate.
Qed.
Print Assumptions C10_unescape_silent_refuted.

(* non-vacuity *)
Definition latin1 : decoder := fun b => Some b.
Definition utf8_2 : decoder := fun b =>      (* enough of UTF-8 for the examples *)
  match b with [a; c] => Some [(a - 192) * 64 + (c - 128)] | _ => None end.
Example C10_ex_named :   (* a, \n, escaped quote, \\, b *)
  unescape latin1 [97; 92; 110; 92; 34; 92; 92; 98] = Ok ([97; 10; 34; 92; 98], false).
Proof. vm_compute. reflexivity. Qed.
Example C10_ex_utf8 :    (* \303\251 and \xc3\xA9 and \xC3\251x are e-acute *)
  unescape utf8_2 [92;51;48;51;92;50;53;49] = Ok ([233], false) /\
  unescape utf8_2 [92;120;99;51;92;120;65;57] = Ok ([233], false) /\
  unescape utf8_2 [92;120;67;51;92;50;53;49;120] = Ok ([233; 120], false).
Proof. vm_compute. repeat split; reflexivity. Qed.
Example C10_ex_short :   (* \x5\1\18  ->  05 01 01 '8' *)
  unescape latin1 [92;120;53;92;49;92;49;56] = Ok ([5; 1; 1; 56], false).
Proof. vm_compute. reflexivity. Qed.
Example C10_ex_D14 :     (* \777 -> 0xff with a warning;  \8a kept with a warning *)
  unescape latin1 [92;55;55;55] = Ok ([255], true) /\ unescape latin1 [92;56;97] = Ok ([92;56;97], true).
Proof. vm_compute. repeat split; reflexivity. Qed.
Example C10_ex_split_multibyte :   (* a run is decoded on its own: half a character is an error *)
  unescape utf8_2 [92;51;48;51] = Err EDecode.
Proof. vm_compute. reflexivity. Qed.

(* C15 — Header diagnostics match the documented conditions.
   O ranges over ALL oracles (re's \w \d \s, str.lower, difflib, parseaddr, urlparse, the encoding predicates);
   md = ctx.metadata = the "Name: value" fields of the first live header entry, in order;
   the documented conditions are the predicates of Spec/HeaderRules.v. *)
From Coq Require Import NArith List Bool.
From Coq Require String.
From I18n Require Import Lib.Outcome Model.Header Spec.HeaderRules Proofs.HeaderBase Proofs.Header Model.Tags
  Generated.HeaderFields Generated.SpecialDomains Generated.UcdHeader.
Import ListNotations.
Import String.StringSyntax.
Local Open Scope N_scope.

(* facts about the generated character classes of the running interpreter (finite: by computation):
   SPACE is \s and not \w, "c" is \w -- the side conditions of the Content-Type theorems *)
Theorem C15_tables :
  in_ranges re_word_ranges 32 = false /\ in_ranges re_word_ranges 99 = true /\ in_ranges re_space_ranges 32 = true.
Proof. vm_compute. repeat split; reflexivity. Qed.
Print Assumptions C15_tables.

(* no-<f>-header-field iff the field is absent (Report-Msgid-Bugs-To: "does not exist or it is empty") *)
Theorem C15_no_field_iff : forall O known dedicated nb ob inp ds, hdr_check O known dedicated nb ob inp = Ok ds ->
  forall f, In (DNoField f) ds <->
    match f with
    | FReport => forall v, In v (values (field_name FReport) (metadata_of (h_entries inp))) -> v = []
    | _ => absent (field_name f) (metadata_of (h_entries inp))
    end.
Proof. exact no_field_iff. Qed.
Print Assumptions C15_no_field_iff.

(* duplicate-header-field-<f> iff the field occurs more than once *)
Theorem C15_duplicate_dedicated_iff : forall O known dedicated nb ob inp ds, hdr_check O known dedicated nb ob inp = Ok ds ->
  forall f, In (DDuplicateDedicated f) ds <-> repeated (field_name f) (metadata_of (h_entries inp)).
Proof. exact duplicate_dedicated_iff. Qed.
Print Assumptions C15_duplicate_dedicated_iff.

(* duplicate-header-field <name> iff the name occurs more than once and has no dedicated duplicate tag *)
Theorem C15_duplicate_field_iff : forall O known dedicated nb ob inp ds, hdr_check O known dedicated nb ob inp = Ok ds ->
  forall k, In (DDuplicateField k) ds <-> repeated k (metadata_of (h_entries inp)) /\ ~ In k dedicated.
Proof. exact duplicate_field_iff. Qed.
Print Assumptions C15_duplicate_field_iff.

(* invalid-mime-version iff some MIME-Version value is not "1.0" *)
Theorem C15_invalid_mime_version_iff : forall O known dedicated nb ob inp ds, hdr_check O known dedicated nb ob inp = Ok ds ->
  forall v, In (DInvalidMimeVersion v) ds <-> In v (values (field_name FMime) (metadata_of (h_entries inp))) /\ ~ mime_version_ok v.
Proof. exact invalid_mime_version_iff. Qed.
Print Assumptions C15_invalid_mime_version_iff.

(* invalid-content-transfer-encoding iff some value is not "8bit" *)
Theorem C15_invalid_cte_iff : forall O known dedicated nb ob inp ds, hdr_check O known dedicated nb ob inp = Ok ds ->
  forall v, In (DInvalidCte v) ds <-> In v (values (field_name FCte) (metadata_of (h_entries inp))) /\ ~ cte_ok v.
Proof. exact invalid_cte_iff. Qed.
Print Assumptions C15_invalid_cte_iff.

(* invalid-content-type iff the value is not  text/plain; charset=<token> *)
Theorem C15_invalid_content_type_iff : forall O known dedicated nb ob inp ds, hdr_check O known dedicated nb ob inp = Ok ds ->
  o_word O 32 = false -> o_word O 99 = true ->
  forall v, (exists hint, In (DInvalidContentType v hint) ds) <->
            In v (values (field_name FContentType) (metadata_of (h_entries inp))) /\ ~ content_type_ok (o_space O) v.
Proof. exact invalid_content_type_iff. Qed.
Print Assumptions C15_invalid_content_type_iff.

(* the value has the documented form iff the scanner takes the "text/plain; " branch *)
Theorem C15_content_type_form : forall O ct, o_word O 32 = false -> o_word O 99 = true ->
  ((exists tok, content_type_match O ct = Some (true, tok)) <-> content_type_ok (o_space O) ct).
Proof. exact content_type_match_true. Qed.
Print Assumptions C15_content_type_form.

(* POT exemption: boilerplate-in-content-type is reported for the CHARSET placeholder, never for a template *)
Theorem C15_boilerplate_content_type_iff : forall O known dedicated nb ob inp ds, hdr_check O known dedicated nb ob inp = Ok ds ->
  forall v, In (DBoilerplateContentType v) ds <->
    In v (values (field_name FContentType) (metadata_of (h_entries inp))) /\ h_template inp = false /\
    exists pref, content_type_match O v = Some (pref, s_CHARSET) /\ o_enc O s_CHARSET = EUnknown.
Proof. exact boilerplate_content_type_iff. Qed.
Print Assumptions C15_boilerplate_content_type_iff.

(* unknown-header-field iff the name is neither registered nor X-/x- prefixed *)
Theorem C15_unknown_field_iff : forall O known dedicated nb ob inp ds, hdr_check O known dedicated nb ob inp = Ok ds ->
  forall k, (exists hint, In (DUnknownField k hint) ds) <-> In k (map fst (metadata_of (h_entries inp))) /\ unknown_name known k.
Proof. exact unknown_field_iff. Qed.
Print Assumptions C15_unknown_field_iff.

(* a header line is a field line iff it starts with an RFC 5322 field name and a colon ... *)
Theorem C15_line_is_field : forall l k v, parse_line l = HField k v ->
  exists rest, l = k ++ 58 :: rest /\ k <> [] /\ Forall ftext k /\ v = strip_blank rest.
Proof. exact parse_line_field. Qed.
Print Assumptions C15_line_is_field.
Theorem C15_line_is_stray : forall l l', parse_line l = HStray l' -> l' = l /\ ~ has_field_name l.
Proof. exact parse_line_stray. Qed.
Print Assumptions C15_line_is_stray.

(* ... stray-header-line iff a line has no valid field name and is not a conflict marker *)
Theorem C15_stray_line_iff : forall O known dedicated nb ob inp ds, hdr_check O known dedicated nb ob inp = Ok ds ->
  forall l, In (DStrayLine l) ds <-> In l (header_lines_of (h_entries inp)) /\ stray l.
Proof. exact stray_line_iff. Qed.
Print Assumptions C15_stray_line_iff.

(* conflict-marker-in-header-entry: exactly the first marker line among the lines without a field name *)
Theorem C15_conflict_marker_iff : forall O known dedicated nb ob inp ds, hdr_check O known dedicated nb ob inp = Ok ds ->
  forall l, In (DConflictMarker l) ds <->
    exists a b, strays_of (map parse_line (header_lines_of (h_entries inp))) = a ++ l :: b /\ conflict_marker l /\
                forall x, In x a -> ~ conflict_marker x.
Proof. exact conflict_marker_diag_iff. Qed.
Print Assumptions C15_conflict_marker_iff.

(* header entry: duplicates, position, fuzzy flag (POT exemption) *)
Theorem C15_duplicate_header_entry_iff : forall O known dedicated nb ob inp ds, hdr_check O known dedicated nb ob inp = Ok ds ->
  (In DDuplicateHeaderEntry ds <-> (1 < length (header_entries true (h_entries inp)))%nat).
Proof. exact duplicate_header_entry_iff. Qed.
Print Assumptions C15_duplicate_header_entry_iff.

Theorem C15_distant_header_entry_iff : forall O known dedicated nb ob inp ds, hdr_check O known dedicated nb ob inp = Ok ds ->
  (In DDistantHeader ds <-> exists e more, header_entries true (h_entries inp) = (false, e) :: more).
Proof. exact distant_header_entry_iff. Qed.
Print Assumptions C15_distant_header_entry_iff.

Theorem C15_fuzzy_header_entry_iff : forall O known dedicated nb ob inp ds, hdr_check O known dedicated nb ob inp = Ok ds ->
  (In DFuzzyHeader ds <->
   h_template inp = false /\ exists f e more, header_entries true (h_entries inp) = (f, e) :: more /\ In s_fuzzy (e_flags e)).
Proof. exact fuzzy_header_entry_iff. Qed.
Print Assumptions C15_fuzzy_header_entry_iff.

(* the special-domain scanner against the declarative reading of the reserved-name lists (regenerated from lib/domains.py) *)
Theorem C15_special_domain_iff : forall d,
  is_special special_exact_or_sub special_sub_only d = true <-> reserved special_exact_or_sub special_sub_only d.
Proof. exact (is_special_iff special_exact_or_sub special_sub_only). Qed.
Print Assumptions C15_special_domain_iff.

(* the address ladder: "invalid" iff no address, a reserved domain, or a dot-less domain that is not the placeholder *)
Theorem C15_address_invalid_iff : forall O nb ob email,
  (match addr_verdict O nb ob is_boiler1 email with VNoAt | VReserved | VDotless => True | _ => False end) <->
  bad_address (o_lower O) nb ob email.
Proof. exact verdict_invalid_iff. Qed.
Print Assumptions C15_address_invalid_iff.

(* Last-Translator: invalid iff no address / reserved domain / dot-less domain; boilerplate only outside templates *)
Theorem C15_invalid_translator_iff : forall O known dedicated nb ob inp ds, hdr_check O known dedicated nb ob inp = Ok ds ->
  forall v, In (DInvalidTranslator v) ds <->
    In v (values (field_name FTranslator) (metadata_of (h_entries inp))) /\ bad_address (o_lower O) nb ob (o_parseaddr O v).
Proof. exact invalid_translator_iff. Qed.
Print Assumptions C15_invalid_translator_iff.

Theorem C15_boilerplate_translator_iff : forall O known dedicated nb ob inp ds, hdr_check O known dedicated nb ob inp = Ok ds ->
  forall v, In (DBoilerplateTranslator v) ds <->
    In v (values (field_name FTranslator) (metadata_of (h_entries inp))) /\ h_template inp = false /\
    addr_verdict O nb ob is_boiler1 (o_parseaddr O v) = VBoilerplate.
Proof. exact boilerplate_translator_iff. Qed.
Print Assumptions C15_boilerplate_translator_iff.

(* a header that follows every convention yields no diagnostic from the modelled methods *)
Theorem C15_clean_header_silent : forall O known dedicated nb ob, o_word O 32 = false -> o_word O 99 = true ->
  forall inp e fs, clean_header O known nb ob inp e fs -> hdr_check O known dedicated nb ob inp = Ok [].
Proof. exact clean_header_silent. Qed.
Print Assumptions C15_clean_header_silent.

(* no exception escapes from the modelled methods, for any catalog and any library behaviour (D13 fixed in 1f24f5a) *)
Theorem C15_no_crash : forall O known dedicated nb ob inp, exists ds, hdr_check O known dedicated nb ob inp = Ok ds.
Proof. exact hdr_check_no_crash. Qed.
Print Assumptions C15_no_crash.

(* a Report-Msgid-Bugs-To value without e-mail address on which urlparse raises ValueError is reported as
   invalid-report-msgid-bugs-to ("could neither be parsed as an e-mail nor as a URL") *)
Theorem C15_urlparse_failure_reported : forall O known dedicated nb ob inp ds v,
  hdr_check O known dedicated nb ob inp = Ok ds ->
  In v (report_values (metadata_of (h_entries inp))) -> report_raises O v -> In (DInvalidReport v) ds.
Proof. exact urlparse_failure_reported. Qed.
Print Assumptions C15_urlparse_failure_reported.

(* ------------------------------------------------------------------ *)
(* examples (non-vacuity): the base header of tools/harness/pogen.py, near-miss values *)
Definition nl : str := [10].
Definition ex_translator : str := lit "Jakub Wilk <jwilk@jwilk.net>".
Definition ex_team : str := lit "Polish <debian-l10n-polish@lists.debian.org>".
Definition ex_header (report : str) : str :=
  lit "Project-Id-Version: Gizmo Enhancer 1.0" ++ nl ++
  lit "Report-Msgid-Bugs-To: " ++ report ++ nl ++
  lit "POT-Creation-Date: 2012-11-01 14:42+0100" ++ nl ++
  lit "PO-Revision-Date: 2012-11-01 14:42+0100" ++ nl ++
  lit "Last-Translator: " ++ ex_translator ++ nl ++
  lit "Language-Team: " ++ ex_team ++ nl ++
  lit "Language: pl" ++ nl ++
  lit "MIME-Version: 1.0" ++ nl ++
  lit "Content-Type: text/plain; charset=UTF-8" ++ nl ++
  lit "Content-Transfer-Encoding: 8bit" ++ nl ++
  lit "Plural-Forms: nplurals=3; plural=n==1 ? 0 : n%10>=2 && n%10<=4 && (n%100<10 || n%100>=20) ? 1 : 2;" ++ nl.
Definition ex_comment : str :=
  lit "Polish translation of Gizmo Enhancer" ++ nl ++ lit "Copyright (C) 2012 Jakub Wilk <jwilk@jwilk.net>" ++ nl ++
  lit "This file is distributed under the same license as the Gizmo Enhancer package.".
(* the oracle values the libraries give on this header *)
Definition ex_oracles : oracles := {|
  o_word := in_ranges re_word_ranges; o_digit := in_ranges re_digit_ranges; o_space := in_ranges re_space_ranges;
  o_lower := fun s => s;
  o_close_fuzzy := fun _ => false;
  o_close_field := fun _ => None;
  o_parseaddr := fun s => if str_eqb s ex_translator then lit "jwilk@jwilk.net"
                          else if str_eqb s ex_team then lit "debian-l10n-polish@lists.debian.org"
                          else if str_eqb s (lit "http://[foo") then lit "//" else s;
  o_urlscheme := fun s => if str_eqb s (lit "http://[foo") then URaise else UNoScheme;
  o_enc := fun s => if str_eqb s (lit "UTF-8") then EKnown true true None else EUnknown;
  o_unrep := fun _ => []
|}.
Definition ex_entry (report : str) : entry :=
  {| e_header := true; e_obsolete := false; e_occurrences := []; e_has_plural := false;
     e_msgstr := Some (ex_header report); e_plural0 := None; e_flags := [] |}.
Definition ex_other : entry :=
  {| e_header := false; e_obsolete := false; e_occurrences := []; e_has_plural := false;
     e_msgstr := Some (lit "x"); e_plural0 := None; e_flags := [] |}.
Definition ex_input (template : bool) (report : str) : hinput :=
  {| h_template := template; h_comment := ex_comment; h_entries := [ex_entry report; ex_other] |}.
Definition ex_check (inp : hinput) :=
  hdr_check ex_oracles header_fields dedicated_fields special_exact_or_sub special_sub_only inp.

Example C15_ex_base_header_silent :
  ex_check (ex_input false (lit "gizmoenhancer@jwilk.net")) = Ok [] /\ ex_check (ex_input true (lit "gizmoenhancer@jwilk.net")) = Ok [].
Proof. vm_compute. split; reflexivity. Qed.

Example C15_ex_near_misses :
  ex_check (ex_input false (lit "user@localhost")) = Ok [DInvalidReport (lit "user@localhost")] /\
  ex_check (ex_input false (lit "a@b.example.org")) = Ok [DInvalidReport (lit "a@b.example.org")] /\
  ex_check (ex_input false (lit "EMAIL@ADDRESS")) = Ok [DBoilerplateReport (lit "EMAIL@ADDRESS")] /\
  ex_check (ex_input false []) = Ok [DNoField FReport] /\
  content_type_match ex_oracles (lit "text/plain;charset=X") = Some (false, lit "X").
Proof. vm_compute. repeat split; reflexivity. Qed.

(* the former D13 witness: urlparse raises ValueError on http://[foo; it is now reported, and the later checks still run *)
Example C15_ex_urlparse_raises :
  ex_check (ex_input false (lit "http://[foo")) = Ok [DInvalidReport (lit "http://[foo")].
Proof. vm_compute. reflexivity. Qed.

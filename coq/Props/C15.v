(* C15 — Header diagnostics match the documented conditions.
   O ranges over ALL oracles (re's \w \d \s, str.lower, difflib, parseaddr, urlparse, the encoding predicates);
   md = ctx.metadata = the "Name: value" fields of the first live header entry, in order;
   the documented conditions are the predicates of Spec/HeaderRules.v. *)
From Coq Require Import NArith List Bool.
From Coq Require String.
From Coq Require Import Sorted.
From I18n Require Import Lib.Outcome Model.Header Spec.HeaderRules Proofs.HeaderBase Proofs.HeaderComments Proofs.Header Proofs.Header2 Proofs.HeaderExample Model.Tags
  Generated.HeaderFields Generated.SpecialDomains Generated.UcdHeader
  Model.HeaderPy Generated.HeaderSrc Proofs.HeaderSrc.
Import ListNotations.
Import String.StringSyntax.
Local Open Scope N_scope.

(* facts about the generated character classes of the running interpreter (finite: by computation):
   SPACE is \s and not \w, "c" is \w -- the side conditions of the Content-Type theorems *)
Theorem C15_tables :
  in_ranges re_word_ranges 32 = false /\ in_ranges re_word_ranges 99 = true /\ in_ranges re_space_ranges 32 = true.
Proof. vm_compute. repeat split; reflexivity. Qed.
Print Assumptions C15_tables.

(* no-<f>-header-field iff the field is absent (Report-Msgid-Bugs-To: "does not exist or it is empty") *)
Theorem C15_no_field_iff : forall O known dedicated nb ob inp ds, hdr_check O known dedicated nb ob inp = Ok ds ->
  forall f, In (DNoField f) ds <->
    match f with
    | FReport => forall v, In v (values (field_name FReport) (metadata_of (h_entries inp))) -> v = []
    | _ => absent (field_name f) (metadata_of (h_entries inp))
    end.
Proof. exact no_field_iff. Qed.
Print Assumptions C15_no_field_iff.

(* duplicate-header-field-<f> iff the field occurs more than once *)
Theorem C15_duplicate_dedicated_iff : forall O known dedicated nb ob inp ds, hdr_check O known dedicated nb ob inp = Ok ds ->
  forall f, In (DDuplicateDedicated f) ds <-> repeated (field_name f) (metadata_of (h_entries inp)).
Proof. exact duplicate_dedicated_iff. Qed.
Print Assumptions C15_duplicate_dedicated_iff.

(* duplicate-header-field <name> iff the name occurs more than once and has no dedicated duplicate tag *)
Theorem C15_duplicate_field_iff : forall O known dedicated nb ob inp ds, hdr_check O known dedicated nb ob inp = Ok ds ->
  forall k, In (DDuplicateField k) ds <-> repeated k (metadata_of (h_entries inp)) /\ ~ In k dedicated.
Proof. exact duplicate_field_iff. Qed.
Print Assumptions C15_duplicate_field_iff.

(* invalid-mime-version iff some MIME-Version value is not "1.0" *)
Theorem C15_invalid_mime_version_iff : forall O known dedicated nb ob inp ds, hdr_check O known dedicated nb ob inp = Ok ds ->
  forall v, In (DInvalidMimeVersion v) ds <-> In v (values (field_name FMime) (metadata_of (h_entries inp))) /\ ~ mime_version_ok v.
Proof. exact invalid_mime_version_iff. Qed.
Print Assumptions C15_invalid_mime_version_iff.

(* invalid-content-transfer-encoding iff some value is not "8bit" *)
Theorem C15_invalid_cte_iff : forall O known dedicated nb ob inp ds, hdr_check O known dedicated nb ob inp = Ok ds ->
  forall v, In (DInvalidCte v) ds <-> In v (values (field_name FCte) (metadata_of (h_entries inp))) /\ ~ cte_ok v.
Proof. exact invalid_cte_iff. Qed.
Print Assumptions C15_invalid_cte_iff.

(* invalid-content-type iff the value is not  text/plain; charset=<token> *)
Theorem C15_invalid_content_type_iff : forall O known dedicated nb ob inp ds, hdr_check O known dedicated nb ob inp = Ok ds ->
  o_word O 32 = false -> o_word O 99 = true ->
  forall v, (exists hint, In (DInvalidContentType v hint) ds) <->
            In v (values (field_name FContentType) (metadata_of (h_entries inp))) /\ ~ content_type_ok (o_space O) v.
Proof. exact invalid_content_type_iff. Qed.
Print Assumptions C15_invalid_content_type_iff.

(* the value has the documented form iff the scanner takes the "text/plain; " branch *)
Theorem C15_content_type_form : forall O ct, o_word O 32 = false -> o_word O 99 = true ->
  ((exists tok, content_type_match O ct = Some (true, tok)) <-> content_type_ok (o_space O) ct).
Proof. exact content_type_match_true. Qed.
Print Assumptions C15_content_type_form.

(* POT exemption: boilerplate-in-content-type is reported for the CHARSET placeholder, never for a template *)
Theorem C15_boilerplate_content_type_iff : forall O known dedicated nb ob inp ds, hdr_check O known dedicated nb ob inp = Ok ds ->
  forall v, In (DBoilerplateContentType v) ds <->
    In v (values (field_name FContentType) (metadata_of (h_entries inp))) /\ h_template inp = false /\
    exists pref, content_type_match O v = Some (pref, s_CHARSET) /\ o_enc O s_CHARSET = EUnknown.
Proof. exact boilerplate_content_type_iff. Qed.
Print Assumptions C15_boilerplate_content_type_iff.

(* unknown-header-field iff the name is neither registered nor X-/x- prefixed *)
Theorem C15_unknown_field_iff : forall O known dedicated nb ob inp ds, hdr_check O known dedicated nb ob inp = Ok ds ->
  forall k, (exists hint, In (DUnknownField k hint) ds) <-> In k (map fst (metadata_of (h_entries inp))) /\ unknown_name known k.
Proof. exact unknown_field_iff. Qed.
Print Assumptions C15_unknown_field_iff.

(* a header line is a field line iff it starts with an RFC 5322 field name and a colon ... *)
Theorem C15_line_is_field : forall l k v, parse_line l = HField k v ->
  exists rest, l = k ++ 58 :: rest /\ k <> [] /\ Forall ftext k /\ v = strip_blank rest.
Proof. exact parse_line_field. Qed.
Print Assumptions C15_line_is_field.
Theorem C15_line_is_stray : forall l l', parse_line l = HStray l' -> l' = l /\ ~ has_field_name l.
Proof. exact parse_line_stray. Qed.
Print Assumptions C15_line_is_stray.

(* ... stray-header-line iff a line has no valid field name and is not a conflict marker *)
Theorem C15_stray_line_iff : forall O known dedicated nb ob inp ds, hdr_check O known dedicated nb ob inp = Ok ds ->
  forall l, In (DStrayLine l) ds <-> In l (header_lines_of (h_entries inp)) /\ stray l.
Proof. exact stray_line_iff. Qed.
Print Assumptions C15_stray_line_iff.

(* conflict-marker-in-header-entry: exactly the first marker line among the lines without a field name *)
Theorem C15_conflict_marker_iff : forall O known dedicated nb ob inp ds, hdr_check O known dedicated nb ob inp = Ok ds ->
  forall l, In (DConflictMarker l) ds <->
    exists a b, strays_of (map parse_line (header_lines_of (h_entries inp))) = a ++ l :: b /\ conflict_marker l /\
                forall x, In x a -> ~ conflict_marker x.
Proof. exact conflict_marker_diag_iff. Qed.
Print Assumptions C15_conflict_marker_iff.

(* header entry: duplicates, position, fuzzy flag (POT exemption) *)
Theorem C15_duplicate_header_entry_iff : forall O known dedicated nb ob inp ds, hdr_check O known dedicated nb ob inp = Ok ds ->
  (In DDuplicateHeaderEntry ds <-> (1 < length (header_entries true (h_entries inp)))%nat).
Proof. exact duplicate_header_entry_iff. Qed.
Print Assumptions C15_duplicate_header_entry_iff.

Theorem C15_distant_header_entry_iff : forall O known dedicated nb ob inp ds, hdr_check O known dedicated nb ob inp = Ok ds ->
  (In DDistantHeader ds <-> exists e more, header_entries true (h_entries inp) = (false, e) :: more).
Proof. exact distant_header_entry_iff. Qed.
Print Assumptions C15_distant_header_entry_iff.

Theorem C15_fuzzy_header_entry_iff : forall O known dedicated nb ob inp ds, hdr_check O known dedicated nb ob inp = Ok ds ->
  (In DFuzzyHeader ds <->
   h_template inp = false /\ exists f e more, header_entries true (h_entries inp) = (f, e) :: more /\ In s_fuzzy (e_flags e)).
Proof. exact fuzzy_header_entry_iff. Qed.
Print Assumptions C15_fuzzy_header_entry_iff.

(* the special-domain scanner against the declarative reading of the reserved-name lists (regenerated from lib/domains.py) *)
Theorem C15_special_domain_iff : forall d,
  is_special special_exact_or_sub special_sub_only d = true <-> reserved special_exact_or_sub special_sub_only d.
Proof. exact (is_special_iff special_exact_or_sub special_sub_only). Qed.
Print Assumptions C15_special_domain_iff.

(* the address ladder: "invalid" iff no address, a reserved domain, or a dot-less domain that is not the placeholder *)
Theorem C15_address_invalid_iff : forall O nb ob email,
  (match addr_verdict O nb ob is_boiler1 email with VNoAt | VReserved | VDotless => True | _ => False end) <->
  bad_address (o_lower O) nb ob email.
Proof. exact verdict_invalid_iff. Qed.
Print Assumptions C15_address_invalid_iff.

(* Last-Translator: invalid iff no address / reserved domain / dot-less domain; boilerplate only outside templates *)
Theorem C15_invalid_translator_iff : forall O known dedicated nb ob inp ds, hdr_check O known dedicated nb ob inp = Ok ds ->
  forall v, In (DInvalidTranslator v) ds <->
    In v (values (field_name FTranslator) (metadata_of (h_entries inp))) /\ bad_address (o_lower O) nb ob (o_parseaddr O v).
Proof. exact invalid_translator_iff. Qed.
Print Assumptions C15_invalid_translator_iff.

Theorem C15_boilerplate_translator_iff : forall O known dedicated nb ob inp ds, hdr_check O known dedicated nb ob inp = Ok ds ->
  forall v, In (DBoilerplateTranslator v) ds <->
    In v (values (field_name FTranslator) (metadata_of (h_entries inp))) /\ h_template inp = false /\
    addr_verdict O nb ob is_boiler1 (o_parseaddr O v) = VBoilerplate.
Proof. exact boilerplate_translator_iff. Qed.
Print Assumptions C15_boilerplate_translator_iff.

(* ---- Language-Team ---- *)
Theorem C15_invalid_team_iff : forall O known dedicated nb ob inp ds, hdr_check O known dedicated nb ob inp = Ok ds ->
  forall v, In (DInvalidTeam v) ds <->
    In v (values (field_name FTeam) (metadata_of (h_entries inp))) /\ team_invalid (o_lower O) nb ob (o_parseaddr O v).
Proof. exact invalid_team_iff. Qed.
Print Assumptions C15_invalid_team_iff.

Theorem C15_boilerplate_team_iff : forall O known dedicated nb ob inp ds, hdr_check O known dedicated nb ob inp = Ok ds ->
  forall v, In (DBoilerplateTeam v) ds <->
    In v (values (field_name FTeam) (metadata_of (h_entries inp))) /\ h_template inp = false /\
    address_is_placeholder (o_lower O) nb ob team_placeholders (o_parseaddr O v).
Proof. exact boilerplate_team_iff. Qed.
Print Assumptions C15_boilerplate_team_iff.

(* the Last-Translator value named is the greatest (Python string order) among those with the same address *)
Theorem C15_team_equals_translator_iff : forall O known dedicated nb ob inp ds, hdr_check O known dedicated nb ob inp = Ok ds ->
  forall v tr, In (DTeamEqualsTranslator v tr) ds <->
    In v (values (field_name FTeam) (metadata_of (h_entries inp))) /\ team_address_fine (o_lower O) nb ob (o_parseaddr O v) /\
    In tr (values (field_name FTranslator) (metadata_of (h_entries inp))) /\ o_parseaddr O tr = o_parseaddr O v /\
    forall tr', In tr' (values (field_name FTranslator) (metadata_of (h_entries inp))) -> o_parseaddr O tr' = o_parseaddr O v ->
                tr' = tr \/ str_lt tr' tr.
Proof. exact team_equals_translator_iff. Qed.
Print Assumptions C15_team_equals_translator_iff.

(* ---- Report-Msgid-Bugs-To: the values examined are all values unless every one of them is empty ---- *)
Theorem C15_report_values : forall fs v,
  In v (report_values fs) <->
  In v (values (field_name FReport) fs) /\ exists w, In w (values (field_name FReport) fs) /\ w <> [].
Proof. exact In_report_values_iff. Qed.
Print Assumptions C15_report_values.

Theorem C15_invalid_report_iff : forall O known dedicated nb ob inp ds, hdr_check O known dedicated nb ob inp = Ok ds ->
  forall v, In (DInvalidReport v) ds <->
    In v (report_values (metadata_of (h_entries inp))) /\
    report_invalid (o_lower O) nb ob (o_parseaddr O v) (o_urlscheme O v = UScheme).
Proof. exact invalid_report_iff. Qed.
Print Assumptions C15_invalid_report_iff.

Theorem C15_boilerplate_report_iff : forall O known dedicated nb ob inp ds, hdr_check O known dedicated nb ob inp = Ok ds ->
  forall v, In (DBoilerplateReport v) ds <->
    In v (report_values (metadata_of (h_entries inp))) /\
    address_is_placeholder (o_lower O) nb ob [lit "EMAIL@ADDRESS"] (o_parseaddr O v).
Proof. exact boilerplate_report_iff. Qed.
Print Assumptions C15_boilerplate_report_iff.

(* ---- Project-Id-Version ---- *)
Theorem C15_boilerplate_project_iff : forall O known dedicated nb ob inp ds, hdr_check O known dedicated nb ob inp = Ok ds ->
  forall v, In (DBoilerplateProject v) ds <-> In v (values (field_name FProject) (metadata_of (h_entries inp))) /\ project_boilerplate v.
Proof. exact boilerplate_project_iff. Qed.
Print Assumptions C15_boilerplate_project_iff.

Theorem C15_no_package_name_iff : forall O known dedicated nb ob inp ds, hdr_check O known dedicated nb ob inp = Ok ds ->
  forall v, In (DNoPackageName v) ds <->
    In v (values (field_name FProject) (metadata_of (h_entries inp))) /\ ~ project_boilerplate v /\ ~ has_letter (o_word O) (o_digit O) v.
Proof. exact no_package_name_iff. Qed.
Print Assumptions C15_no_package_name_iff.

Theorem C15_no_version_iff : forall O known dedicated nb ob inp ds, hdr_check O known dedicated nb ob inp = Ok ds ->
  forall v, In (DNoVersion v) ds <->
    In v (values (field_name FProject) (metadata_of (h_entries inp))) /\ ~ project_boilerplate v /\ ~ has_digit v.
Proof. exact no_version_iff. Qed.
Print Assumptions C15_no_version_iff.

(* ---- the header entry: which one it is, its flags, its characters ---- *)
Theorem C15_header_entry_is_first_live : forall es first f e more,
  header_entries first es = (f, e) :: more <->
  exists a b, es = a ++ e :: b /\ live e = true /\ (forall x, In x a -> live x = false) /\
              f = (match a with [] => first | _ => false end) /\ more = header_entries false b.
Proof. exact header_entries_first. Qed.
Print Assumptions C15_header_entry_is_first_live.

Theorem C15_unexpected_flag_iff : forall O known dedicated nb ob inp ds, hdr_check O known dedicated nb ob inp = Ok ds ->
  forall fl hint, In (DUnexpectedFlag fl hint) ds <->
    exists f e more, header_entries true (h_entries inp) = (f, e) :: more /\ In fl (e_flags e) /\ fl <> s_fuzzy /\
                     hint = o_close_fuzzy O (o_lower O fl).
Proof. exact unexpected_flag_iff. Qed.
Print Assumptions C15_unexpected_flag_iff.

Theorem C15_duplicate_flag_iff : forall O known dedicated nb ob inp ds, hdr_check O known dedicated nb ob inp = Ok ds ->
  forall fl, In (DDuplicateFlag fl) ds <->
    exists f e more, header_entries true (h_entries inp) = (f, e) :: more /\
                     (1 < count_occ (list_eq_dec N.eq_dec) (e_flags e) fl)%nat.
Proof. exact duplicate_flag_iff. Qed.
Print Assumptions C15_duplicate_flag_iff.

(* the tag lists exactly the unusual characters of the header text, each once, in increasing order *)
Theorem C15_unusual_chars_iff : forall O known dedicated nb ob inp ds, hdr_check O known dedicated nb ob inp = Ok ds ->
  forall cs, In (DUnusualChars cs) ds <->
    exists f e more, header_entries true (h_entries inp) = (f, e) :: more /\ cs <> [] /\ StronglySorted N.lt cs /\
                     forall c, In c cs <-> unusual_in (o_word O) (entry_msgstr e) c.
Proof. exact unusual_chars_iff. Qed.
Print Assumptions C15_unusual_chars_iff.

(* ---- initial comments ---- *)
Theorem C15_boilerplate_comment_iff : forall O known dedicated nb ob inp ds, hdr_check O known dedicated nb ob inp = Ok ds ->
  o_space O 32 = true ->
  forall line, In (DBoilerplateComment line) ds <->
    In line (splitlines (h_comment inp)) /\ comment_boilerplate (o_word O) (o_space O) (h_template inp) line.
Proof. exact boilerplate_comment_iff. Qed.
Print Assumptions C15_boilerplate_comment_iff.

(* every line of str.splitlines is a piece of the text, and every boilerplate pattern contains a placeholder word *)
Theorem C15_comment_line_in_text : forall s l, In l (splitlines s) -> contains l s.
Proof. exact splitlines_contains. Qed.
Print Assumptions C15_comment_line_in_text.
Theorem C15_boilerplate_has_word : forall W S t line, comment_boilerplate W S t line ->
  exists w, In w boilerplate_words /\ contains w line.
Proof. exact comment_boilerplate_word. Qed.
Print Assumptions C15_boilerplate_has_word.

(* ---- parse_header inverts the rendering of a field list ---- *)
Theorem C15_parse_render : forall h, Forall field_ok h ->
  parse_header (render h) = map (fun f => HField (fst f) (snd f)) h.
Proof. exact parse_header_render. Qed.
Print Assumptions C15_parse_render.
Theorem C15_parse_render_fields : forall h, Forall field_ok h ->
  fields_of (parse_header (render h)) = h /\ strays_of (parse_header (render h)) = [].
Proof. exact fields_of_render. Qed.
Print Assumptions C15_parse_render_fields.

(* a header that follows every convention yields no diagnostic from the modelled methods *)
Theorem C15_clean_header_silent : forall O known dedicated nb ob, o_word O 32 = false -> o_word O 99 = true -> o_space O 32 = true ->
  forall inp e fs, clean_header O known nb ob inp e fs -> hdr_check O known dedicated nb ob inp = Ok [].
Proof. exact clean_header_silent. Qed.
Print Assumptions C15_clean_header_silent.

(* no exception escapes from the modelled methods, for any catalog and any library behaviour (D13 fixed in 1f24f5a) *)
Theorem C15_no_crash : forall O known dedicated nb ob inp, exists ds, hdr_check O known dedicated nb ob inp = Ok ds.
Proof. exact hdr_check_no_crash. Qed.
Print Assumptions C15_no_crash.

(* a Report-Msgid-Bugs-To value without e-mail address on which urlparse raises ValueError is reported as
   invalid-report-msgid-bugs-to ("could neither be parsed as an e-mail nor as a URL") *)
Theorem C15_urlparse_failure_reported : forall O known dedicated nb ob inp ds v,
  hdr_check O known dedicated nb ob inp = Ok ds ->
  In v (report_values (metadata_of (h_entries inp))) -> report_raises O v -> In (DInvalidReport v) ds.
Proof. exact urlparse_failure_reported. Qed.
Print Assumptions C15_urlparse_failure_reported.

(* ------------------------------------------------------------------ *)
(* examples (non-vacuity): the base header of tools/harness/pogen.py, near-miss values *)
Example C15_ex_base_header_silent :
  ex_check (ex_input false (lit "gizmoenhancer@jwilk.net")) = Ok [] /\ ex_check (ex_input true (lit "gizmoenhancer@jwilk.net")) = Ok [].
Proof. vm_compute. split; reflexivity. Qed.

(* ... and it satisfies the hypothesis of C15_clean_header_silent (the theorem is not vacuous) *)
Example C15_ex_base_header_clean :
  clean_header ex_oracles header_fields special_exact_or_sub special_sub_only (ex_input false (lit "gizmoenhancer@jwilk.net"))
    (ex_entry (lit "gizmoenhancer@jwilk.net")) (metadata_of (h_entries (ex_input false (lit "gizmoenhancer@jwilk.net")))).
Proof. exact ex_base_header_clean. Qed.

Example C15_ex_near_misses :
  ex_check (ex_input false (lit "user@localhost")) = Ok [DInvalidReport (lit "user@localhost")] /\
  ex_check (ex_input false (lit "a@b.example.org")) = Ok [DInvalidReport (lit "a@b.example.org")] /\
  ex_check (ex_input false (lit "EMAIL@ADDRESS")) = Ok [DBoilerplateReport (lit "EMAIL@ADDRESS")] /\
  ex_check (ex_input false []) = Ok [DNoField FReport] /\
  content_type_match ex_oracles (lit "text/plain;charset=X") = Some (false, lit "X").
Proof. vm_compute. repeat split; reflexivity. Qed.

(* the base header is the rendering of its field list *)
Example C15_ex_render :
  fields_of (parse_header (ex_header (lit "gizmoenhancer@jwilk.net"))) =
  [(lit "Project-Id-Version", lit "Gizmo Enhancer 1.0"); (lit "Report-Msgid-Bugs-To", lit "gizmoenhancer@jwilk.net");
   (lit "POT-Creation-Date", lit "2012-11-01 14:42+0100"); (lit "PO-Revision-Date", lit "2012-11-01 14:42+0100");
   (lit "Last-Translator", ex_translator); (lit "Language-Team", ex_team); (lit "Language", lit "pl");
   (lit "MIME-Version", lit "1.0"); (lit "Content-Type", lit "text/plain; charset=UTF-8"); (lit "Content-Transfer-Encoding", lit "8bit");
   (lit "Plural-Forms", lit "nplurals=3; plural=n==1 ? 0 : n%10>=2 && n%10<=4 && (n%100<10 || n%100>=20) ? 1 : 2;")].
Proof. vm_compute. reflexivity. Qed.

Example C15_ex_more_tags :
  check_comments ex_oracles false (lit "FIRST AUTHOR <EMAIL@ADDRESS>, YEAR." ++ nl ++ lit "xFIRST AUTHORS, Copyright  YEAR") =
    [DBoilerplateComment (lit "FIRST AUTHOR <EMAIL@ADDRESS>, YEAR.")] /\
  unusual_chars ex_oracles [97; 27; 91; 98; 27; 99; 191; 32; 191; 0] = [0; 27; 191] /\
  project_diags ex_oracles (lit "1.0") = [DNoPackageName (lit "1.0")] /\
  project_diags ex_oracles (lit "gizmo") = [DNoVersion (lit "gizmo")].
Proof. vm_compute. repeat split; reflexivity. Qed.

(* the former D13 witness: urlparse raises ValueError on http://[foo; it is now reported, and the later checks still run *)
Example C15_ex_urlparse_raises :
  ex_check (ex_input false (lit "http://[foo")) = Ok [DInvalidReport (lit "http://[foo")].
Proof. vm_compute. reflexivity. Qed.

(* ------------------------------------------------------------------ *)
(* Source tie (notes/SRC9.md): Generated/HeaderSrc.v is the statement-by-statement translation of the Python text of
   gettext.parse_header and Checker.check_comments / check_headers / check_mime / check_project / check_translator in the
   working tree (tools/gen/gen_header_src.py, regenerated on every run).  Each translated function EQUALS the model
   function the theorems above are about, for all arguments and all oracles.  An edit of that code breaks these proofs. *)

(* parse_header, consumed to the end, yields exactly the model's lines and does not raise (its assert is dead) *)
Theorem C15_source_tie_parse_header : forall s, src_parse_header s = Ok (parse_header s).
Proof. exact src_parse_header_eq. Qed.
Print Assumptions C15_source_tie_parse_header.

Theorem C15_source_tie_check_comments : forall O template comment,
  src_check_comments O template comment = check_comments O template comment.
Proof. exact src_check_comments_eq. Qed.
Print Assumptions C15_source_tie_check_comments.

(* `parse` stands for gettext.parse_header (previous theorem); the result is (ctx.metadata, tags) *)
Theorem C15_source_tie_check_headers : forall O known dedicated template es,
  src_check_headers O known dedicated template parse_header es = check_headers O known dedicated template es.
Proof. exact src_check_headers_eq. Qed.
Print Assumptions C15_source_tie_check_headers.

(* the charset part of check_mime (try / except / else on encinfo) is not translated: it is the argument charset_step,
   instantiated with the model's reading of it, which is literally cut out of content_type_diags (second theorem) *)
Theorem C15_source_tie_check_mime : forall O template fs,
  src_check_mime O template (charset_part O template) fs = check_mime O template fs.
Proof. exact src_check_mime_eq. Qed.
Print Assumptions C15_source_tie_check_mime.
Theorem C15_source_tie_charset_part : forall O template ct,
  content_type_diags O template ct =
  match content_type_match O ct with
  | Some m => fst (charset_part O template ct (snd m))
              ++ (if negb (fst m) then [DInvalidContentType ct (snd (charset_part O template ct (snd m)))] else [])
  | None => [DInvalidContentType ct None]
  end.
Proof. exact content_type_diags_charset_part. Qed.
Print Assumptions C15_source_tie_charset_part.

Theorem C15_source_tie_check_project : forall O eos so fs,
  src_check_project O eos so fs = check_project O eos so fs.
Proof. exact src_check_project_eq. Qed.
Print Assumptions C15_source_tie_check_project.

Theorem C15_source_tie_check_translator : forall O eos so template fs,
  src_check_translator O eos so template fs = check_translator O eos so template fs.
Proof. exact src_check_translator_eq. Qed.
Print Assumptions C15_source_tie_check_translator.

(* the translated functions compute (non-vacuity): a field line, a stray line, a duplicate; a dot-less address *)
Example C15_src_ex :
  src_parse_header (lit "A: 1" ++ nl ++ lit "stray" ++ nl) = Ok [HField (lit "A") (lit "1"); HStray (lit "stray")] /\
  snd (src_check_headers ex_oracles header_fields dedicated_fields false parse_header
         [ex_entry (lit "user@localhost")]) = [] /\
  src_check_project ex_oracles special_exact_or_sub special_sub_only
    [(lit "Project-Id-Version", lit "gizmo"); (lit "Report-Msgid-Bugs-To", lit "user@localhost")]
  = Ok [DNoVersion (lit "gizmo"); DInvalidReport (lit "user@localhost")].
Proof. vm_compute. repeat split; reflexivity. Qed.

(* C14 — Translations are flagged iff their format arguments disagree with the source.
   Over argument signatures (what the parsers of C11-C13 report). *)
From Coq Require Import List ZArith NArith Bool.
From I18n Require Import Model.MsgFormat Model.MsgFormatPy Proofs.MsgFormat Generated.MsgFormatSrc Proofs.MsgFormatSrc.
Import ListNotations.

(* c-format: count and per-position type *)
Theorem C14_c_excess_iff : forall src dst li om a b,
  In (AExcess a b) (c_check_args src dst li om) <-> a = length dst /\ b = length src /\ (length src < length dst)%nat.
Proof. exact c_excess_iff. Qed.
Print Assumptions C14_c_excess_iff.

Theorem C14_c_missing_iff : forall src dst li om a b,
  In (AMissingN a b) (c_check_args src dst li om) <->
  a = length dst /\ b = length src /\ (length dst < length src)%nat /\ (om && li (length src - length dst)%nat = false).
Proof. exact c_missing_iff. Qed.
Print Assumptions C14_c_missing_iff.

Theorem C14_c_type_iff : forall src dst li om dt st,
  In (ATypeMismatch dt st) (c_check_args src dst li om) <->
  exists i s d, nth_error src i = Some s /\ nth_error dst i = Some d /\ s <> d /\ dt = [d] /\ st = [s].
Proof. exact c_type_iff. Qed.
Print Assumptions C14_c_type_iff.

(* a msgstr consuming the same arguments as the msgid is never flagged — whatever the order of its directives,
   since the signature is indexed by argument number / name *)
Theorem C14_c_same_signature_silent : forall s li om, c_check_args s s li om = [].
Proof. exact c_same_silent. Qed.
Print Assumptions C14_c_same_signature_silent.

(* python-format / python-brace-format: named arguments *)
Theorem C14_map_unknown_iff : forall brace src dst om k,
  In (AUnknown k) (map_check_args brace src dst om) <-> In k (keys dst) /\ ~ In k (keys src).
Proof. exact map_unknown_iff. Qed.
Print Assumptions C14_map_unknown_iff.

Theorem C14_map_missing_iff : forall brace src dst om k,
  In (AMissing k) (map_check_args brace src dst om) <->
  (In k (keys src) /\ ~ In k (keys dst)) /\ tolerated src dst om = false.
Proof.
  exact (fun brace src dst om k =>
    iff_trans (map_missing_iff brace src dst om k)
      (conj (fun H => conj (proj1 (missing_set_keys src dst k) (proj1 H)) (proj2 H))
            (fun H => conj (proj2 (missing_set_keys src dst k) (proj1 H)) (proj2 H)))).
Qed.
Print Assumptions C14_map_missing_iff.

Theorem C14_map_same_signature_silent : forall (brace : bool) (m : amap) (om : bool),
  NoDup (keys m) ->
  (forall k t b, In (k, t, b) m -> if brace then t <> @nil str else exists a : str, t = [a]) ->
  map_check_args brace m m om = [].
Proof. exact map_same_silent. Qed.
Print Assumptions C14_map_same_signature_silent.

Theorem C14_py_number_iff : forall ss ds sm dm om a b,
  In (ANumber a b) (py_check_args ss ds sm dm om) <-> a = length ds /\ b = length ss /\ length ds <> length ss.
Proof. exact py_number_iff. Qed.
Print Assumptions C14_py_number_iff.

Theorem C14_py_same_signature_silent : forall sq m om,
  NoDup (keys m) -> (forall k t b, In (k, t, b) m -> exists a, t = [a]) -> py_check_args sq sq m m om = [].
Proof. exact py_same_silent. Qed.
Print Assumptions C14_py_same_signature_silent.

(* perl-brace-format: set of names *)
Theorem C14_perl_unknown_iff : forall src dst om k,
  In (AUnknown k) (perl_check_args src dst om) <-> In k dst /\ ~ In k src.
Proof. exact perl_unknown_iff. Qed.
Print Assumptions C14_perl_unknown_iff.

Theorem C14_perl_missing_iff : forall src dst om k,
  In (AMissing k) (perl_check_args src dst om) <->
  In k src /\ ~ In k dst /\ (om = false \/ length (filter (fun k => negb (mem_key k dst)) src) <> 1%nat).
Proof. exact perl_missing_iff. Qed.
Print Assumptions C14_perl_missing_iff.

Theorem C14_perl_same_silent : forall s om, perl_check_args s s om = [].
Proof. exact perl_same_silent. Qed.
Print Assumptions C14_perl_same_silent.

(* check_message: dropping one integer argument is tolerated only in forms whose preimage on the window, restricted
   by the range flag, is a single n, or 0 and one other n (or empty) *)
Theorem C14_omission_rule : forall m p i iv,
  In iv (plan_plural m p i) -> iv_omit_ok iv = true ->
  exists pre, assoc i p = Some pre /\ single_or_zero_plus_one (filter (in_range (mi_rmin m) (mi_rmax m)) pre).
Proof. exact omission_only_when_rule_allows. Qed.
Print Assumptions C14_omission_rule.

Theorem C14_plural_source : forall m p i iv, In iv (plan_plural m p i) ->
  iv_dst iv = LMsgstrN i /\
  (iv_src iv = LMsgidPlural \/
   (iv_src iv = LMsgid /\ exists pre, assoc i p = Some pre /\ filter (in_range (mi_rmin m) (mi_rmax m)) pre = [1%Z])).
Proof. exact plural_source. Qed.
Print Assumptions C14_plural_source.

Theorem C14_fuzzy_or_no_charset_exempt : forall m iv,
  (mi_fuzzy m = true \/ mi_encoding_known m = false) -> In iv (plan_message m) -> iv_dst iv = LMsgid.
Proof. exact no_translation_checks_when_exempt. Qed.
Print Assumptions C14_fuzzy_or_no_charset_exempt.

Theorem C14_plain_message_compared : forall m,
  mi_template m = false -> mi_fuzzy m = false -> mi_encoding_known m = true ->
  mi_msgid_ok m = true -> mi_has_plural m = false -> mi_msgstr m = Some true ->
  mi_any_plural_nonempty m = false ->
  plan_message m = [{| iv_src := LMsgid; iv_dst := LMsgstr; iv_omit_ok := false |}].
Proof. exact plain_message_compared. Qed.
Print Assumptions C14_plain_message_compared.

(* ---------- source tie ----------
   Generated/MsgFormatSrc.v is rewritten at the start of every check by tools/gen/gen_msgformat_src.py from the python ast
   of lib/check/msgformat/*.py; the definitions src_* below are that translation.  They equal the model the theorems above
   are about, for all inputs, under the input assumptions the harness guarantees (maps and key sets sorted by the code's
   sort_key, distinct keys; python-format rows carry one type name).  A behavioural edit of check_args / of the tail of
   check_message changes the generated text and these no longer compile. *)
Theorem C14_source_tie_c : forall src dst lastint om,
  src_c_check_args src dst lastint om = c_check_args src dst lastint om.
Proof. exact src_c_check_args_eq. Qed.
Print Assumptions C14_source_tie_c.

Theorem C14_source_tie_python : forall ss ds sm dm om,
  wf_map sm -> wf_map dm -> single_typed sm -> single_typed dm ->
  src_py_check_args ss ds sm dm om = py_check_args ss ds sm dm om.
Proof. exact src_py_check_args_eq. Qed.
Print Assumptions C14_source_tie_python.

Theorem C14_source_tie_pybrace : forall src dst om,
  wf_map src -> wf_map dst -> src_brace_check_args src dst om = map_check_args true src dst om.
Proof. exact src_brace_check_args_eq. Qed.
Print Assumptions C14_source_tie_pybrace.

Theorem C14_source_tie_perlbrace : forall src dst om,
  ksorted src -> ksorted dst -> src_perl_check_args src dst om = perl_check_args src dst om.
Proof. exact src_perl_check_args_eq. Qed.
Print Assumptions C14_source_tie_perlbrace.

(* check_message from `if flags.fuzzy: return` to its end; what precedes it (plan_head_exits, plan_head) is not translated *)
Theorem C14_source_tie_check_message : forall m,
  plan_message m = if plan_head_exits m then [] else plan_head m ++ src_check_message_tail m.
Proof. exact src_check_message_tail_eq. Qed.
Print Assumptions C14_source_tie_check_message.

(* non-vacuity *)
Example C14_src_ex_wf :
  wf_map [(KInt 0, [[105;110;116]%N], true); (KStr [97]%N, [[115;116;114]%N], false)] /\
  single_typed [(KInt 0, [[105;110;116]%N], true); (KStr [97]%N, [[115;116;114]%N], false)].
Proof.
  split; [split|].
  - repeat constructor; cbn; intuition discriminate.
  - repeat constructor.
  - intros k t b [H|[H|[]]]; inversion H; eauto.
Qed.
Example C14_src_ex : src_brace_check_args [(KInt 0, [[105;110;116]%N], true); (KStr [97]%N, [[115;116;114]%N], false)]
                                          [(KInt 0, [[115;116;114]%N], false); (KStr [98]%N, [[115;116;114]%N], false)] true
  = [ATypeMismatch [[115;116;114]%N] [[105;110;116]%N]; AUnknown (KStr [98]%N); AMissing (KStr [97]%N)].
Proof. vm_compute. reflexivity. Qed.

Example C14_ex : c_check_args [[105;110;116]%N; [99;104;97;114;32;42]%N] [[99;104;97;114;32;42]%N] (fun _ => false) false
  = [AMissingN 1 2; ATypeMismatch [[99;104;97;114;32;42]%N] [[105;110;116]%N]].
Proof. vm_compute. reflexivity. Qed.

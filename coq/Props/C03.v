(* C03 — Output is a deterministic function of each file, independent of run context.
   What is proved: (1) in the model of check_all, a -j N run prints exactly what the sequential run prints,
   for every completion order of the workers, and a multi-file run prints the concatenation of the single-file
   runs — given that checking a file is a function of the file (no state is carried from one file to the next:
   that is what the component models are, and what the harness explores on the real tool);
   (2) over the python ast regenerated on every run, no set / frozenset / key-algebra is consumed in an
   order-sensitive way except the reviewed benign sites.
   What is NOT in the model: real process scheduling, import-time state, hash randomisation itself. *)
From Coq Require Import List Arith Permutation Bool NArith.
From I18n Require Import Model.Cli Proofs.Cli Generated.SetSites.
Import ListNotations.

Theorem C03_parallel_eq_sequential : forall (file line : Type) (check_file : file -> list line) pi fs,
  Permutation pi (seq 0 (length fs)) ->
  check_all_par file line check_file pi fs = check_all_seq file line check_file fs.
Proof. exact par_eq_seq. Qed.
Print Assumptions C03_parallel_eq_sequential.

Theorem C03_multi_file_is_concatenation : forall (file line : Type) (check_file : file -> list line) fs,
  check_all_seq file line check_file fs = concat (map (fun f => check_all_seq file line check_file [f]) fs).
Proof. exact seq_is_concat. Qed.
Print Assumptions C03_multi_file_is_concatenation.

Theorem C03_no_order_sensitive_set_iteration :
  forallb (fun s => snd s) order_sensitive_sites = true.
Proof. vm_compute. reflexivity. Qed.
Print Assumptions C03_no_order_sensitive_set_iteration.

Example C03_ex : check_all_par nat nat (fun f => [f; f]) [2; 0; 1] [10; 20; 30] = [10; 10; 20; 20; 30; 30].
Proof. reflexivity. Qed.

(* C03 — Output is a deterministic function of each file, independent of run context.
   What is proved: (1) in the model of check_all, a -j N run prints exactly what the sequential run prints,
   for every completion order of the workers, and a multi-file run prints the concatenation of the single-file
   runs — given that checking a file is a function of the file (no state is carried from one file to the next:
   that is what the component models are, and what the harness explores on the real tool);
   (2) over the python ast regenerated on every run, no set / frozenset / key-algebra is consumed in an
   order-sensitive way except the reviewed benign sites.
   What is NOT in the model: real process scheduling, import-time state, hash randomisation itself. *)
From Coq Require Import List Arith Permutation Bool NArith.
From I18n Require Import Model.Cli Proofs.Cli Generated.SetSites.
From Coq Require Import ZArith.
From I18n Require Import Model.CliPy Generated.CliSrc Proofs.CliSrc.
Import ListNotations.

Theorem C03_parallel_eq_sequential : forall (file line : Type) (check_file : file -> list line) pi fs,
  Permutation pi (seq 0 (length fs)) ->
  check_all_par file line check_file pi fs = check_all_seq file line check_file fs.
Proof. exact par_eq_seq. Qed.
Print Assumptions C03_parallel_eq_sequential.

Theorem C03_multi_file_is_concatenation : forall (file line : Type) (check_file : file -> list line) fs,
  check_all_seq file line check_file fs = concat (map (fun f => check_all_seq file line check_file [f]) fs).
Proof. exact seq_is_concat. Qed.
Print Assumptions C03_multi_file_is_concatenation.

Theorem C03_no_order_sensitive_set_iteration :
  forallb (fun s => snd s) order_sensitive_sites = true.
Proof. vm_compute. reflexivity. Qed.
Print Assumptions C03_no_order_sensitive_set_iteration.

Example C03_ex : check_all_par nat nat (fun f => [f; f]) [2; 0; 1] [10; 20; 30] = [10; 10; 20; 20; 30; 30].
Proof. reflexivity. Qed.

(* ---- source tie (notes/SRC15.md): the text of lib/cli.py, translated on every run by tools/gen/gen_cli_src.py into
   Generated/CliSrc.v, equals Model/Cli.v.  External code (the real checker, subprocesses, the temporary directory, os.walk,
   the executor) is an argument on both sides; rec_check_file is the recursive reference of check_deb to check_file. *)
Theorem C03_source_tie_check_file : forall (L X O : Type) (check_call : list str -> bool -> io L X unit) (mkdtemp : str -> res X str)
    (cleanup : str -> io L X unit) (os_walk : str -> list (str * list str * list str)) (islink isfile : str -> bool)
    (checker_check rec_check_file : str -> options O -> io L X unit),
  (forall p d, mkdtemp p = Ret d -> path_ok d) ->
  forall path o,
    src_check_file checker_check check_call mkdtemp cleanup os_walk islink isfile rec_check_file path o
    = check_file checker_check (check_deb check_call mkdtemp cleanup os_walk islink isfile rec_check_file) path o.
Proof. exact @src_check_file_eq. Qed.
Print Assumptions C03_source_tie_check_file.

Theorem C03_source_tie_check_file_s : forall (L X O : Type) (check_call : list str -> bool -> io L X unit) (mkdtemp : str -> res X str)
    (cleanup : str -> io L X unit) (os_walk : str -> list (str * list str * list str)) (islink isfile : str -> bool)
    (checker_check rec_check_file : str -> options O -> io L X unit),
  (forall p d, mkdtemp p = Ret d -> path_ok d) ->
  forall path o,
    src_check_file_s checker_check check_call mkdtemp cleanup os_walk islink isfile rec_check_file path o
    = io_capture (check_file checker_check (check_deb check_call mkdtemp cleanup os_walk islink isfile rec_check_file) path o).
Proof. exact @src_check_file_s_eq. Qed.
Print Assumptions C03_source_tie_check_file_s.

(* check_all: the sequential loop and the executor branch (results written in the order the executor yields them) *)
Theorem C03_source_tie_check_all : forall (L X O : Type) (check_call : list str -> bool -> io L X unit) (mkdtemp : str -> res X str)
    (cleanup : str -> io L X unit) (os_walk : str -> list (str * list str * list str)) (islink isfile : str -> bool)
    (checker_check rec_check_file : str -> options O -> io L X unit),
  (forall p d, mkdtemp p = Ret d -> path_ok d) ->
  forall executor_map : Z -> (str -> io L X (list L)) -> list str -> list (io L X (list L)),
  (forall n f g l, (forall p, f p = g p) -> executor_map n f l = executor_map n g l) ->
  forall paths o,
    src_check_all checker_check check_call mkdtemp cleanup os_walk islink isfile executor_map rec_check_file paths o
    = check_all executor_map (check_file checker_check (check_deb check_call mkdtemp cleanup os_walk islink isfile rec_check_file)) paths o.
Proof. exact @src_check_all_eq. Qed.
Print Assumptions C03_source_tie_check_all.

(* with the executor of the model (completion order pi, results in submission order) and a per-file check that ends normally,
   that is check_all_seq below the threshold (at most one file or one job) and check_all_par above it *)
Theorem C03_check_all_is_model : forall (L X O : Type) (cf : str -> options O -> io L X unit) o pi paths,
  (forall p, snd (cf p o) = Ret tt) ->
  check_all (fun _ => executor_map_model pi) cf paths o
  = (if (Z.of_nat (length paths) <=? 1)%Z || (o_jobs o <=? 1)%Z
     then check_all_seq str L (fun p => fst (cf p o)) paths else check_all_par str L (fun p => fst (cf p o)) pi paths, Ret tt).
Proof. exact @check_all_model. Qed.
Print Assumptions C03_check_all_is_model.

(* end to end for the translated text: for every job count, every completion order of the workers and every file list the run
   writes the concatenation, in argument order, of what the files write *)
Theorem C03_source_check_all_output : forall (L X O : Type) (checker_check : str -> options O -> io L X unit) check_call mkdtemp cleanup
    os_walk islink isfile rec_check_file pi paths o,
  (forall p d, mkdtemp p = Ret d -> path_ok d) ->
  (forall p, snd (check_file checker_check (check_deb check_call mkdtemp cleanup os_walk islink isfile rec_check_file) p o) = Ret tt) ->
  Permutation pi (seq 0 (length paths)) ->
  src_check_all checker_check check_call mkdtemp cleanup os_walk islink isfile (fun _ => executor_map_model pi) rec_check_file paths o
  = (flat_map (fun p => fst (check_file checker_check (check_deb check_call mkdtemp cleanup os_walk islink isfile rec_check_file) p o)) paths,
     Ret tt).
Proof. exact @src_check_all_output. Qed.
Print Assumptions C03_source_check_all_output.

(* -j: parse_jobs, and the normalisation of jobs / ignore_tags / fake_root in main *)
Theorem C03_source_tie_parse_jobs : forall (L X : Type) cpu (py_int : str -> res X Z) s,
  src_parse_jobs cpu py_int s = parse_jobs (L := L) cpu py_int s.
Proof. exact @src_parse_jobs_eq. Qed.
Print Assumptions C03_source_tie_parse_jobs.

Theorem C03_source_tie_main_normalise : forall jobs parallel, src_main_normalise jobs parallel = main_normalise jobs parallel.
Proof. exact src_main_normalise_eq. Qed.
Print Assumptions C03_source_tie_main_normalise.

Theorem C03_jobs_positive : forall (L X : Type) cpu (py_int : str -> res X Z) s n (w : list L),
  (0 < cpu)%Z -> parse_jobs cpu py_int s = (w, Ret n) -> (0 < n)%Z.
Proof. exact @parse_jobs_positive. Qed.
Print Assumptions C03_jobs_positive.

(* non-vacuity: the translated check_all on three files, two jobs, workers finishing in the order 2 0 1; the per-file check
   writes the path twice *)
Example C03_src_ex :
  src_check_all (L := str) (X := unit) (O := unit) (fun p _ => io_write [p; p]) (fun _ _ => io_ret tt) (fun _ => Ret [116%N]) (fun _ => io_ret tt)
    (fun _ => []) (fun _ => false) (fun _ => true) (fun _ => executor_map_model [2; 0; 1]) (fun _ _ => io_ret tt)
    [[97%N]; [98%N]; [99%N]] (mkOptions false 2%Z [] None tt)
  = ([[97%N]; [97%N]; [98%N]; [98%N]; [99%N]; [99%N]], Ret tt).
Proof. vm_compute. reflexivity. Qed.

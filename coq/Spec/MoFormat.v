(* The GNU MO file format, after gettext-runtime/intl/gmo.h:

     struct mo_file_header {
       nls_uint32 magic;             /*  0  _MAGIC 0x950412de, or byte-swapped            */
       nls_uint32 revision;          /*  4  major << 16 | minor; major 0 and 1 are known  */
       nls_uint32 nstrings;          /*  8                                                */
       nls_uint32 orig_tab_offset;   /* 12  table of nstrings string_desc: the keys       */
       nls_uint32 trans_tab_offset;  /* 16  table of nstrings string_desc: the values     */
       nls_uint32 hash_tab_size;     /* 20 */
       nls_uint32 hash_tab_offset;   /* 24 */
       /* minor revision >= 1 */
       nls_uint32 n_sysdep_segments; /* 28 */   nls_uint32 sysdep_segments_offset;  /* 32 */
       nls_uint32 n_sysdep_strings;  /* 36 */   nls_uint32 orig_sysdep_tab_offset;  /* 40 */
       nls_uint32 trans_sysdep_tab_offset; /* 44 */ };
     struct string_desc { nls_uint32 length;   /* not including the trailing NUL */
                          nls_uint32 offset; };/* offset of the string in the file */

   A key is  [msgctxt EOT] msgid [NUL msgid_plural] ; a value is the translations separated by NUL.
   "an unexpected minor revision number means that the file can be read but will not reveal its full contents";
   with minor revision 1 the system dependent strings (n_sysdep_strings of them) are what a plain reader cannot see.

   Written as a relation between a file (any list of bytes), a byte-level catalog and the hidden flag.  Only what a reader has to
   interpret is constrained: where the tables and strings lie, whether they overlap, what else the file contains
   (hash table, system dependent segments, padding) is free.  Shares only the data types [bytes], [mo_entry] with the model. *)
From Coq Require Import List NArith Bool.
From I18n Require Import Model.MoParser.
Import ListNotations.
Local Open Scope N_scope.

Definition blen (s : bytes) : N := N.of_nat (length s).

(* the file contains the byte string s at offset off *)
Definition at_off (f : bytes) (off : N) (s : bytes) : Prop :=
  exists pre post, f = pre ++ s ++ post /\ blen pre = off.

(* nls_uint32 in the byte order of the file *)
Definition word_bytes (be : bool) (w : N) : bytes :=
  let b0 := w mod 256 in
  let b1 := (w / 256) mod 256 in
  let b2 := (w / 65536) mod 256 in
  let b3 := (w / 16777216) mod 256 in
  if be then [b3; b2; b1; b0] else [b0; b1; b2; b3].

Definition has_word (be : bool) (f : bytes) (off w : N) : Prop :=
  w < 4294967296 /\ at_off f off (word_bytes be w).

Definition magic : N := 2500072158.    (* 0x950412de *)

(* key and value of a message *)
Definition sort_key (e : mo_entry) : bytes :=
  (match e_ctxt e with Some c => c ++ [4] | None => [] end) ++ e_id e.
Definition key_of (e : mo_entry) : bytes :=
  sort_key e ++ (match e_plural e with Some p => 0 :: p | None => [] end).
Fixpoint join0 (l : list bytes) : bytes :=
  match l with
  | [] => []
  | [s] => s
  | s :: r => s ++ 0 :: join0 r
  end.
Definition val_of (e : mo_entry) : bytes := join0 (e_strs e).

Record desc := { d_klen : N; d_koff : N; d_vlen : N; d_voff : N }.

(* the descriptors at table offsets ko (keys) and vo (values) are d, and they address e *)
Definition entry_at (f : bytes) (be : bool) (ko vo : N) (e : mo_entry) (d : desc) : Prop :=
  has_word be f ko (d_klen d) /\ has_word be f (ko + 4) (d_koff d) /\
  has_word be f vo (d_vlen d) /\ has_word be f (vo + 4) (d_voff d) /\
  d_klen d = blen (key_of e) /\ at_off f (d_koff d) (key_of e ++ [0]) /\
  d_vlen d = blen (val_of e) /\ at_off f (d_voff d) (val_of e ++ [0]).

Inductive entries_at (f : bytes) (be : bool) (otab ttab : N) : N -> list mo_entry -> list desc -> Prop :=
| EA_nil : forall i, entries_at f be otab ttab i [] []
| EA_cons : forall i e d es ds,
    entry_at f be (otab + 8 * i) (ttab + 8 * i) e d ->
    entries_at f be otab ttab (i + 1) es ds ->
    entries_at f be otab ttab i (e :: es) (d :: ds).

Record layout := {
  l_be : bool; l_major : N; l_minor : N; l_otab : N; l_ttab : N; l_desc : list desc
}.

Definition hidden_of (f : bytes) (be : bool) (minor : N) (h : bool) : Prop :=
  if N.ltb 1 minor then h = true
  else if N.eqb minor 1 then exists w, has_word be f 36 w /\ h = N.ltb 0 w
  else h = false.

Definition Encodes_at (f : bytes) (L : layout) (c : list mo_entry) (h : bool) : Prop :=
  has_word (l_be L) f 0 magic /\
  l_major L <= 1 /\ l_minor L < 65536 /\
  has_word (l_be L) f 4 (l_major L * 65536 + l_minor L) /\
  has_word (l_be L) f 8 (N.of_nat (length c)) /\
  has_word (l_be L) f 12 (l_otab L) /\
  has_word (l_be L) f 16 (l_ttab L) /\
  hidden_of f (l_be L) (l_minor L) h /\
  entries_at f (l_be L) (l_otab L) (l_ttab L) 0 c (l_desc L).

Definition Encodes (f : bytes) (c : list mo_entry) (h : bool) : Prop := exists L, Encodes_at f L c h.

(* catalogs that have an encoding a reader can undo *)
Definition no_byte (b : N) (s : bytes) : Prop := ~ In b s.

Definition wf_entry (e : mo_entry) : Prop :=
  match e_ctxt e with
  | Some c => no_byte 0 c /\ no_byte 4 c        (* the first EOT of the key ends the context *)
  | None => no_byte 4 (e_id e)
  end /\
  no_byte 0 (e_id e) /\
  match e_plural e with
  | Some p => no_byte 0 p /\ e_strs e <> []
  | None => exists s, e_strs e = [s]
  end /\
  Forall (no_byte 0) (e_strs e).

(* strcmp order of the keys: bytewise, a proper prefix first *)
Inductive lex_le : bytes -> bytes -> Prop :=
| lex_nil : forall b, lex_le [] b
| lex_lt : forall x y a b, x < y -> lex_le (x :: a) (y :: b)
| lex_eq : forall x a b, lex_le a b -> lex_le (x :: a) (x :: b).

Inductive keys_sorted : list mo_entry -> Prop :=
| ks_nil : keys_sorted []
| ks_one : forall e, keys_sorted [e]
| ks_cons : forall a b r, lex_le (sort_key a) (sort_key b) -> keys_sorted (b :: r) -> keys_sorted (a :: b :: r).

Definition wf_catalog (c : list mo_entry) : Prop := Forall wf_entry c /\ keys_sorted c.

(* the charset a reader takes from the header mo_entry (dcigettext.c: strstr (nullentry, "charset="), then
   strcspn (charsetstr, " \t\n")): s declares name *)
Definition declares_charset (s name : bytes) : Prop :=
  exists pre rest,
    s = pre ++ s_charset ++ name ++ rest /\
    (forall p q, pre ++ s_charset = p ++ s_charset ++ q -> q = []) /\    (* the first occurrence *)
    Forall (fun c => c <> 32 /\ c <> 9 /\ c <> 10) name /\
    match rest with [] => True | c :: _ => c = 32 \/ c = 9 \/ c = 10 end.

(* all bytes of the file are bytes *)
Definition bytes_ok (f : bytes) : Prop := Forall (fun b => b < 256) f.

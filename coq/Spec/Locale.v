(* Locale names, written from the convention the property names (setlocale(3) / gettext manual,
   "Locale Names"):   ll[_CC][.encoding][@modifier]
   with the character classes the property's mechanism gives: ll = two or more ASCII lower-case letters,
   CC = two or more ASCII upper-case letters, encoding = one or more of [a-zA-Z0-9+-], modifier = one or more
   ASCII lower-case letters.  Independent of Model/Ling.v. *)
From Coq Require Import List NArith.
Import ListNotations.
Local Open Scope N_scope.

Definition lower (c : N) : Prop := 97 <= c <= 122.
Definition upper (c : N) : Prop := 65 <= c <= 90.
Definition digit (c : N) : Prop := 48 <= c <= 57.
Definition encch (c : N) : Prop := lower c \/ upper c \/ digit c \/ c = 43 \/ c = 45.

(* an optional part introduced by its separator *)
Definition part (sep : N) (o : option (list N)) : list N :=
  match o with Some x => sep :: x | None => [] end.

Definition part_wf (min : nat) (P : N -> Prop) (o : option (list N)) : Prop :=
  match o with Some x => (min <= length x)%nat /\ Forall P x | None => True end.

Definition locale_text (ll : list N) (cc en md : option (list N)) : list N :=
  ll ++ part 95 cc ++ part 46 en ++ part 64 md.        (* '_' '.' '@' *)

Definition parts_wf (ll : list N) (cc en md : option (list N)) : Prop :=
  (2 <= length ll)%nat /\ Forall lower ll /\ part_wf 2 upper cc /\ part_wf 1 encch en /\ part_wf 1 lower md.

Inductive locale_grammar : list N -> Prop :=
| LG : forall ll cc en md, parts_wf ll cc en md -> locale_grammar (locale_text ll cc en md).

(* ASCII upper-casing *)
Definition up (c : N) : N := if (N.leb 97 c && N.leb c 122)%bool then c - 32 else c.

(* t is s with the encoding part upper-cased *)
Definition same_up_to_encoding_case (s t : list N) : Prop :=
  exists ll cc en md, parts_wf ll cc en md /\
    s = locale_text ll cc en md /\ t = locale_text ll cc (option_map (map up) en) md.

Definition ends_with_newline (s : list N) : Prop := exists s', s = s' ++ [10].

(* The documented header conventions, as a declarative reference over the list (multiset with order) of
   "Name: value" fields of the header entry.  Written from the tag descriptions in data/tags (the quoted
   sentences), RFC 5322 section 3.6.8 (field names), RFC 6761 section 6 / RFC 6762 section 3 / RFC 1035 3.5 /
   RFC 3596 2.5 (special-use domain names) -- not from the Python code.  Only [str] and [lit] (text as a list of
   code points, literals) are taken from the model file. *)
From Coq Require Import List NArith Bool.
From Coq Require String.
From I18n Require Import Model.Header.
Import String.StringSyntax.
Import ListNotations.
Local Open Scope N_scope.

Definition field := (str * str)%type.

(* the values of the fields called [name], in order of appearance *)
Fixpoint values (name : str) (h : list field) : list str :=
  match h with
  | [] => []
  | (k, v) :: r => if list_eq_dec N.eq_dec k name then v :: values name r else values name r
  end.

Definition count (name : str) (h : list field) : nat := length (values name h).

(* "The <F> header field doesn't exist."  /  "This file contains multiple <F> header fields." *)
Definition absent (name : str) (h : list field) : Prop := count name h = 0%nat.
Definition repeated (name : str) (h : list field) : Prop := (1 < count name h)%nat.

(* "Value of the MIME-Version header field is invalid. It should be 1.0." *)
Definition mime_version_ok (v : str) : Prop := v = lit "1.0".
(* "Value of the Content-Transfer-Encoding header field is invalid. It should be 8bit." *)
Definition cte_ok (v : str) : Prop := v = lit "8bit".

(* "It should be in the form text/plain; charset=encoding": an encoding name is a non-empty run of characters
   other than white space and ';' *)
Definition charset_token (space : N -> bool) (tok : str) : Prop :=
  tok <> [] /\ forall c, In c tok -> space c = false /\ c <> 59.
Definition content_type_ok (space : N -> bool) (v : str) : Prop :=
  exists tok, v = lit "text/plain; charset=" ++ tok /\ charset_token space tok.

(* "The header field name is unknown to i18nspector": not in the registry, and not an X- extension field *)
Definition x_prefixed (k : str) : Prop := exists r, k = lit "X-" ++ r \/ k = lit "x-" ++ r.
Definition unknown_name (registered : list str) (k : str) : Prop := ~ In k registered /\ ~ x_prefixed k.

(* RFC 5322 3.6.8: field-name = 1*ftext, ftext = %d33-57 / %d59-126 (printable US-ASCII except ':') *)
Definition ftext (c : N) : Prop := 33 <= c /\ c <= 126 /\ c <> 58.
Definition has_field_name (line : str) : Prop :=
  exists k rest, line = k ++ 58 :: rest /\ k <> [] /\ Forall ftext k.
(* the field a line denotes: the name, and the value without surrounding blanks *)
Definition blank (c : N) : Prop := c = 32 \/ c = 9.
Definition trimmed (v : str) : Prop :=
  (forall c r, v = c :: r -> ~ blank c) /\ (forall c r, v = r ++ [c] -> ~ blank c).
Definition denotes (line : str) (k v : str) : Prop :=
  k <> [] /\ Forall ftext k /\ trimmed v /\
  exists l r, Forall blank l /\ Forall blank r /\ line = k ++ 58 :: l ++ v ++ r.

(* "The header contains a conflict marker (#-#-#-#-# ... #-#-#-#-#)" *)
Definition conflict_marker (line : str) : Prop :=
  exists mid, mid <> [] /\ line = lit "#-#-#-#-#  " ++ mid ++ lit "  #-#-#-#-#".
(* "The header contains a line that does not belong to any header field." *)
Definition stray (line : str) : Prop := ~ has_field_name line /\ ~ conflict_marker line.

(* special-use domain names: NAME and everything below it / only what is below NAME *)
Definition below (name d : str) : Prop := exists x, x <> [] /\ ~ In 10 x /\ d = x ++ 46 :: name.
Definition reserved (name_or_below only_below : list str) (d : str) : Prop :=
  (exists n, In n name_or_below /\ (d = n \/ below n d)) \/ (exists n, In n only_below /\ below n d).
(* "a partially qualified domain name" *)
Definition dotless (d : str) : Prop := ~ In 46 d.
(* the part of an address after the last '@' *)
Definition domain_part (addr d : str) : Prop := exists l, addr = l ++ 64 :: d /\ ~ In 64 d.

Definition boilerplate_address (addr : str) : Prop := addr = lit "EMAIL@ADDRESS".

(* "could not be parsed as an e-mail, or the e-mail address uses a reserved domain name, or a partially qualified
   domain name" (the xgettext placeholder is reported as boilerplate instead) *)
Definition bad_address (lower : str -> str) (nb ob : list str) (addr : str) : Prop :=
  ~ In 64 addr \/
  exists d, domain_part addr d /\ (reserved nb ob (lower d) \/ (dotless d /\ ~ boilerplate_address addr)).
Definition good_address (lower : str -> str) (nb ob : list str) (addr : str) : Prop :=
  exists d, domain_part addr d /\ ~ reserved nb ob (lower d) /\ ~ dotless d.

(* "It should contain the name and the version of the package": a letter-like character and a digit *)
Definition project_boilerplate (v : str) : Prop := v = lit "PACKAGE VERSION" \/ v = lit "PROJECT VERSION".

(* characters that are suspicious wherever they stand (a sufficient convention for "no unusual character") *)
Definition plain_char (c : N) : Prop :=
  (32 <= c \/ c = 9 \/ c = 10) /\ c <> 127 /\ ~ (128 <= c <= 159) /\ c <> 191 /\ c <> 65279 /\ c <> 65533 /\ c <> 65534 /\ c <> 65535.

(* the header entry text: one "Name: value" line, LF-terminated, per field *)
Definition render_field (f : field) : str := fst f ++ [58; 32] ++ snd f ++ [10].
Definition render (h : list field) : str := concat (map render_field h).

Definition contains (sub s : str) : Prop := exists a b, s = a ++ sub ++ b.

(* ------------------------------------------------------------------ *)
(* Report-Msgid-Bugs-To: "could neither be parsed as an e-mail nor as a URL, or the e-mail address uses a reserved
   domain name, or a partially qualified domain name"; [is_url]: the value has a URL scheme *)
Definition report_invalid (lower : str -> str) (nb ob : list str) (addr : str) (is_url : Prop) : Prop :=
  (~ In 64 addr /\ ~ is_url) \/ (In 64 addr /\ bad_address lower nb ob addr).
(* "contains xgettext boilerplate": the address is the placeholder (whose domain is not reserved) *)
Definition address_is_placeholder (lower : str -> str) (nb ob : list str) (placeholders : list str) (addr : str) : Prop :=
  In addr placeholders /\ exists d, domain_part addr d /\ ~ reserved nb ob (lower d).

(* Language-Team: only an e-mail address, if there is one, is judged (a URL is also allowed here) *)
Definition team_placeholders : list str := [lit "LL@li.org"; lit "EMAIL@ADDRESS"].
Definition team_invalid (lower : str -> str) (nb ob : list str) (addr : str) : Prop :=
  exists d, domain_part addr d /\ (reserved nb ob (lower d) \/ (dotless d /\ ~ In addr team_placeholders)).
(* a usable address: not reserved, not dot-less, not a placeholder *)
Definition team_address_fine (lower : str -> str) (nb ob : list str) (addr : str) : Prop :=
  exists d, domain_part addr d /\ ~ reserved nb ob (lower d) /\ ~ dotless d /\ ~ In addr team_placeholders.

(* Python's str order: lexicographic by code point *)
Inductive str_lt : str -> str -> Prop :=
| str_lt_nil : forall c b, str_lt [] (c :: b)
| str_lt_head : forall x y a b, x < y -> str_lt (x :: a) (y :: b)
| str_lt_tail : forall x a b, str_lt a b -> str_lt (x :: a) (x :: b).

(* Project-Id-Version: "It should contain the name and the version of the package" *)
Definition has_letter (word digit : N -> bool) (v : str) : Prop :=
  exists c, In c v /\ word c = true /\ digit c = false /\ c <> 95.
Definition has_digit (v : str) : Prop := exists c, In c v /\ 48 <= c <= 57.

(* unusual characters: C0 except TAB, LF and ESC-before-"[" ; DEL; C1; U+FEFF, U+FFFD, U+FFFE, U+FFFF;
   INVERTED QUESTION MARK directly after a word character *)
Definition opt_word (word : N -> bool) (o : option N) : Prop := match o with Some c => word c = true | None => False end.
Definition last_of (s : str) : option N := match rev s with c :: _ => Some c | [] => None end.
Definition first_of (s : str) : option N := match s with c :: _ => Some c | [] => None end.
Definition suspicious (word : N -> bool) (prev : option N) (c : N) (next : option N) : Prop :=
  c <= 8 \/ 11 <= c <= 26 \/ 28 <= c <= 31 \/ (c = 27 /\ next <> Some 91) \/ c = 127 \/ 128 <= c <= 159
  \/ c = 65279 \/ c = 65533 \/ c = 65534 \/ c = 65535 \/ (c = 191 /\ opt_word word prev).
Definition unusual_in (word : N -> bool) (s : str) (c : N) : Prop :=
  exists a b, s = a ++ c :: b /\ suspicious word (last_of a) c (first_of b).

(* initial comments: xgettext / msginit boilerplate.  \b = exactly one side is a word character *)
Definition boundary (word : N -> bool) (prev next : option N) : Prop :=
  (opt_word word prev /\ ~ opt_word word next) \/ (~ opt_word word prev /\ opt_word word next).
(* \bW\b somewhere in the line *)
Definition word_delimited (word : N -> bool) (w line : str) : Prop :=
  exists pre suf, line = pre ++ w ++ suf /\ boundary word (last_of pre) (first_of w) /\ boundary word (last_of w) (first_of suf).
(* \bCopyright \S+ YEAR\b *)
Definition copyright_year (word space : N -> bool) (line : str) : Prop :=
  exists pre x suf, line = pre ++ lit "Copyright " ++ x ++ lit " YEAR" ++ suf /\ x <> [] /\ (forall c, In c x -> space c = false) /\
    boundary word (last_of pre) (Some 67) /\ boundary word (Some 82) (first_of suf).
(* (?<=>), YEAR\b *)
Definition gt_year (word : N -> bool) (line : str) : Prop :=
  exists pre suf, line = pre ++ lit ">, YEAR" ++ suf /\ boundary word (Some 82) (first_of suf).
Definition comment_boilerplate (word space : N -> bool) (template : bool) (line : str) : Prop :=
  word_delimited word (lit "PACKAGE package") line \/ copyright_year word space line \/
  word_delimited word (lit "THE PACKAGE'S COPYRIGHT HOLDER") line \/
  (template = false /\ (word_delimited word (lit "FIRST AUTHOR") line \/ contains (lit "<EMAIL@ADDRESS>") line \/ gt_year word line)).
(* every pattern contains one of these words *)
Definition boilerplate_words : list str :=
  [lit "PACKAGE package"; lit "YEAR"; lit "THE PACKAGE'S COPYRIGHT HOLDER"; lit "FIRST AUTHOR"; lit "<EMAIL@ADDRESS>"].

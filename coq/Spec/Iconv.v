(* The iconv(3) contract, written from the manual page (POSIX iconv(), glibc manual "Generic Charset
   Conversion"), as a predicate on the abstract libc behaviour iconv_ops of Model/Iconv.v.

   iconv(cd, &inbuf, &inbytesleft, &outbuf, &outbytesleft) "converts one multibyte character at a time, and for
   each character conversion it increments *inbuf and decrements *inbytesleft by the number of converted input
   bytes, it increments *outbuf and decrements *outbytesleft by the number of converted output bytes".
   It stops for one of four reasons:
     1. invalid multibyte sequence: EILSEQ, *inbuf left pointing to the beginning of the invalid sequence;
     2. the input has been entirely converted (inbytesleft has gone down to 0): no error;
     3. incomplete multibyte sequence at the end of the input: EINVAL, *inbuf left pointing to its beginning;
     4. "the output buffer has no more room for the next converted character": E2BIG.
   iconv(cd, NULL, NULL, &outbuf, &outbytesleft) stores the shift sequence that returns to the initial state;
   its only error is E2BIG ("the output buffer has no more room for this reset sequence").
   iconv(cd, NULL, NULL, NULL, NULL) only resets the state; iconv_close on a valid descriptor returns 0.

   Parameters:
     nbytes  length of the input in bytes
     unit    size of one input character when the input encoding has fixed width (4 for UTF-32LE, else 1):
             input is consumed in whole characters
     ounit   size of one output character when the output encoding has fixed width (4 for WCHAR_T, else 1)
     need    room that suffices for the whole output including the reset sequence: "no more room" can only be
             reported for a buffer smaller than that *)
From Coq Require Import ZArith.
From I18n Require Import Model.Iconv.
Local Open Scope Z_scope.

Record iconv_contract (ops : iconv_ops) (nbytes unit ounit need : Z) : Prop := {
  ic_reset : forall cap, io_reset_ok ops cap = true;
  ic_close : io_close_ok ops = true;
  ic_in_bounds : forall cap, 0 <= cap -> 0 <= cr_inleft (io_conv ops cap) <= nbytes;
  ic_out_bounds : forall cap, 0 <= cap -> 0 <= cr_outleft (io_conv ops cap) <= cap;
  ic_in_units : forall cap, 0 <= cap -> cr_inleft (io_conv ops cap) mod unit = 0;
  ic_done : forall cap, 0 <= cap -> cr_rc (io_conv ops cap) = RcOk -> cr_inleft (io_conv ops cap) = 0;
  ic_e2big : forall cap, 0 <= cap -> cr_rc (io_conv ops cap) = RcE2BIG -> cap < need;
  ic_bad_input : forall cap, 0 <= cap ->
    cr_rc (io_conv ops cap) = RcEILSEQ \/ cr_rc (io_conv ops cap) = RcEINVAL -> 1 <= cr_inleft (io_conv ops cap);
  ic_errno : forall cap, 0 <= cap -> cr_rc (io_conv ops cap) <> RcOther;
  ic_flush_rc : forall cap, 0 <= cap -> cr_rc (io_conv ops cap) = RcOk ->
    fr_rc (io_flush ops cap) = RcOk \/ (fr_rc (io_flush ops cap) = RcE2BIG /\ cap < need);
  ic_flush_bounds : forall cap, 0 <= cap -> cr_rc (io_conv ops cap) = RcOk ->
    0 <= fr_outleft (io_flush ops cap) <= cr_outleft (io_conv ops cap);
  ic_out_units : forall cap, 0 <= cap -> cr_rc (io_conv ops cap) = RcOk -> fr_rc (io_flush ops cap) = RcOk ->
    (cap - fr_outleft (io_flush ops cap)) mod ounit = 0
}.

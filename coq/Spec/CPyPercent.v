(* Specification: CPython 3.12's  str % args  (Objects/unicodeobject.c: PyUnicode_Format,
   unicode_format_arg, unicode_format_arg_parse, unicode_format_arg_format, unicode_format_getnextarg),
   written from that source, not from i18nspector.  It is validated against the live interpreter by
   tools/harness/c12.py on every run.

   The syntax of a format string does not depend on the arguments; only the order in which errors are
   met does.  So the reading is split in two: cpy_events turns the string into the sequence of actions
   the C code performs on its argument state, in order, and cpy_run performs them on a model of the
   arguments.  Widths, precisions, flags and length modifiers have no influence on success (memory
   aside) and leave no event, except the "*" forms, which consume an argument. *)
From Coq Require Import List NArith ZArith Bool.
Import ListNotations.
Local Open Scope N_scope.

(* ---------------------------------------------------------------- values *)
Inductive pyval :=
| VInt (z : Z)
| VFloat                               (* a finite float *)
| VStr (s : list N)
| VNone                                (* an object with no numeric protocol *)
| VTuple (l : list pyval)
| VDict (d : list (list N * pyval)).   (* str keys; the first binding of a key counts *)

Inductive static_err := SIncompleteKey | SIncompleteFormat | SWidthTooBig | SPrecTooBig.

Inductive event :=
| EvNeedMapping                (* "(" seen: "format requires a mapping" unless the argument is a mapping *)
| EvLookup (key : list N)      (* args = dict[key] *)
| EvStarWidth                  (* "*": next argument, must be an int that fits Py_ssize_t *)
| EvStarPrec                   (* ".*": next argument, must be an int that fits a C int *)
| EvConv (c : N)               (* next argument, formatted by a supported conversion character *)
| EvPercent (plain : bool)     (* plain = the "%%" fast path of unicode_format_arg: writes "%", uses no argument.
                                  Otherwise a "%" met as conversion character after a key, flag, width, precision
                                  or length: unicode_format_arg_format has no case for it, so it is an unsupported
                                  format character (kept apart from EvUnsupported, and scanning goes on after it,
                                  only so that the domain of C12 can be stated: see plain_percents) *)
| EvUnsupported (c : N)        (* next argument is fetched, then "unsupported format character" *)
| EvStatic (e : static_err).   (* ValueError raised by the parsing code itself *)

(* platform constants of the interpreter the spec is validated against *)
Definition PY_SSIZE_T_MAX : Z := 9223372036854775807.
Definition C_INT_MAX : Z := 2147483647.

(* ---------------------------------------------------------------- syntax *)
Definition is_flag (c : N) : bool := (c =? 45) || (c =? 43) || (c =? 32) || (c =? 35) || (c =? 48).   (* - + space # 0 *)
Definition is_digit (c : N) : bool := (48 <=? c) && (c <=? 57).
Definition is_length (c : N) : bool := (c =? 104) || (c =? 108) || (c =? 76).                           (* h l L *)
Definition supported : list N :=      (* the case labels of unicode_format_arg_format *)
  [115; 114; 97; 105; 100; 117; 111; 120; 88; 101; 69; 102; 70; 103; 71; 99].
Definition is_supported (c : N) : bool := existsb (N.eqb c) supported.

(* "Skip over balanced parentheses": the key and the text after its closing parenthesis *)
Fixpoint cpy_key (s : list N) (pcount : nat) (acc : list N) : option (list N * list N) :=
  match s with
  | [] => None                                   (* fmtcnt < 0 || pcount > 0: incomplete format key *)
  | c :: r =>
    if c =? 41 then
      match pcount with
      | S (S p) => cpy_key r (S p) (c :: acc)
      | _ => Some (rev acc, r)
      end
    else if c =? 40 then cpy_key r (S pcount) (c :: acc)
    else cpy_key r pcount (c :: acc)
  end.

Fixpoint skip_flags (s : list N) : list N :=
  match s with
  | c :: r => if is_flag c then skip_flags r else s
  | [] => []
  end.

(* a maximal run of ASCII digits: its value and what follows *)
Fixpoint cpy_digits (s : list N) (acc : Z) : Z * list N :=
  match s with
  | c :: r => if is_digit c then cpy_digits r (acc * 10 + Z.of_N (c - 48)) else (acc, s)
  | [] => (acc, [])
  end.

(* One conversion specification, in the stages of unicode_format_arg_parse.  Each stage returns its events
   and the text that follows (None when parsing stopped with an error).  An exhausted string at any point ends
   in "incomplete format" (the C code keeps a stale ch and a negative fmtcnt, which no later test mistakes for a
   "*" or a conversion).  "width too big" / "precision too big" are tested digit by digit in C; the value of a
   digit run is monotone, so testing the final value is the same. *)
Definition c_key (s : list N) : list event * option (list N) :=
  match s with
  | c0 :: r0 =>
    if c0 =? 40 then
      match cpy_key r0 1 [] with
      | None => ([EvNeedMapping; EvStatic SIncompleteKey], None)
      | Some (key, r) => ([EvNeedMapping; EvLookup key], Some r)
      end
    else ([], Some s)
  | [] => ([], Some [])
  end.

Definition c_width (s : list N) : list event * option (list N) :=
  match s with
  | c :: r => if c =? 42 then ([EvStarWidth], Some r)
              else let '(w, r') := cpy_digits s 0 in
                   if (w >? PY_SSIZE_T_MAX)%Z then ([EvStatic SWidthTooBig], None) else ([], Some r')
  | [] => ([], Some [])
  end.

Definition c_prec (s : list N) : list event * option (list N) :=
  match s with
  | c :: r =>
    if c =? 46 then
      match r with
      | c' :: r' => if c' =? 42 then ([EvStarPrec], Some r')
                    else let '(p, r'') := cpy_digits r 0 in
                         if (p >? C_INT_MAX)%Z then ([EvStatic SPrecTooBig], None) else ([], Some r'')
      | [] => ([], Some [])
      end
    else ([], Some s)
  | [] => ([], Some [])
  end.

Definition c_length (s : list N) : list N :=
  match s with c :: r => if is_length c then r else s | [] => [] end.

Definition c_conv (s : list N) : list event * option (list N) :=
  match s with
  | [] => ([EvStatic SIncompleteFormat], None)
  | c :: rest =>
    if c =? 37 then ([EvPercent false], Some rest)
    else if is_supported c then ([EvConv c], Some rest)
    else ([EvUnsupported c], None)
  end.

Definition then_stage (x : list event * option (list N)) (f : list N -> list event * option (list N))
  : list event * option (list N) :=
  match x with
  | (ev, None) => (ev, None)
  | (ev, Some s) => let '(ev', o) := f s in (ev ++ ev', o)
  end.

(* s = the text after the "%" *)
Definition cpy_directive (s : list N) : list event * option (list N) :=
  match s with
  | [] => ([EvStatic SIncompleteFormat], None)
  | c0 :: r0 =>
    if c0 =? 37 then ([EvPercent true], Some r0)          (* the "%%" fast path of unicode_format_arg *)
    else
      then_stage (then_stage (then_stage (then_stage (c_key s)
        (fun s1 => c_width (skip_flags s1)))
        c_prec)
        (fun s4 => ([], Some (c_length s4))))
        c_conv
  end.

(* the whole string (PyUnicode_Format's loop); fuel only makes the recursion structural *)
Fixpoint cpy_events_f (fuel : nat) (s : list N) : list event :=
  match fuel with
  | O => []
  | S fuel' =>
    match s with
    | [] => []
    | c :: r =>
      if c =? 37 then
        match cpy_directive r with
        | (evs, None) => evs
        | (evs, Some rest) => evs ++ cpy_events_f fuel' rest
        end
      else cpy_events_f fuel' r
    end
  end.

Definition cpy_events (s : list N) : list event := cpy_events_f (S (length s)) s.

Definition is_error_event (e : event) : bool :=
  match e with EvStatic _ | EvUnsupported _ | EvPercent false => true | _ => false end.

(* "CPython rejects the string as malformed whatever the arguments": the parsing code reaches an error that
   does not depend on any argument value (incomplete format, incomplete format key, unsupported format
   character, width/precision too big) *)
Definition cpy_syntax_error (s : list N) : bool := existsb is_error_event (cpy_events s).

(* the domain of property C12: no "%" conversion carries a key, flag, width, precision or length, i.e. every
   "%" conversion (before the first other error) is the bare "%%" *)
Definition plain_percents (s : list N) : bool :=
  forallb (fun e => match e with EvPercent false => false | _ => true end) (cpy_events s).

(* ---------------------------------------------------------------- running the events on arguments *)
Inductive cpy_res := RSuccess | RValueError | RTypeError | RKeyError | ROverflowError.

(* the argument cursor: a tuple's remaining items, or the single non-tuple argument (arglen = -1) and
   whether it is still available (argidx = -2) *)
Inductive astate := ATuple (rest : list pyval) | AOne (v : option pyval).

Definition getnextarg (a : astate) : option (pyval * astate) :=
  match a with
  | ATuple (v :: r) => Some (v, ATuple r)
  | ATuple [] => None                            (* not enough arguments for format string *)
  | AOne (Some v) => Some (v, AOne None)
  | AOne None => None
  end.

Fixpoint key_eqb (a b : list N) : bool :=
  match a, b with
  | [], [] => true
  | x :: a', y :: b' => (x =? y) && key_eqb a' b'
  | _, _ => false
  end.

Fixpoint lookup (k : list N) (d : list (list N * pyval)) : option pyval :=
  match d with
  | [] => None
  | (k0, v) :: r => if key_eqb k0 k then Some v else lookup k r
  end.

(* largest int that PyFloat_AsDouble converts without OverflowError: below 2^1024 - 2^970 *)
Definition float_limit : Z := (2 ^ 1024 - 2 ^ 970)%Z.

Definition format_value (c : N) (v : pyval) : cpy_res :=
  if existsb (N.eqb c) [115; 114; 97] then RSuccess                         (* s r a *)
  else if existsb (N.eqb c) [100; 105; 117] then                            (* d i u: a real number *)
    match v with VInt _ | VFloat => RSuccess | _ => RTypeError end
  else if existsb (N.eqb c) [111; 120; 88] then                             (* o x X: an integer *)
    match v with VInt _ => RSuccess | _ => RTypeError end
  else if c =? 99 then                                                      (* c *)
    match v with
    | VInt z => if ((0 <=? z) && (z <? 1114112))%Z then RSuccess else ROverflowError
    | VStr [_] => RSuccess
    | _ => RTypeError
    end
  else                                                                      (* e E f F g G *)
    match v with
    | VFloat => RSuccess
    | VInt z => if (Z.abs z <? float_limit)%Z then RSuccess else ROverflowError
    | _ => RTypeError
    end.

Fixpoint cpy_run (evs : list event) (a : astate) (dict : option (list (list N * pyval))) : cpy_res :=
  match evs with
  | [] =>
    (* argidx < arglen && !dict : not all arguments converted *)
    match dict with
    | Some _ => RSuccess
    | None => match a with ATuple (_ :: _) | AOne (Some _) => RTypeError | _ => RSuccess end
    end
  | e :: r =>
    match e with
    | EvNeedMapping => match dict with Some _ => cpy_run r a dict | None => RTypeError end
    | EvLookup k =>
      match dict with
      | Some d => match lookup k d with Some v => cpy_run r (AOne (Some v)) dict | None => RKeyError end
      | None => RTypeError
      end
    | EvStarWidth =>
      match getnextarg a with
      | Some (VInt z, a') => if (Z.abs z <=? PY_SSIZE_T_MAX)%Z then cpy_run r a' dict else ROverflowError
      | Some (_, _) => RTypeError
      | None => RTypeError
      end
    | EvStarPrec =>
      match getnextarg a with
      | Some (VInt z, a') => if ((- C_INT_MAX - 1 <=? z) && (z <=? C_INT_MAX))%Z then cpy_run r a' dict else ROverflowError
      | Some (_, _) => RTypeError
      | None => RTypeError
      end
    | EvConv c =>
      match getnextarg a with
      | Some (v, a') => match format_value c v with RSuccess => cpy_run r a' dict | x => x end
      | None => RTypeError
      end
    | EvPercent true => cpy_run r a dict
    | EvPercent false | EvUnsupported _ => match getnextarg a with Some _ => RValueError | None => RTypeError end
    | EvStatic _ => RValueError
    end
  end.

(* s % v *)
Definition cpy_format (s : list N) (v : pyval) : cpy_res :=
  cpy_run (cpy_events s)
          (match v with VTuple l => ATuple l | _ => AOne (Some v) end)
          (match v with VDict d => Some d | _ => None end).

Definition formats_ok (s : list N) (v : pyval) : Prop := cpy_format s v = RSuccess.

(* Reference semantics of gettext plural expressions, written from plural.y / eval-plural.h
   (gettext-runtime/intl), not from the Python code.
   - ceval W : C evaluation over `unsigned long` of W bits (every operation reduced mod 2^W,
     / and % truncating, && || ?: lazy); None = division by zero (undefined in C).
   - InRange M n e v : the ideal evaluation over unbounded integers in which every evaluated
     constant, variable and intermediate result lies in [0, M) and no executed divisor is 0. *)
From Coq Require Import List ZArith Bool.
From I18n Require Import Lib.Outcome Model.IntExpr.
Import ListNotations.
Local Open Scope Z_scope.

Definition c_cmp (o : cmpop) (x y : Z) : Z :=
  match o with
  | CLt => if Z_lt_dec x y then 1 else 0
  | CLe => if Z_le_dec x y then 1 else 0
  | CGt => if Z_gt_dec x y then 1 else 0
  | CGe => if Z_ge_dec x y then 1 else 0
  | CEq => if Z.eq_dec x y then 1 else 0
  | CNe => if Z.eq_dec x y then 0 else 1
  end.

Definition c_not (x : Z) : Z := if Z.eq_dec x 0 then 1 else 0.
Definition c_truth (x : Z) : Z := if Z.eq_dec x 0 then 0 else 1.

Fixpoint ceval (W : Z) (e : expr) (n : Z) : option Z :=
  let wrap v := v mod 2 ^ W in
  match e with
  | Var => Some (wrap n)
  | Num z => Some (wrap z)
  | Not a => match ceval W a n with Some x => Some (c_not x) | None => None end
  | Bin o a b =>
    match ceval W a n with None => None | Some x =>
    match ceval W b n with None => None | Some y =>
      match o with
      | Add => Some (wrap (x + y))
      | Sub => Some (wrap (x - y))
      | Mult => Some (wrap (x * y))
      | Div => if Z.eq_dec y 0 then None else Some (Z.quot x y)
      | Mod => if Z.eq_dec y 0 then None else Some (Z.rem x y)
      end end end
  | Cmp o a b =>
    match ceval W a n with None => None | Some x =>
    match ceval W b n with None => None | Some y => Some (c_cmp o x y) end end
  | And a b =>
    match ceval W a n with None => None | Some x =>
      if Z.eq_dec x 0 then Some 0 else
      match ceval W b n with None => None | Some y => Some (c_truth y) end end
  | Or a b =>
    match ceval W a n with None => None | Some x =>
      if Z.eq_dec x 0 then
        match ceval W b n with None => None | Some y => Some (c_truth y) end
      else Some 1 end
  | If c a b =>
    match ceval W c n with None => None | Some t =>
      if Z.eq_dec t 0 then ceval W b n else ceval W a n end
  end.

Inductive InRange (M n : Z) : expr -> Z -> Prop :=
| IR_var : 0 <= n < M -> InRange M n Var n
| IR_num z : 0 <= z < M -> InRange M n (Num z) z
| IR_not a x : InRange M n a x -> InRange M n (Not a) (c_not x)
| IR_add a b x y : InRange M n a x -> InRange M n b y -> 0 <= x + y < M -> InRange M n (Bin Add a b) (x + y)
| IR_sub a b x y : InRange M n a x -> InRange M n b y -> 0 <= x - y < M -> InRange M n (Bin Sub a b) (x - y)
| IR_mult a b x y : InRange M n a x -> InRange M n b y -> 0 <= x * y < M -> InRange M n (Bin Mult a b) (x * y)
| IR_div a b x y : InRange M n a x -> InRange M n b y -> y <> 0 -> InRange M n (Bin Div a b) (Z.quot x y)
| IR_mod a b x y : InRange M n a x -> InRange M n b y -> y <> 0 -> InRange M n (Bin Mod a b) (Z.rem x y)
| IR_cmp o a b x y : InRange M n a x -> InRange M n b y -> InRange M n (Cmp o a b) (c_cmp o x y)
| IR_and_l a b : InRange M n a 0 -> InRange M n (And a b) 0
| IR_and_r a b x y : InRange M n a x -> x <> 0 -> InRange M n b y -> InRange M n (And a b) (c_truth y)
| IR_or_l a b x : InRange M n a x -> x <> 0 -> InRange M n (Or a b) 1
| IR_or_r a b y : InRange M n a 0 -> InRange M n b y -> InRange M n (Or a b) (c_truth y)
| IR_if_t c a b t v : InRange M n c t -> t <> 0 -> InRange M n a v -> InRange M n (If c a b) v
| IR_if_f c a b v : InRange M n c 0 -> InRange M n b v -> InRange M n (If c a b) v.

(* ------------------------------------------------------------------ *)
(* The grammar of plural.y, stratified by its %right/%left table:
     %right '?'   %left '|'   %left '&'   %left EQUOP2   %left CMPOP2
     %left ADDOP2   %left MULOP2   %right '!'
   Level 0 = conditional, 1..6 = the left-associative binary levels, 7 = unary/primary. *)
Definition spec_binop (t : token) : option (nat * (expr -> expr -> expr)) :=
  match t with
  | TOr => Some (1%nat, Or)
  | TAnd => Some (2%nat, And)
  | TEq false => Some (3%nat, Cmp CEq)
  | TEq true => Some (3%nat, Cmp CNe)
  | TCmp o => Some (4%nat, Cmp o)
  | TAddSub false => Some (5%nat, Bin Add)
  | TAddSub true => Some (5%nat, Bin Sub)
  | TMulDiv o => Some (6%nat, Bin o)
  | _ => None
  end.

Inductive G : nat -> list token -> expr -> Prop :=
| G_var : G 7 [TVar] Var
| G_int z d : G 7 [TInt z d] (Num z)
| G_par ts e : G 0 ts e -> G 7 (TLpar :: ts ++ [TRpar]) e
| G_not ts e : G 7 ts e -> G 7 (TNot :: ts) (Not e)
| G_up l ts e : (l < 7)%nat -> G (S l) ts e -> G l ts e
| G_bin l t mk ts1 ts2 a b : spec_binop t = Some (l, mk) ->
    G l ts1 a -> G (S l) ts2 b -> G l (ts1 ++ t :: ts2) (mk a b)
| G_if ts1 ts2 ts3 c a b : G 1 ts1 c -> G 0 ts2 a -> G 0 ts3 b ->
    G 0 (ts1 ++ TIf :: ts2 ++ TElse :: ts3) (If c a b).

(* Reference semantics of gettext plural expressions, written from plural.y / eval-plural.h
   (gettext-runtime/intl), not from the Python code.
   - ceval W : C evaluation over `unsigned long` of W bits (every operation reduced mod 2^W,
     / and % truncating, && || ?: lazy); None = division by zero (undefined in C).
   - InRange M n e v : the ideal evaluation over unbounded integers in which every evaluated
     constant, variable and intermediate result lies in [0, M) and no executed divisor is 0. *)
From Coq Require Import List ZArith Bool.
From I18n Require Import Lib.Outcome Model.IntExpr.
Import ListNotations.
Local Open Scope Z_scope.

Definition c_cmp (o : cmpop) (x y : Z) : Z :=
  match o with
  | CLt => if Z_lt_dec x y then 1 else 0
  | CLe => if Z_le_dec x y then 1 else 0
  | CGt => if Z_gt_dec x y then 1 else 0
  | CGe => if Z_ge_dec x y then 1 else 0
  | CEq => if Z.eq_dec x y then 1 else 0
  | CNe => if Z.eq_dec x y then 0 else 1
  end.

Definition c_not (x : Z) : Z := if Z.eq_dec x 0 then 1 else 0.
Definition c_truth (x : Z) : Z := if Z.eq_dec x 0 then 0 else 1.

Fixpoint ceval (W : Z) (e : expr) (n : Z) : option Z :=
  let wrap v := v mod 2 ^ W in
  match e with
  | Var => Some (wrap n)
  | Num z => Some (wrap z)
  | Not a => match ceval W a n with Some x => Some (c_not x) | None => None end
  | Bin o a b =>
    match ceval W a n with None => None | Some x =>
    match ceval W b n with None => None | Some y =>
      match o with
      | Add => Some (wrap (x + y))
      | Sub => Some (wrap (x - y))
      | Mult => Some (wrap (x * y))
      | Div => if Z.eq_dec y 0 then None else Some (Z.quot x y)
      | Mod => if Z.eq_dec y 0 then None else Some (Z.rem x y)
      end end end
  | Cmp o a b =>
    match ceval W a n with None => None | Some x =>
    match ceval W b n with None => None | Some y => Some (c_cmp o x y) end end
  | And a b =>
    match ceval W a n with None => None | Some x =>
      if Z.eq_dec x 0 then Some 0 else
      match ceval W b n with None => None | Some y => Some (c_truth y) end end
  | Or a b =>
    match ceval W a n with None => None | Some x =>
      if Z.eq_dec x 0 then
        match ceval W b n with None => None | Some y => Some (c_truth y) end
      else Some 1 end
  | If c a b =>
    match ceval W c n with None => None | Some t =>
      if Z.eq_dec t 0 then ceval W b n else ceval W a n end
  end.

Inductive InRange (M n : Z) : expr -> Z -> Prop :=
| IR_var : 0 <= n < M -> InRange M n Var n
| IR_num z : 0 <= z < M -> InRange M n (Num z) z
| IR_not a x : InRange M n a x -> InRange M n (Not a) (c_not x)
| IR_add a b x y : InRange M n a x -> InRange M n b y -> 0 <= x + y < M -> InRange M n (Bin Add a b) (x + y)
| IR_sub a b x y : InRange M n a x -> InRange M n b y -> 0 <= x - y < M -> InRange M n (Bin Sub a b) (x - y)
| IR_mult a b x y : InRange M n a x -> InRange M n b y -> 0 <= x * y < M -> InRange M n (Bin Mult a b) (x * y)
| IR_div a b x y : InRange M n a x -> InRange M n b y -> y <> 0 -> InRange M n (Bin Div a b) (Z.quot x y)
| IR_mod a b x y : InRange M n a x -> InRange M n b y -> y <> 0 -> InRange M n (Bin Mod a b) (Z.rem x y)
| IR_cmp o a b x y : InRange M n a x -> InRange M n b y -> InRange M n (Cmp o a b) (c_cmp o x y)
| IR_and_l a b : InRange M n a 0 -> InRange M n (And a b) 0
| IR_and_r a b x y : InRange M n a x -> x <> 0 -> InRange M n b y -> InRange M n (And a b) (c_truth y)
| IR_or_l a b x : InRange M n a x -> x <> 0 -> InRange M n (Or a b) 1
| IR_or_r a b y : InRange M n a 0 -> InRange M n b y -> InRange M n (Or a b) (c_truth y)
| IR_if_t c a b t v : InRange M n c t -> t <> 0 -> InRange M n a v -> InRange M n (If c a b) v
| IR_if_f c a b v : InRange M n c 0 -> InRange M n b v -> InRange M n (If c a b) v.

(* ------------------------------------------------------------------ *)
(* The grammar of plural.y, stratified by its %right/%left table:
     %right '?'   %left '|'   %left '&'   %left EQUOP2   %left CMPOP2
     %left ADDOP2   %left MULOP2   %right '!'
   Level 0 = conditional, 1..6 = the left-associative binary levels, 7 = unary/primary. *)
Definition spec_binop (t : token) : option (nat * (expr -> expr -> expr)) :=
  match t with
  | TOr => Some (1%nat, Or)
  | TAnd => Some (2%nat, And)
  | TEq false => Some (3%nat, Cmp CEq)
  | TEq true => Some (3%nat, Cmp CNe)
  | TCmp o => Some (4%nat, Cmp o)
  | TAddSub false => Some (5%nat, Bin Add)
  | TAddSub true => Some (5%nat, Bin Sub)
  | TMulDiv o => Some (6%nat, Bin o)
  | _ => None
  end.

Inductive G : nat -> list token -> expr -> Prop :=
| G_var : G 7 [TVar] Var
| G_int z d : G 7 [TInt z d] (Num z)
| G_par ts e : G 0 ts e -> G 7 (TLpar :: ts ++ [TRpar]) e
| G_not ts e : G 7 ts e -> G 7 (TNot :: ts) (Not e)
| G_up l ts e : (l < 7)%nat -> G (S l) ts e -> G l ts e
| G_bin l t mk ts1 ts2 a b : spec_binop t = Some (l, mk) ->
    G l ts1 a -> G (S l) ts2 b -> G l (ts1 ++ t :: ts2) (mk a b)
| G_if ts1 ts2 ts3 c a b : G 1 ts1 c -> G 0 ts2 a -> G 0 ts3 b ->
    G 0 (ts1 ++ TIf :: ts2 ++ TElse :: ts3) (If c a b).

(* ------------------------------------------------------------------ *)
(* The lexer of plural.y (function yylex), transcribed clause by clause from the C text; the input
   is the sequence of characters of the C string (code points; the terminating NUL is implicit, so
   reading past the end yields 0).  The tokens of plural.y map to the token type as follows:
     NUMBER(n) -> TInt n d (d = number of digits read; plural.y does not have it, G ignores it),
     EQUOP2(equal / not_equal) -> TEq false / TEq true,  CMPOP2(op) -> TCmp op,
     ADDOP2(plus / minus) -> TAddSub false / true,  MULOP2(op) -> TMulDiv op,
     '|' '&' '!' 'n' '?' ':' '(' ')' -> TOr TAnd TNot TVar TIf TElse TLpar TRpar.
   Two deliberate idealisations, both documented in notes/C04.md:
   - NUMBER accumulates in `unsigned long` in C (wrapping at 2^W); here the value is the unbounded
     decimal value.  A constant >= 2^32 is outside the range in which C04 compares evaluation anyway
     (InRange demands every constant < M).
   - yylex returns YYEOF at ';', newline and NUL *without consuming them*, leaving arg->cp there; the
     remainder of the string is simply not read by plural.y.  The tool never passes such characters
     (the expression is cut out by `plural=([^;]+);?` from one header line), so membership in the
     plural language is defined below as: yylex/yyparse accept AND the whole string was consumed. *)

Inductive ytok := YEOF | YERR | YTOK (t : token).

(* exp[0] >= '0' && exp[0] <= '9' *)
Definition c_isdigit (c : N) : bool := ((48 <=? c) && (c <=? 57))%N.

(* while (exp[0] == ' ' || exp[0] == '\t') ++exp;   (exp[0] == '\0' ends the loop with YYEOF) *)
Fixpoint skip_blanks (s : list N) : list N :=
  match s with
  | c :: r => if ((c =? 32) || (c =? 9))%N then skip_blanks r else s
  | [] => []
  end.

(* while (exp[0] >= '0' && exp[0] <= '9') { n *= 10; n += exp[0] - '0'; ++exp; } *)
Fixpoint number (n : Z) (d : N) (s : list N) : Z * N * list N :=
  match s with
  | c :: r => if c_isdigit c then number (n * 10 + Z.of_N (c - 48)) (d + 1)%N r else (n, d, s)
  | [] => (n, d, [])
  end.

(* exp[0] of a NUL-terminated string *)
Definition peek (s : list N) : N := hd 0%N s.

(* result = *exp++; switch (result) { ... }   -- c is result, exp the string after it *)
Definition yytoken (c : N) (exp : list N) : ytok * list N :=
  (if c_isdigit c then                                     (* case '0' ... '9' *)
     let '(n, d, exp') := number (Z.of_N (c - 48)) 1%N exp in (YTOK (TInt n d), exp')
   else if c =? 61 then                                    (* '=' : must be "==" *)
     if peek exp =? 61 then (YTOK (TEq false), tl exp) else (YERR, exp)
   else if c =? 33 then                                    (* '!' : "!=" or '!' *)
     if peek exp =? 61 then (YTOK (TEq true), tl exp) else (YTOK TNot, exp)
   else if c =? 38 then                                    (* '&' : must be doubled *)
     if peek exp =? 38 then (YTOK TAnd, tl exp) else (YERR, exp)
   else if c =? 124 then                                   (* '|' : must be doubled *)
     if peek exp =? 124 then (YTOK TOr, tl exp) else (YERR, exp)
   else if c =? 60 then                                    (* '<' : "<=" or '<' *)
     if peek exp =? 61 then (YTOK (TCmp CLe), tl exp) else (YTOK (TCmp CLt), exp)
   else if c =? 62 then                                    (* '>' : ">=" or '>' *)
     if peek exp =? 61 then (YTOK (TCmp CGe), tl exp) else (YTOK (TCmp CGt), exp)
   else if c =? 42 then (YTOK (TMulDiv Mult), exp)         (* '*' *)
   else if c =? 47 then (YTOK (TMulDiv Div), exp)          (* '/' *)
   else if c =? 37 then (YTOK (TMulDiv Mod), exp)          (* '%' *)
   else if c =? 43 then (YTOK (TAddSub false), exp)        (* '+' *)
   else if c =? 45 then (YTOK (TAddSub true), exp)         (* '-' *)
   else if c =? 110 then (YTOK TVar, exp)                  (* 'n' *)
   else if c =? 63 then (YTOK TIf, exp)                    (* '?' *)
   else if c =? 58 then (YTOK TElse, exp)                  (* ':' *)
   else if c =? 40 then (YTOK TLpar, exp)                  (* '(' *)
   else if c =? 41 then (YTOK TRpar, exp)                  (* ')' *)
   else if (c =? 59) || (c =? 10) || (c =? 0) then         (* ';' '\n' '\0' : --exp; YYEOF *)
     (YEOF, c :: exp)
   else (YERR, exp))%N.                                    (* default: YYERRCODE *)

(* one call of yylex: the token and the new arg->cp *)
Definition yylex1 (s : list N) : ytok * list N :=
  match skip_blanks s with
  | [] => (YEOF, [])
  | c :: exp => yytoken c exp
  end.

(* yyparse calls yylex until YYEOF; YYERRCODE matches no production (plural.y has no error rules),
   so a token stream exists only if no call returns it.
   Yylex s ts s' : the calls on s return the tokens ts, then YYEOF with arg->cp = s'. *)
Inductive Yylex : list N -> list token -> list N -> Prop :=
| Y_eof s s' : yylex1 s = (YEOF, s') -> Yylex s [] s'
| Y_tok s t s1 ts s' : yylex1 s = (YTOK t, s1) -> Yylex s1 ts s' -> Yylex s (t :: ts) s'.

(* s is a plural expression: plural.y accepts it and has read all of it *)
Definition in_plural_language (s : list N) : Prop := exists ts e, Yylex s ts [] /\ G 0 ts e.
(* ... and its structure *)
Definition plural_tree (s : list N) (e : expr) : Prop := exists ts, Yylex s ts [] /\ G 0 ts e.

(* What plural.y accepts when it is allowed to stop early at ';', newline or NUL (its actual
   behaviour on the rest of a header field), and the strings for which there is no difference. *)
Definition plural_y_accepts (s : list N) : Prop := exists ts s' e, Yylex s ts s' /\ G 0 ts e.
Definition is_terminator (c : N) : bool := ((c =? 59) || (c =? 10) || (c =? 0))%N.
Definition no_terminator (s : list N) : Prop := forall c, In c s -> is_terminator c = false.

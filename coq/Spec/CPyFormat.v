(* Specification: CPython 3.12's str.format, written from Objects/stringlib/unicode_format.h
   (MarkupIterator_next, parse_field, field_name_split, get_integer, autonumbering, do_conversion) and
   Python/formatter_unicode.c (parse_internal_render_format_spec, format_string_internal,
   format_long_internal, format_float_internal and their dispatchers), not from i18nspector.
   Validated against string.Formatter().parse and str.format of the live interpreter by tools/harness/c13.py.

   Part A (cpy_markup) is complete: it is the iterator behind string.Formatter().parse.
   Part B (cpy_format) covers the fragment property C13 speaks about: fields whose name is empty, an index or
   a keyword (no attribute / index access) and whose format spec contains no nested field; arguments are
   ints, finite floats and strs.  Outside that fragment it answers FOutside.  Memory is not modelled. *)
From Coq Require Import List NArith ZArith Bool.
Import ListNotations.
Local Open Scope N_scope.

(* ---------------------------------------------------------------- A. markup *)
Record mfield := { m_name : list N; m_spec : list N; m_conv : option N; m_expand : bool }.
Definition mitem := (list N * option mfield)%type.        (* (literal_text, field) as yielded by Formatter.parse *)

Definition is_brace (c : N) : bool := (c =? 123) || (c =? 125).

Fixpoint span_until (p : N -> bool) (s : list N) : list N * list N :=      (* up to the first c with p c *)
  match s with
  | c :: r => if p c then ([], s) else let '(a, b) := span_until p r in (c :: a, b)
  | [] => ([], [])
  end.

(* parse_field: the scan for the end of the field name.  in_bracket: inside [ ... ] everything up to "]" is
   skipped.  Result: name, terminator, rest after the terminator; None = ValueError *)
Fixpoint scan_name (s : list N) (in_bracket : bool) (acc : list N) : option (list N * N * list N) :=
  match s with
  | [] => None                                   (* expected '}' before end of string *)
  | c :: r =>
    if in_bracket then scan_name r (negb (c =? 93)) (c :: acc)
    else if c =? 123 then None                   (* unexpected '{' in field name *)
    else if c =? 91 then
      (* for (; start < end; start++) if (ch == ']') break;  -- the "]" itself is then read as an ordinary character *)
      scan_name r true (c :: acc)
    else if (c =? 125) || (c =? 58) || (c =? 33) then Some (rev acc, c, r)
    else scan_name r false (c :: acc)
  end.

(* the format spec: up to the "}" that balances the field's "{" *)
Fixpoint scan_spec (s : list N) (count : nat) (acc : list N) (expand : bool) : option (list N * bool * list N) :=
  match s with
  | [] => None                                   (* unmatched '{' in format spec *)
  | c :: r =>
    if c =? 123 then scan_spec r (S count) (c :: acc) true
    else if c =? 125 then
      match count with
      | S (S k) => scan_spec r (S k) (c :: acc) expand
      | _ => Some (rev acc, expand, r)
      end
    else scan_spec r count (c :: acc) expand
  end.

(* s = the text after the "{" *)
Definition parse_field (s : list N) : option (mfield * list N) :=
  match scan_name s false [] with
  | None => None
  | Some (name, c, r) =>
    if c =? 125 then Some ({| m_name := name; m_spec := []; m_conv := None; m_expand := false |}, r)
    else
      (* "!" : one conversion character, then "}" or ":" *)
      let after_conv : option (option N * bool * list N) :=       (* conversion, field already closed, rest *)
        if c =? 33 then
          match r with
          | [] => None                           (* end of string while looking for conversion specifier *)
          | cv :: r1 =>
            match r1 with
            | [] => Some (Some cv, false, [])    (* falls into the format-spec scan, which then fails *)
            | c1 :: r2 => if c1 =? 125 then Some (Some cv, true, r2)
                          else if c1 =? 58 then Some (Some cv, false, r2)
                          else None              (* expected ':' after conversion specifier *)
            end
          end
        else Some (None, false, r) in
      match after_conv with
      | None => None
      | Some (cv, true, r2) => Some ({| m_name := name; m_spec := []; m_conv := cv; m_expand := false |}, r2)
      | Some (cv, false, r2) =>
        match scan_spec r2 1 [] false with
        | None => None
        | Some (spec, ex, r3) => Some ({| m_name := name; m_spec := spec; m_conv := cv; m_expand := ex |}, r3)
        end
      end
  end.

(* MarkupIterator_next, iterated: the items yielded, and whether the iteration ended normally (false = it
   raised ValueError after yielding them).  fuel only makes the recursion structural *)
Fixpoint markup_loop (fuel : nat) (s : list N) : list mitem * bool :=
  match fuel with
  | O => ([], false)
  | S fuel' =>
    match s with
    | [] => ([], true)
    | _ :: _ =>
      let '(lit, r) := span_until is_brace s in
      match r with
      | [] => ([(lit, None)], true)
      | c :: r1 =>
        match r1 with
        | [] => ([], false)                                    (* Single '}' / Single '{' encountered *)
        | c1 :: r2 =>
          if c1 =? c then                                      (* escaped brace: part of the literal *)
            let '(l, ok) := markup_loop fuel' r2 in ((lit ++ [c], None) :: l, ok)
          else if c =? 125 then ([], false)                    (* Single '}' *)
          else
            match parse_field r1 with
            | None => ([], false)
            | Some (f, r3) => let '(l, ok) := markup_loop fuel' r3 in ((lit, Some f) :: l, ok)
            end
        end
      end
    end
  end.

(* list(string.Formatter().parse(s)); None = ValueError *)
Definition cpy_markup (s : list N) : option (list mitem) :=
  let '(l, ok) := markup_loop (S (length s)) s in if ok then Some l else None.
Definition cpy_markup_ok (s : list N) : bool := snd (markup_loop (S (length s)) s).

(* ---------------------------------------------------------------- B. formatting (flat fragment) *)
Inductive bval := BInt (z : Z) | BFloat | BStr (s : list N).
Inductive fres := FSuccess | FValueError | FIndexError | FKeyError | FOverflowError | FOutside.

Definition PY_SSIZE_T_MAX : Z := 9223372036854775807.
Definition C_INT_MAX : Z := 2147483647.

Section Format.
Variable decval : N -> option N.          (* Py_UNICODE_TODECIMAL *)

(* get_integer: None = some character is not a decimal digit (or the text is empty);
   Some None = "Too many decimal digits in format string", raised as soon as the accumulator overflows *)
Fixpoint get_integer_go (s : list N) (acc : Z) : option (option Z) :=
  match s with
  | [] => Some (Some acc)
  | c :: r =>
    match decval c with
    | None => None
    | Some d => let acc' := (acc * 10 + Z.of_N d)%Z in
                if (acc' >? PY_SSIZE_T_MAX)%Z then Some None else get_integer_go r acc'
    end
  end.
Definition get_integer (s : list N) : option (option Z) :=
  match s with [] => None | _ => get_integer_go s 0 end.

(* a maximal run of decimal digits at the head: value (None = too many digits), number consumed, rest *)
Fixpoint digit_run (s : list N) (acc : Z) (n : nat) (ovf : bool) : option Z * nat * list N :=
  match s with
  | c :: r =>
    match decval c with
    | Some d => let acc' := (acc * 10 + Z.of_N d)%Z in digit_run r acc' (S n) (ovf || (acc' >? PY_SSIZE_T_MAX)%Z)
    | None => (if ovf then None else Some acc, n, s)
    end
  | [] => (if ovf then None else Some acc, n, [])
  end.

Record fspec := {
  fs_fill : option N; fs_align : option N; fs_sign : option N; fs_z : bool; fs_alt : bool;
  fs_width : option Z; fs_thousands : option N; fs_prec : option Z; fs_type : option N }.

Definition is_align (c : N) : bool := (c =? 60) || (c =? 62) || (c =? 61) || (c =? 94).

Definition take_if (p : N -> bool) (s : list N) : option N * list N :=
  match s with c :: r => if p c then (Some c, r) else (None, s) | [] => (None, s) end.
Definition is_some {A} (o : option A) : bool := match o with Some _ => true | None => false end.

(* parse_internal_render_format_spec; default_align ">" makes a bare "0" mean "=" alignment.  None = ValueError *)
Definition parse_spec (s : list N) (default_type : option N) (default_align_right : bool) : option fspec :=
  let '(fill, align, s1) :=
    match s with
    | c0 :: c1 :: r => if is_align c1 then (Some c0, Some c1, r)
                       else if is_align c0 then (None, Some c0, c1 :: r) else (None, None, s)
    | [c0] => if is_align c0 then (None, Some c0, []) else (None, None, s)
    | [] => (None, None, s)
    end in
  let '(sign, s2) := take_if (fun c => (c =? 43) || (c =? 45) || (c =? 32)) s1 in
  let '(z, s3) := take_if (N.eqb 122) s2 in
  let '(alt, s4) := take_if (N.eqb 35) s3 in
  let '(zero, s5) := match fill with Some _ => (None, s4) | None => take_if (N.eqb 48) s4 end in
  let align' := match align, zero with None, Some _ => if default_align_right then Some 61 else None | a, _ => a end in
  let '(wv, wn, s6) := digit_run s5 0 0 false in
  match wv with
  | None => None                                         (* Too many decimal digits in format string *)
  | Some w =>
    let '(th1, s7) := take_if (N.eqb 44) s6 in
    let '(th2, s8) := take_if (N.eqb 95) s7 in
    if is_some th1 && is_some th2 then None              (* Cannot specify both ',' and '_'. *)
    else
    let th := match th1 with Some c => Some c | None => th2 end in
    (* a "," after "_" is also refused *)
    if is_some th2 && (match s8 with c :: _ => c =? 44 | [] => false end) then None else
    let pr : option (option Z * list N) :=
      match s8 with
      | c :: r =>
        if c =? 46 then
          let '(pv, pn, r') := digit_run r 0 0 false in
          match pn, pv with
          | O, _ => None                                 (* Format specifier missing precision *)
          | _, None => None                              (* Too many decimal digits *)
          | _, Some p => if (p >? C_INT_MAX)%Z then None (* Precision too big *) else Some (Some p, r')
          end
        else Some (None, s8)
      | [] => Some (None, s8)
      end in
    match pr with
    | None => None
    | Some (prec, s9) =>
      match s9 with
      | _ :: _ :: _ => None                              (* Invalid format specifier *)
      | rest =>
        let ty := match rest with [c] => Some c | _ => default_type end in
        let th_ok :=
          match th with
          | None => true
          | Some t =>
            match ty with
            | None => true
            | Some c => existsb (N.eqb c) [100; 101; 102; 103; 69; 71; 37; 70] ||
                        ((t =? 95) && existsb (N.eqb c) [98; 111; 120; 88])
            end
          end in
        if th_ok then
          Some {| fs_fill := match fill with Some f => Some f | None => zero end; fs_align := align'; fs_sign := sign;
                  fs_z := is_some z; fs_alt := is_some alt; fs_width := (if Nat.eqb wn 0 then None else Some w);
                  fs_thousands := th; fs_prec := prec; fs_type := ty |}
        else None
      end
    end
  end.

Definition in_chars (c : N) (l : list N) : bool := existsb (N.eqb c) l.

(* format(value, spec) *)
Definition format_value (v : bval) (spec : list N) : fres :=
  match spec with
  | [] => FSuccess                                               (* str(value) *)
  | _ =>
    match v with
    | BStr _ =>
      match parse_spec spec (Some 115) false with
      | None => FValueError
      | Some f =>
        if negb (match fs_type f with Some c => c =? 115 | None => false end) then FValueError   (* unknown format code *)
        else if is_some (fs_sign f) || fs_z f || fs_alt f then FValueError
        else if (match fs_align f with Some a => a =? 61 | None => false end) then FValueError
        else FSuccess
      end
    | BInt z =>
      match parse_spec spec (Some 100) true with
      | None => FValueError
      | Some f =>
        match fs_type f with
        | Some c =>
          if in_chars c [98; 99; 100; 111; 120; 88; 110] then
            if is_some (fs_prec f) then FValueError                        (* Precision not allowed in integer format specifier *)
            else if fs_z f then FValueError
            else if c =? 99 then
              if is_some (fs_sign f) || fs_alt f then FValueError
              else if ((0 <=? z) && (z <? 1114112))%Z then FSuccess else FOverflowError
            else FSuccess
          else if in_chars c [101; 69; 102; 70; 103; 71; 37] then FSuccess  (* converted to float *)
          else FValueError
        | None => FValueError
        end
      end
    | BFloat =>
      match parse_spec spec None true with
      | None => FValueError
      | Some f =>
        match fs_type f with
        | None => FSuccess
        | Some c => if in_chars c [101; 69; 102; 70; 103; 71; 110; 37] then FSuccess else FValueError
        end
      end
    end
  end.

(* field_name_split on a flat name: Some (inl index) / Some (inr keyword) / auto (empty) ; compound names are outside *)
Inductive fname := NAuto | NIndex (i : option Z) | NKey (k : list N) | NCompound.
Definition split_name (name : list N) : fname :=
  if existsb (fun c => (c =? 46) || (c =? 91)) name then NCompound
  else match name with
       | [] => NAuto
       | _ => match get_integer name with Some i => NIndex i | None => NKey name end
       end.

Fixpoint key_eqb (a b : list N) : bool :=
  match a, b with
  | [], [] => true
  | x :: a', y :: b' => (x =? y) && key_eqb a' b'
  | _, _ => false
  end.
Fixpoint kw_lookup (k : list N) (kw : list (list N * bval)) : option bval :=
  match kw with
  | [] => None
  | (k0, v) :: r => if key_eqb k0 k then Some v else kw_lookup k r
  end.

Inductive autonum := ANInit | ANAuto (next : nat) | ANManual.

Fixpoint format_items (items : list mitem) (args : list bval) (kw : list (list N * bval)) (an : autonum) : fres :=
  match items with
  | [] => FSuccess
  | (_, None) :: r => format_items r args kw an
  | (_, Some f) :: r =>
    if m_expand f then FOutside else
    match split_name (m_name f) with
    | NCompound => FOutside
    | nm =>
      (* autonumbering and argument lookup *)
      let look : fres + (bval * autonum) :=
        match nm with
        | NAuto =>
          match an with
          | ANManual => inl FValueError                  (* cannot switch from manual field specification to automatic field numbering *)
          | ANInit => match nth_error args 0 with Some v => inr (v, ANAuto 1) | None => inl FIndexError end
          | ANAuto n => match nth_error args n with Some v => inr (v, ANAuto (S n)) | None => inl FIndexError end
          end
        | NIndex None => inl FValueError                 (* Too many decimal digits in format string *)
        | NIndex (Some i) =>
          match an with
          | ANAuto _ => inl FValueError                  (* cannot switch from automatic field numbering to manual field specification *)
          | _ => match nth_error args (Z.to_nat i) with Some v => inr (v, ANManual) | None => inl FIndexError end
          end
        | NKey k => match kw_lookup k kw with Some v => inr (v, an) | None => inl FKeyError end
        | NCompound => inl FOutside
        end in
      match look with
      | inl e => e
      | inr (v, an') =>
        (* conversion *)
        let cv : option bval :=
          match m_conv f with
          | None => Some v
          | Some c => if in_chars c [114; 115; 97] then Some (BStr []) else None     (* Unknown conversion specifier *)
          end in
        match cv with
        | None => FValueError
        | Some v' => match format_value v' (m_spec f) with FSuccess => format_items r args kw an' | e => e end
        end
      end
    end
  end.

(* s.format( *args, **kw ): fields are formatted as the iterator yields them, so a lookup or format error
   of an earlier field comes before the ValueError of a later malformed one *)
Definition cpy_format (s : list N) (args : list bval) (kw : list (list N * bval)) : fres :=
  let '(items, ok) := markup_loop (S (length s)) s in
  match format_items items args kw ANInit with
  | FSuccess => if ok then FSuccess else FValueError
  | e => e
  end.

Definition cpy_format_ok (s : list N) (args : list bval) (kw : list (list N * bval)) : Prop :=
  cpy_format s args kw = FSuccess.

End Format.

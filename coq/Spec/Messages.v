(* The documented conditions of the message-level tags (data/tags descriptions, property C16),
   as declarative predicates over the abstract catalog.  Written from the documentation; the only
   things shared with the model are the catalog datatype and the string constants. *)
From Coq Require Import List NArith Bool.
From I18n Require Import Model.Messages.
Import ListNotations.
Local Open Scope N_scope.

(* "the message is marked as fuzzy" *)
Definition fuzzy (e : msg_entry) : Prop := In s_fuzzy (me_flags e).
(* the header msg_entry: empty msgid and no context *)
Definition header (e : msg_entry) : Prop := me_msgid e = [] /\ me_ctxt e = None.
(* a message of the file: not obsolete (#~), not the header *)
Definition message (e : msg_entry) : Prop := me_obsolete e = false /\ ~ header e.
(* "definitions of the same message": same msgid and same msgctxt *)
Definition same_message (a b : msg_entry) : Prop := me_msgid a = me_msgid b /\ me_ctxt a = me_ctxt b.

(* the translations an msg_entry carries: a non-empty msgstr; every msgstr[N] once one of them is non-empty *)
Definition translated_plural (e : msg_entry) : Prop := exists s, In s (me_msgstr_plural e) /\ s <> [].
Definition translation (e : msg_entry) (s : list N) : Prop :=
  (s = me_msgstr e /\ s <> []) \/ (In s (me_msgstr_plural e) /\ translated_plural e).
Definition translated (e : msg_entry) : Prop := exists s, translation e s.

(* the strings whose leading / trailing newline is compared with msgid's:
   msgid_plural always; the translations unless the message is fuzzy *)
Definition considered (e : msg_entry) (s : list N) : Prop :=
  me_plural e = Some s \/ (~ fuzzy e /\ translation e s).
Definition leading_nl (s : list N) : Prop := exists r, s = 10 :: r.
Definition trailing_nl (s : list N) : Prop := exists r, s = r ++ [10].

(* "Translation is missing for some plural forms of a message" *)
Definition partially_translated (e : msg_entry) : Prop := translated_plural e /\ In [] (me_msgstr_plural e).

(* number of definitions of e's message among the first i entries of the file *)
Definition earlier_definitions (cat : list msg_entry) (i : nat) (e : msg_entry) : nat :=
  length (filter (fun e' => live e' && key_eqb (key_of e) (key_of e')) (firstn i cat)).

(* "#-#-#-#-#  <text>  #-#-#-#-#" on a line of its own *)
Definition marker_line (l : list N) : Prop := exists mid, mid <> [] /\ l = s_cm_pre ++ mid ++ s_cm_suf.

(* unusual characters: C0 except TAB LF ESC, ESC not followed by "[", DEL, C1, U+FEFF, U+FFFD, U+FFFE, U+FFFF,
   and U+00BF directly after a word character *)
Definition unusual_class (c : N) : Prop :=
  c <= 8 \/ (11 <= c /\ c <= 26) \/ (28 <= c /\ c <= 31) \/ (127 <= c /\ c <= 159)
  \/ c = 65279 \/ c = 65533 \/ c = 65534 \/ c = 65535.
Definition unusual_at (isword : N -> bool) (s : list N) (k : nat) (c : N) : Prop :=
  nth_error s k = Some c /\
  (unusual_class c
   \/ (c = 27 /\ nth_error s (S k) <> Some 91)
   \/ (c = 191 /\ exists k' p, k = S k' /\ nth_error s k' = Some p /\ isword p = true)).

(* names of the string formats, and the spelling of the flags of one format *)
Definition prefix_of (tp : ftp) : list N :=
  match tp with TpPos => [] | TpNo => s_no | TpPossible => s_possible | TpImpossible => s_impossible end.
Definition format_flag (tp : ftp) (name : list N) : list N := prefix_of tp ++ name ++ s_format.

(* The documented conditions of the message-level tags (data/tags descriptions, property C16),
   as declarative predicates over the abstract catalog.  Written from the documentation; the only
   things shared with the model are the catalog datatype and the string constants. *)
From Coq Require Import List NArith ZArith Bool.
From I18n Require Import Model.Messages.
Import ListNotations.
Local Open Scope N_scope.

(* "the message is marked as fuzzy" *)
Definition fuzzy (e : msg_entry) : Prop := In s_fuzzy (me_flags e).
(* the header msg_entry: empty msgid and no context *)
Definition header (e : msg_entry) : Prop := me_msgid e = [] /\ me_ctxt e = None.
(* a message of the file: not obsolete (#~), not the header *)
Definition message (e : msg_entry) : Prop := me_obsolete e = false /\ ~ header e.
(* "definitions of the same message": same msgid and same msgctxt *)
Definition same_message (a b : msg_entry) : Prop := me_msgid a = me_msgid b /\ me_ctxt a = me_ctxt b.

(* the translations an msg_entry carries: a non-empty msgstr; every msgstr[N] once one of them is non-empty *)
Definition translated_plural (e : msg_entry) : Prop := exists s, In s (me_msgstr_plural e) /\ s <> [].
Definition translation (e : msg_entry) (s : list N) : Prop :=
  (s = me_msgstr e /\ s <> []) \/ (In s (me_msgstr_plural e) /\ translated_plural e).
Definition translated (e : msg_entry) : Prop := exists s, translation e s.

(* the strings whose leading / trailing newline is compared with msgid's:
   msgid_plural always; the translations unless the message is fuzzy *)
Definition considered (e : msg_entry) (s : list N) : Prop :=
  me_plural e = Some s \/ (~ fuzzy e /\ translation e s).
Definition leading_nl (s : list N) : Prop := exists r, s = 10 :: r.
Definition trailing_nl (s : list N) : Prop := exists r, s = r ++ [10].

(* "Translation is missing for some plural forms of a message" *)
Definition partially_translated (e : msg_entry) : Prop := translated_plural e /\ In [] (me_msgstr_plural e).

(* number of definitions of e's message among the first i entries of the file *)
Definition earlier_definitions (cat : list msg_entry) (i : nat) (e : msg_entry) : nat :=
  length (filter (fun e' => live e' && key_eqb (key_of e) (key_of e')) (firstn i cat)).

(* "#-#-#-#-#  <text>  #-#-#-#-#" on a line of its own *)
Definition marker_line (l : list N) : Prop := exists mid, mid <> [] /\ l = s_cm_pre ++ mid ++ s_cm_suf.

(* unusual characters: C0 except TAB LF ESC, ESC not followed by "[", DEL, C1, U+FEFF, U+FFFD, U+FFFE, U+FFFF,
   and U+00BF directly after a word character *)
Definition unusual_class (c : N) : Prop :=
  c <= 8 \/ (11 <= c /\ c <= 26) \/ (28 <= c /\ c <= 31) \/ (127 <= c /\ c <= 159)
  \/ c = 65279 \/ c = 65533 \/ c = 65534 \/ c = 65535.
Definition unusual_at (isword : N -> bool) (s : list N) (k : nat) (c : N) : Prop :=
  nth_error s k = Some c /\
  (unusual_class c
   \/ (c = 27 /\ nth_error s (S k) <> Some 91)
   \/ (c = 191 /\ exists k' p, k = S k' /\ nth_error s k' = Some p /\ isword p = true)).

(* names of the string formats, and the spelling of the flags of one format *)
Definition prefix_of (tp : ftp) : list N :=
  match tp with TpPos => [] | TpNo => s_no | TpPossible => s_possible | TpImpossible => s_impossible end.
Definition format_flag (tp : ftp) (name : list N) : list N := prefix_of tp ++ name ++ s_format.

(* ------------------------------------------------------------------ *)
(* lines: the text between newlines ("^" / "$" of a MULTILINE regex)    *)
Fixpoint join_lines (ls : list (list N)) : list N :=
  match ls with
  | [] => []
  | [l] => l
  | l :: r => l ++ 10 :: join_lines r
  end.
(* ls is the division of s into lines *)
Definition lines_of (s : list N) (ls : list (list N)) : Prop :=
  ls <> [] /\ Forall (fun l => ~ In 10 l) ls /\ join_lines ls = s.
(* m is the first line of s that is a conflict marker *)
Definition first_marker_line (s m : list N) : Prop :=
  exists ls pre post, lines_of s ls /\ ls = pre ++ m :: post /\ marker_line m /\ Forall (fun l => ~ marker_line l) pre.

(* the translations in the order they are examined: msgstr, then msgstr[0], msgstr[1], ... *)
Definition translation_list (e : msg_entry) : list (list N) :=
  (match me_msgstr e with [] => [] | _ => [me_msgstr e] end)
  ++ (if existsb (fun s => match s with [] => false | _ => true end) (me_msgstr_plural e) then me_msgstr_plural e else []).

(* ------------------------------------------------------------------ *)
(* the po4a comment "type: Content of: <a><b>..." : one or more XML names in angle brackets
   (https://www.w3.org/TR/REC-xml/#NT-NameStartChar) *)
Definition xml_name_start (c : N) : Prop :=
  c = 58 \/ (65 <= c /\ c <= 90) \/ c = 95 \/ (97 <= c /\ c <= 122)
  \/ (192 <= c /\ c <= 214) \/ (216 <= c /\ c <= 246) \/ (248 <= c /\ c <= 767) \/ (880 <= c /\ c <= 893)
  \/ (895 <= c /\ c <= 8191) \/ (8204 <= c /\ c <= 8205) \/ (8304 <= c /\ c <= 8591) \/ (11264 <= c /\ c <= 12271)
  \/ (12289 <= c /\ c <= 55295) \/ (63744 <= c /\ c <= 64975) \/ (65008 <= c /\ c <= 65533) \/ (65536 <= c /\ c <= 983039).
Definition xml_name_char (c : N) : Prop :=
  xml_name_start c \/ c = 45 \/ c = 46 \/ (48 <= c /\ c <= 57) \/ c = 183 \/ (768 <= c /\ c <= 879) \/ c = 8255 \/ c = 8256.
Definition xml_name (n : list N) : Prop := exists c r, n = c :: r /\ xml_name_start c /\ Forall xml_name_char r.
Definition element_path (names : list (list N)) : list N := flat_map (fun n => 60 :: n ++ [62]) names.
Definition xml_trigger_comment (s : list N) : Prop :=
  exists names, names <> [] /\ Forall xml_name names /\ s = s_xml_trigger ++ element_path names.

(* ------------------------------------------------------------------ *)
(* unusual-character-in-translation: a character of a translation is reported unless msgid / msgid_plural
   contain it as an unusual character too ("explained"), and only where it is seen first *)
Definition explained (isword : N -> bool) (e : msg_entry) (c : N) : Prop :=
  (exists k, unusual_at isword (me_msgid e) k c) \/ (exists p k, me_plural e = Some p /\ unusual_at isword p k c).
(* c is an unexplained unusual character of the t-th translation of the j-th entry of the file *)
Definition unexplained_at (isword : N -> bool) (cat : list msg_entry) (j t : nat) (c : N) : Prop :=
  exists e s, nth_error cat j = Some e /\ message e /\ nth_error (translation_list e) t = Some s
    /\ (exists k, unusual_at isword s k c) /\ ~ explained isword e c.
Definition first_unexplained_at (isword : N -> bool) (cat : list msg_entry) (j t : nat) (c : N) : Prop :=
  unexplained_at isword cat j t c
  /\ forall j' t', (j' < j \/ (j' = j /\ t' < t))%nat -> ~ unexplained_at isword cat j' t' c.
Definition unexplained_in (isword : N -> bool) (e : msg_entry) (c : N) : Prop :=
  exists s, translation e s /\ (exists k, unusual_at isword s k c) /\ ~ explained isword e c.

(* ------------------------------------------------------------------ *)
(* flags (gettext manual, PO Files; data/tags)                          *)

(* <family><name>-format for a name of data/string-formats *)
Definition is_format_flag (names : list (list N)) (f : list N) : Prop :=
  exists tp name, In name names /\ f = format_flag tp name.
(* range:<min>..<max>, blanks allowed around the numbers *)
Definition blank (c : N) : Prop := c = 32 \/ c = 9 \/ c = 13 \/ c = 12 \/ c = 11.
Definition digit (c : N) : Prop := 48 <= c /\ c <= 57.
Definition decimal (ds : list N) : Z := fold_left (fun acc c => (acc * 10 + Z.of_N (c - 48))%Z) ds 0%Z.
Definition range_syntax (f d1 d2 : list N) : Prop :=
  exists l r, f = s_range ++ l ++ d1 ++ [46; 46] ++ d2 ++ r /\ Forall blank l /\ Forall blank r
    /\ d1 <> [] /\ d2 <> [] /\ Forall digit d1 /\ Forall digit d2.
(* "the designated range contains at least two numbers" *)
Definition valid_range (f : list N) (i j : Z) : Prop :=
  exists d1 d2, range_syntax f d1 d2 /\ i = decimal d1 /\ j = decimal d2 /\ (i < j)%Z.
Definition is_range_flag (f : list N) : Prop := exists r, f = s_range ++ r.
Definition known_flag (names : list (list N)) (f : list N) : Prop :=
  f = s_fuzzy \/ f = s_wrap \/ f = s_no_wrap \/ f = s_markdown \/ is_range_flag f \/ is_format_flag names f.

(* a flag list that breaks none of the flag rules (data/tags: unknown-, duplicate-, conflicting-, redundant-message-flag,
   invalid-range-flag, range-flag-without-plural-string).  [compatible] : the example sets of two formats intersect *)
Definition bad_pair (tp1 tp2 : ftp) : Prop :=
  (tp1 = TpPos /\ tp2 = TpNo) \/ (tp1 = TpPos /\ tp2 = TpImpossible) \/ (tp1 = TpPossible /\ tp2 = TpImpossible)
  \/ (tp1 = TpPos /\ tp2 = TpPossible).
Definition flags_clean (tbl : list (list N * list (list N))) (has_plural : bool) (F : list (list N)) : Prop :=
  NoDup F
  /\ (forall f, In f F -> known_flag (map fst tbl) f)
  /\ (forall f, In f F -> is_range_flag f -> has_plural = true /\ exists i j, valid_range f i j)
  /\ (forall f g, In f F -> In g F -> is_range_flag f -> is_range_flag g -> f = g)
  /\ ~ (In s_wrap F /\ In s_no_wrap F)
  /\ (forall n1 n2, In n1 (map fst tbl) -> In n2 (map fst tbl) -> n1 <> n2 ->
        In (format_flag TpPos n1) F -> In (format_flag TpPos n2) F -> compatible tbl n1 n2 = true)
  /\ (forall name tp1 tp2, In name (map fst tbl) -> bad_pair tp1 tp2 ->
        ~ (In (format_flag tp1 name) F /\ In (format_flag tp2 name) F)).

(* ------------------------------------------------------------------ *)
(* a catalog that violates none of the documented rules (cfg: file kind, known encoding, string-format table, oracles) *)
Definition clean_message (cfg : config) (cat : list msg_entry) (j : nat) (e : msg_entry) : Prop :=
  earlier_definitions cat j e <> 1%nat
  /\ (c_template cfg = true -> ~ translated e)
  /\ (me_previous e = true -> fuzzy e)
  /\ (forall s, considered e s -> (leading_nl s <-> leading_nl (me_msgid e)) /\ (trailing_nl s <-> trailing_nl (me_msgid e)))
  /\ (~ fuzzy e -> ~ partially_translated e)
  /\ (~ fuzzy e -> forall s m, translation e s -> ~ first_marker_line s m)
  /\ (c_encoding cfg = true -> forall s c, translation e s -> (exists k, unusual_at (c_isword cfg) s k c) -> explained (c_isword cfg) e c)
  /\ flags_clean (c_formats cfg) (match me_plural e with Some _ => true | None => false end) (me_flags e)
  /\ (c_encoding cfg = true -> xml_trigger_comment (me_comment e) ->
        (c_template cfg = true -> c_xml cfg (me_msgid e) = None)
        /\ (~ fuzzy e -> me_msgstr e <> [] -> c_xml cfg (me_msgid e) = None -> c_xml cfg (me_msgstr e) = None)).
Definition clean_catalog_decl (cfg : config) (cat : list msg_entry) : Prop :=
  ((exists e, In e cat /\ message e) \/ (c_binary cfg = true /\ c_hidden cfg = true))
  /\ forall j e, nth_error cat j = Some e -> message e -> clean_message cfg cat j e.

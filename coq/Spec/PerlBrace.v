(* What Locale::TextDomain's __x placeholders are: a string is well formed when every "{" opens a
   "{identifier}" placeholder, identifier = [^\W\d]\w* (the Unicode classes are parameters).
   perl_wf s ns : s is a concatenation of "{"-free characters and {identifier} placeholders, and ns is the
   list of those identifiers in order of occurrence. *)
From Coq Require Import List NArith.
Import ListNotations.
Local Open Scope N_scope.

Section Spec.
Variables is_w is_d : N -> bool.

Definition is_ident (n : list N) : Prop :=
  match n with
  | c :: r => is_w c = true /\ is_d c = false /\ Forall (fun x => is_w x = true) r
  | [] => False
  end.

Inductive perl_wf : list N -> list (list N) -> Prop :=
| wf_nil : perl_wf [] []
| wf_char c r ns : c <> 123 -> perl_wf r ns -> perl_wf (c :: r) ns
| wf_field n r ns : is_ident n -> perl_wf r ns -> perl_wf (123 :: n ++ 125 :: r) (n :: ns).

End Spec.

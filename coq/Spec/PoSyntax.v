(* PO syntax as GNU gettext reads it (gettext-tools po-lex / read-po, and the C rules for escape
   sequences in string literals, C99 6.4.4.4), written as a PRINTER FAMILY: every way of spelling
   a given string / catalog that the property speaks about.  Nothing here is taken from the
   Python code.

   Part 1: spelling of one string chunk (the text between the quotes of one physical line).

   A chunk is a list of pieces.  A literal piece is written as it is.  An escaped piece is a run of
   byte escapes; gettext appends the bytes to the string, which is text in the charset of the
   file, so the run denotes the text [t] those bytes decode to.  Each byte is written as a
   named escape, 1-3 octal digits, or \x with 1-2 hexadecimal digits (either case).

   The family stays out of the two places where C and the tool's host language disagree:
   - C's \x takes every following hex digit: no hex-digit character directly follows a hex escape;
   - \8 and \9 are not produced (gettext rejects them).
   It also stays out of the ambiguity "short octal escape followed by a digit" (the next literal
   character after an octal escape of fewer than three digits is not a decimal digit). *)
From Coq Require Import List NArith Bool.
Import ListNotations.
Local Open Scope N_scope.

Definition c_octal (c : N) : Prop := 48 <= c <= 55.
Definition c_decimal (c : N) : Prop := 48 <= c <= 57.
Definition c_hex (c : N) : Prop := 48 <= c <= 57 \/ 97 <= c <= 102 \/ 65 <= c <= 70.
Definition c_hexval (c : N) : N :=
  if c <=? 57 then c - 48 else if 97 <=? c then c - 87 else c - 55.

(* \n \t \b \r \f \v \a \\ \DQUOTE *)
Definition c_named : list (N * N) :=
  [(110, 10); (116, 9); (98, 8); (114, 13); (102, 12); (118, 11); (97, 7); (92, 92); (34, 34)].

Inductive item :=
| INamed (e b : N)       (* backslash e, denoting byte b *)
| IOct (d : list N)      (* backslash and octal digits *)
| IHex (d : list N).     (* backslash x and hex digits *)

Definition digits_value (base : N) (val : N -> N) (d : list N) : N :=
  fold_left (fun acc c => acc * base + val c) d 0.

Definition item_byte (i : item) : N :=
  match i with
  | INamed _ b => b
  | IOct d => digits_value 8 (fun c => c - 48) d
  | IHex d => digits_value 16 c_hexval d
  end.

Definition item_text (i : item) : list N :=
  match i with
  | INamed e _ => [92; e]
  | IOct d => 92 :: d
  | IHex d => 92 :: 120 :: d
  end.

Definition item_ok (i : item) : Prop :=
  match i with
  | INamed e b => In (e, b) c_named
  | IOct d => (1 <= length d <= 3)%nat /\ Forall c_octal d /\ item_byte i < 256
  | IHex d => (1 <= length d <= 2)%nat /\ Forall c_hex d
  end.

(* what may follow item [i] inside the same chunk: character [c] *)
Definition may_follow (i : item) (c : N) : Prop :=
  match i with
  | INamed _ _ => True
  | IOct d => (length d < 3)%nat -> ~ c_decimal c
  | IHex _ => ~ c_hex c
  end.

Inductive piece :=
| PLit (cs : list N)                   (* characters written literally *)
| PEsc (its : list item) (t : list N). (* a run of escaped bytes, and the text it denotes *)

Definition piece_text (p : piece) : list N :=
  match p with PLit cs => cs | PEsc its _ => flat_map item_text its end.
Definition piece_value (p : piece) : list N :=
  match p with PLit cs => cs | PEsc _ t => t end.

Definition chunk_text (ps : list piece) : list N := flat_map piece_text ps.
Definition chunk_value (ps : list piece) : list N := flat_map piece_value ps.

(* a character that may be written literally between the quotes *)
Definition lit_ok (c : N) : Prop := c <> 92 /\ c <> 34 /\ c <> 10.

(* the charset decoder of the file, on byte strings; None = invalid sequence *)
Definition decoder := list N -> option (list N).
Definition ascii_compatible (dec : decoder) : Prop :=
  forall b, Forall (fun c => c < 128) b -> dec b = Some b.

(* pieces alternate (adjacent escape runs are one run; its text is what the whole run decodes to) *)
Fixpoint chunk_ok (dec : decoder) (ps : list piece) : Prop :=
  match ps with
  | [] => True
  | PLit cs :: r =>
    cs <> [] /\ Forall lit_ok cs /\ match r with PLit _ :: _ => False | _ => True end /\ chunk_ok dec r
  | PEsc its t :: r =>
    its <> [] /\ Forall item_ok its /\ dec (map item_byte its) = Some t /\
    match r with
    | [] => True
    | PLit (c :: _) :: _ => may_follow (last its (INamed 0 0)) c
    | _ => False
    end /\ chunk_ok dec r
  end.

(* a string = the concatenation of its chunks (continuation lines) *)
Definition string_value (chunks : list (list piece)) : list N := flat_map chunk_value chunks.

(* ---- per-character view: each character literal, or escaped as the bytes of its encoding ---- *)
Definition cspell := list (N * option (list item)).     (* character, None = literal *)

Fixpoint pieces_of (sp : cspell) : list piece :=
  match sp with
  | [] => []
  | (c, None) :: r =>
    match pieces_of r with
    | PLit cs :: q => PLit (c :: cs) :: q
    | q => PLit [c] :: q
    end
  | (c, Some its) :: r =>
    match pieces_of r with
    | PEsc its' t :: q => PEsc (its ++ its') (c :: t) :: q
    | q => PEsc its [c] :: q
    end
  end.

Definition dflt_item : item := INamed 0 0.

(* [enc c] = the bytes of character c in the charset of the file *)
Fixpoint cspell_ok (enc : N -> list N) (sp : cspell) : Prop :=
  match sp with
  | [] => True
  | (c, None) :: r => lit_ok c /\ cspell_ok enc r
  | (c, Some its) :: r =>
    its <> [] /\ Forall item_ok its /\ map item_byte its = enc c /\
    match r with (c', None) :: _ => may_follow (last its dflt_item) c' | _ => True end /\
    cspell_ok enc r
  end.

Definition cspell_text (sp : cspell) : list N :=
  flat_map (fun x => match snd x with None => [fst x] | Some its => flat_map item_text its end) sp.

(* a stateless codec: the encoding of a string is the concatenation of the encodings of its
   characters, and decodes back *)
Definition codec_ok (enc : N -> list N) (dec : decoder) : Prop :=
  forall cs, dec (flat_map enc cs) = Some cs.

(* PO syntax as GNU gettext reads it (gettext-tools po-lex / read-po, and the C rules for escape
   sequences in string literals, C99 6.4.4.4), written as a PRINTER FAMILY: every way of spelling
   a given string / catalog that the property speaks about.  Nothing here is taken from the
   Python code.

   Part 1: spelling of one string chunk (the text between the quotes of one physical line).

   A chunk is a list of pieces.  A literal piece is written as it is.  An escaped piece is a run of
   byte escapes; gettext appends the bytes to the string, which is text in the charset of the
   file, so the run denotes the text [t] those bytes decode to.  Each byte is written as a
   named escape, 1-3 octal digits, or \x with ANY number >= 1 of hexadecimal digits (either case):
   gettext's lexer (po-lex.c, control_sequence, case 'x'), like C, takes every hex digit that
   follows and keeps the low 8 bits of the value, so \x0041 and \x41 are the byte 41, \x41BC is BC.

   Consequently a literal hex-digit character cannot directly follow a hex escape in the same
   chunk (it would be one more digit of the escape): [may_follow].  That is gettext's own rule,
   not a limit of the family.  \8 and \9 are not produced (gettext rejects them).
   The family stays out of the ambiguity "short octal escape followed by a digit" (the next literal
   character after an octal escape of fewer than three digits is not a decimal digit). *)
From Coq Require Import List NArith Bool.
Import ListNotations.
Local Open Scope N_scope.

Definition c_octal (c : N) : Prop := 48 <= c <= 55.
Definition c_decimal (c : N) : Prop := 48 <= c <= 57.
Definition c_hex (c : N) : Prop := 48 <= c <= 57 \/ 97 <= c <= 102 \/ 65 <= c <= 70.
Definition c_hexval (c : N) : N :=
  if c <=? 57 then c - 48 else if 97 <=? c then c - 87 else c - 55.

(* \n \t \b \r \f \v \a \\ \DQUOTE *)
Definition c_named : list (N * N) :=
  [(110, 10); (116, 9); (98, 8); (114, 13); (102, 12); (118, 11); (97, 7); (92, 92); (34, 34)].

Inductive item :=
| INamed (e b : N)       (* backslash e, denoting byte b *)
| IOct (d : list N)      (* backslash and octal digits *)
| IHex (d : list N).     (* backslash x and hex digits, any number of them *)

Definition digits_value (base : N) (val : N -> N) (d : list N) : N :=
  fold_left (fun acc c => acc * base + val c) d 0.

Definition item_byte (i : item) : N :=
  match i with
  | INamed _ b => b
  | IOct d => digits_value 8 (fun c => c - 48) d
  | IHex d => digits_value 16 c_hexval d mod 256     (* every digit counts; the low 8 bits are the byte *)
  end.

Definition item_text (i : item) : list N :=
  match i with
  | INamed e _ => [92; e]
  | IOct d => 92 :: d
  | IHex d => 92 :: 120 :: d
  end.

Definition item_ok (i : item) : Prop :=
  match i with
  | INamed e b => In (e, b) c_named
  | IOct d => (1 <= length d <= 3)%nat /\ Forall c_octal d /\ item_byte i < 256
  | IHex d => (1 <= length d)%nat /\ Forall c_hex d
  end.

(* what may follow item [i] inside the same chunk: character [c] *)
Definition may_follow (i : item) (c : N) : Prop :=
  match i with
  | INamed _ _ => True
  | IOct d => (length d < 3)%nat -> ~ c_decimal c
  | IHex _ => ~ c_hex c
  end.

Inductive piece :=
| PLit (cs : list N)                   (* characters written literally *)
| PEsc (its : list item) (t : list N). (* a run of escaped bytes, and the text it denotes *)

Definition piece_text (p : piece) : list N :=
  match p with PLit cs => cs | PEsc its _ => flat_map item_text its end.
Definition piece_value (p : piece) : list N :=
  match p with PLit cs => cs | PEsc _ t => t end.

Definition chunk_text (ps : list piece) : list N := flat_map piece_text ps.
Definition chunk_value (ps : list piece) : list N := flat_map piece_value ps.

(* a character that may be written literally between the quotes *)
Definition lit_ok (c : N) : Prop := c <> 92 /\ c <> 34 /\ c <> 10.

(* the charset decoder of the file, on byte strings; None = invalid sequence *)
Definition decoder := list N -> option (list N).
Definition ascii_compatible (dec : decoder) : Prop :=
  forall b, Forall (fun c => c < 128) b -> dec b = Some b.

(* pieces alternate (adjacent escape runs are one run; its text is what the whole run decodes to) *)
Fixpoint chunk_ok (dec : decoder) (ps : list piece) : Prop :=
  match ps with
  | [] => True
  | PLit cs :: r =>
    cs <> [] /\ Forall lit_ok cs /\ match r with PLit _ :: _ => False | _ => True end /\ chunk_ok dec r
  | PEsc its t :: r =>
    its <> [] /\ Forall item_ok its /\ dec (map item_byte its) = Some t /\
    match r with
    | [] => True
    | PLit (c :: _) :: _ => may_follow (last its (INamed 0 0)) c
    | _ => False
    end /\ chunk_ok dec r
  end.

(* a string = the concatenation of its chunks (continuation lines) *)
Definition string_value (chunks : list (list piece)) : list N := flat_map chunk_value chunks.

(* ---- per-character view: each character literal, or escaped as the bytes of its encoding ---- *)
Definition cspell := list (N * option (list item)).     (* character, None = literal *)

Fixpoint pieces_of (sp : cspell) : list piece :=
  match sp with
  | [] => []
  | (c, None) :: r =>
    match pieces_of r with
    | PLit cs :: q => PLit (c :: cs) :: q
    | q => PLit [c] :: q
    end
  | (c, Some its) :: r =>
    match pieces_of r with
    | PEsc its' t :: q => PEsc (its ++ its') (c :: t) :: q
    | q => PEsc its [c] :: q
    end
  end.

Definition dflt_item : item := INamed 0 0.

(* [enc c] = the bytes of character c in the charset of the file *)
Fixpoint cspell_ok (enc : N -> list N) (sp : cspell) : Prop :=
  match sp with
  | [] => True
  | (c, None) :: r => lit_ok c /\ cspell_ok enc r
  | (c, Some its) :: r =>
    its <> [] /\ Forall item_ok its /\ map item_byte its = enc c /\
    match r with (c', None) :: _ => may_follow (last its dflt_item) c' | _ => True end /\
    cspell_ok enc r
  end.

Definition cspell_text (sp : cspell) : list N :=
  flat_map (fun x => match snd x with None => [fst x] | Some its => flat_map item_text its end) sp.

(* a stateless codec: the encoding of a string is the concatenation of the encodings of its
   characters, and decodes back *)
Definition codec_ok (enc : N -> list N) (dec : decoder) : Prop :=
  forall cs, dec (flat_map enc cs) = Some cs.

(* ================================================================================================
   Part 2: catalogs and their spellings as lines.

   A spelled string is a non-empty list of chunks: the first follows its keyword, the others are
   continuation lines.  A spelled po_entry is a comment block (lines of every kind, in any order,
   previous-msgid strings included), then the message lines.  Blank lines may be inserted
   anywhere (they are added by [with_blanks]).  *)
Definition str := list N.
Definition chunk := list piece.
Definition sstring := list chunk.

Definition is_space (c : N) : Prop :=      (* what PO readers skip between tokens; the tool: str.isspace *)
  In c [9; 10; 11; 12; 13; 28; 29; 30; 31; 32; 133; 160; 5760; 8192; 8193; 8194; 8195; 8196; 8197; 8198; 8199;
        8200; 8201; 8202; 8232; 8233; 8239; 8287; 12288].

Inductive pkind := QCtxt | QId | QPlural.

Inductive cline :=
| CTrans (text : str)                                   (* #_text       translator comment *)
| CExtr (sep : N) (text : str)                          (* #._text      extracted comment *)
| CRefs (sep : N) (refs : list (str * (str * str)))     (* #:_ws file:line ws file:line ...   (ws, (file, line)) *)
| CFlags (sep : N) (items : list (str * str * str))     (* #,_pad flag pad , pad flag pad ... *)
| CPrev (k : pkind) (s : sstring).                      (* #| msgid chunk / #| chunk ...; #~| for an obsolete po_entry *)

Record sentry := mkSentry {
  s_pre : list cline;
  s_obsolete : bool;
  s_ctxt : option sstring;
  s_id : sstring;
  s_plural : option sstring;
  s_strs : list sstring          (* msgstr (exactly one) when s_plural = None, else msgstr[0] msgstr[1] ... *)
}.

Record scatalog := mkScat { sc_header : list str;        (* translator comments at the top of the file *)
                            sc_entries : list sentry }.

(* ---- the catalog a spelling denotes ---- *)
Definition join_line (acc line : str) : str := match acc with [] => line | _ => acc ++ 10 :: line end.

Record centry := mkCentry {
  c_msgctxt : option str; c_msgid : str; c_msgid_plural : option str; c_msgstr : option str;
  c_plural : list (N * str); c_obsolete : bool; c_comment : str; c_tcomment : str;
  c_refs : list (str * str); c_flags : list str;
  c_prev_ctxt : option str; c_prev_id : option str; c_prev_plural : option str }.

Definition sval (s : sstring) : str := string_value s.

Fixpoint last_prev (k : pkind) (pre : list cline) (acc : option str) : option str :=
  match pre with
  | [] => acc
  | CPrev k' s :: r =>
    last_prev k r (match k, k' with QCtxt, QCtxt | QId, QId | QPlural, QPlural => Some (sval s) | _, _ => acc end)
  | _ :: r => last_prev k r acc
  end.

Fixpoint number_from (i : N) (l : list str) : list (N * str) :=
  match l with [] => [] | x :: r => (i, x) :: number_from (i + 1) r end.

Definition entry_value (e : sentry) : centry :=
  let pre := s_pre e in
  let obs := s_obsolete e in
  mkCentry
    (option_map sval (s_ctxt e)) (sval (s_id e)) (option_map sval (s_plural e))
    (match s_plural e with None => option_map sval (hd_error (s_strs e)) | Some _ => None end)
    (match s_plural e with None => [] | Some _ => number_from 0 (map sval (s_strs e)) end)
    obs
    (fold_left join_line (flat_map (fun c => match c with CExtr _ t => [t] | _ => [] end) pre) [])
    (fold_left join_line (flat_map (fun c => match c with CTrans t => [t] | _ => [] end) pre) [])
    (flat_map (fun c => match c with CRefs _ refs => map snd refs | _ => [] end) pre)
    (flat_map (fun c => match c with CFlags _ items => map (fun x => snd (fst x)) items | _ => [] end) pre)
    (last_prev QCtxt pre None) (last_prev QId pre None) (last_prev QPlural pre None).

Definition catalog_value (c : scatalog) : str * list centry :=
  (fold_left join_line (sc_header c) [], map entry_value (sc_entries c)).

(* ---- well-formed spellings ---- *)
Definition no_space (s : str) : Prop := Forall (fun c => ~ is_space c) s.
Definition all_space (s : str) : Prop := Forall is_space s.
Definition trimmed (s : str) : Prop :=          (* no leading or trailing white space *)
  match s with [] => True | c :: _ => ~ is_space c /\ ~ is_space (last s 0) end.

Definition sstring_ok (dec : decoder) (s : sstring) : Prop := s <> [] /\ Forall (chunk_ok dec) s.

Definition ref_ok (r : str * str) : Prop :=
  let (f, l) := r in
  f <> [] /\ no_space f /\
  ((l <> [] /\ Forall c_decimal l) \/ (l = [] /\ ~ In 58 f)).

Fixpoint refs_ok (first : bool) (refs : list (str * (str * str))) : Prop :=
  match refs with
  | [] => True
  | (ws, r) :: rest => all_space ws /\ ~ In 10 ws /\ (first = false -> ws <> []) /\ ref_ok r /\ refs_ok false rest
  end.

Definition flag_item_ok (x : str * str * str) : Prop :=
  let '(pl, f, pr) := x in
  all_space pl /\ all_space pr /\ ~ In 10 pl /\ ~ In 10 pr /\ trimmed f /\ ~ In 44 f /\ ~ In 10 f.

Definition sep_ok (c : N) : Prop := is_space c /\ c <> 10.

Fixpoint flags_body (items : list (str * str * str)) : str :=
  match items with
  | [] => []
  | [(pl, f, pr)] => pl ++ f ++ pr
  | (pl, f, pr) :: r => pl ++ f ++ pr ++ 44 :: flags_body r
  end.
Definition refs_body (refs : list (str * (str * str))) : str :=
  flat_map (fun x => fst x ++ fst (snd x) ++ match snd (snd x) with [] => [] | l => 58 :: l end) refs.

Definition cline_ok (dec : decoder) (c : cline) : Prop :=
  match c with
  | CTrans t => trimmed t /\ ~ In 10 t
  | CExtr sep t => sep_ok sep /\ t <> [] /\ trimmed t /\ ~ In 10 t
  | CRefs sep refs => sep_ok sep /\ refs <> [] /\ refs_ok true refs
  | CFlags sep items => sep_ok sep /\ Forall flag_item_ok items /\
       (exists x, In x items /\ snd (fst x) <> []) /\     (* not an empty flag line *)
       ~ is_space (last (flags_body items) 0)             (* the padding at the end of a line is not part of the body *)
  | CPrev _ s => sstring_ok dec s
  end.

Definition sentry_ok (dec : decoder) (e : sentry) : Prop :=
  Forall (cline_ok dec) (s_pre e) /\
  match s_ctxt e with Some s => sstring_ok dec s | None => True end /\
  sstring_ok dec (s_id e) /\
  match s_plural e with
  | None => exists s, s_strs e = [s] /\ sstring_ok dec s
  | Some p => sstring_ok dec p /\ s_strs e <> [] /\ Forall (sstring_ok dec) (s_strs e)
  end.

(* translator comments that open the file are the header: the first po_entry's block does not begin with one *)
Definition scatalog_ok (dec : decoder) (c : scatalog) : Prop :=
  Forall (fun t => trimmed t /\ ~ In 10 t) (sc_header c) /\
  Forall (sentry_ok dec) (sc_entries c) /\
  match sc_entries c with
  | e :: _ => match s_pre e with CTrans _ :: _ => False | _ => True end /\
              match filter (fun cl => match cl with CPrev _ _ => false | _ => true end) (s_pre e) with CTrans _ :: _ => False | _ => True end
  | [] => True
  end.

(* the D9 guard: every plural index is one digit *)
Definition nplurals_le_10 (c : scatalog) : Prop :=
  Forall (fun e => (length (s_strs e) <= 10)%nat) (sc_entries c).
(* the guard for dropped previous-msgid annotations of obsolete entries *)
Definition no_obsolete_prev (c : scatalog) : Prop :=
  Forall (fun e => s_obsolete e = true -> Forall (fun cl => match cl with CPrev _ _ => False | _ => True end) (s_pre e)) (sc_entries c).

(* ================================================================================================
   Part 3: the characters of the lines.

   [render_bodies sp c] is the list of line bodies of catalog c (no padding, no line ends, no blank lines);
   [sp] holds the separators used after a keyword, after #~, after #| and between msgstr[i] and its string.
   A file of the family is obtained from the bodies by padding every line with white space on both sides
   (the line end - LF or CR LF - is part of the right padding) and inserting white-space-only lines anywhere:
   [file_of]. *)
Record seps := mkSeps { sp_kw : str; sp_obs : str; sp_prev : str; sp_mx : str }.
Definition sep_str_ok (s : str) : Prop := s <> [] /\ all_space s.
Definition seps_ok (sp : seps) : Prop :=
  sep_str_ok (sp_kw sp) /\ sep_str_ok (sp_obs sp) /\ sep_str_ok (sp_prev sp) /\ sep_str_ok (sp_mx sp).

Definition quoted_text (c : chunk) : str := 34 :: chunk_text c ++ [34].

Definition w_msgctxt : str := [109;115;103;99;116;120;116].
Definition w_msgid : str := [109;115;103;105;100].
Definition w_msgstr : str := [109;115;103;115;116;114].
Definition w_msgid_plural : str := [109;115;103;105;100;95;112;108;117;114;97;108].

(* a string: keyword line, then continuation lines; [pre] is the line prefix ("", "#~ ", "#| ", "#~| ") *)
Definition string_bodies (sp : seps) (pre kw : str) (s : sstring) : list str :=
  match s with
  | [] => []
  | c :: r => (pre ++ kw ++ sp_kw sp ++ quoted_text c) :: map (fun c' => pre ++ quoted_text c') r
  end.

Definition index_text (i : N) : str := if i <? 10 then [48 + i] else [48 + i / 10; 48 + i mod 10].
Definition plural_bodies (sp : seps) (pre : str) (i : N) (s : sstring) : list str :=
  match s with
  | [] => []
  | c :: r => (pre ++ w_msgstr ++ [91] ++ index_text i ++ [93] ++ sp_mx sp ++ quoted_text c) :: map (fun c' => pre ++ quoted_text c') r
  end.
Fixpoint plurals_bodies (sp : seps) (pre : str) (i : N) (l : list sstring) : list str :=
  match l with [] => [] | s :: r => plural_bodies sp pre i s ++ plurals_bodies sp pre (i + 1) r end.

Definition pkind_word (k : pkind) : str :=
  match k with QCtxt => w_msgctxt | QId => w_msgid | QPlural => w_msgid_plural end.

Definition cline_bodies (sp : seps) (obsolete : bool) (cl : cline) : list str :=
  match cl with
  | CTrans t => [35 :: match t with [] => [] | _ => 32 :: t end]
  | CExtr sep t => [35 :: 46 :: sep :: t]
  | CRefs sep refs => [35 :: 58 :: sep :: refs_body refs]
  | CFlags sep items => [35 :: 44 :: sep :: flags_body items]
  | CPrev k s => string_bodies sp (if obsolete then [35; 126; 124] ++ sp_prev sp else [35; 124] ++ sp_prev sp) (pkind_word k) s
  end.

Definition entry_bodies (sp : seps) (e : sentry) : list str :=
  let pre := if s_obsolete e then [35; 126] ++ sp_obs sp else [] in
  flat_map (cline_bodies sp (s_obsolete e)) (s_pre e) ++
  match s_ctxt e with Some s => string_bodies sp pre w_msgctxt s | None => [] end ++
  string_bodies sp pre w_msgid (s_id e) ++
  match s_plural e with
  | None => flat_map (string_bodies sp pre w_msgstr) (s_strs e)
  | Some pl => string_bodies sp pre w_msgid_plural pl ++ plurals_bodies sp pre 0 (s_strs e)
  end.

Definition render_bodies (sp : seps) (c : scatalog) : list str :=
  map (fun t => 35 :: match t with [] => [] | _ => 32 :: t end) (sc_header c) ++ flat_map (entry_bodies sp) (sc_entries c).

(* the physical lines of a file: padded bodies, white-space-only lines anywhere *)
Inductive file_of : list str -> list str -> Prop :=
| file_nil : file_of [] []
| file_blank bodies ws raws : all_space ws -> file_of bodies raws -> file_of bodies (ws :: raws)
| file_line body lead trail bodies raws : all_space lead -> all_space trail -> file_of bodies raws ->
    file_of (body :: bodies) ((lead ++ body ++ trail) :: raws).

(* Specification of printf format strings, written from
     ISO C99 7.19.6.1 (The fprintf function) paragraphs 3-9,
     POSIX.1-2008 fprintf() (numbered argument conversion specifications "%n$", "*m$", NL_ARGMAX, the ' flag,
       C and S),
     the glibc manual 12.12 / printf(3) (flag I; length modifiers q, Z, and L on integer conversions; %m),
     <inttypes.h> (C99 7.8.1) format macros as GNU gettext writes them in PO files: "<PRId32>" (gettext manual,
       c-format; read-c / format-c.c),
   NOT from lib/strformat/c.py.  Where the standard says the behaviour is undefined, the directive is invalid.
   The container for a parsed conversion specification is Lib/CFmtSyntax.v. *)
From Coq Require Import List NArith ZArith Bool String.
From I18n Require Import Lib.CFmtSyntax.
Import ListNotations.
Local Open Scope Z_scope.

(* ------------------------------------------------------------------ *)
(* Limits                                                               *)
Definition INT_MAX : Z := 2147483647.     (* <limits.h>, 32-bit int *)
Definition NL_ARGMAX : Z := 4096.         (* glibc <bits/xopen_lim.h>; POSIX: n of "%n$" is in [1, NL_ARGMAX] *)

(* ------------------------------------------------------------------ *)
(* Concrete syntax (C99 7.19.6.1p4: after the %, in sequence: flags, field width, precision, length modifier,
   conversion specifier; POSIX: "%n$" replaces "%", "*m$" replaces "*")                                       *)

Definition flag_characters : list N := chars "-+ #0" ++ chars "'" (* POSIX *) ++ chars "I" (* glibc 2.2 *).
Definition length_modifiers : list (list N) :=
  map chars ["hh"; "h"; "l"; "ll"; "j"; "z"; "t"; "L"]%string ++ map chars ["q" (* 4.4BSD *); "Z" (* libc5 *)]%string.
Definition conversion_specifiers : list N :=
  chars "diouxXfFeEgGaAcspn%" ++ chars "CS" (* POSIX XSI *) ++ chars "m" (* glibc *).
Definition macro_conversions : list N := chars "diouxX".          (* PRId.. PRIi.. PRIo.. PRIu.. PRIx.. PRIX.. *)
Definition macro_suffixes : list (list N) :=
  map chars ["8"; "16"; "32"; "64"; "LEAST8"; "LEAST16"; "LEAST32"; "LEAST64";
             "FAST8"; "FAST16"; "FAST32"; "FAST64"; "MAX"; "PTR"]%string.

Definition is_dec_digit (c : N) : bool := ((48 <=? c) && (c <=? 57))%N.
Definition digits (ds : list N) : bool := forallb is_dec_digit ds.
Definition nonempty {A} (l : list A) : bool := match l with [] => false | _ => true end.

(* "n$": a decimal integer followed by $ *)
Definition index_syntax (i : option (list N)) : bool :=
  match i with None => true | Some ds => nonempty ds && digits ds end.
(* field width: an asterisk or a nonnegative decimal integer; a leading 0 would be the 0 flag *)
Definition width_syntax (w : numspec) : bool :=
  match w with
  | NNone => true
  | NNum ds => match ds with c :: _ => negb (c =? 48)%N && digits ds | [] => false end
  | NStar i => index_syntax i
  end.
(* precision: a period followed by an asterisk or an optional decimal integer *)
Definition prec_syntax (p : numspec) : bool :=
  match p with NNone => true | NNum ds => digits ds | NStar i => index_syntax i end.
Definition body_syntax (b : cbody) : bool :=
  match b with
  | BStd len c => (match len with [] => true | _ => existsb (list_eqb len) length_modifiers end) && mem c conversion_specifiers
  | BMacro c len => mem c macro_conversions && existsb (list_eqb len) macro_suffixes
  end.
Definition syntax_ok (d : directive) : bool :=
  index_syntax (d_index d) && forallb (fun f => mem f flag_characters) (d_flags d) &&
  width_syntax (d_width d) && prec_syntax (d_prec d) && body_syntax (d_body d).

Definition r_dollar (i : option (list N)) : list N := match i with Some ds => ds ++ [36%N] | None => [] end.
Definition r_width (w : numspec) : list N :=
  match w with NNone => [] | NNum ds => ds | NStar i => 42%N :: r_dollar i end.
Definition r_prec (p : numspec) : list N :=
  match p with NNone => [] | NNum ds => 46%N :: ds | NStar i => 46%N :: 42%N :: r_dollar i end.
Definition r_body (b : cbody) : list N :=
  match b with
  | BStd len c => len ++ [c]
  | BMacro c len => chars "<PRI" ++ c :: len ++ [62%N]
  end.
(* the text of a conversion specification after its '%' *)
Definition render (d : directive) : list N :=
  r_dollar (d_index d) ++ d_flags d ++ r_width (d_width d) ++ r_prec (d_prec d) ++ r_body (d_body d).

(* p3: the format is composed of zero or more directives: ordinary characters (not %), copied unchanged,
   and conversion specifications *)
Inductive decomp : list N -> list directive -> Prop :=
| dc_nil : decomp [] []
| dc_char c s ds : c <> 37%N -> decomp s ds -> decomp (c :: s) ds
| dc_dir d s ds : syntax_ok d = true -> decomp s ds -> decomp (37%N :: render d ++ s) (d :: ds).

(* ------------------------------------------------------------------ *)
(* Argument types (p7 length modifiers, p8 conversion specifiers)       *)

Inductive intrank := RChar | RShort | RInt | RLong | RLLong | RMax | RSize | RPtrdiff.
Inductive fixkind := FExact | FLeast | FFast.
Inductive fixbits := B8 | B16 | B32 | B64.
Inductive ctype :=
| TInteger (signed : bool) (r : intrank)      (* signed char ... ptrdiff_t and their unsigned/signed counterparts *)
| TCountPtr (r : intrank)                     (* %n: pointer to the signed integer type of that rank *)
| TFixed (signed : bool) (k : fixkind) (b : fixbits)   (* intN_t, int_leastN_t, int_fastN_t, uintN_t ... *)
| TIntPtr (signed : bool)                     (* intptr_t, uintptr_t *)
| TDouble | TLDouble
| TChar                                       (* %c: an int that is converted to unsigned char *)
| TWint | TStr | TWStr | TVoidP.

Inductive consumption := Undefined | Nothing | Takes (t : ctype).

(* p7: hh h l ll j z t for d i o u x X and n; glibc: L and q are synonyms of ll, Z of z, for these conversions *)
Definition int_rank (len : list N) : option intrank :=
  assoc len [(chars "", RInt); (chars "hh", RChar); (chars "h", RShort); (chars "l", RLong); (chars "ll", RLLong);
             (chars "j", RMax); (chars "z", RSize); (chars "t", RPtrdiff);
             (chars "L", RLLong); (chars "q", RLLong); (chars "Z", RSize)].
Definition lift {A} (f : A -> ctype) (o : option A) : consumption :=
  match o with Some a => Takes (f a) | None => Undefined end.
Definition len_is (len : list N) (x : string) : bool := list_eqb len (chars x).

Definition macro_type (signed : bool) (len : list N) : option ctype :=
  assoc len [(chars "8", TFixed signed FExact B8); (chars "16", TFixed signed FExact B16);
             (chars "32", TFixed signed FExact B32); (chars "64", TFixed signed FExact B64);
             (chars "LEAST8", TFixed signed FLeast B8); (chars "LEAST16", TFixed signed FLeast B16);
             (chars "LEAST32", TFixed signed FLeast B32); (chars "LEAST64", TFixed signed FLeast B64);
             (chars "FAST8", TFixed signed FFast B8); (chars "FAST16", TFixed signed FFast B16);
             (chars "FAST32", TFixed signed FFast B32); (chars "FAST64", TFixed signed FFast B64);
             (chars "MAX", TInteger signed RMax); (chars "PTR", TIntPtr signed)].

Definition body_takes (b : cbody) : consumption :=
  match b with
  | BMacro c len =>
    if mem c (chars "di") then lift (fun t => t) (macro_type true len)
    else if mem c (chars "ouxX") then lift (fun t => t) (macro_type false len)
    else Undefined
  | BStd len c =>
    if mem c (chars "di") then lift (TInteger true) (int_rank len)
    else if mem c (chars "ouxX") then lift (TInteger false) (int_rank len)
    else if (c =? ch "n")%N then lift TCountPtr (int_rank len)
    else if mem c (chars "aAeEfFgG") then
      (* p7: l has no effect on a following a A e E f F g G; L: long double *)
      if len_is len "" || len_is len "l" then Takes TDouble
      else if len_is len "L" then Takes TLDouble else Undefined
    else if (c =? ch "c")%N then
      if len_is len "" then Takes TChar else if len_is len "l" then Takes TWint else Undefined
    else if (c =? ch "C")%N then if len_is len "" then Takes TWint else Undefined     (* synonym of lc *)
    else if (c =? ch "s")%N then
      if len_is len "" then Takes TStr else if len_is len "l" then Takes TWStr else Undefined
    else if (c =? ch "S")%N then if len_is len "" then Takes TWStr else Undefined     (* synonym of ls *)
    else if (c =? ch "p")%N then if len_is len "" then Takes TVoidP else Undefined
    else if (c =? ch "m")%N then if len_is len "" then Nothing else Undefined         (* strerror(errno): no argument *)
    else if (c =? ch "%")%N then if len_is len "" then Nothing else Undefined         (* the complete specification shall be %% *)
    else Undefined
  end.

Definition body_conv (b : cbody) : N := match b with BStd _ c => c | BMacro c _ => c end.

(* the spelling of the types in printf(3) *)
Definition rank_name (signed : bool) (r : intrank) : list N :=
  chars (match r, signed with
         | RChar, true => "signed char" | RChar, false => "unsigned char"
         | RShort, true => "short int" | RShort, false => "unsigned short int"
         | RInt, true => "int" | RInt, false => "unsigned int"
         | RLong, true => "long int" | RLong, false => "unsigned long int"
         | RLLong, true => "long long int" | RLLong, false => "unsigned long long int"
         | RMax, true => "intmax_t" | RMax, false => "uintmax_t"
         | RSize, true => "ssize_t" | RSize, false => "size_t"
         | RPtrdiff, true => "ptrdiff_t" | RPtrdiff, false => "[unsigned ptrdiff_t]"   (* C99 names no such type *)
         end)%string.
Definition bits_name (b : fixbits) : string := match b with B8 => "8" | B16 => "16" | B32 => "32" | B64 => "64" end.
Definition ctype_name (t : ctype) : list N :=
  match t with
  | TInteger sg r => rank_name sg r
  | TCountPtr r => rank_name true r ++ chars " *"
  | TFixed sg k b =>
    chars ((if sg then "int" else "uint") ++ (match k with FExact => "" | FLeast => "_least" | FFast => "_fast" end)
           ++ bits_name b ++ "_t")%string
  | TIntPtr sg => chars (if sg then "intptr_t" else "uintptr_t")
  | TDouble => chars "double" | TLDouble => chars "long double"
  | TChar => chars "char" | TWint => chars "wint_t"
  | TStr => chars "const char *" | TWStr => chars "const wchar_t *" | TVoidP => chars "void *"
  end.

(* ------------------------------------------------------------------ *)
(* Validity of one conversion specification                             *)

(* p6 flags.  #: o x X a A e E f F g G, "for other conversions, the behavior is undefined";
   0: d i o u x X a A e E f F g G, "for other conversions, the behavior is undefined";
   ': the decimal conversions i d u f F g G, "for other conversions the behavior is undefined" (POSIX);
   glibc >= 2.35, printf(3): m prints strerrorname_np(errno) "in the alternate form", so # is defined on m;
   - + space I: no restriction stated;  n: "if the conversion specification includes any flags, a field width,
   or a precision, the behavior is undefined";  %: "the complete conversion specification shall be %%". *)
Definition flag_allowed (c f : N) : bool :=
  if (c =? ch "n")%N || (c =? ch "%")%N then false
  else if (f =? ch "#")%N then mem c (chars "oxXaAeEfFgG") || (c =? ch "m")%N
  else if (f =? ch "0")%N then mem c (chars "diouxXaAeEfFgG")
  else if (f =? ch "'")%N then mem c (chars "idufFgG")
  else true.

Definition index_value_ok (i : option (list N)) : bool :=
  match i with None => true | Some ds => (1 <=? dec_value ds) && (dec_value ds <=? NL_ARGMAX) end.

Definition width_ok (c : N) (w : numspec) : bool :=
  match w with
  | NNone => true
  | NNum ds => (dec_value ds <=? INT_MAX) && negb (mem c (chars "n%"))
  | NStar i => index_value_ok i && negb (mem c (chars "n%"))
  end.
(* p4: precision is defined for d i o u x X, a A e E f F g G, s (and S); "if a precision appears with any other
   conversion specifier, the behavior is undefined" *)
Definition prec_ok (c : N) (p : numspec) : bool :=
  match p with
  | NNone => true
  | NNum ds => (dec_value ds <=? INT_MAX) && mem c (chars "diouxXaAeEfFgGsS")
  | NStar i => index_value_ok i && mem c (chars "diouxXaAeEfFgGsS")
  end.

Definition valid_directive (d : directive) : bool :=
  let c := body_conv (d_body d) in
  (match body_takes (d_body d) with Undefined => false | _ => true end) &&
  forallb (flag_allowed c) (d_flags d) &&
  width_ok c (d_width d) && prec_ok c (d_prec d) &&
  index_value_ok (d_index d) &&
  (match d_index d with Some _ => negb (c =? ch "%")%N | None => true end).

(* ------------------------------------------------------------------ *)
(* Arguments of a whole format                                          *)

Definition int_t : ctype := TInteger true RInt.
Definition opt_value (i : option (list N)) : option Z :=
  match i with Some ds => Some (dec_value ds) | None => None end.
(* what one conversion specification fetches, in va_arg order: the * field width, the * precision (both int),
   then the value to convert *)
Definition star_ref (w : numspec) : list (option Z * ctype) :=
  match w with NStar i => [(opt_value i, int_t)] | _ => [] end.
Definition drefs (d : directive) : list (option Z * ctype) :=
  star_ref (d_width d) ++ star_ref (d_prec d) ++
  match body_takes (d_body d) with Takes t => [(opt_value (d_index d), t)] | _ => [] end.
Definition refs (ds : list directive) : list (option Z * ctype) := flat_map drefs ds.

Definition is_none {A} (o : option A) : bool := match o with None => true | Some _ => false end.
Definition unnumbered (rs : list (option Z * ctype)) : Prop := forall r, In r rs -> fst r = None.
Definition numbered (rs : list (option Z * ctype)) : Prop := forall r, In r rs -> fst r <> None.
(* POSIX: "specifying the Nth argument requires that all the leading arguments, from the first to the (N-1)th,
   are specified in the format string" *)
Definition no_gaps (rs : list (option Z * ctype)) : Prop :=
  forall k t, In (Some k, t) rs -> forall j, 1 <= j <= k -> exists t', In (Some j, t') rs.
Definition one_type (rs : list (option Z * ctype)) : Prop :=
  forall k t1 t2, In (Some k, t1) rs -> In (Some k, t2) rs -> t1 = t2.
(* POSIX: either numbered or unnumbered specifications, not both (%% may be mixed with the "%n$" form; glibc's %m
   fetches no argument either).  The number of an unnumbered argument is its position. *)
Definition args_ok (rs : list (option Z * ctype)) : Prop :=
  (unnumbered rs /\ Z.of_nat (List.length rs) <= NL_ARGMAX) \/
  (numbered rs /\ no_gaps rs /\ one_type rs).

Definition printf_valid (s : list N) : Prop :=
  exists ds, decomp s ds /\ Forall (fun d => valid_directive d = true) ds /\ args_ok (refs ds).

(* the argument list printf consumes *)
Definition max_index (rs : list (option Z * ctype)) : Z :=
  fold_right (fun r m => match fst r with Some j => Z.max j m | None => m end) 0 rs.
Definition has_index (k : Z) (r : option Z * ctype) : bool :=
  match fst r with Some j => j =? k | None => false end.
Definition type_at (rs : list (option Z * ctype)) (k : Z) : ctype :=
  match find (has_index k) rs with Some r => snd r | None => int_t (* a gap: excluded by args_ok *) end.
Definition zseq (a : Z) (n : nat) : list Z := map (fun x => a + Z.of_nat x) (seq 0 n).
Definition signature_refs (rs : list (option Z * ctype)) : list ctype :=
  if forallb (fun r => is_none (fst r)) rs then map snd rs
  else map (type_at rs) (zseq 1 (Z.to_nat (max_index rs))).
Definition signature (ds : list directive) : list ctype := signature_refs (refs ds).

(* What the classification of a charset name is measured against (property C20), read from the oracle row of
   the name (Generated/CodecOracle.v: what the running interpreter says) and from gettext's list
   (po-charset.c: canonical names, compared without regard to ASCII case, "ISO_8859-n" accepted for "ISO-8859-n").

   usable text codec : codecs.lookup finds a codec, it is a text encoding, and decoding plain ASCII with it does
                       not raise anything but UnicodeDecodeError
   ASCII-compatible  : decoding the ASCII repertoire the tool cares about yields the same characters
   Python ships it   : a pristine interpreter (before the tool registers its own codecs) finds a codec
   gettext lists it  : the name, ASCII-lowercased and with a leading "iso_" read as "iso-", is in the list *)
From Coq Require Import NArith List Bool.
From I18n Require Import Generated.CodecOracle Model.Encodings.
Import ListNotations.

Definition asc_foreign (a : ascii_outcome) : bool :=
  match a with AscOtherError | AscNotStr => true | _ => false end.

Definition asc_same (a : ascii_outcome) : bool :=
  match a with AscSame => true | _ => false end.

Definition usable_text_codec (r : codec_row) : bool :=
  match o_tool_name r with
  | Some _ => o_is_text r && negb (asc_foreign (o_ascii r))
  | None => false
  end.

Definition python_ships (r : codec_row) : bool :=
  match o_py_name r with Some _ => true | None => false end.

Definition gettext_norm (name : list N) : list N :=
  let e := ascii_lower name in
  if starts_with s_iso_us e then s_iso_hy ++ skipn 4 e else e.

Definition gettext_lists (gettext_names : list (list N)) (name : list N) : bool :=
  mem (gettext_norm name) gettext_names.

(* The proleptic Gregorian calendar, written from the calendar rules (not from the Python code):
   - a year is a leap year iff it is divisible by 4 and (not divisible by 100 or divisible by 400);
   - months have 31, 28/29, 31, 30, 31, 30, 31, 31, 30, 31, 30, 31 days;
   - days_from_civil y m d counts the days from 0001-01-01 (= day 1) by adding whole years,
     whole months and the day of the month.
   It is proved strictly monotone for the lexicographic order on valid (y, m, d). *)
From Coq Require Import ZArith Bool Lia.
Local Open Scope Z_scope.

Definition is_leap (y : Z) : bool :=
  (y mod 4 =? 0) && (negb (y mod 100 =? 0) || (y mod 400 =? 0)).

Definition days_in_year (y : Z) : Z := if is_leap y then 366 else 365.

Definition days_in_month (y m : Z) : Z :=
  if m =? 2 then (if is_leap y then 29 else 28)
  else if (m =? 4) || (m =? 6) || (m =? 9) || (m =? 11) then 30
  else 31.

Definition valid_date (y m d : Z) : Prop :=
  1 <= y /\ 1 <= m <= 12 /\ 1 <= d <= days_in_month y m.

(* days in the years 1 .. n *)
Fixpoint days_in_years (n : nat) : Z :=
  match n with
  | O => 0
  | S k => days_in_years k + days_in_year (Z.of_nat (S k))
  end.

(* days in the months 1 .. k of year y *)
Fixpoint days_in_months (y : Z) (k : nat) : Z :=
  match k with
  | O => 0
  | S j => days_in_months y j + days_in_month y (Z.of_nat (S j))
  end.

(* 0001-01-01 is day 1 *)
Definition days_from_civil (y m d : Z) : Z :=
  days_in_years (Z.to_nat (y - 1)) + days_in_months y (Z.to_nat (m - 1)) + d.

Definition date_lt (y1 m1 d1 y2 m2 d2 : Z) : Prop :=
  y1 < y2 \/ (y1 = y2 /\ (m1 < m2 \/ (m1 = m2 /\ d1 < d2))).

(* a civil time with a UTC offset (minutes east of UTC) denotes this minute, counted from 0001-01-01T00:00Z *)
Definition instant_minutes (y m d hh mi off : Z) : Z :=
  (days_from_civil y m d - 1) * 1440 + hh * 60 + mi - off.

Definition valid_time (hh mi : Z) : Prop := 0 <= hh < 24 /\ 0 <= mi < 60.

Definition datetime_lt (y1 m1 d1 h1 i1 y2 m2 d2 h2 i2 : Z) : Prop :=
  date_lt y1 m1 d1 y2 m2 d2 \/ (y1 = y2 /\ m1 = m2 /\ d1 = d2 /\ (h1 < h2 \/ (h1 = h2 /\ i1 < i2))).

(* ------------------------------------------------------------------ *)

Lemma days_in_year_lb : forall y, 365 <= days_in_year y.
Proof. intro y. unfold days_in_year. destruct (is_leap y); lia. Qed.

Lemma days_in_month_lb : forall y m, 28 <= days_in_month y m.
Proof.
  intros y m. unfold days_in_month.
  destruct (m =? 2); [destruct (is_leap y); lia|].
  destruct ((m =? 4) || (m =? 6) || (m =? 9) || (m =? 11)); lia.
Qed.

Lemma days_in_years_mono : forall a b, (a <= b)%nat -> days_in_years a <= days_in_years b.
Proof.
  intros a b Hab. induction Hab as [|b Hab IH]; [lia|].
  cbn [days_in_years]. pose proof (days_in_year_lb (Z.of_nat (S b))). lia.
Qed.

Lemma days_in_months_mono : forall y a b, (a <= b)%nat -> days_in_months y a <= days_in_months y b.
Proof.
  intros y a b Hab. induction Hab as [|b Hab IH]; [lia|].
  cbn [days_in_months]. pose proof (days_in_month_lb y (Z.of_nat (S b))). lia.
Qed.

Lemma days_in_months_nonneg : forall y k, 0 <= days_in_months y k.
Proof. intros y k. apply (days_in_months_mono y 0 k). lia. Qed.

Lemma days_in_months_12 : forall y, days_in_months y 12 = days_in_year y.
Proof.
  intro y. unfold days_in_year. cbn [days_in_months]. unfold days_in_month.
  change (Z.of_nat 1) with 1. change (Z.of_nat 2) with 2. change (Z.of_nat 3) with 3.
  change (Z.of_nat 4) with 4. change (Z.of_nat 5) with 5. change (Z.of_nat 6) with 6.
  change (Z.of_nat 7) with 7. change (Z.of_nat 8) with 8. change (Z.of_nat 9) with 9.
  change (Z.of_nat 10) with 10. change (Z.of_nat 11) with 11. change (Z.of_nat 12) with 12.
  cbn [Z.eqb Pos.eqb orb]. destruct (is_leap y); reflexivity.
Qed.

(* the day of the year of a valid date lies within the year *)
Lemma day_of_year_bounds : forall y m d, valid_date y m d ->
  1 <= days_in_months y (Z.to_nat (m - 1)) + d <= days_in_year y.
Proof.
  intros y m d (Hy & Hm & Hd).
  pose proof (days_in_months_nonneg y (Z.to_nat (m - 1))) as H0.
  split; [lia|].
  rewrite <- days_in_months_12.
  assert (Hs : days_in_months y (S (Z.to_nat (m - 1))) = days_in_months y (Z.to_nat (m - 1)) + days_in_month y m).
  { cbn [days_in_months]. f_equal. f_equal. lia. }
  pose proof (days_in_months_mono y (S (Z.to_nat (m - 1))) 12 ltac:(lia)). lia.
Qed.

Lemma days_from_civil_year_bounds : forall y m d, valid_date y m d ->
  days_in_years (Z.to_nat (y - 1)) < days_from_civil y m d <= days_in_years (Z.to_nat y).
Proof.
  intros y m d Hv. pose proof (day_of_year_bounds y m d Hv) as Hb.
  destruct Hv as (Hy & _). unfold days_from_civil.
  assert (Hs : days_in_years (Z.to_nat y) = days_in_years (Z.to_nat (y - 1)) + days_in_year y).
  { replace (Z.to_nat y) with (S (Z.to_nat (y - 1))) by lia. cbn [days_in_years]. f_equal. f_equal. lia. }
  lia.
Qed.

Theorem days_from_civil_strict_mono : forall y1 m1 d1 y2 m2 d2,
  valid_date y1 m1 d1 -> valid_date y2 m2 d2 ->
  date_lt y1 m1 d1 y2 m2 d2 -> days_from_civil y1 m1 d1 < days_from_civil y2 m2 d2.
Proof.
  intros y1 m1 d1 y2 m2 d2 Hv1 Hv2 Hlt.
  destruct Hlt as [Hy | (Hy & [Hm | (Hm & Hd)])].
  - pose proof (days_from_civil_year_bounds _ _ _ Hv1) as H1.
    pose proof (days_from_civil_year_bounds _ _ _ Hv2) as H2.
    destruct Hv1 as (Hy1 & _).
    pose proof (days_in_years_mono (Z.to_nat y1) (Z.to_nat (y2 - 1)) ltac:(lia)). lia.
  - subst y2. unfold days_from_civil.
    destruct Hv1 as (Hy1 & Hm1 & Hd1). destruct Hv2 as (_ & Hm2 & Hd2).
    assert (Hs : days_in_months y1 (S (Z.to_nat (m1 - 1))) = days_in_months y1 (Z.to_nat (m1 - 1)) + days_in_month y1 m1).
    { cbn [days_in_months]. f_equal. f_equal. lia. }
    pose proof (days_in_months_mono y1 (S (Z.to_nat (m1 - 1))) (Z.to_nat (m2 - 1)) ltac:(lia)). lia.
  - subst y2 m2. unfold days_from_civil. lia.
Qed.

Lemma date_trichotomy : forall y1 m1 d1 y2 m2 d2,
  date_lt y1 m1 d1 y2 m2 d2 \/ (y1 = y2 /\ m1 = m2 /\ d1 = d2) \/ date_lt y2 m2 d2 y1 m1 d1.
Proof. intros. unfold date_lt. lia. Qed.

Theorem days_from_civil_lt_iff : forall y1 m1 d1 y2 m2 d2,
  valid_date y1 m1 d1 -> valid_date y2 m2 d2 ->
  (date_lt y1 m1 d1 y2 m2 d2 <-> days_from_civil y1 m1 d1 < days_from_civil y2 m2 d2).
Proof.
  intros y1 m1 d1 y2 m2 d2 Hv1 Hv2. split; [apply days_from_civil_strict_mono; assumption|].
  intro Hlt. destruct (date_trichotomy y1 m1 d1 y2 m2 d2) as [H | [(-> & -> & ->) | H]]; [assumption|lia|].
  pose proof (days_from_civil_strict_mono _ _ _ _ _ _ Hv2 Hv1 H). lia.
Qed.

Theorem days_from_civil_inj : forall y1 m1 d1 y2 m2 d2,
  valid_date y1 m1 d1 -> valid_date y2 m2 d2 ->
  days_from_civil y1 m1 d1 = days_from_civil y2 m2 d2 -> y1 = y2 /\ m1 = m2 /\ d1 = d2.
Proof.
  intros y1 m1 d1 y2 m2 d2 Hv1 Hv2 Heq.
  destruct (date_trichotomy y1 m1 d1 y2 m2 d2) as [H | [H | H]]; [|assumption|].
  - pose proof (days_from_civil_strict_mono _ _ _ _ _ _ Hv1 Hv2 H). lia.
  - pose proof (days_from_civil_strict_mono _ _ _ _ _ _ Hv2 Hv1 H). lia.
Qed.

(* at a fixed UTC offset, later civil times denote later instants, and conversely *)
Theorem instant_minutes_lt_iff : forall y1 m1 d1 h1 i1 y2 m2 d2 h2 i2 off,
  valid_date y1 m1 d1 -> valid_time h1 i1 -> valid_date y2 m2 d2 -> valid_time h2 i2 ->
  (datetime_lt y1 m1 d1 h1 i1 y2 m2 d2 h2 i2 <->
   instant_minutes y1 m1 d1 h1 i1 off < instant_minutes y2 m2 d2 h2 i2 off).
Proof.
  intros y1 m1 d1 h1 i1 y2 m2 d2 h2 i2 off Hv1 Ht1 Hv2 Ht2.
  unfold instant_minutes, datetime_lt, valid_time in *.
  pose proof (days_from_civil_lt_iff _ _ _ _ _ _ Hv1 Hv2) as Hlt.
  pose proof (days_from_civil_lt_iff _ _ _ _ _ _ Hv2 Hv1) as Hgt.
  split.
  - intros [H | (-> & -> & -> & H)]; [apply Hlt in H|]; lia.
  - intro H.
    destruct (date_trichotomy y1 m1 d1 y2 m2 d2) as [Hd | [(-> & -> & ->) | Hd]].
    + left; assumption.
    + right. repeat split; try reflexivity. lia.
    + apply Hgt in Hd. lia.
Qed.

(* one minute of civil time, or of offset, is one minute of the instant *)
Lemma instant_minutes_offset : forall y m d hh mi off1 off2,
  instant_minutes y m d hh mi off1 - instant_minutes y m d hh mi off2 = off2 - off1.
Proof. intros. unfold instant_minutes. lia. Qed.

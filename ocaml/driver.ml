(* Line protocol driver for the extracted models.
   One request per line:  <op> <arg> <arg> ...
     integer argument : decimal
     string argument  : 's' followed by comma-separated code points ("s" = empty string)
   One canonical result line per request. *)
module ZA = Z
open Model

(* ---------- conversions between decimal text / Zarith and the extracted numbers ---------- *)
let rec pos_of_z (x : ZA.t) : positive =
  if ZA.equal x ZA.one then XH
  else if ZA.testbit x 0 then XI (pos_of_z (ZA.shift_right x 1))
  else XO (pos_of_z (ZA.shift_right x 1))

let z_of_zarith (x : ZA.t) : z =
  if ZA.sign x = 0 then Z0 else if ZA.sign x > 0 then Zpos (pos_of_z x) else Zneg (pos_of_z (ZA.neg x))
let n_of_zarith (x : ZA.t) : n = if ZA.sign x = 0 then N0 else Npos (pos_of_z x)

let rec zarith_of_pos (p : positive) : ZA.t =
  (* iterative enough for our sizes: depth = bit length *)
  match p with
  | XH -> ZA.one
  | XO q -> ZA.shift_left (zarith_of_pos q) 1
  | XI q -> ZA.succ (ZA.shift_left (zarith_of_pos q) 1)
let zarith_of_z = function Z0 -> ZA.zero | Zpos p -> zarith_of_pos p | Zneg p -> ZA.neg (zarith_of_pos p)
let zarith_of_n = function N0 -> ZA.zero | Npos p -> zarith_of_pos p

let zs (x : z) = ZA.to_string (zarith_of_z x)
let ns (x : n) = ZA.to_string (zarith_of_n x)
let rec nat_of_int i = if i <= 0 then O else S (nat_of_int (i - 1))
let rec int_of_nat = function O -> 0 | S k -> 1 + int_of_nat k

let arg_z (s : string) : z = z_of_zarith (ZA.of_string s)
let arg_n (s : string) : n = n_of_zarith (ZA.of_string s)
let arg_int (s : string) : int = int_of_string s
let arg_bool (s : string) : bool = (s = "1")
let arg_str (s : string) : n list =
  if String.length s = 0 || s.[0] <> 's' then failwith ("bad string arg: " ^ s)
  else if String.length s = 1 then []
  else List.map (fun t -> n_of_zarith (ZA.of_string t))
         (String.split_on_char ',' (String.sub s 1 (String.length s - 1)))
let out_str (l : n list) : string = "s" ^ String.concat "," (List.map ns l)

let crash_name = function
  | CValueError -> "ValueError" | CTypeError -> "TypeError" | CUnboundLocal -> "UnboundLocalError"
  | CAttributeError -> "AttributeError" | CAssertion -> "AssertionError" | CIndexError -> "IndexError"
  | CKeyError -> "KeyError" | CUnicodeError -> "UnicodeError" | CRecursion -> "RecursionError"
  | COutOfFuel -> "OutOfFuel" | CNotImplemented -> "NotImplementedError"

(* ---------- intexpr ---------- *)
let binop_s = function Add -> "+" | Sub -> "-" | Mult -> "*" | Div -> "/" | Mod -> "%"
let cmpop_s = function CLt -> "<" | CLe -> "<=" | CGt -> ">" | CGe -> ">=" | CEq -> "==" | CNe -> "!="
let rec expr_s b = function
  | Var -> Buffer.add_string b "n"
  | Num z -> Buffer.add_string b (zs z)
  | Not e -> Buffer.add_string b "(! "; expr_s b e; Buffer.add_char b ')'
  | Bin (o, x, y) -> bin b (binop_s o) x y
  | Cmp (o, x, y) -> bin b (cmpop_s o) x y
  | And (x, y) -> bin b "&&" x y
  | Or (x, y) -> bin b "||" x y
  | If (c, x, y) ->
    Buffer.add_string b "(? "; expr_s b c; Buffer.add_char b ' '; expr_s b x;
    Buffer.add_char b ' '; expr_s b y; Buffer.add_char b ')'
and bin b o x y =
  Buffer.add_char b '('; Buffer.add_string b o; Buffer.add_char b ' '; expr_s b x;
  Buffer.add_char b ' '; expr_s b y; Buffer.add_char b ')'
let expr_to_string e = let b = Buffer.create 64 in expr_s b e; Buffer.contents b

let with_expr maxd s (k : expr -> string) : string =
  match parse_string maxd s with
  | Ok e -> k e
  | Err _ -> "err syntax"
  | Crash c -> "crash " ^ crash_name c

let eres_s = function
  | Ok v -> "ok " ^ zs v
  | Err EOverflow -> "err overflow"
  | Err EDivZero -> "err divzero"
  | Crash c -> "crash " ^ crash_name c

(* ---------- plural forms ---------- *)
let aerr_s = function EOverflow -> "overflow" | EDivZero -> "divzero"
let pdiag_s = function
  | DSyntax -> "syntax"
  | DLeadingJunk j -> "ljunk " ^ out_str j
  | DTrailingJunk j -> "rjunk " ^ out_str j
  | DIncorrectN (n, k) -> "incorrect-n " ^ zs n ^ " " ^ zs k
  | DUnusual -> "unusual"
  | DCodomainAt (i, fi, n) -> "codomain-at " ^ zs i ^ " " ^ zs fi ^ " " ^ zs n
  | DArith (i, k) -> "arith " ^ zs i ^ " " ^ aerr_s k
  | DNever (lo, hi) -> "never " ^ zs lo ^ " " ^ zs hi
let preimg_s = function
  | None -> "preimage none"
  | Some p -> "preimage " ^ String.concat ";" (List.map (fun (k, l) -> zs k ^ ":" ^ String.concat "," (List.map zs l)) p)

(* ---------- tags ---------- *)
let u_printable (c : n) : bool = in_ranges printable_ranges c
let arg_of kind s = match kind with
  | "safe" -> ASafe (arg_str s) | "str" -> AStr (arg_str s) | "bytes" -> ABytes (arg_str s)
  | _ -> failwith "bad arg kind"
let sev_of = function 0 -> Pedantic | 1 -> Wishlist | 2 -> Minor | 3 -> Normal | 4 -> Important | _ -> Serious
let cer_of = function 0 -> WildGuess | 1 -> Possible | _ -> Certain


(* ---------- PO loader (C10) ---------- *)
(* Oracle answers travel in the request: quadruples  kind name data answer  where kind is
   0 codecs.lookup  1 is_ascii_compatible  2 bytes.decode  3 int(ch)  4 ch.isdigit ;
   answer is 'n' (None / False) or a string.  A question that is not in the table is recorded and
   answered with a dummy; the result line then lists the missing questions. *)
let po_table : (string, n list option) Hashtbl.t = Hashtbl.create 64
let po_missing : string list ref = ref []
let po_key kind name data = string_of_int kind ^ " " ^ out_str name ^ " " ^ out_str data
let po_ask kind name data dummy =
  let k = po_key kind name data in
  match Hashtbl.find_opt po_table k with
  | Some a -> a
  | None -> (if not (List.mem k !po_missing) then po_missing := k :: !po_missing); dummy
let po_load_table (a : string array) (from : int) =
  Hashtbl.reset po_table; po_missing := [];
  let i = ref from in
  while !i + 3 < Array.length a + 0 && !i + 3 <= Array.length a - 1 do
    let k = a.(!i) ^ " " ^ a.(!i + 1) ^ " " ^ a.(!i + 2) in
    Hashtbl.replace po_table k (if a.(!i + 3) = "n" then None else Some (arg_str a.(!i + 3)));
    i := !i + 4
  done
let po_codecs () = {
  c_lookup = (fun name -> po_ask 0 name [] None <> None);
  c_ascii_compatible = (fun name -> po_ask 1 name [] None <> None);
  c_decode = (fun name b -> po_ask 2 name b (Some []));
  c_udigit = (fun c -> match po_ask 3 [] [c] None with Some [v] -> Some v | _ -> None);
  c_uisdigit = (fun c -> po_ask 4 [] [c] None <> None) }
let po_finish (r : string) =
  if !po_missing = [] then r else "miss " ^ String.concat " | " (List.rev !po_missing)
let opt_s = function None -> "n" | Some s -> out_str s
let b01 b = if b then "1" else "0"
let entry_s (e : entry) =
  String.concat ";" [
    opt_s e.e_msgctxt; out_str e.e_msgid; opt_s e.e_msgid_plural; opt_s e.e_msgstr;
    "pl=" ^ String.concat "/" (List.map (fun (k, v) -> ns k ^ ":" ^ out_str v) e.e_plural);
    b01 e.e_obsolete; out_str e.e_comment; out_str e.e_tcomment;
    "occ=" ^ String.concat "/" (List.map (fun (f, l) -> out_str f ^ ":" ^ out_str l) e.e_occ);
    "fl=" ^ String.concat "/" (List.map out_str e.e_flags);
    opt_s e.e_prev_ctxt; opt_s e.e_prev_id; opt_s e.e_prev_plural ]
let detail_s = function
  | DNone -> "-" | DUnescapedQuote -> "unescaped-quote" | DInvalidContinuation -> "invalid-continuation"
  | DUnknownKeyword k -> "unknown-keyword " ^ out_str k
let pofile_s (f : pofile) =
  "warned=" ^ b01 f.po_warned ^ " header=" ^ out_str f.po_header ^ " n=" ^ string_of_int (List.length f.po_entries)
  ^ String.concat "" (List.map (fun e -> " | " ^ entry_s e) f.po_entries)
let perr_s = function PSyntax (l, d) -> "err syntax " ^ ns l ^ " " ^ detail_s d
let sym_s = function
  | Ytc -> "tc" | Ygc -> "gc" | Yoc -> "oc" | Yfl -> "fl" | Ypc -> "pc" | Ypm -> "pm" | Ypp -> "pp"
  | Yct -> "ct" | Ymi -> "mi" | Ymp -> "mp" | Yms -> "ms" | Ymx -> "mx" | Ymc -> "mc"
let lexed_s = function
  | LBlank -> "blank"
  | LPrevObsolete -> "prev-obsolete"
  | LLine (o, h, a) -> "line " ^ b01 o ^ " " ^ b01 h ^ " " ^
    (match a with ASkip -> "skip" | AFail d -> "fail " ^ detail_s d | AProc (y, c) -> "proc " ^ sym_s y ^ " " ^ out_str c)

(* ---------- dispatch ---------- *)
let handle (op : string) (a : string array) : string =
  match op with
  | "parse" -> with_expr (arg_n a.(0)) (arg_str a.(1)) (fun e -> "ok " ^ expr_to_string e)
  | "eval" ->  (* maxd M n str *)
    with_expr (arg_n a.(0)) (arg_str a.(3)) (fun e -> eres_s (pyeval (arg_z a.(1)) e (arg_z a.(2))))
  | "codomain" -> (* maxd M str *)
    with_expr (arg_n a.(0)) (arg_str a.(2)) (fun e ->
      match codomain (arg_z a.(1)) e with
      | CNone -> "ok none" | CSome (l, r) -> "ok " ^ zs l ^ " " ^ zs r | CAssert -> "crash AssertionError")
  | "period" ->
    with_expr (arg_n a.(0)) (arg_str a.(2)) (fun e ->
      match period (arg_z a.(1)) e with
      | None -> "ok none" | Some (o, p) -> "ok " ^ zs o ^ " " ^ zs p)
  | "pfparse" -> (* maxd str *)
    (match parse_plural_forms (arg_n a.(0)) (arg_str a.(1)) with
     | Ok (((n, e), l), r) -> "ok " ^ zs n ^ " " ^ expr_to_string e ^ " " ^ out_str l ^ " " ^ out_str r
     | Err _ -> "err syntax"
     | Crash c -> "crash " ^ crash_name c)
  | "plurals" -> (* maxd has_plurals nexp exp... ncorrect(-1 = None) correct... value *)
    let maxd = arg_n a.(0) in
    let hp = arg_bool a.(1) in
    let nexp = arg_int a.(2) in
    let exps = List.init nexp (fun i -> arg_z a.(3 + i)) in
    let nc = arg_int a.(3 + nexp) in
    let base = 4 + nexp in
    let correct = if nc < 0 then None else Some (List.init nc (fun i -> arg_str a.(base + i))) in
    let value = arg_str a.(base + (max nc 0)) in
    (match check_plurals_core maxd { pf_value = value; pf_has_plurals = hp; pf_expected = exps; pf_correct = correct } with
     | Ok (ds, pre) -> String.concat " | " (List.map pdiag_s ds @ [preimg_s pre])
     | Err _ -> "crash PluralFormsSyntaxError"
     | Crash c -> "crash " ^ crash_name c)
  | "escape" -> out_str (escape u_printable (arg_of a.(0) a.(1)))
  | "fmtline" -> (* sev cer target name on off nargs (kind str)* *)
    let prio = priority (sev_of (arg_int a.(0))) (cer_of (arg_int a.(1))) in
    let nargs = arg_int a.(6) in
    let extra = List.init nargs (fun i -> arg_of a.(7 + 2 * i) a.(8 + 2 * i)) in
    out_str (format_line u_printable prio (arg_str a.(2)) (arg_str a.(3)) (arg_str a.(4)) (arg_str a.(5)) extra)
  | "po_isspace" -> b01 (py_isspace (arg_n a.(0)))
  | "po_unescape" -> (* str, then the oracle table; the codec is asked under the name s *)
    po_load_table a 1;
    po_finish (match unescape (fun b -> po_ask 2 [] b (Some [])) (arg_str a.(0)) with
     | Ok (t, w) -> "ok " ^ out_str t ^ " " ^ b01 w
     | Err EDecode -> "err decode"
     | Crash c -> "crash " ^ crash_name c)
  | "po_lex" -> lexed_s (lex_line (arg_bool a.(0)) (arg_str a.(1)))
  | "po_open" -> String.concat " " (List.map out_str (codecs_open_text (arg_str a.(0))))
  | "po_detect" -> po_load_table a 1;
    po_finish (out_str (detect_encoding (fun name -> po_ask 0 name [] None <> None) (arg_str a.(0))))
  | "po_load" -> po_load_table a 1;
    po_finish (match load_po (po_codecs ()) (arg_str a.(0)) with
     | Ok (l, broken) -> "ok enc=" ^ out_str l.l_encoding ^ " broken=" ^ b01 broken ^ " " ^ pofile_s l.l_file
     | Err LDecode -> "err decode"
     | Err (LSyntax e) -> perr_s e
     | Crash c -> "crash " ^ crash_name c)
  | _ -> "unknown-op " ^ op

let () =
  try
    while true do
      let line = input_line stdin in
      let parts = List.filter (fun s -> s <> "") (String.split_on_char ' ' line) in
      (match parts with
       | [] -> print_endline ""
       | op :: args ->
         let r = try handle op (Array.of_list args)
           with Stack_overflow -> "driver-stack-overflow"
              | e -> "driver-exception " ^ Printexc.to_string e in
         print_endline r)
    done
  with End_of_file -> ()

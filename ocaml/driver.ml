(* Line protocol driver for the extracted models.
   One request per line:  <op> <arg> <arg> ...
     integer argument : decimal
     string argument  : 's' followed by comma-separated code points ("s" = empty string)
   One canonical result line per request. *)
module ZA = Z
open Model

(* ---------- conversions between decimal text / Zarith and the extracted numbers ---------- *)
let rec pos_of_z (x : ZA.t) : positive =
  if ZA.equal x ZA.one then XH
  else if ZA.testbit x 0 then XI (pos_of_z (ZA.shift_right x 1))
  else XO (pos_of_z (ZA.shift_right x 1))

let z_of_zarith (x : ZA.t) : z =
  if ZA.sign x = 0 then Z0 else if ZA.sign x > 0 then Zpos (pos_of_z x) else Zneg (pos_of_z (ZA.neg x))
let n_of_zarith (x : ZA.t) : n = if ZA.sign x = 0 then N0 else Npos (pos_of_z x)

let rec zarith_of_pos (p : positive) : ZA.t =
  (* iterative enough for our sizes: depth = bit length *)
  match p with
  | XH -> ZA.one
  | XO q -> ZA.shift_left (zarith_of_pos q) 1
  | XI q -> ZA.succ (ZA.shift_left (zarith_of_pos q) 1)
let zarith_of_z = function Z0 -> ZA.zero | Zpos p -> zarith_of_pos p | Zneg p -> ZA.neg (zarith_of_pos p)
let zarith_of_n = function N0 -> ZA.zero | Npos p -> zarith_of_pos p

let zs (x : z) = ZA.to_string (zarith_of_z x)
let ns (x : n) = ZA.to_string (zarith_of_n x)
let rec nat_of_int i = if i <= 0 then O else S (nat_of_int (i - 1))
let rec int_of_nat = function O -> 0 | S k -> 1 + int_of_nat k

let arg_z (s : string) : z = z_of_zarith (ZA.of_string s)
let arg_n (s : string) : n = n_of_zarith (ZA.of_string s)
let arg_int (s : string) : int = int_of_string s
let arg_bool (s : string) : bool = (s = "1")
let arg_str (s : string) : n list =
  if String.length s = 0 || s.[0] <> 's' then failwith ("bad string arg: " ^ s)
  else if String.length s = 1 then []
  else List.map (fun t -> n_of_zarith (ZA.of_string t))
         (String.split_on_char ',' (String.sub s 1 (String.length s - 1)))
let out_str (l : n list) : string = "s" ^ String.concat "," (List.map ns l)

let crash_name = function
  | CValueError -> "ValueError" | CTypeError -> "TypeError" | CUnboundLocal -> "UnboundLocalError"
  | CAttributeError -> "AttributeError" | CAssertion -> "AssertionError" | CIndexError -> "IndexError"
  | CKeyError -> "KeyError" | CUnicodeError -> "UnicodeError" | CRecursion -> "RecursionError"
  | COutOfFuel -> "OutOfFuel" | CNotImplemented -> "NotImplementedError"

(* ---------- intexpr ---------- *)
let binop_s = function Add -> "+" | Sub -> "-" | Mult -> "*" | Div -> "/" | Mod -> "%"
let cmpop_s = function CLt -> "<" | CLe -> "<=" | CGt -> ">" | CGe -> ">=" | CEq -> "==" | CNe -> "!="
let rec expr_s b = function
  | Var -> Buffer.add_string b "n"
  | Num z -> Buffer.add_string b (zs z)
  | Not e -> Buffer.add_string b "(! "; expr_s b e; Buffer.add_char b ')'
  | Bin (o, x, y) -> bin b (binop_s o) x y
  | Cmp (o, x, y) -> bin b (cmpop_s o) x y
  | And (x, y) -> bin b "&&" x y
  | Or (x, y) -> bin b "||" x y
  | If (c, x, y) ->
    Buffer.add_string b "(? "; expr_s b c; Buffer.add_char b ' '; expr_s b x;
    Buffer.add_char b ' '; expr_s b y; Buffer.add_char b ')'
and bin b o x y =
  Buffer.add_char b '('; Buffer.add_string b o; Buffer.add_char b ' '; expr_s b x;
  Buffer.add_char b ' '; expr_s b y; Buffer.add_char b ')'
let expr_to_string e = let b = Buffer.create 64 in expr_s b e; Buffer.contents b

let with_expr maxd s (k : expr -> string) : string =
  match parse_string maxd s with
  | Ok e -> k e
  | Err _ -> "err syntax"
  | Crash c -> "crash " ^ crash_name c

let eres_s = function
  | Ok v -> "ok " ^ zs v
  | Err EOverflow -> "err overflow"
  | Err EDivZero -> "err divzero"
  | Crash c -> "crash " ^ crash_name c

(* ---------- plural forms ---------- *)
let aerr_s = function EOverflow -> "overflow" | EDivZero -> "divzero"
let pdiag_s = function
  | DSyntax -> "syntax"
  | DLeadingJunk j -> "ljunk " ^ out_str j
  | DTrailingJunk j -> "rjunk " ^ out_str j
  | DIncorrectN (n, k) -> "incorrect-n " ^ zs n ^ " " ^ zs k
  | DUnusual -> "unusual"
  | DCodomainAt (i, fi, n) -> "codomain-at " ^ zs i ^ " " ^ zs fi ^ " " ^ zs n
  | DArith (i, k) -> "arith " ^ zs i ^ " " ^ aerr_s k
  | DNever (lo, hi) -> "never " ^ zs lo ^ " " ^ zs hi
let preimg_s = function
  | None -> "preimage none"
  | Some p -> "preimage " ^ String.concat ";" (List.map (fun (k, l) -> zs k ^ ":" ^ String.concat "," (List.map zs l)) p)

(* ---------- format strings ---------- *)
let rec ints_of_str (l : n list) : int list = List.map (fun x -> ZA.to_int (zarith_of_n x)) l
let out_ints (l : int list) : string = "s" ^ String.concat "," (List.map string_of_int l)
let perl_item_s = function PLit t -> "L" ^ out_str t | PField n -> "F" ^ out_str n
let perl_res_s (r : (pitem list, perl_err) outcome) : string =
  match r with
  | Ok its ->
    let names = List.sort_uniq compare (List.map ints_of_str (names_of its)) in
    "ok " ^ String.concat " " (List.map perl_item_s its) ^ " | " ^ String.concat " " (List.map out_ints names)
  | Err p -> "err Error " ^ out_str p   (* perl_err is extracted as its single field *)
  | Crash c -> "crash " ^ crash_name c

(* python %-format *)
let ptype_s = function TyInt -> "int" | TyFloat -> "float" | TyChr -> "chr" | TyStr -> "str" | TyObject -> "object" | TyNone -> "None"
let seqarg_s = function SVarWidth -> "*w" | SVarPrec -> "*p" | SConv t -> ptype_s t
let pywarn_s = function
  | WFlag a -> "F" ^ String.concat "." (List.map ns a)
  | WPrec -> "P" | WLength c -> "L" ^ ns c | WObsolete -> "O"
let pyerr_s = function
  | EError r -> "Error " ^ out_str r | EForbiddenKey -> "ForbiddenArgumentKey" | EMixture -> "ArgumentIndexingMixture"
  | ETypeMismatch -> "ArgumentTypeMismatch" | EWidthRange -> "WidthRangeError" | EPrecRange -> "PrecisionRangeError"
let fmtpy_res_s = function
  | Ok sg ->
    "ok S:" ^ String.concat "," (List.map seqarg_s sg.seq_arguments)
    ^ " M:" ^ String.concat ";" (List.map (fun (k, ts) -> out_str k ^ "=" ^ String.concat "+" (List.map ptype_s ts)) sg.map_arguments)
    ^ " W:" ^ String.concat ";" (List.map pywarn_s sg.warnings)
  | Err e -> "err " ^ pyerr_s e
  | Crash c -> "crash " ^ crash_name c
let static_s = function SIncompleteKey -> "key" | SIncompleteFormat -> "format" | SWidthTooBig -> "width" | SPrecTooBig -> "prec"
let event_s = function
  | EvNeedMapping -> "NM" | EvLookup k -> "LK" ^ out_str k | EvStarWidth -> "SW" | EvStarPrec -> "SP"
  | EvConv c -> "C" ^ ns c | EvPercent b -> if b then "P1" else "P0" | EvUnsupported c -> "U" ^ ns c
  | EvStatic e -> "X" ^ static_s e
let cres_s = function RSuccess -> "Success" | RValueError -> "ValueError" | RTypeError -> "TypeError"
  | RKeyError -> "KeyError" | ROverflowError -> "OverflowError"
(* values in prefix notation over the argument array: i<z> f n s<codes> T <n> v... D <n> s<key> v ... *)
let rec arg_val (a : string array) (i : int) : pyval * int =
  let t = a.(i) in
  match t.[0] with
  | 'i' -> (VInt (arg_z (String.sub t 1 (String.length t - 1))), i + 1)
  | 'f' -> (VFloat, i + 1)
  | 'n' -> (VNone, i + 1)
  | 's' -> (VStr (arg_str t), i + 1)
  | 'T' -> let n = arg_int a.(i + 1) in
    let rec go k j acc = if k = 0 then (List.rev acc, j) else let (v, j') = arg_val a j in go (k - 1) j' (v :: acc) in
    let (l, j) = go n (i + 2) [] in (VTuple l, j)
  | 'D' -> let n = arg_int a.(i + 1) in
    let rec go k j acc = if k = 0 then (List.rev acc, j) else
        let key = arg_str a.(j) in let (v, j') = arg_val a (j + 1) in go (k - 1) j' ((key, v) :: acc) in
    let (l, j) = go n (i + 2) [] in (VDict l, j)
  | _ -> failwith ("bad value " ^ t)

(* python brace format *)
let tset_s (t : tset) = String.concat "+" (List.filter (fun x -> x <> "")
  [(if t.t_str then "str" else ""); (if t.t_int then "int" else ""); (if t.t_float then "float" else "")])
let akey_s = function KNum n -> "N" ^ zs n | KName s -> "S" ^ out_str s
let pberr_s = function
  | BError p -> "Error " ^ out_str p | BFieldError t -> "Error " ^ out_str t | BConversionError -> "ConversionError"
  | BFormatError -> "FormatError" | BFormatTypeMismatch -> "FormatTypeMismatch"
  | BNumberingMixture -> "ArgumentNumberingMixture" | BRangeError -> "ArgumentRangeError" | BTypeMismatch -> "ArgumentTypeMismatch"
let pybrace_res_s = function
  | Ok (sg : pb_sig) -> "ok " ^ String.concat ";" (List.map (fun (k, (t, n)) -> akey_s k ^ "=" ^ tset_s t ^ "x" ^ string_of_int (int_of_nat n)) sg)
  | Err e -> "err " ^ pberr_s e
  | Crash c -> "crash " ^ crash_name c
let optn_s = function None -> "-" | Some c -> ns c
let mitem_s ((lit, f) : mitem) = match f with
  | None -> "L" ^ out_str lit
  | Some f -> "F" ^ out_str lit ^ ":" ^ out_str f.m_name ^ ":" ^ out_str f.m_spec ^ ":" ^ optn_s f.m_conv
let fres_s = function FSuccess -> "Success" | FValueError -> "ValueError" | FIndexError -> "IndexError"
  | FKeyError -> "KeyError" | FOverflowError -> "OverflowError" | FOutside -> "Outside"
let bval_of (t : string) : bval = match t.[0] with
  | 'i' -> BInt (arg_z (String.sub t 1 (String.length t - 1)))
  | 'f' -> BFloat
  | 's' -> BStr (arg_str t)
  | _ -> failwith ("bad bval " ^ t)

(* ---------- dispatch ---------- *)
let handle (op : string) (a : string array) : string =
  match op with
  | "parse" -> with_expr (arg_n a.(0)) (arg_str a.(1)) (fun e -> "ok " ^ expr_to_string e)
  | "eval" ->  (* maxd M n str *)
    with_expr (arg_n a.(0)) (arg_str a.(3)) (fun e -> eres_s (pyeval (arg_z a.(1)) e (arg_z a.(2))))
  | "codomain" -> (* maxd M str *)
    with_expr (arg_n a.(0)) (arg_str a.(2)) (fun e ->
      match codomain (arg_z a.(1)) e with
      | CNone -> "ok none" | CSome (l, r) -> "ok " ^ zs l ^ " " ^ zs r | CAssert -> "crash AssertionError")
  | "period" ->
    with_expr (arg_n a.(0)) (arg_str a.(2)) (fun e ->
      match period (arg_z a.(1)) e with
      | None -> "ok none" | Some (o, p) -> "ok " ^ zs o ^ " " ^ zs p)
  | "pfparse" -> (* maxd str *)
    (match parse_plural_forms (arg_n a.(0)) (arg_str a.(1)) with
     | Ok (((n, e), l), r) -> "ok " ^ zs n ^ " " ^ expr_to_string e ^ " " ^ out_str l ^ " " ^ out_str r
     | Err _ -> "err syntax"
     | Crash c -> "crash " ^ crash_name c)
  | "plurals" -> (* maxd has_plurals nexp exp... ncorrect(-1 = None) correct... value *)
    let maxd = arg_n a.(0) in
    let hp = arg_bool a.(1) in
    let nexp = arg_int a.(2) in
    let exps = List.init nexp (fun i -> arg_z a.(3 + i)) in
    let nc = arg_int a.(3 + nexp) in
    let base = 4 + nexp in
    let correct = if nc < 0 then None else Some (List.init nc (fun i -> arg_str a.(base + i))) in
    let value = arg_str a.(base + (max nc 0)) in
    (match check_plurals_core maxd { pf_value = value; pf_has_plurals = hp; pf_expected = exps; pf_correct = correct } with
     | Ok (ds, pre) -> String.concat " | " (List.map pdiag_s ds @ [preimg_s pre])
     | Err _ -> "crash PluralFormsSyntaxError"
     | Crash c -> "crash " ^ crash_name c)
  | "perlbrace" -> perl_res_s (fst (perl_parse_ucd (arg_str a.(0))))
  | "perlsteps" -> string_of_int (int_of_nat (snd (perl_parse_ucd (arg_str a.(0)))))
  | "fmtpy" -> fmtpy_res_s (fmtpy_parse_gen (arg_str a.(0)))
  | "cpysyn" -> let s = arg_str a.(0) in
    (if cpy_syntax_error s then "syn=1" else "syn=0") ^ (if plain_percents s then " plain=1" else " plain=0")
    ^ " " ^ String.concat " " (List.map event_s (cpy_events s))
  | "cpyfmt" -> cres_s (cpy_format (arg_str a.(0)) (fst (arg_val a 1)))
  | "pybrace" -> pybrace_res_s (pybrace_parse_gen (arg_str a.(0)))
  | "cpymarkup" -> (match cpy_markup (arg_str a.(0)) with
                    | None -> "err"
                    | Some l -> "ok " ^ String.concat " " (List.map mitem_s l))
  | "cpybrace" -> (* str nargs v... nkw key v ... *)
    let n = arg_int a.(1) in
    let args = List.init n (fun i -> bval_of a.(2 + i)) in
    let nk = arg_int a.(2 + n) in
    let kw = List.init nk (fun i -> (arg_str a.(3 + n + 2 * i), bval_of a.(4 + n + 2 * i))) in
    fres_s (cpy_format0 re_d_value (arg_str a.(0)) args kw)
  | _ -> "unknown-op " ^ op

let () =
  try
    while true do
      let line = input_line stdin in
      let parts = List.filter (fun s -> s <> "") (String.split_on_char ' ' line) in
      (match parts with
       | [] -> print_endline ""
       | op :: args ->
         let r = try handle op (Array.of_list args)
           with Stack_overflow -> "driver-stack-overflow"
              | e -> "driver-exception " ^ Printexc.to_string e in
         print_endline r)
    done
  with End_of_file -> ()

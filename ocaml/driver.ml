(* Line protocol driver for the extracted models.
   One request per line:  <op> <arg> <arg> ...
     integer argument : decimal
     string argument  : 's' followed by comma-separated code points ("s" = empty string)
   One canonical result line per request. *)
module ZA = Z
open Model

(* ---------- conversions between decimal text / Zarith and the extracted numbers ---------- *)
let rec pos_of_z (x : ZA.t) : positive =
  if ZA.equal x ZA.one then XH
  else if ZA.testbit x 0 then XI (pos_of_z (ZA.shift_right x 1))
  else XO (pos_of_z (ZA.shift_right x 1))

let z_of_zarith (x : ZA.t) : z =
  if ZA.sign x = 0 then Z0 else if ZA.sign x > 0 then Zpos (pos_of_z x) else Zneg (pos_of_z (ZA.neg x))
let n_of_zarith (x : ZA.t) : n = if ZA.sign x = 0 then N0 else Npos (pos_of_z x)

let rec zarith_of_pos (p : positive) : ZA.t =
  (* iterative enough for our sizes: depth = bit length *)
  match p with
  | XH -> ZA.one
  | XO q -> ZA.shift_left (zarith_of_pos q) 1
  | XI q -> ZA.succ (ZA.shift_left (zarith_of_pos q) 1)
let zarith_of_z = function Z0 -> ZA.zero | Zpos p -> zarith_of_pos p | Zneg p -> ZA.neg (zarith_of_pos p)
let zarith_of_n = function N0 -> ZA.zero | Npos p -> zarith_of_pos p

let zs (x : z) = ZA.to_string (zarith_of_z x)
let ns (x : n) = ZA.to_string (zarith_of_n x)
let rec nat_of_int i = if i <= 0 then O else S (nat_of_int (i - 1))
let rec int_of_nat = function O -> 0 | S k -> 1 + int_of_nat k

let arg_z (s : string) : z = z_of_zarith (ZA.of_string s)
let arg_n (s : string) : n = n_of_zarith (ZA.of_string s)
let arg_int (s : string) : int = int_of_string s
let arg_bool (s : string) : bool = (s = "1")
let arg_str (s : string) : n list =
  if String.length s = 0 || s.[0] <> 's' then failwith ("bad string arg: " ^ s)
  else if String.length s = 1 then []
  else List.map (fun t -> n_of_zarith (ZA.of_string t))
         (String.split_on_char ',' (String.sub s 1 (String.length s - 1)))
let out_str (l : n list) : string = "s" ^ String.concat "," (List.map ns l)

let crash_name = function
  | CValueError -> "ValueError" | CTypeError -> "TypeError" | CUnboundLocal -> "UnboundLocalError"
  | CAttributeError -> "AttributeError" | CAssertion -> "AssertionError" | CIndexError -> "IndexError"
  | CKeyError -> "KeyError" | CUnicodeError -> "UnicodeError" | CRecursion -> "RecursionError"
  | COutOfFuel -> "OutOfFuel" | CNotImplemented -> "NotImplementedError"
  | COSError -> "OSError" | CLookupError -> "LookupError"

(* ---------- intexpr ---------- *)
let binop_s = function Add -> "+" | Sub -> "-" | Mult -> "*" | Div -> "/" | Mod -> "%"
let cmpop_s = function CLt -> "<" | CLe -> "<=" | CGt -> ">" | CGe -> ">=" | CEq -> "==" | CNe -> "!="
let rec expr_s b = function
  | Var -> Buffer.add_string b "n"
  | Num z -> Buffer.add_string b (zs z)
  | Not e -> Buffer.add_string b "(! "; expr_s b e; Buffer.add_char b ')'
  | Bin (o, x, y) -> bin b (binop_s o) x y
  | Cmp (o, x, y) -> bin b (cmpop_s o) x y
  | And (x, y) -> bin b "&&" x y
  | Or (x, y) -> bin b "||" x y
  | If (c, x, y) ->
    Buffer.add_string b "(? "; expr_s b c; Buffer.add_char b ' '; expr_s b x;
    Buffer.add_char b ' '; expr_s b y; Buffer.add_char b ')'
and bin b o x y =
  Buffer.add_char b '('; Buffer.add_string b o; Buffer.add_char b ' '; expr_s b x;
  Buffer.add_char b ' '; expr_s b y; Buffer.add_char b ')'
let expr_to_string e = let b = Buffer.create 64 in expr_s b e; Buffer.contents b

let with_expr maxd s (k : expr -> string) : string =
  match parse_string maxd s with
  | Ok e -> k e
  | Err _ -> "err syntax"
  | Crash c -> "crash " ^ crash_name c

let eres_s = function
  | Ok v -> "ok " ^ zs v
  | Err EOverflow -> "err overflow"
  | Err EDivZero -> "err divzero"
  | Crash c -> "crash " ^ crash_name c

(* ---------- plural forms ---------- *)
let aerr_s = function EOverflow -> "overflow" | EDivZero -> "divzero"
let pdiag_s = function
  | DSyntax -> "syntax"
  | DLeadingJunk j -> "ljunk " ^ out_str j
  | DTrailingJunk j -> "rjunk " ^ out_str j
  | DIncorrectN (n, k) -> "incorrect-n " ^ zs n ^ " " ^ zs k
  | DUnusual -> "unusual"
  | DCodomainAt (i, fi, n) -> "codomain-at " ^ zs i ^ " " ^ zs fi ^ " " ^ zs n
  | DArith (i, k) -> "arith " ^ zs i ^ " " ^ aerr_s k
  | DNever (lo, hi) -> "never " ^ zs lo ^ " " ^ zs hi
let preimg_s = function
  | None -> "preimage none"
  | Some p -> "preimage " ^ String.concat ";" (List.map (fun (k, l) -> zs k ^ ":" ^ String.concat "," (List.map zs l)) p)


(* ---------- encodings (C20) ---------- *)
let pos_s (k : nat) = string_of_int (int_of_nat k)
let cm_res_s = function
  | Ok l -> "ok " ^ out_str l
  | Err (a, b) -> "err " ^ pos_s a ^ " " ^ pos_s b
  | Crash c -> "crash " ^ crash_name c
let asc_of = function
  | "same" -> AscSame | "diff" -> AscDiff | "decerr" -> AscDecodeError | "lookup" -> AscLookupError
  | "other" -> AscOtherError | "notstr" -> AscNotStr | s -> failwith ("bad ascii outcome " ^ s)
let opt_str_arg s = if s = "-" then None else Some (arg_str s)
(* oracle for one name: str.lower / str.upper / codecs.lookup / ASCII decoding of that name as computed by the
   harness with the library calls themselves; every other string (table keys: ASCII) gets ASCII case mapping *)
let one_name_oracle name lower upper lookup asc = {
  co_lower = (fun s -> if list_eqb s name then lower else ascii_lower s);
  co_upper = (fun s -> if list_eqb s name then upper else ascii_upper s);
  co_lookup = (fun s -> if list_eqb s name then lookup else None);
  co_ascii = (fun s -> if list_eqb s name then asc else AscLookupError) }
let cls_s = function
  | Ok ClsUnknown -> "unknown" | Ok ClsNonAscii -> "nonascii" | Ok ClsPortable -> "portable"
  | Ok (ClsNonPortable None) -> "nonportable -" | Ok (ClsNonPortable (Some p)) -> "nonportable " ^ out_str p
  | Err _ -> "err" | Crash c -> "crash " ^ crash_name c
let rc_of = function
  | "ok" -> RcOk | "e2big" -> RcE2BIG | "eilseq" -> RcEILSEQ | "einval" -> RcEINVAL | "other" -> RcOther
  | s -> failwith ("bad rc " ^ s)
let iconv_res_s (g, r) =
  string_of_int (int_of_nat g) ^ " " ^
  (match r with
   | Ok l -> "ok " ^ out_str l
   | Err (a, b) -> "err " ^ zs a ^ " " ^ zs b
   | Crash c -> "crash " ^ crash_name c)
(* args from index i: open close nrows then rows: cap reset rc inleft outleft frc foutleft buf *)
let iconv_ops_of (a : string array) (i : int) : iconv_ops =
  let nrows = arg_int a.(i + 2) in
  let rows = List.init nrows (fun k ->
    let b = i + 3 + 8 * k in
    (ZA.of_string a.(b), (arg_bool a.(b + 1), rc_of a.(b + 2), arg_z a.(b + 3), arg_z a.(b + 4), rc_of a.(b + 5), arg_z a.(b + 6), arg_str a.(b + 7)))) in
  let find cap = List.assoc_opt (zarith_of_z cap) (List.map (fun (c, r) -> (c, r)) rows) in
  { io_open_ok = arg_bool a.(i); io_close_ok = arg_bool a.(i + 1);
    io_reset_ok = (fun cap -> match find cap with Some (r, _, _, _, _, _, _) -> r | None -> false);
    io_conv = (fun cap -> match find cap with
      | Some (_, rc, il, ol, _, _, _) -> { cr_rc = rc; cr_inleft = il; cr_outleft = ol }
      | None -> { cr_rc = RcOther; cr_inleft = Z0; cr_outleft = Z0 });
    io_flush = (fun cap -> match find cap with
      | Some (_, _, _, _, frc, fol, _) -> { fr_rc = frc; fr_outleft = fol }
      | None -> { fr_rc = RcOther; fr_outleft = Z0 });
    io_buf = (fun cap -> match find cap with Some (_, _, _, _, _, _, b) -> b | None -> []) }

(* ---------- dispatch ---------- *)
let handle (op : string) (a : string array) : string =
  match op with
  | "parse" -> with_expr (arg_n a.(0)) (arg_str a.(1)) (fun e -> "ok " ^ expr_to_string e)
  | "eval" ->  (* maxd M n str *)
    with_expr (arg_n a.(0)) (arg_str a.(3)) (fun e -> eres_s (pyeval (arg_z a.(1)) e (arg_z a.(2))))
  | "codomain" -> (* maxd M str *)
    with_expr (arg_n a.(0)) (arg_str a.(2)) (fun e ->
      match codomain (arg_z a.(1)) e with
      | CNone -> "ok none" | CSome (l, r) -> "ok " ^ zs l ^ " " ^ zs r | CAssert -> "crash AssertionError")
  | "period" ->
    with_expr (arg_n a.(0)) (arg_str a.(2)) (fun e ->
      match period (arg_z a.(1)) e with
      | None -> "ok none" | Some (o, p) -> "ok " ^ zs o ^ " " ^ zs p)
  | "pfparse" -> (* maxd str *)
    (match parse_plural_forms (arg_n a.(0)) (arg_str a.(1)) with
     | Ok (((n, e), l), r) -> "ok " ^ zs n ^ " " ^ expr_to_string e ^ " " ^ out_str l ^ " " ^ out_str r
     | Err _ -> "err syntax"
     | Crash c -> "crash " ^ crash_name c)
  | "plurals" -> (* maxd has_plurals nexp exp... ncorrect(-1 = None) correct... value *)
    let maxd = arg_n a.(0) in
    let hp = arg_bool a.(1) in
    let nexp = arg_int a.(2) in
    let exps = List.init nexp (fun i -> arg_z a.(3 + i)) in
    let nc = arg_int a.(3 + nexp) in
    let base = 4 + nexp in
    let correct = if nc < 0 then None else Some (List.init nc (fun i -> arg_str a.(base + i))) in
    let value = arg_str a.(base + (max nc 0)) in
    (match check_plurals_core maxd { pf_value = value; pf_has_plurals = hp; pf_expected = exps; pf_correct = correct } with
     | Ok (ds, pre) -> String.concat " | " (List.map pdiag_s ds @ [preimg_s pre])
     | Err _ -> "crash PluralFormsSyntaxError"
     | Crash c -> "crash " ^ crash_name c)
  | "cmdec" -> cm_res_s (cm_decode (arg_str a.(0)) (arg_str a.(1)))
  | "cmenc" -> cm_res_s (cm_encode (arg_str a.(0)) (arg_str a.(1)))
  | "cmmode" -> (match cm_build (arg_str a.(0)) with None -> "none" | Some CmTrie -> "trie" | Some CmDict -> "dict")
  | "cmfile" -> (* D|E file data : the generated table of a charmap file *)
    (match charmap_table (arg_str a.(1)) with
     | None -> "nofile"
     | Some t -> cm_res_s ((if a.(0) = "D" then cm_decode else cm_encode) t (arg_str a.(2))))
  | "isportable" -> (* python name lower *)
    let name = arg_str a.(1) in
    let o = one_name_oracle name (arg_str a.(2)) name None AscLookupError in
    if is_portable_encoding real_enc_data o (arg_bool a.(0)) name then "1" else "0"
  | "classify" -> (* name lower upper lookup asc *)
    let name = arg_str a.(0) in
    let o = one_name_oracle name (arg_str a.(1)) (arg_str a.(2)) (opt_str_arg a.(3)) (asc_of a.(4)) in
    let ac mo = match is_ascii_compatible_encoding o mo name with
      | Ok true -> "1" | Ok false -> "0" | Err _ -> "E" | Crash c -> "crash " ^ crash_name c in
    let pr = match propose_portable_encoding real_enc_data o name with
      | Ok None -> "-" | Ok (Some p) -> out_str p | Err _ -> "err" | Crash c -> "crash " ^ crash_name c in
    cls_s (classify real_enc_data o name) ^ " | ascii " ^ ac true ^ " " ^ ac false
      ^ " | portable " ^ (if is_portable_encoding real_enc_data o true name then "1" else "0")
      ^ " " ^ (if is_portable_encoding real_enc_data o false name then "1" else "0") ^ " | propose " ^ pr
  | "classify_t" -> (* name : the same, with the generated oracle table *)
    cls_s (classify real_enc_data real_oracle (arg_str a.(0)))
  | "search" ->
    (match codec_search real_enc_data (arg_str a.(0)) with
     | SNone -> "none" | SCharmap f -> "charmap " ^ out_str f | SIconv n -> "iconv " ^ out_str n)
  | "unrep" -> (* cli k (str res)*k joined-res ; res: 0 ok 1 UnicodeEncodeError 2 other *)
    let k = arg_int a.(1) in
    let chars = List.init k (fun i -> arg_str a.(2 + 2 * i)) in
    let res_of = function "0" -> Ok () | "1" -> Err () | _ -> Crash CUnicodeError in
    let tbl = List.init k (fun i -> (arg_str a.(2 + 2 * i), res_of a.(3 + 2 * i))) in
    let joined = List.concat chars in
    let jr = res_of a.(2 + 2 * k) in
    let enc s = match List.find_opt (fun (c, _) -> list_eqb c s) tbl with
      | Some (_, r) -> r
      | None -> if list_eqb s joined then jr else Crash CKeyError in
    (match get_unrepresentable_characters enc (arg_bool a.(0)) chars with
     | Ok l -> "ok " ^ String.concat "|" (List.map out_str l) ^ " tag " ^
               (match unrepresentable_tag_args l with None -> "-" | Some t -> String.concat "|" (List.map out_str t))
     | Err _ -> "err" | Crash c -> "crash " ^ crash_name c)
  | "iconvdec" -> (* fuel strict input open close nrows rows *)
    iconv_res_s (iconv_decode (iconv_ops_of a 3) (arg_bool a.(1)) (arg_str a.(2)) (nat_of_int (arg_int a.(0))))
  | "iconvenc" ->
    iconv_res_s (iconv_encode (iconv_ops_of a 3) (arg_bool a.(1)) (arg_str a.(2)) (nat_of_int (arg_int a.(0))))
  | _ -> "unknown-op " ^ op

let () =
  try
    while true do
      let line = input_line stdin in
      let parts = List.filter (fun s -> s <> "") (String.split_on_char ' ' line) in
      (match parts with
       | [] -> print_endline ""
       | op :: args ->
         let r = try handle op (Array.of_list args)
           with Stack_overflow -> "driver-stack-overflow"
              | e -> "driver-exception " ^ Printexc.to_string e in
         print_endline r)
    done
  with End_of_file -> ()

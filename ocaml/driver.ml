(* Line protocol driver for the extracted models.
   One request per line:  <op> <arg> <arg> ...
     integer argument : decimal
     string argument  : 's' followed by comma-separated code points ("s" = empty string)
   One canonical result line per request. *)
module ZA = Z
open Model

(* ---------- conversions between decimal text / Zarith and the extracted numbers ---------- *)
let rec pos_of_z (x : ZA.t) : positive =
  if ZA.equal x ZA.one then XH
  else if ZA.testbit x 0 then XI (pos_of_z (ZA.shift_right x 1))
  else XO (pos_of_z (ZA.shift_right x 1))

let z_of_zarith (x : ZA.t) : z =
  if ZA.sign x = 0 then Z0 else if ZA.sign x > 0 then Zpos (pos_of_z x) else Zneg (pos_of_z (ZA.neg x))
let n_of_zarith (x : ZA.t) : n = if ZA.sign x = 0 then N0 else Npos (pos_of_z x)

let rec zarith_of_pos (p : positive) : ZA.t =
  (* iterative enough for our sizes: depth = bit length *)
  match p with
  | XH -> ZA.one
  | XO q -> ZA.shift_left (zarith_of_pos q) 1
  | XI q -> ZA.succ (ZA.shift_left (zarith_of_pos q) 1)
let zarith_of_z = function Z0 -> ZA.zero | Zpos p -> zarith_of_pos p | Zneg p -> ZA.neg (zarith_of_pos p)
let zarith_of_n = function N0 -> ZA.zero | Npos p -> zarith_of_pos p

let zs (x : z) = ZA.to_string (zarith_of_z x)
let ns (x : n) = ZA.to_string (zarith_of_n x)
let rec nat_of_int i = if i <= 0 then O else S (nat_of_int (i - 1))
let rec int_of_nat = function O -> 0 | S k -> 1 + int_of_nat k

let arg_z (s : string) : z = z_of_zarith (ZA.of_string s)
let arg_n (s : string) : n = n_of_zarith (ZA.of_string s)
let arg_int (s : string) : int = int_of_string s
let arg_bool (s : string) : bool = (s = "1")
let arg_str (s : string) : n list =
  if String.length s = 0 || s.[0] <> 's' then failwith ("bad string arg: " ^ s)
  else if String.length s = 1 then []
  else List.map (fun t -> n_of_zarith (ZA.of_string t))
         (String.split_on_char ',' (String.sub s 1 (String.length s - 1)))
let out_str (l : n list) : string = "s" ^ String.concat "," (List.map ns l)

let crash_name = function
  | CValueError -> "ValueError" | CTypeError -> "TypeError" | CUnboundLocal -> "UnboundLocalError"
  | CAttributeError -> "AttributeError" | CAssertion -> "AssertionError" | CIndexError -> "IndexError"
  | CKeyError -> "KeyError" | CUnicodeError -> "UnicodeError" | CRecursion -> "RecursionError"
  | COutOfFuel -> "OutOfFuel" | CNotImplemented -> "NotImplementedError" | CStructError -> "error"
  | COSError -> "OSError" | CLookupError -> "LookupError"

(* ---------- intexpr ---------- *)
let binop_s = function Add -> "+" | Sub -> "-" | Mult -> "*" | Div -> "/" | Mod -> "%"
let cmpop_s = function CLt -> "<" | CLe -> "<=" | CGt -> ">" | CGe -> ">=" | CEq -> "==" | CNe -> "!="
let rec expr_s b = function
  | Var -> Buffer.add_string b "n"
  | Num z -> Buffer.add_string b (zs z)
  | Not e -> Buffer.add_string b "(! "; expr_s b e; Buffer.add_char b ')'
  | Bin (o, x, y) -> bin b (binop_s o) x y
  | Cmp (o, x, y) -> bin b (cmpop_s o) x y
  | And (x, y) -> bin b "&&" x y
  | Or (x, y) -> bin b "||" x y
  | If (c, x, y) ->
    Buffer.add_string b "(? "; expr_s b c; Buffer.add_char b ' '; expr_s b x;
    Buffer.add_char b ' '; expr_s b y; Buffer.add_char b ')'
and bin b o x y =
  Buffer.add_char b '('; Buffer.add_string b o; Buffer.add_char b ' '; expr_s b x;
  Buffer.add_char b ' '; expr_s b y; Buffer.add_char b ')'
let expr_to_string e = let b = Buffer.create 64 in expr_s b e; Buffer.contents b

let with_expr maxd s (k : expr -> string) : string =
  match parse_string maxd s with
  | Ok e -> k e
  | Err _ -> "err syntax"
  | Crash c -> "crash " ^ crash_name c

let eres_s = function
  | Ok v -> "ok " ^ zs v
  | Err EOverflow -> "err overflow"
  | Err EDivZero -> "err divzero"
  | Crash c -> "crash " ^ crash_name c

(* ---------- plural forms ---------- *)
let aerr_s = function EOverflow -> "overflow" | EDivZero -> "divzero"
let pdiag_s = function
  | DSyntax -> "syntax"
  | DLeadingJunk j -> "ljunk " ^ out_str j
  | DTrailingJunk j -> "rjunk " ^ out_str j
  | DIncorrectN (n, k) -> "incorrect-n " ^ zs n ^ " " ^ zs k
  | DUnusual -> "unusual"
  | DCodomainAt (i, fi, n) -> "codomain-at " ^ zs i ^ " " ^ zs fi ^ " " ^ zs n
  | DArith (i, k) -> "arith " ^ zs i ^ " " ^ aerr_s k
  | DNever (lo, hi) -> "never " ^ zs lo ^ " " ^ zs hi
let preimg_s = function
  | None -> "preimage none"
  | Some p -> "preimage " ^ String.concat ";" (List.map (fun (k, l) -> zs k ^ ":" ^ String.concat "," (List.map zs l)) p)

(* ---------- tags ---------- *)
let u_printable (c : n) : bool = in_ranges printable_ranges c
let arg_of kind s = match kind with
  | "safe" -> ASafe (arg_str s) | "str" -> AStr (arg_str s) | "bytes" -> ABytes (arg_str s)
  | _ -> failwith "bad arg kind"
let sev_of = function 0 -> Pedantic | 1 -> Wishlist | 2 -> Minor | 3 -> Normal | 4 -> Important | _ -> Serious
let cer_of = function 0 -> WildGuess | 1 -> Possible | _ -> Certain

(* ---------- msgformat ---------- *)
let key_s = function KInt z -> "i" ^ zs z | KStr s -> out_str s
let types_s l = String.concat "," (List.map out_str l)
let adiag_s = function
  | AExcess (nd, ns) -> Printf.sprintf "excess %d %d" (int_of_nat nd) (int_of_nat ns)
  | AMissingN (nd, ns) -> Printf.sprintf "missing-n %d %d" (int_of_nat nd) (int_of_nat ns)
  | ANumber (nd, ns) -> Printf.sprintf "number %d %d" (int_of_nat nd) (int_of_nat ns)
  | ATypeMismatch (dt, st) -> "type " ^ types_s dt ^ " != " ^ types_s st
  | AUnknown k -> "unknown " ^ key_s k
  | AMissing k -> "missing " ^ key_s k
let adiags_s l = if l = [] then "none" else String.concat " | " (List.map adiag_s l)
(* a cursor over the argument array *)
let cursor (a : string array) = let pos = ref 0 in (fun () -> let v = a.(!pos) in incr pos; v)
let rd_list next f = let n = arg_int (next ()) in List.init n (fun _ -> f ())
let rd_key next = let t = next () in if t.[0] = 'i' then KInt (arg_z (String.sub t 1 (String.length t - 1))) else KStr (arg_str t)
let rd_amap next = rd_list next (fun () ->
  let k = rd_key next in let ts = rd_list next (fun () -> arg_str (next ())) in let b = arg_bool (next ()) in ((k, ts), b))
let loc_s = function LMsgid -> "msgid" | LMsgidPlural -> "msgid_plural" | LMsgstr -> "msgstr" | LMsgstrN i -> "msgstr[" ^ zs i ^ "]"
(* ---------- dates ---------- *)
let derr_s = function Boilerplate -> "boilerplate" | Invalid -> "invalid"
let dout_s (f : 'a -> string) = function
  | Ok v -> "ok " ^ f v
  | Err e -> "err " ^ derr_s e
  | Crash c -> "crash " ^ crash_name c
let arg_hint (s : string) = if s = "-" then None else Some (arg_str s)
let dtag_s = function
  | TDuplicate -> "dup"
  | TNoField -> "nofield"
  | TBoilerplate d -> "boiler " ^ out_str d
  | TInvalid d -> "invalid " ^ out_str d
  | TInvalidFix (d, f) -> "invalidfix " ^ out_str d ^ " " ^ out_str f
  | TFuture d -> "future " ^ out_str d
  | TAncient d -> "ancient " ^ out_str d
let dtags_s l = String.concat " | " (List.map dtag_s l)
(* a counted list of strings starting at a.(i): returns (list, next index) *)
let arg_strs (a : string array) (i : int) =
  let n = arg_int a.(i) in
  (List.init n (fun k -> arg_str a.(i + 1 + k)), i + 1 + n)

(* ---------- header checks (C15) ---------- *)
let opt_str (s : string) : n list option = if s = "n" then None else Some (arg_str s)
let hfield_s = function
  | FMime -> "mime-version" | FCte -> "content-transfer-encoding" | FContentType -> "content-type"
  | FProject -> "project-id-version" | FReport -> "report-msgid-bugs-to" | FTranslator -> "last-translator"
  | FTeam -> "language-team"
let str_of_ascii (s : string) : n list = List.init (String.length s) (fun i -> n_of_zarith (ZA.of_int (Char.code s.[i])))
let hdiag_s (d : diag) : string =
  let j = String.concat " " in
  match d with
  | DBoilerplateComment l -> j ["boilerplate-in-initial-comments"; out_str l]
  | DDuplicateHeaderEntry -> "duplicate-header-entry"
  | DEmptyMsgidRefs refs -> j ("empty-msgid-message-with-source-code-references" :: List.map out_str refs)
  | DEmptyMsgidPlural -> "empty-msgid-message-with-plural-forms"
  | DFuzzyHeader -> "fuzzy-header-entry"
  | DUnexpectedFlag (f, h) -> j (["unexpected-flag-for-header-entry"; out_str f] @ (if h then ["=>"; out_str (str_of_ascii "fuzzy")] else []))
  | DDuplicateFlag f -> j ["duplicate-flag-for-header-entry"; out_str f]
  | DDistantHeader -> "distant-header-entry"
  | DUnusualChars cs -> j ["unusual-character-in-header-entry"; out_str cs]
  | DConflictMarker l -> j ["conflict-marker-in-header-entry"; out_str l]
  | DStrayLine l -> j ["stray-header-line"; out_str l]
  | DUnknownField (k, h) -> j (["unknown-header-field"; out_str k] @ (match h with Some x -> ["=>"; out_str x] | None -> []))
  | DDuplicateField k -> j ["duplicate-header-field"; out_str k]
  | DDuplicateDedicated f -> "duplicate-header-field-" ^ hfield_s f
  | DNoField f -> "no-" ^ hfield_s f ^ "-header-field"
  | DInvalidMimeVersion v -> j ["invalid-mime-version"; out_str v]
  | DInvalidCte v -> j ["invalid-content-transfer-encoding"; out_str v]
  | DInvalidContentType (v, e) ->
    j ["invalid-content-type"; out_str v; "=>";
       out_str (str_of_ascii "text/plain; charset=" @ (match e with Some x -> x | None -> str_of_ascii "<encoding>"))]
  | DBoilerplateContentType v -> j ["boilerplate-in-content-type"; out_str v]
  | DUnknownEncoding e -> j ["unknown-encoding"; out_str e]
  | DNonAsciiCompatible e -> j ["non-ascii-compatible-encoding"; out_str e]
  | DNonPortable (e, p) -> j (["non-portable-encoding"; out_str e] @ (match p with Some x -> ["=>"; out_str x] | None -> []))
  | DUnrepresentable (e, cs) -> j ("unrepresentable-characters" :: out_str e :: List.map out_str cs)
  | DBoilerplateProject v -> j ["boilerplate-in-project-id-version"; out_str v]
  | DNoPackageName v -> j ["no-package-name-in-project-id-version"; out_str v]
  | DNoVersion v -> j ["no-version-in-project-id-version"; out_str v]
  | DInvalidReport v -> j ["invalid-report-msgid-bugs-to"; out_str v]
  | DBoilerplateReport v -> j ["boilerplate-in-report-msgid-bugs-to"; out_str v]
  | DInvalidTranslator v -> j ["invalid-last-translator"; out_str v]
  | DBoilerplateTranslator v -> j ["boilerplate-in-last-translator"; out_str v]
  | DInvalidTeam v -> j ["invalid-language-team"; out_str v]
  | DBoilerplateTeam v -> j ["boilerplate-in-language-team"; out_str v]
  | DTeamEqualsTranslator (t, tr) -> j ["language-team-equal-to-last-translator"; out_str t; out_str tr]
let hdiags_s ds = if ds = [] then "-" else String.concat " | " (List.map hdiag_s ds)

(* a cursor over the argument array *)
let hdr_oracles (a : string array) (pos : int ref) : oracles =
  let next () = let s = a.(!pos) in incr pos; s in
  let table rd =
    let k = arg_int (next ()) in
    let rec go i acc = if i >= k then List.rev acc else (let key = next () in let v = rd () in go (i + 1) ((key, v) :: acc)) in
    go 0 [] in
  let lower = table (fun () -> arg_str (next ())) in
  let cfuzzy = table (fun () -> arg_bool (next ())) in
  let cfield = table (fun () -> opt_str (next ())) in
  let paddr = table (fun () -> arg_str (next ())) in
  let url = table (fun () -> match next () with "0" -> UScheme | "1" -> UNoScheme | _ -> URaise) in
  let enc = table (fun () -> match next () with
      | "u" -> EUnknown
      | _ -> let ac = arg_bool (next ()) in let po = arg_bool (next ()) in let pr = opt_str (next ()) in EKnown (ac, po, pr)) in
  let unrep = table (fun () -> let k = arg_int (next ()) in List.init k (fun _ -> ()) |> List.map (fun () -> arg_str (next ()))) in
  let look name tbl (s : n list) =
    match List.assoc_opt (out_str s) tbl with Some v -> v | None -> failwith ("oracle-miss " ^ name ^ " " ^ out_str s) in
  { o_word = (fun c -> in_ranges re_word_ranges c);
    o_digit = (fun c -> in_ranges re_digit_ranges c);
    o_space = (fun c -> in_ranges re_space_ranges c);
    o_lower = look "lower" lower;
    o_close_fuzzy = look "close_fuzzy" cfuzzy;
    o_close_field = look "close_field" cfield;
    o_parseaddr = look "parseaddr" paddr;
    o_urlscheme = look "urlscheme" url;
    o_enc = look "enc" enc;
    o_unrep = look "unrep" unrep }
let ucd_oracles : oracles =
  let miss name = (fun _ -> failwith ("oracle-miss " ^ name)) in
  { o_word = (fun c -> in_ranges re_word_ranges c);
    o_digit = (fun c -> in_ranges re_digit_ranges c);
    o_space = (fun c -> in_ranges re_space_ranges c);
    o_lower = miss "lower"; o_close_fuzzy = miss "close_fuzzy"; o_close_field = miss "close_field";
    o_parseaddr = miss "parseaddr"; o_urlscheme = miss "urlscheme"; o_enc = miss "enc"; o_unrep = miss "unrep" }

let hdr_op (a : string array) : string =
  let pos = ref 0 in
  let next () = let s = a.(!pos) in incr pos; s in
  let template = arg_bool (next ()) in
  let comment = arg_str (next ()) in
  let ne = arg_int (next ()) in
  let rec entries i acc =
    if i >= ne then List.rev acc else begin
      let h = arg_bool (next ()) in
      let o = arg_bool (next ()) in
      let p = arg_bool (next ()) in
      let ms = opt_str (next ()) in
      let p0 = opt_str (next ()) in
      let nocc = arg_int (next ()) in
      let occ = List.init nocc (fun _ -> ()) |> List.map (fun () -> let x = arg_str (next ()) in let y = arg_str (next ()) in (x, y)) in
      let nf = arg_int (next ()) in
      let fl = List.init nf (fun _ -> ()) |> List.map (fun () -> arg_str (next ())) in
      entries (i + 1) ({ e_header = h; e_obsolete = o; e_occurrences = occ; e_has_plural = p; e_msgstr = ms; e_plural0 = p0; e_flags = fl } :: acc)
    end in
  let es = entries 0 [] in
  let o = hdr_oracles a pos in
  match hdr_check o header_fields dedicated_fields special_exact_or_sub special_sub_only
          { h_template = template; h_comment = comment; h_entries = es } with
  | Ok ds -> hdiags_s ds
  | Err _ -> "err"
  | Crash c -> "crash " ^ crash_name c

(* ---------- locale names (C19) ---------- *)
let lg_opt_s = function None -> "-" | Some x -> out_str x
let arg_opt (s : string) : n list option = if s = "-" then None else Some (arg_str s)
let lang_s (l : language) : string =
  "ll=" ^ out_str l.l_lang ^ " cc=" ^ lg_opt_s l.l_terr ^ " enc=" ^ lg_opt_s l.l_enc ^ " mod=" ^ lg_opt_s l.l_mod
  ^ " str=" ^ out_str (str_language l)
let lerr_s = function LSyntax -> "err syntax" | LFixCodes -> "err fix"
let id_cfg = gen_cfg (fun x -> x)
let lres_s = function
  | Ok l -> "ok " ^ lang_s l
  | Err e -> lerr_s e
  | Crash c -> "crash " ^ crash_name c
let src_s = function
  | SrcCommandLine -> "command-line" | SrcPathname -> "pathname"
  | SrcLanguageField -> "field" | SrcPoedit -> "poedit"
let sl l = out_str (str_language l)
let ldiag_s = function
  | DDupLanguage -> "dup-language"
  | DNoLanguageField None -> "no-language-field"
  | DNoLanguageField (Some l) -> "no-language-field " ^ sl l
  | DInvalidLanguage (o, None) -> "invalid-language " ^ out_str o
  | DInvalidLanguage (o, Some l) -> "invalid-language " ^ out_str o ^ " => " ^ sl l
  | DEncodingInField o -> "encoding-in-field " ^ out_str o
  | DVariantNoEffect o -> "variant-no-effect " ^ out_str o
  | DDisparity (l, s, l2, s2) -> "disparity " ^ sl l ^ " " ^ src_s s ^ " " ^ sl l2 ^ " " ^ src_s s2
  | DDupPoedit false -> "dup-poedit language"
  | DDupPoedit true -> "dup-poedit country"
  | DUnknownPoedit nm -> "unknown-poedit " ^ out_str nm
  | DUnable -> "unable"
(* ---------- MO parser ---------- *)
let opt_str = function None -> "-" | Some l -> out_str l
let mo_msg_s = function
  | MMagic -> "magic" | MMajor n -> "major " ^ ns n | MTruncated -> "truncated"
  | MIdNotTerminated -> "id-not-terminated" | MStrNotTerminated -> "str-not-terminated"
  | MIdNul -> "id-nul" | MStrNul -> "str-nul" | MDuplicate -> "duplicate" | MNotSorted -> "not-sorted"
let mo_entry_s (e : mo_entry) =
  "E " ^ opt_str e.e_ctxt ^ " " ^ out_str e.e_id ^ " " ^ opt_str e.e_plural ^ " " ^ String.concat ";" (List.map out_str e.e_strs)
let mo_run_s asc enc0 f =
  let ((es, enc), r) = mo_run asc enc0 f in
  let st = match r with
    | Ok h -> "ok hidden=" ^ (if h then "1" else "0")
    | Err m -> "err " ^ mo_msg_s m
    | Crash c -> "crash " ^ crash_name c in
  String.concat " # " ((st :: ("cs=" ^ opt_str enc) :: List.map mo_entry_s es))

(* ---------- encodings (C20) ---------- *)
let pos_s (k : nat) = string_of_int (int_of_nat k)
let cm_res_s = function
  | Ok l -> "ok " ^ out_str l
  | Err (a, b) -> "err " ^ pos_s a ^ " " ^ pos_s b
  | Crash c -> "crash " ^ crash_name c
let asc_of = function
  | "same" -> AscSame | "diff" -> AscDiff | "decerr" -> AscDecodeError | "lookup" -> AscLookupError
  | "other" -> AscOtherError | "notstr" -> AscNotStr | s -> failwith ("bad ascii outcome " ^ s)
let opt_str_arg s = if s = "-" then None else Some (arg_str s)
(* oracle for one name: str.lower / str.upper / codecs.lookup / ASCII decoding of that name as computed by the
   harness with the library calls themselves; every other string (table keys: ASCII) gets ASCII case mapping *)
let one_name_oracle name lower upper lookup asc = {
  co_lower = (fun s -> if list_eqb0 s name then lower else ascii_lower s);
  co_upper = (fun s -> if list_eqb0 s name then upper else ascii_upper0 s);
  co_lookup = (fun s -> if list_eqb0 s name then lookup else None);
  co_ascii = (fun s -> if list_eqb0 s name then asc else AscLookupError) }
let cls_s = function
  | Ok ClsUnknown -> "unknown" | Ok ClsNonAscii -> "nonascii" | Ok ClsPortable -> "portable"
  | Ok (ClsNonPortable None) -> "nonportable -" | Ok (ClsNonPortable (Some p)) -> "nonportable " ^ out_str p
  | Err _ -> "err" | Crash c -> "crash " ^ crash_name c
let rc_of = function
  | "ok" -> RcOk | "e2big" -> RcE2BIG | "eilseq" -> RcEILSEQ | "einval" -> RcEINVAL | "other" -> RcOther
  | s -> failwith ("bad rc " ^ s)
let iconv_res_s (g, r) =
  string_of_int (int_of_nat g) ^ " " ^
  (match r with
   | Ok l -> "ok " ^ out_str l
   | Err (a, b) -> "err " ^ zs a ^ " " ^ zs b
   | Crash c -> "crash " ^ crash_name c)
(* args from index i: open close nrows then rows: cap reset rc inleft outleft frc foutleft buf *)
let iconv_ops_of (a : string array) (i : int) : iconv_ops =
  let nrows = arg_int a.(i + 2) in
  let rows = List.init nrows (fun k ->
    let b = i + 3 + 8 * k in
    (ZA.of_string a.(b), (arg_bool a.(b + 1), rc_of a.(b + 2), arg_z a.(b + 3), arg_z a.(b + 4), rc_of a.(b + 5), arg_z a.(b + 6), arg_str a.(b + 7)))) in
  let find cap = List.assoc_opt (zarith_of_z cap) (List.map (fun (c, r) -> (c, r)) rows) in
  { io_open_ok = arg_bool a.(i); io_close_ok = arg_bool a.(i + 1);
    io_reset_ok = (fun cap -> match find cap with Some (r, _, _, _, _, _, _) -> r | None -> false);
    io_conv = (fun cap -> match find cap with
      | Some (_, rc, il, ol, _, _, _) -> { cr_rc = rc; cr_inleft = il; cr_outleft = ol }
      | None -> { cr_rc = RcOther; cr_inleft = Z0; cr_outleft = Z0 });
    io_flush = (fun cap -> match find cap with
      | Some (_, _, _, _, frc, fol, _) -> { fr_rc = frc; fr_outleft = fol }
      | None -> { fr_rc = RcOther; fr_outleft = Z0 });
    io_buf = (fun cap -> match find cap with Some (_, _, _, _, _, _, b) -> b | None -> []) }
(* ---------- messages (C16) ---------- *)
let mdiag_s = function
  | MRangeNoPlural -> "range-no-plural"
  | MInvalidRange f -> "invalid-range " ^ out_str f
  | MUnknownFlag f -> "unknown " ^ out_str f
  | MDupFlag f -> "dupflag " ^ out_str f
  | MConflictFlags (a, b) -> "conflict " ^ out_str a ^ " " ^ out_str b
  | MRedundantFlag (p, q) -> "redundant " ^ out_str p ^ " " ^ out_str q
  | MDispatch f -> "dispatch " ^ out_str f
  | MMalformedXml m -> "xml " ^ out_str m
  | MDuplicateDef -> "dup"
  | MTranslationInTemplate -> "tmpl"
  | MStrayPrevious -> "stray"
  | MLeadingNL -> "lnl"
  | MTrailingNL -> "tnl"
  | MUnusual cs -> "unusual " ^ String.concat "," (List.map ns cs)
  | MConflictMarker m -> "cm " ^ out_str m
  | MPartial -> "partial"
let cdiag_s = function
  | AtMsg (i, d) -> "@" ^ string_of_int (int_of_nat i) ^ " " ^ mdiag_s d
  | EmptyFile -> "empty-file"
let opt_str (s : string) : n list option = if s = "-" then None else Some (arg_str s)
let msg_config ~template ~binary ~hidden ~enc ~maxd ~words ~xml = {
  c_template = template; c_binary = binary; c_hidden = hidden; c_encoding = enc; c_maxd = maxd;
  c_formats = string_formats; c_ctlnames = control_character_names;
  c_isword = (fun c -> List.mem c words);
  c_xml = (fun s -> match List.assoc_opt s xml with Some r -> r | None -> Some (arg_str "s63")) }
(* reads:  T B H E maxd nword w.. nxml (str res)* *)
let read_config (a : string array) (pos : int ref) =
  let next () = let v = a.(!pos) in incr pos; v in
  let template = arg_bool (next ()) in let binary = arg_bool (next ()) in
  let hidden = arg_bool (next ()) in let enc = arg_bool (next ()) in
  let maxd = arg_n (next ()) in
  let nw = arg_int (next ()) in
  let words = List.init nw (fun _ -> arg_n (next ())) in
  let nx = arg_int (next ()) in
  let xml = List.init nx (fun _ -> let s = arg_str (next ()) in let r = opt_str (next ()) in (s, r)) in
  msg_config ~template ~binary ~hidden ~enc ~maxd ~words ~xml
let read_entry (a : string array) (pos : int ref) : msg_entry =
  let next () = let v = a.(!pos) in incr pos; v in
  let ctxt = opt_str (next ()) in
  let msgid = arg_str (next ()) in
  let plural = opt_str (next ()) in
  let msgstr = arg_str (next ()) in
  let np = arg_int (next ()) in
  let pl = List.init np (fun _ -> arg_str (next ())) in
  let nf = arg_int (next ()) in
  let fl = List.init nf (fun _ -> arg_str (next ())) in
  let obs = arg_bool (next ()) in
  let prev = arg_bool (next ()) in
  let comment = arg_str (next ()) in
  { me_ctxt = ctxt; me_msgid = msgid; me_plural = plural; me_msgstr = msgstr; me_msgstr_plural = pl;
    me_flags = fl; me_obsolete = obs; me_previous = prev; me_comment = comment }

(* ---------- strformat.c ---------- *)
let opt_str = function None -> "-" | Some l -> out_str l
let numspec_s = function
  | NNone -> "n" | NNum ds -> "d" ^ out_str ds | NStar i -> "*" ^ opt_str i
let cbody_s = function
  | BStd (l, c) -> "S:" ^ out_str l ^ ":" ^ ns c
  | BMacro (c, l) -> "M:" ^ ns c ^ ":" ^ out_str l
let ctoken_s = function
  | CTLit t -> "L:" ^ out_str t
  | CTDir (d, text) -> "D:" ^ out_str text ^ ":" ^ opt_str d.d_index ^ ":" ^ out_str d.d_flags ^ ":" ^ numspec_s d.d_width
                      ^ ":" ^ numspec_s d.d_prec ^ ":" ^ cbody_s d.d_body
  | CTBad r -> "B:" ^ out_str r
  | CTFuel -> "FUEL"
let rec ints_of (l : n list) : int list = List.map (fun x -> ZA.to_int (zarith_of_n x)) l
let cerr_s = function
  | EError p -> "Error " ^ out_str p
  | ELengthError (s, l) -> "LengthError " ^ out_str s ^ " " ^ out_str l
  | EFlagError (s, f) -> "FlagError " ^ out_str s ^ " " ^ out_str [f]
  | EWidthError s -> "WidthError " ^ out_str s
  | EWidthRangeError (s, w) -> "WidthRangeError " ^ out_str s ^ " " ^ zs w
  | EPrecisionError s -> "PrecisionError " ^ out_str s
  | EPrecisionRangeError s -> "PrecisionRangeError " ^ out_str s
  | EArgumentRangeError (s, k) -> "ArgumentRangeError " ^ out_str s ^ " " ^ zs k
  | EArgumentRangeErrorStr (s, k) -> "ArgumentRangeError " ^ out_str s ^ " '" ^ zs k ^ "$'"
  | EArgumentNumberingMixture s -> "ArgumentNumberingMixture " ^ out_str s
  | EForbiddenArgumentIndex s -> "ForbiddenArgumentIndex " ^ out_str s
  | EMissingArgument (s, i) -> "MissingArgument " ^ out_str s ^ " " ^ zs i
  | EArgumentTypeMismatch (s, i, ts) ->
    let sorted = List.sort compare (List.map ints_of ts) in
    "ArgumentTypeMismatch " ^ out_str s ^ " " ^ zs i ^ " "
    ^ String.concat ";" (List.map (fun l -> "s" ^ String.concat "," (List.map string_of_int l)) sorted)
let cwarn_s = function
  | WNonPortable (s, a, b) -> "N:" ^ out_str s ^ ":" ^ out_str a ^ ":" ^ out_str b
  | WRedundantFlag (s, fl) -> "R:" ^ out_str s ^ ":" ^ out_str fl
let akind_s = function KWidth -> "W" | KPrec -> "P" | KConv -> "V"
let carg_s a = akind_s a.a_kind ^ string_of_int (int_of_nat a.a_cid) ^ ":" ^ out_str a.a_type
let citem_s = function
  | ILit t -> "L:" ^ out_str t
  | IConv c -> "C:" ^ out_str c.c_text ^ ":" ^ out_str c.c_type ^ ":" ^ (if c.c_integer then "1" else "0")
let fmtc_s maxd s =
  match fmtc_parse maxd s with
  | Ok fs ->
    let nargs = List.length fs.fs_arguments in
    let g = List.init (nargs + 2) (fun n ->
      match fmtc_glic fs (z_of_zarith (ZA.of_int n)) with
      | Ok None -> "-" | Ok (Some i) -> string_of_int (int_of_nat i) | Err _ -> "E" | Crash c -> "crash " ^ crash_name c) in
    "ok I=" ^ String.concat "|" (List.map citem_s fs.fs_items)
    ^ " A=" ^ String.concat "|" (List.map (fun l -> String.concat "+" (List.map carg_s l)) fs.fs_arguments)
    ^ " W=" ^ String.concat "|" (List.map cwarn_s fs.fs_warnings)
    ^ " G=" ^ String.concat "," g
  | Err e -> "err " ^ cerr_s e
  | Crash c -> "crash " ^ crash_name c

(* ---------- PO loader (C10) ---------- *)
(* Oracle answers travel in the request: quadruples  kind name data answer  where kind is
   0 codecs.lookup  1 is_ascii_compatible  2 bytes.decode  3 int(ch)  4 ch.isdigit ;
   answer is 'n' (None / False) or a string.  A question that is not in the table is recorded and
   answered with a dummy; the result line then lists the missing questions. *)
let po_table : (string, n list option) Hashtbl.t = Hashtbl.create 64
let po_missing : string list ref = ref []
let po_key kind name data = string_of_int kind ^ " " ^ out_str name ^ " " ^ out_str data
let po_ask kind name data dummy =
  let k = po_key kind name data in
  match Hashtbl.find_opt po_table k with
  | Some a -> a
  | None -> (if not (List.mem k !po_missing) then po_missing := k :: !po_missing); dummy
let po_load_table (a : string array) (from : int) =
  Hashtbl.reset po_table; po_missing := [];
  let i = ref from in
  while !i + 3 < Array.length a + 0 && !i + 3 <= Array.length a - 1 do
    let k = a.(!i) ^ " " ^ a.(!i + 1) ^ " " ^ a.(!i + 2) in
    Hashtbl.replace po_table k (if a.(!i + 3) = "n" then None else Some (arg_str a.(!i + 3)));
    i := !i + 4
  done
let po_codecs () = {
  c_lookup = (fun name -> po_ask 0 name [] None <> None);
  c_ascii_compatible = (fun name -> po_ask 1 name [] None <> None);
  c_decode = (fun name b -> po_ask 2 name b (Some []));
  c_udigit = (fun c -> match po_ask 3 [] [c] None with Some [v] -> Some v | _ -> None);
  c_uisdigit = (fun c -> po_ask 4 [] [c] None <> None) }
let po_finish (r : string) =
  if !po_missing = [] then r else "miss " ^ String.concat " | " (List.rev !po_missing)
let opt_s = function None -> "n" | Some s -> out_str s
let b01 b = if b then "1" else "0"
let entry_s (e : po_entry) =
  String.concat ";" [
    opt_s e.pe_msgctxt; out_str e.pe_msgid; opt_s e.pe_msgid_plural; opt_s e.pe_msgstr;
    "pl=" ^ String.concat "/" (List.map (fun (k, v) -> ns k ^ ":" ^ out_str v) e.pe_plural);
    b01 e.pe_obsolete; out_str e.pe_comment; out_str e.pe_tcomment;
    "occ=" ^ String.concat "/" (List.map (fun (f, l) -> out_str f ^ ":" ^ out_str l) e.pe_occ);
    "fl=" ^ String.concat "/" (List.map out_str e.pe_flags);
    opt_s e.pe_prev_ctxt; opt_s e.pe_prev_id; opt_s e.pe_prev_plural ]
let detail_s = function
  | DNone -> "-" | DUnescapedQuote -> "unescaped-quote" | DInvalidContinuation -> "invalid-continuation"
  | DUnknownKeyword k -> "unknown-keyword " ^ out_str k
let pofile_s (f : pofile) =
  "warned=" ^ b01 f.po_warned ^ " header=" ^ out_str f.po_header ^ " n=" ^ string_of_int (List.length f.po_entries)
  ^ String.concat "" (List.map (fun e -> " | " ^ entry_s e) f.po_entries)
let perr_s = function PSyntax (l, d) -> "err syntax " ^ ns l ^ " " ^ detail_s d
let sym_s = function
  | Ytc -> "tc" | Ygc -> "gc" | Yoc -> "oc" | Yfl -> "fl" | Ypc -> "pc" | Ypm -> "pm" | Ypp -> "pp"
  | Yct -> "ct" | Ymi -> "mi" | Ymp -> "mp" | Yms -> "ms" | Ymx -> "mx" | Ymc -> "mc"
let lexed_s = function
  | LBlank -> "blank"
  | LPrevObsolete -> "prev-obsolete"
  | LLine (o, h, a) -> "line " ^ b01 o ^ " " ^ b01 h ^ " " ^
    (match a with ASkip -> "skip" | AFail d -> "fail " ^ detail_s d | AProc (y, c) -> "proc " ^ sym_s y ^ " " ^ out_str c)
(* ---------- format strings ---------- *)
let rec ints_of_str (l : n list) : int list = List.map (fun x -> ZA.to_int (zarith_of_n x)) l
let out_ints (l : int list) : string = "s" ^ String.concat "," (List.map string_of_int l)
let perl_item_s = function PLit t -> "L" ^ out_str t | PField n -> "F" ^ out_str n
let perl_res_s (r : (pitem list, perl_err) outcome) : string =
  match r with
  | Ok its ->
    let names = List.sort_uniq compare (List.map ints_of_str (names_of its)) in
    "ok " ^ String.concat " " (List.map perl_item_s its) ^ " | " ^ String.concat " " (List.map out_ints names)
  | Err p -> "err Error " ^ out_str p   (* perl_err is extracted as its single field *)
  | Crash c -> "crash " ^ crash_name c

(* python %-format *)
let ptype_s = function TyInt -> "int" | TyFloat -> "float" | TyChr -> "chr" | TyStr -> "str" | TyObject -> "object" | TyNone -> "None"
let seqarg_s = function SVarWidth -> "*w" | SVarPrec -> "*p" | SConv t -> ptype_s t
let pywarn_s = function
  | WFlag a -> "F" ^ String.concat "." (List.map ns a)
  | WPrec -> "P" | WLength c -> "L" ^ ns c | WObsolete -> "O"
let pyerr_s = function
  | EError0 r -> "Error " ^ out_str r | EForbiddenKey -> "ForbiddenArgumentKey" | EMixture -> "ArgumentIndexingMixture"
  | ETypeMismatch -> "ArgumentTypeMismatch" | EWidthRange -> "WidthRangeError" | EPrecRange -> "PrecisionRangeError"
let fmtpy_res_s = function
  | Ok sg ->
    "ok S:" ^ String.concat "," (List.map seqarg_s sg.seq_arguments)
    ^ " M:" ^ String.concat ";" (List.map (fun (k, ts) -> out_str k ^ "=" ^ String.concat "+" (List.map ptype_s ts)) sg.map_arguments)
    ^ " W:" ^ String.concat ";" (List.map pywarn_s sg.warnings)
  | Err e -> "err " ^ pyerr_s e
  | Crash c -> "crash " ^ crash_name c
let static_s = function SIncompleteKey -> "key" | SIncompleteFormat -> "format" | SWidthTooBig -> "width" | SPrecTooBig -> "prec"
let event_s = function
  | EvNeedMapping -> "NM" | EvLookup k -> "LK" ^ out_str k | EvStarWidth -> "SW" | EvStarPrec -> "SP"
  | EvConv c -> "C" ^ ns c | EvPercent b -> if b then "P1" else "P0" | EvUnsupported c -> "U" ^ ns c
  | EvStatic e -> "X" ^ static_s e
let cres_s = function RSuccess -> "Success" | RValueError -> "ValueError" | RTypeError -> "TypeError"
  | RKeyError -> "KeyError" | ROverflowError -> "OverflowError"
(* values in prefix notation over the argument array: i<z> f n s<codes> T <n> v... D <n> s<key> v ... *)
let rec arg_val (a : string array) (i : int) : pyval * int =
  let t = a.(i) in
  match t.[0] with
  | 'i' -> (VInt (arg_z (String.sub t 1 (String.length t - 1))), i + 1)
  | 'f' -> (VFloat, i + 1)
  | 'n' -> (VNone, i + 1)
  | 's' -> (VStr (arg_str t), i + 1)
  | 'T' -> let n = arg_int a.(i + 1) in
    let rec go k j acc = if k = 0 then (List.rev acc, j) else let (v, j') = arg_val a j in go (k - 1) j' (v :: acc) in
    let (l, j) = go n (i + 2) [] in (VTuple l, j)
  | 'D' -> let n = arg_int a.(i + 1) in
    let rec go k j acc = if k = 0 then (List.rev acc, j) else
        let key = arg_str a.(j) in let (v, j') = arg_val a (j + 1) in go (k - 1) j' ((key, v) :: acc) in
    let (l, j) = go n (i + 2) [] in (VDict l, j)
  | _ -> failwith ("bad value " ^ t)

(* python brace format *)
let tset_s (t : tset) = String.concat "+" (List.filter (fun x -> x <> "")
  [(if t.t_str0 then "str" else ""); (if t.t_int0 then "int" else ""); (if t.t_float then "float" else "")])
let akey_s = function KNum n -> "N" ^ zs n | KName s -> "S" ^ out_str s
let pberr_s = function
  | BError p -> "Error " ^ out_str p | BFieldError t -> "Error " ^ out_str t | BConversionError -> "ConversionError"
  | BFormatError -> "FormatError" | BFormatTypeMismatch -> "FormatTypeMismatch"
  | BNumberingMixture -> "ArgumentNumberingMixture" | BRangeError -> "ArgumentRangeError" | BTypeMismatch -> "ArgumentTypeMismatch"
let pybrace_res_s = function
  | Ok (sg : pb_sig) -> "ok " ^ String.concat ";" (List.map (fun (k, (t, n)) -> akey_s k ^ "=" ^ String.concat "|" (List.init (int_of_nat n) (fun _ -> tset_s t))) sg)
  | Err e -> "err " ^ pberr_s e
  | Crash c -> "crash " ^ crash_name c
let optn_s = function None -> "-" | Some c -> ns c
let mitem_s ((lit, f) : mitem) = match f with
  | None -> "L" ^ out_str lit
  | Some f -> "F" ^ out_str lit ^ ":" ^ out_str f.m_name ^ ":" ^ out_str f.m_spec ^ ":" ^ optn_s f.m_conv
let fres_s = function FSuccess -> "Success" | FValueError -> "ValueError" | FIndexError -> "IndexError"
  | FKeyError -> "KeyError" | FOverflowError -> "OverflowError" | FOutside -> "Outside"
let bval_of (t : string) : bval = match t.[0] with
  | 'i' -> BInt (arg_z (String.sub t 1 (String.length t - 1)))
  | 'f' -> BFloat
  | 's' -> BStr (arg_str t)
  | _ -> failwith ("bad bval " ^ t)

(* ---------- dispatch ---------- *)

(* ---------- Checker.check orchestration (Model/Check.v) ---------- *)
let ck_ascii (l : n list) : string = String.concat "" (List.map (fun c -> String.make 1 (Char.chr (ZA.to_int (zarith_of_n c) land 127))) l)
let ck_load_result (a : string array) (i : int) =
  match a.(i) with
  | "file" -> LFile
  | "dec" -> LDecodeError (arg_str a.(i + 1), arg_z a.(i + 2), arg_str a.(i + 3))
  | "mosyn" -> LMoSyntax (arg_str a.(i + 1))
  | "errno" -> LOSErrno (arg_str a.(i + 1))
  | "noerrno" -> LOSNoErrno (arg_str a.(i + 1))
  | "other" -> LOther (arg_str a.(i + 1))
  | k -> failwith ("bad load result kind: " ^ k)
let ck_arg_s = function
  | ASafe t -> "safe:" ^ out_str t | AStr t -> "str:" ^ out_str t | ABytes t -> "bytes:" ^ out_str t
let ck_event_s e = String.concat " " (("ev " ^ ck_ascii e.ev_tag) :: List.map ck_arg_s e.ev_args)
let ck_call_s (c, enc) =
  (match c with Pofile -> "po:" | Mofile -> "mo:") ^ (match enc with None -> "-" | Some e -> out_str e)
let ck_end_s e =
  match e with
  | Returned -> "returned"
  | RunSubchecks (t, b, r) ->
    "run " ^ b01 t ^ b01 b ^ b01 r ^ " " ^
    String.concat "," (List.map (fun (nm, seen) -> ck_ascii nm ^ ":" ^ b01 seen) (subchecks_of e))
  | Raised RUnicodeDecodeError -> "raised UnicodeDecodeError"
  | Raised (ROSError m) -> "raised OSError " ^ out_str m
  | Raised (RExc nm) -> "raised other " ^ out_str nm
let ck_dash f l = if l = [] then "-" else f l

let handle (op : string) (a : string array) : string =
  match op with
  | "parse" -> with_expr (arg_n a.(0)) (arg_str a.(1)) (fun e -> "ok " ^ expr_to_string e)
  | "eval" ->  (* maxd M n str *)
    with_expr (arg_n a.(0)) (arg_str a.(3)) (fun e -> eres_s (pyeval (arg_z a.(1)) e (arg_z a.(2))))
  | "codomain" -> (* maxd M str *)
    with_expr (arg_n a.(0)) (arg_str a.(2)) (fun e ->
      match codomain (arg_z a.(1)) e with
      | CNone -> "ok none" | CSome (l, r) -> "ok " ^ zs l ^ " " ^ zs r | CAssert -> "crash AssertionError")
  | "period" ->
    with_expr (arg_n a.(0)) (arg_str a.(2)) (fun e ->
      match period (arg_z a.(1)) e with
      | None -> "ok none" | Some (o, p) -> "ok " ^ zs o ^ " " ^ zs p)
  | "pfparse" -> (* maxd str *)
    (match parse_plural_forms (arg_n a.(0)) (arg_str a.(1)) with
     | Ok (((n, e), l), r) -> "ok " ^ zs n ^ " " ^ expr_to_string e ^ " " ^ out_str l ^ " " ^ out_str r
     | Err _ -> "err syntax"
     | Crash c -> "crash " ^ crash_name c)
  | "plurals" -> (* maxd has_plurals nexp exp... ncorrect(-1 = None) correct... value *)
    let maxd = arg_n a.(0) in
    let hp = arg_bool a.(1) in
    let nexp = arg_int a.(2) in
    let exps = List.init nexp (fun i -> arg_z a.(3 + i)) in
    let nc = arg_int a.(3 + nexp) in
    let base = 4 + nexp in
    let correct = if nc < 0 then None else Some (List.init nc (fun i -> arg_str a.(base + i))) in
    let value = arg_str a.(base + (max nc 0)) in
    (match check_plurals_core maxd { pf_value = value; pf_has_plurals = hp; pf_expected = exps; pf_correct = correct } with
     | Ok (ds, pre) -> String.concat " | " (List.map pdiag_s ds @ [preimg_s pre])
     | Err _ -> "crash PluralFormsSyntaxError"
     | Crash c -> "crash " ^ crash_name c)
  | "escape" -> out_str (escape u_printable (arg_of a.(0) a.(1)))
  | "strip_delay" -> out_str (strip_delay (arg_str a.(0)))
  | "fmtline" -> (* sev cer target name on off nargs (kind str)* *)
    let prio = priority (sev_of (arg_int a.(0))) (cer_of (arg_int a.(1))) in
    let nargs = arg_int a.(6) in
    let extra = List.init nargs (fun i -> arg_of a.(7 + 2 * i) a.(8 + 2 * i)) in
    out_str (format_line u_printable prio (arg_str a.(2)) (arg_str a.(3)) (arg_str a.(4)) (arg_str a.(5)) extra)
  | "cargs" -> (* omit  nsrc types..  ndst types..  lastint-bits *)
    let next = cursor a in
    let om = arg_bool (next ()) in
    let src = rd_list next (fun () -> arg_str (next ())) in
    let dst = rd_list next (fun () -> arg_str (next ())) in
    let bits = next () in
    let li n = let i = int_of_nat n in i >= 1 && i < String.length bits && bits.[i] = '1' in
    adiags_s (c_check_args src dst li om)
  | "pyargs" ->
    let next = cursor a in
    let om = arg_bool (next ()) in
    let ss = rd_list next (fun () -> arg_str (next ())) in
    let ds = rd_list next (fun () -> arg_str (next ())) in
    let sm = rd_amap next in let dm = rd_amap next in
    adiags_s (py_check_args ss ds sm dm om)
  | "braceargs" ->
    let next = cursor a in
    let om = arg_bool (next ()) in
    let sm = rd_amap next in let dm = rd_amap next in
    adiags_s (map_check_args true sm dm om)
  | "perlargs" ->
    let next = cursor a in
    let om = arg_bool (next ()) in
    let src = rd_list next (fun () -> rd_key next) in
    let dst = rd_list next (fun () -> rd_key next) in
    adiags_s (perl_check_args src dst om)
  | "plan" -> (* template fuzzy enc msgid_ok has_plural plural_ok lens_equal msgstr(0 none,1 bad,2 ok) nplurals (i ok).. any_nonempty preimage(-1 none | n (k m vals..)..) rmin rmax *)
    let next = cursor a in
    let b () = arg_bool (next ()) in
    let template = b () in let fuzzy = b () in let enc = b () in let msgid_ok = b () in
    let has_plural = b () in let plural_ok = b () in let lens_equal = b () in
    let msgstr = (match next () with "0" -> None | "1" -> Some false | _ -> Some true) in
    let plurals = rd_list next (fun () -> let i = arg_z (next ()) in let ok = b () in (i, ok)) in
    let any_ne = b () in
    let np = arg_int (next ()) in
    let pre = if np < 0 then None else Some (List.init np (fun _ -> let k = arg_z (next ()) in let vs = rd_list next (fun () -> arg_z (next ())) in (k, vs))) in
    let rmin = arg_z (next ()) in let rmax = arg_z (next ()) in
    let m = { mi_template = template; mi_fuzzy = fuzzy; mi_encoding_known = enc; mi_msgid_ok = msgid_ok;
              mi_has_plural = has_plural; mi_plural_ok = plural_ok; mi_lens_equal = lens_equal; mi_msgstr = msgstr;
              mi_plurals = plurals; mi_any_plural_nonempty = any_ne; mi_preimage = pre; mi_rmin = rmin; mi_rmax = rmax } in
    let ivs = plan_message m in
    if ivs = [] then "none" else String.concat " | " (List.map (fun iv ->
      loc_s iv.iv_src ^ " -> " ^ loc_s iv.iv_dst ^ (if iv.iv_omit_ok then " omit-ok" else " strict")) ivs)
  | "dfix" -> (* hint|- str *)
    dout_s out_str (fix_date_real (arg_hint a.(0)) (arg_str a.(1)))
  | "dre" ->
    (match parse_date_re_real (arg_str a.(0)) with
     | None -> "none"
     | Some ((d, t), z) ->
       "match " ^ out_str d ^ " " ^ out_str t ^ " " ^
       (match z with
        | ZNum (zh, zm) -> "num " ^ out_str zh ^ " " ^ out_str zm
        | ZAbbr ab -> "abbr " ^ out_str ab
        | ZNone -> "nozone"))
  | "dbp" -> if bp_search_real (arg_str a.(0)) then "true" else "false"
  | "dstrip" -> out_str (strip_real (arg_str a.(0)))
  | "dord" ->
    (match ord_real (arg_z a.(0)) (arg_z a.(1)) (arg_z a.(2)) with
     | None -> "invalid" | Some o -> "ok " ^ zs o)
  | "dparse" -> dout_s (fun st -> zs (stamp_minutes st)) (parse_date (arg_str a.(0)))
  | "dhint" -> dout_s (fun () -> "") (hint_check (arg_str a.(0)))
  | "dcheck" -> (* now tmpl bin  n ct...  n pot...  n po... *)
    let (cts, i) = arg_strs a 3 in
    let (pots, i) = arg_strs a i in
    let (pos, _) = arg_strs a i in
    (match check_dates_real (arg_z a.(0)) (arg_bool a.(1)) (arg_bool a.(2)) cts pots pos with
     | Ok (x, y) -> "ok " ^ dtags_s x ^ " || " ^ dtags_s y
     | Err e -> "err " ^ derr_s e
     | Crash c -> "crash " ^ crash_name c)
  | "hdr" -> hdr_op a
  | "hdr_ct" -> (match content_type_match ucd_oracles (arg_str a.(0)) with
                 | None -> "none" | Some (p, t) -> (if p then "1 " else "0 ") ^ out_str t)
  | "hdr_parse" -> String.concat " " (List.map (function HField (k, v) -> "f " ^ out_str k ^ " " ^ out_str v | HStray l -> "x " ^ out_str l)
                                        (parse_header (arg_str a.(0))))
  | "hdr_special" -> if is_special special_exact_or_sub special_sub_only (arg_str a.(0)) then "1" else "0"
  | "hdr_comment" -> if comment_line_boilerplate ucd_oracles (arg_bool a.(0)) (arg_str a.(1)) then "1" else "0"
  | "hdr_unusual" -> out_str (unusual_chars ucd_oracles (arg_str a.(0)))
  | "hdr_conflict" -> if is_conflict_marker (arg_str a.(0)) then "1" else "0"
  | "hdr_splitlines" -> String.concat " " (List.map out_str (splitlines (arg_str a.(0))))
  | "hdr_project" -> hdiags_s (project_diags ucd_oracles (arg_str a.(0)))
  | "hdr_sort" -> String.concat " " (List.map out_str (sort_u (List.map arg_str (Array.to_list a))))
  | "lparse" -> lres_s (parse_language (arg_str a.(0)))
  | "lparsez" -> lres_s (parse_language_Z (arg_str a.(0)))
  | "lfix" ->  (* parse, then fix_codes; then fix_codes again on the result *)
    (match parse_language (arg_str a.(0)) with
     | Ok l ->
       (match fix_codes id_cfg l with
        | Ok (l1, b) ->
          "ok " ^ lang_s l1 ^ (if b then " changed" else " same") ^ " again: " ^
          (match fix_codes id_cfg l1 with
           | Ok (l2, b2) -> "ok " ^ lang_s l2 ^ (if b2 then " changed" else " same")
           | Err e -> lerr_s e | Crash c -> "crash " ^ crash_name c)
        | Err e -> lerr_s e | Crash c -> "crash " ^ crash_name c)
     | Err e -> lerr_s e | Crash c -> "crash " ^ crash_name c)
  | "lcli" -> lres_s (cli_language id_cfg (arg_str a.(0)))
  | "lname" ->  (* the munched name *)
    (match lookup_munched id_cfg (arg_str a.(0)) with
     | Ok l -> "ok " ^ lang_s l
     | Err _ -> "err lookup"
     | Crash c -> "crash " ^ crash_name c)
  | "lpath" ->
    let p = arg_str a.(0) in
    "dir=" ^ lg_opt_s (lcmessages_parent p) ^
    (if lg_endswith p s_dot_po then
       " po root=" ^ out_str (po_stem p)
     else " notpo")
  | "lcheck" ->
    (* template opt(flag ll cc enc mod) path nmetas metas.. npls pls.. npcs pcs.. nmunch (name munched).. *)
    let tmpl = arg_bool a.(0) in
    let opt = if arg_bool a.(1) then
        Some { l_lang = arg_str a.(2); l_terr = arg_opt a.(3); l_enc = arg_opt a.(4); l_mod = arg_opt a.(5) }
      else None in
    let path = arg_str a.(6) in
    let pos = ref 7 in
    let take_list () =
      let k = arg_int a.(!pos) in
      let l = List.init k (fun i -> arg_str a.(!pos + 1 + i)) in
      pos := !pos + 1 + k; l in
    let metas = take_list () in
    let pls = take_list () in
    let pcs = take_list () in
    let nm = arg_int a.(!pos) in
    let pairs = List.init nm (fun i -> (arg_str a.(!pos + 1 + 2 * i), arg_str a.(!pos + 2 + 2 * i))) in
    let munch x = match List.assoc_opt x pairs with Some y -> y | None -> failwith "munch oracle: no entry" in
    (match check_language (gen_cfg munch) opt path metas pls pcs tmpl with
     | Ok (ds, lang) ->
       String.concat " | " (List.map ldiag_s ds) ^ " || " ^ (match lang with None -> "none" | Some l -> lang_s l)
     | Err e -> "crash LanguageError"
     | Crash c -> "crash " ^ crash_name c)
  | "morun" -> (* enc0 ('-' = None) bytes ; the oracle asc is instantiated by const true and const false *)
    let enc0 = if a.(0) = "-" then None else Some (arg_str a.(0)) in
    let f = arg_str a.(1) in
    let r1 = mo_run_s (fun _ -> true) enc0 f in
    let r0 = mo_run_s (fun _ -> false) enc0 f in
    if r1 = r0 then r1 else r1 ^ " @@ " ^ r0
  | "cmdec" -> cm_res_s (cm_decode (arg_str a.(0)) (arg_str a.(1)))
  | "cmenc" -> cm_res_s (cm_encode (arg_str a.(0)) (arg_str a.(1)))
  | "cmmode" -> (match cm_build (arg_str a.(0)) with None -> "none" | Some CmTrie -> "trie" | Some CmDict -> "dict")
  | "cmfile" -> (* D|E file data : the generated table of a charmap file *)
    (match charmap_table (arg_str a.(1)) with
     | None -> "nofile"
     | Some t -> cm_res_s ((if a.(0) = "D" then cm_decode else cm_encode) t (arg_str a.(2))))
  | "isportable" -> (* python name lower *)
    let name = arg_str a.(1) in
    let o = one_name_oracle name (arg_str a.(2)) name None AscLookupError in
    if is_portable_encoding real_enc_data o (arg_bool a.(0)) name then "1" else "0"
  | "classify" -> (* name lower upper lookup asc *)
    let name = arg_str a.(0) in
    let o = one_name_oracle name (arg_str a.(1)) (arg_str a.(2)) (opt_str_arg a.(3)) (asc_of a.(4)) in
    let ac mo = match is_ascii_compatible_encoding o mo name with
      | Ok true -> "1" | Ok false -> "0" | Err _ -> "E" | Crash c -> "crash " ^ crash_name c in
    let pr = match propose_portable_encoding real_enc_data o name with
      | Ok None -> "-" | Ok (Some p) -> out_str p | Err _ -> "err" | Crash c -> "crash " ^ crash_name c in
    cls_s (classify real_enc_data o name) ^ " | ascii " ^ ac true ^ " " ^ ac false
      ^ " | portable " ^ (if is_portable_encoding real_enc_data o true name then "1" else "0")
      ^ " " ^ (if is_portable_encoding real_enc_data o false name then "1" else "0") ^ " | propose " ^ pr
  | "classify_t" -> (* name : the same, with the generated oracle table *)
    cls_s (classify real_enc_data real_oracle (arg_str a.(0)))
  | "search" ->
    (match codec_search real_enc_data (arg_str a.(0)) with
     | SNone -> "none" | SCharmap f -> "charmap " ^ out_str f | SIconv n -> "iconv " ^ out_str n)
  | "unrep" -> (* cli k (str res)*k joined-res ; res: 0 ok 1 UnicodeEncodeError 2 other *)
    let k = arg_int a.(1) in
    let chars = List.init k (fun i -> arg_str a.(2 + 2 * i)) in
    let res_of = function "0" -> Ok () | "1" -> Err () | _ -> Crash CUnicodeError in
    let tbl = List.init k (fun i -> (arg_str a.(2 + 2 * i), res_of a.(3 + 2 * i))) in
    let joined = List.concat chars in
    let jr = res_of a.(2 + 2 * k) in
    let enc s = match List.find_opt (fun (c, _) -> list_eqb c s) tbl with
      | Some (_, r) -> r
      | None -> if list_eqb s joined then jr else Crash CKeyError in
    (match get_unrepresentable_characters enc (arg_bool a.(0)) chars with
     | Ok l -> "ok " ^ String.concat "|" (List.map out_str l) ^ " tag " ^
               (match unrepresentable_tag_args l with None -> "-" | Some t -> String.concat "|" (List.map out_str t))
     | Err _ -> "err" | Crash c -> "crash " ^ crash_name c)
  | "iconvdec" -> (* fuel strict input open close nrows rows *)
    iconv_res_s (iconv_decode (iconv_ops_of a 3) (arg_bool a.(1)) (arg_str a.(2)) (nat_of_int (arg_int a.(0))))
  | "iconvenc" ->
    iconv_res_s (iconv_encode (iconv_ops_of a 3) (arg_bool a.(1)) (arg_str a.(2)) (nat_of_int (arg_int a.(0))))
  | "ucscan" -> (* nword w.. str *)
    let nw = arg_int a.(0) in
    let words = List.init nw (fun i -> arg_n a.(1 + i)) in
    out_str (find_unusual (fun c -> List.mem c words) (arg_str a.(1 + nw)))
  | "cmarker" -> (match search_marker (arg_str a.(0)) with None -> "none" | Some m -> out_str m)
  | "xmltrig" -> if xml_trigger (arg_str a.(0)) then "1" else "0"
  | "msgflags" -> (* maxd has_plural nflags flag.. *)
    let cfg = msg_config ~template:false ~binary:false ~hidden:false ~enc:true ~maxd:(arg_n a.(0)) ~words:[] ~xml:[] in
    let nf = arg_int a.(2) in
    let fl = List.init nf (fun i -> arg_str a.(3 + i)) in
    (match check_flags cfg (arg_bool a.(1)) fl with
     | Ok (ds, info) ->
       String.concat " | " (List.map mdiag_s ds @
         ["info " ^ (if info.fi_fuzzy then "1" else "0") ^ " " ^
          (match info.fi_range with None -> "none" | Some (i, j) -> zs i ^ ".." ^ zs j) ^ " " ^
          String.concat ";" (List.map out_str info.fi_formats)])
     | Err _ -> "err"
     | Crash c -> "crash " ^ crash_name c)
  | "messages" -> (* config nentries entry.. *)
    let pos = ref 0 in
    let cfg = read_config a pos in
    let ne = arg_int a.(!pos) in incr pos;
    let rec rd k acc = if k = 0 then List.rev acc else let e = read_entry a pos in rd (k - 1) (e :: acc) in
    let cat = rd ne [] in
    (match check_messages cfg cat with
     | Ok ds -> String.concat " | " ("ok" :: List.map cdiag_s ds)
     | Err _ -> "err"
     | Crash c -> "crash " ^ crash_name c)
  | "fmtc" -> (* maxd str *)
    fmtc_s (arg_n a.(0)) (arg_str a.(1))
  | "ctokens" -> (* str : the directive regex, finditer-style *)
    let s = arg_str a.(0) in
    String.concat " " (List.map ctoken_s (fmtc_tokens (nat_of_int (List.length s)) s))
  | "po_isspace" -> b01 (py_isspace (arg_n a.(0)))
  | "po_unescape" -> (* str, then the oracle table; the codec is asked under the name s *)
    po_load_table a 1;
    po_finish (match unescape (fun b -> po_ask 2 [] b (Some [])) (arg_str a.(0)) with
     | Ok (t, w) -> "ok " ^ out_str t ^ " " ^ b01 w
     | Err EDecode -> "err decode"
     | Crash c -> "crash " ^ crash_name c)
  | "po_lex" -> lexed_s (lex_line (arg_bool a.(0)) (arg_str a.(1)))
  | "po_open" -> String.concat " " (List.map out_str (codecs_open_text (arg_str a.(0))))
  | "po_detect" -> po_load_table a 1;
    po_finish (out_str (detect_encoding (fun name -> po_ask 0 name [] None <> None) (arg_str a.(0))))
  | "po_load" -> po_load_table a 1;
    po_finish (match load_po (po_codecs ()) (arg_str a.(0)) with
     | Ok (l, broken) -> "ok enc=" ^ out_str l.l_encoding ^ " broken=" ^ b01 broken ^ " " ^ pofile_s l.l_file
     | Err LDecode -> "err decode"
     | Err (LSyntax0 e) -> perr_s e
     | Crash c -> "crash " ^ crash_name c)
  | "perlbrace" -> perl_res_s (fst (perl_parse_ucd (arg_str a.(0))))
  | "perlsteps" -> string_of_int (int_of_nat (snd (perl_parse_ucd (arg_str a.(0)))))
  | "fmtpy" -> fmtpy_res_s (fmtpy_parse_gen (arg_str a.(0)))
  | "cpysyn" -> let s = arg_str a.(0) in
    (if cpy_syntax_error s then "syn=1" else "syn=0") ^ (if plain_percents s then " plain=1" else " plain=0")
    ^ " " ^ String.concat " " (List.map event_s (cpy_events s))
  | "cpyfmt" -> cres_s (cpy_format (arg_str a.(0)) (fst (arg_val a 1)))
  | "pybrace" -> pybrace_res_s (pybrace_parse_gen (arg_str a.(0)))
  | "pydomain" -> let (a, b) = pybrace_domain_gen (arg_str a.(0)) in
    (if a then "flat=1" else "flat=0") ^ (if b then " guard=1" else " guard=0")
  | "cpymarkup" -> (match cpy_markup (arg_str a.(0)) with
                    | None -> "err"
                    | Some l -> "ok " ^ String.concat " " (List.map mitem_s l))
  | "cpybrace" -> (* str nargs v... nkw key v ... *)
    let n = arg_int a.(1) in
    let args = List.init n (fun i -> bval_of a.(2 + i)) in
    let nk = arg_int a.(2 + n) in
    let kw = List.init nk (fun i -> (arg_str a.(3 + n + 2 * i), bval_of a.(4 + n + 2 * i))) in
    fres_s (cpy_format0 re_d_value (arg_str a.(0)) args kw)
  | "checktop" -> (* stat-kind stat-arg file-type(- = None) path  k1 s1 z1 e1  k2 s2 z2 e2 *)
    let st = (match a.(0) with
      | "ok" -> StatOk | "oserr" -> StatOSError (arg_str a.(1)) | "other" -> StatOther (arg_str a.(1))
      | k -> failwith ("bad stat kind: " ^ k)) in
    let ft = if a.(2) = "-" then None else Some (arg_str a.(2)) in
    let first = ck_load_result a 4 and retry = ck_load_result a 8 in
    let r = check_top_ascii st ft (arg_str a.(3)) (fun _ enc -> match enc with None -> first | Some _ -> retry) in
    "events=" ^ ck_dash (fun l -> String.concat " | " (List.map ck_event_s l)) r.r_events ^
    " ; calls=" ^ ck_dash (fun l -> String.concat "," (List.map ck_call_s l)) r.r_calls ^
    " ; end=" ^ ck_end_s r.r_end
  | _ -> "unknown-op " ^ op

let () =
  try
    while true do
      let line = input_line stdin in
      let parts = List.filter (fun s -> s <> "") (String.split_on_char ' ' line) in
      (match parts with
       | [] -> print_endline ""
       | op :: args ->
         let r = try handle op (Array.of_list args)
           with Stack_overflow -> "driver-stack-overflow"
              | e -> "driver-exception " ^ Printexc.to_string e in
         print_endline r)
    done
  with End_of_file -> ()

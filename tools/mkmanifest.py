"""Regenerates MANIFEST.json from the table below (keeps it schema-valid at all times)."""
import json

import os
ROOT = os.path.dirname(os.path.dirname(os.path.abspath(__file__)))
props = [json.loads(l) for l in open(os.path.join(ROOT, 'properties.jsonl'))]
ids = [p['id'] for p in props]

NOTE_COMMON = ('Trusted: Coq 8.16.1 kernel incl. vm_compute (no native_compute); no axioms (Print Assumptions re-run on every check); '
               'hand-written Gallina model tied to /repo by extraction (ExtrOcamlBasic only) + differential correspondence on every run; '
               'generated tables re-translated from /repo by tools/gen on every run. See DESIGN.md section 4.')

CHECKS = {
    'C05': dict(
        category='proof',
        text='Coq theorem by structural induction over the expression grammar, for every modulus M >= 1 (hence every width): '
             'bounds returned by the model of CodomainEvaluator enclose every successful evaluation, None implies failure everywhere, '
             'no assert can fire. The model is tied to lib/intexpr.py by differential correspondence (small-scope exhaustive + random '
             'expressions) and the property itself is brute-forced on the real code for widths <= 6/8.',
        design_ref='DESIGN.md 5 / C05',
        technique='Coq proof (induction on expr, lia/nia) + extracted-model correspondence + brute-force oracle',
        note=NOTE_COMMON),
    'C04': dict(
        category='proof',
        text='Coq theorems: the evaluator model returns v iff v is the in-range ideal value (every evaluated constant, variable and '
             'intermediate in [0,M), no zero divisor, lazy && || ?:), fails exactly otherwise, and that value equals C unsigned-long '
             'arithmetic mod 2^W for every W with M <= 2^W; the parser model only accepts sentences of the stratified plural.y grammar and '
             'builds the tree that grammar assigns; with the generated digit limit no ValueError. Completeness of acceptance is not a theorem: '
             'it is decided by exhaustive three-way comparison (model / real parser / independent plural.y reference) on all token sequences '
             'of length <= 4 (quick) / 5 (thorough).',
        design_ref='DESIGN.md 5 / C04',
        technique='Coq proof (induction on expr / on parser fuel) + extracted-model correspondence + independent reference parser/evaluator',
        note=NOTE_COMMON + ' rply is modelled, not verified. Known finding D12 (RecursionError on expressions nested >= 300 deep).'),
    'C06': dict(
        category='proof',
        text='Coq theorem by structural induction over the expression grammar, for every modulus M: a returned (O, P) satisfies 1 <= P, 0 <= O and '
             'the outcome (same value, or failure at both) at n and n+P agrees for all O <= n, n+P < M; plus the multiples and image-in-window corollaries. '
             'Tied to lib/intexpr.py PeriodEvaluator by correspondence; property brute-forced on the real code for widths <= 6/8.',
        design_ref='DESIGN.md 5 / C06',
        technique='Coq proof (induction on expr, gcd/lcm divisibility) + extracted-model correspondence + brute-force oracle',
        note=NOTE_COMMON + ' Known finding D12.'),
    'C07': dict(
        category='proof',
        text='Coq theorems about the model of parse_plural_forms/check_plurals: every "f(x) != k" claim is true for all n in [0,2^32) '
             '(composition of the C05 and C06 soundness theorems with the gap scan); the window diagnostics are exactly the least n < 200 that '
             'fails or leaves the range, with its true outcome; syntax-error iff the value is rejected; junk tags carry exactly the surrounding text; '
             'leftmost match; nplurals verdict iff; a total, in-range, onto declaration is silent; and, over the registry regenerated from data/languages '
             'on every run, each own declaration is silent/usual and total on the window (vm_compute). Tied to the code by in-process correspondence '
             'of Checker.check_plurals and an independent truthfulness oracle.',
        design_ref='DESIGN.md 5 / C07',
        technique='Coq proof (composition of C05/C06 theorems, list induction, vm_compute over the regenerated registry) + correspondence + truthfulness oracle',
        note=NOTE_COMMON + ' Completeness of the regex search (no match => no declaration anywhere) is covered by correspondence only. D1 fixed by commit 6bd9347.'),
    'C02': dict(
        category='proof',
        text='Coq theorems: for EVERY string / byte string the escaped form consists of printable characters only (so no newline, ESC, C0/C1, DEL, '
             'format or separator character of the regenerated Unicode tables); a line built from clean parts is clean, hence one tag() call is one line; '
             'priority letter table and its monotonicity; coloured line = uncoloured line with the two SGR strings around the tag name; and, over tables '
             'regenerated from /repo on every run: no verbatim (safestr / safe_format template) call site is tainted, tool messages are printable ASCII, every '
             'tag name used is registered. The call-site theorem is relative to the translator\'s whitelist of tool-generated expressions, which is validated '
             'dynamically (hostile catalogs through the real checker and CLI, with and without a pseudo-terminal).',
        design_ref='DESIGN.md 5 / C02',
        technique='Coq proof (list induction; vm_compute over regenerated call-site/tag/Unicode tables) + python-ast translator + correspondence + hostile-catalog oracle',
        note=NOTE_COMMON + ' The provenance whitelist in tools/gen/gen_callsites.py is trusted (and dynamically validated). D5 fixed by commit 2c86b46.'),
    'C14': dict(
        category='proof',
        text='Coq theorems over argument signatures: for each format kind the excess / missing / number / type-mismatch / unknown / missing-argument '
             'diagnostics are emitted iff the two signatures differ in exactly that way (count, type per position or key, key sets), equal signatures are '
             'never flagged, and in check_message dropping one integer argument is tolerated only when the form\'s window preimage restricted by the range flag '
             'is empty, a single n, or 0 and one other n; fuzzy messages and catalogs without charset are exempt. The signatures themselves come from the parsers '
             '(C11-C13). Tied to the code by correspondence of the real check_args / check_message (recorded invocations) and an independent flagged-iff-differs oracle.',
        design_ref='DESIGN.md 5 / C14',
        technique='Coq proof (list reasoning over signatures) + extracted-model correspondence + independent signature-comparison oracle',
        note=NOTE_COMMON + ' D2 fixed by commit ebe368d.'),
    'C03': dict(
        category='other',
        text='Partial. Proved in Coq: in the model of check_all a -j N run prints exactly the sequential output for every completion order of the workers, and a '
             'multi-file run is the concatenation of the single-file runs (given that checking one file is a function of that file); and, over the python ast '
             'regenerated on every run, no set/frozenset/key-algebra is consumed in an order-sensitive way outside two reviewed benign sites. Explored, not proved: '
             'hash seeds {0,1,2,3,random}, argument permutations and prefixes, histories, -j {1..16} and repeated runs through the real CLI, each compared with the '
             'concatenation of single-file seed-0 outputs. Real scheduling and interpreter state are not in the model.',
        design_ref='DESIGN.md 5 / C03',
        technique='Coq proof about the check_all model + regenerated set-iteration table (vm_compute) + CLI schedule/seed/history exploration',
        note=NOTE_COMMON + ' The set-iteration detector is syntactic (trusted, not a type checker). D6 fixed by commit a257859.'),
    'C18': dict(
        category='proof',
        text='Coq theorems about the model of gettext.fix_date_format / parse_date / Checker.check_dates, for every string, every whitespace predicate and zone table: '
             'normalisation is total (Ok / boilerplate / invalid; the len-21 assert cannot fire), an Ok result is canonical and denotes an existing instant, keeps the date, hour, minute '
             'and the numeric offset written (or the unique offset of the abbreviation, or the hint), is a fixed point; the four-way verdict (boilerplate / invalid-date / date-from-future / '
             'ancient-date / nothing) is the reference verdict via a strictly monotone proleptic-Gregorian minutes-since-epoch; the regenerated zone table is well-formed (vm_compute). '
             'Tied to the code by regex-level, strptime-level and in-process check_dates (pinned clock) correspondence plus a model-free oracle.',
        design_ref='DESIGN.md 5 / C18; notes/C18.md',
        technique='Coq proof (list induction, lia/div-mod, vm_compute over regenerated tables) + extracted-model correspondence + model-free oracle',
        note=NOTE_COMMON + ' Hints other than None/[+-]hhmm are outside the theorem (the tool passes only None or -0000); regex/strptime fidelity by correspondence only.'),
}

NA_REASON = 'check not built yet (work in progress; see DESIGN.md section 8 for build order)'

m = {
    'version': 1,
    'setup_cmd': '/venv/bin/python tools/check.py --setup',
    'hooks': {
        'guard': 'I18NSPECTOR_VERIF',
        'enable': 'no source hooks are used: checks import /repo\'s working tree (PYTHONPATH=/repo), subclass check.Checker and pin misc.utc_now from the harness',
        'baseline_off_cmd': 'cd /repo && /venv/bin/python -m pytest -ra -q -p no:cacheprovider --timeout=900 --continue-on-collection-errors',
        'source_commits': [],
        'add_only': True,
    },
    'engines': [
        {'name': 'coq-models', 'path': 'coq/', 'serves_properties': sorted(CHECKS), 'kind_free_text': 'Coq 8.16.1 development: Model/ (executable Gallina), Spec/, Proofs/, Props/ (property theorems), Generated/ (tables re-translated from /repo on every run)'},
        {'name': 'extracted-driver', 'path': 'ocaml/driver.ml', 'serves_properties': sorted(CHECKS), 'kind_free_text': 'OCaml line-protocol driver around the extracted models (correspondence check)'},
        {'name': 'harness', 'path': 'tools/', 'serves_properties': sorted(CHECKS), 'kind_free_text': 'Python generators, implementation runners, oracles, verdict logic'},
    ],
    'checks': [],
    'notes': 'Every check: regenerate tables from /repo, make (coqc), Print Assumptions audit, extraction + driver, correspondence, oracle search. KNOWN_FINDINGS.jsonl lists recorded defects. VERIF_SEED seeds all generators.',
    'not_applicable': [],
}
for i in ids:
    if i in CHECKS:
        c = CHECKS[i]
        m['checks'].append({
            'property_id': i,
            'quick_cmd': f'/venv/bin/python tools/check.py {i} --tier quick',
            'thorough_cmd': f'/venv/bin/python tools/check.py {i} --tier thorough',
            'evidence_file': f'/verif/evidence/{i}.json',
            'replay_cmd_template': f'/venv/bin/python tools/check.py {i} --replay {{path}}',
            'engine': 'coq-models',
            'level_claimed': {'category': c['category'], 'text': c['text'], 'design_ref': c['design_ref']},
            'level_note': c['note'],
            'technique': c['technique'],
        })
    else:
        m['not_applicable'].append({'property_id': i, 'reason': NA_REASON})
json.dump(m, open(os.path.join(ROOT, 'MANIFEST.json'), 'w'), indent=1)
print('checks:', [c['property_id'] for c in m['checks']])
